"""CLI: bin/check <Cxx> [--tier quick|thorough] [--replay FILE] [--keep] [--jobs REGEX]

exit 0: every obligation generated from /repo's current text was discharged
exit 1: some obligation has a counterexample -> `VIOLATION property=<id> replay=<path>`
exit 2: undecided (extraction break, tool failure, timeout, vacuity) - never a violation
"""
import argparse
import importlib
import json
import os
import re
import shutil
import sys
import time
import traceback

from . import runner
from .extract import ExtractionBreak

ROOT = os.path.dirname(os.path.dirname(os.path.abspath(__file__)))

COMMON_DROPPED = [
    'C++ memory orders are carried as arguments but atomics execute sequentially consistent (C04 inspects the orders)',
    'compile-time predicates (template parameters, if constexpr conditions) are configuration macros; one job per configuration',
    'class layouts are mirrored by C structs in the unit template (field names must match or the generated C does not compile)',
    'virtual / indirect calls are stubs with interface contracts; each real override is proved against the interface in its own job',
    'payloads (V, E, exception_ptr) are opaque identity tags; user functors are arbitrary code that may throw and does not touch library state',
    'termination is not proved',
]

COMMON_TRUSTED = [
    'cbmc 6.11.0 (goto-cc, goto-instrument --dfcc, propositional back end with the built-in cadical SAT solver) and its C semantics',
    'vf/cxx2c.py vocabulary rewrite of the extracted bodies (token map listed in DESIGN 4.1)',
    'the C struct mirrors and stub interface contracts in units/*.py',
    'rely/guarantee soundness meta-theorem (Jones): guarantees checked per step, relies closed under composition (lemma jobs)',
]


class Ctx:
    def __init__(self, prop, tier, repo, seed, workdir):
        self.prop = prop
        self.tier = tier
        self.repo = repo
        self.seed = seed
        self.workdir = workdir


def load_known():
    p = os.path.join(ROOT, 'known_findings.json')
    if not os.path.exists(p):
        return []
    with open(p) as f:
        return json.load(f).get('findings', [])


def match_known(known, prop, ob):
    for k in known:
        if k.get('status') != 'open':
            continue
        if prop not in k.get('properties', [k.get('property')]):
            continue
        if re.search(k['job'], ob.job) and re.search(k['obligation'], ob.desc + ' ' + ob.pid):
            return k
    return None


def units_for(prop):
    reg = importlib.import_module('units')
    return [importlib.import_module('units.' + u) for u in reg.REGISTRY.get(prop, [])]


def main(argv=None):
    ap = argparse.ArgumentParser()
    ap.add_argument('prop')
    ap.add_argument('--tier', default=os.environ.get('VERIF_TIER', 'quick'), choices=['quick', 'thorough'])
    ap.add_argument('--replay')
    ap.add_argument('--keep', action='store_true')
    ap.add_argument('--jobs', default=None, help='regex: only run jobs whose name matches (debugging; evidence not written)')
    ap.add_argument('--list', action='store_true')
    ap.add_argument('-v', action='store_true')
    args = ap.parse_args(argv)
    prop = args.prop
    repo = os.environ.get('VERIF_REPO', '/repo')
    try:
        seed = int(os.environ.get('VERIF_SEED', '0'))
    except ValueError:
        seed = 0
    t0 = time.time()
    workdir = '/var/tmp/vf-%d' % os.getpid()
    os.makedirs(workdir, exist_ok=True)
    ctx = Ctx(prop, args.tier, repo, seed, workdir)
    sys.path.insert(0, ROOT)
    try:
        if args.replay:
            return do_replay(ctx, args.replay)
        return do_check(ctx, args, t0)
    finally:
        if not args.keep:
            shutil.rmtree(workdir, ignore_errors=True)


def do_replay(ctx, path):
    with open(path) as f:
        rec = json.load(f)
    unit = importlib.import_module('units.' + rec['unit'])
    ok, text = unit.replay_record(ctx, rec)
    print(text)
    return 1 if ok else 0


def do_check(ctx, args, t0):
    prop = ctx.prop
    units = units_for(prop)
    evid_path = os.path.join(ROOT, 'evidence', prop + '.json')
    if not units:
        print('property %s is not claimed (see MANIFEST.json not_applicable)' % prop)
        return 2
    jobs = []
    undecided = []
    unit_of = {}
    for u in units:
        ctx.breaks = []      # a unit may record extraction breaks of single functions here and still return the jobs of the others
        try:
            js = u.jobs(ctx)
        except ExtractionBreak as e:
            undecided.append('extraction break in unit %s: %s' % (u.__name__, e))
            continue
        undecided += ['extraction break in unit %s: %s' % (u.__name__, b) for b in ctx.breaks]
        for j in js:
            j.unit = u.__name__.split('.')[-1]
            unit_of[j.name] = u
        jobs += js
    if args.jobs:
        jobs = [j for j in jobs if re.search(args.jobs, j.name)]
    if args.list:
        for j in jobs:
            print(j.name, j.kind, j.enforce)
        for u_ in undecided:
            print('UNDECIDED: ' + u_)
        return 0
    import random
    rnd = random.Random(ctx.seed)
    order = list(jobs)
    rnd.shuffle(order)

    def progress(res):
        if args.v:
            print('  [%s] %-60s %5.1fs %s' % (res.status, res.job.name, res.time_s, res.reason[:200]), flush=True)
    results = runner.run_jobs(order, ctx.workdir, progress=progress)
    results.sort(key=lambda r: r.job.name)
    known = load_known()
    tag_only = getattr(importlib.import_module('units'), 'TAG_ONLY', set())
    violations = []       # (JobResult, Obligation)
    known_seen = []
    n_obl = n_dis = 0
    n_bounded = n_bounded_ok = 0
    solver = 0.0
    samples = []
    funcs = {}
    bounded = []
    canaries = 0
    for res in results:
        solver += res.solver_s
        canaries += res.canaries_hit
        for fb in res.job.funcs:
            funcs[(fb.file, fb.name)] = fb.info()
        if res.status == 'undecided':
            undecided.append('%s: %s' % (res.job.name, res.reason))
            continue
        for ob in res.obligations:
            mine = (ob.tags is not None and prop in ob.tags) if (ob.tags is not None or prop in tag_only) else True
            if not mine:
                continue
            if res.job.kind == 'bounded':
                n_bounded += 1
                n_bounded_ok += ob.status == 'SUCCESS'
            if ob.status == 'SUCCESS':
                if res.job.kind != 'bounded':
                    n_obl += 1
                    n_dis += 1
            else:
                k = match_known(known, prop, ob)
                if k:
                    known_seen.append((k, ob))
                else:
                    if res.job.kind != 'bounded':
                        n_obl += 1
                    violations.append((res, ob))
        if res.job.kind == 'bounded':
            bounded.append({'job': res.job.name, 'unwind': res.job.unwind, 'status': res.status})
        if len(samples) < 12:
            mine_obs = [ob for ob in res.obligations if ((ob.tags is not None and prop in ob.tags) if (ob.tags is not None or prop in tag_only) else True)]
            pick = [ob for ob in mine_obs if re.match(r'\s*C\d\d', ob.desc)] or [ob for ob in mine_obs if 'postcondition' in ob.pid or 'loop_invariant' in ob.pid] \
                or [ob for ob in mine_obs if '.assertion.' in ob.pid and 'CANARY' not in ob.desc]
            for ob in pick[:1]:
                samples.append({'job': res.job.name, 'obligation': ob.pid, 'description': ob.desc, 'status': ob.status, 'at': ob.loc})
    if not samples:
        for res in results:
            for ob in res.obligations[:1]:
                samples.append({'job': res.job.name, 'obligation': ob.pid, 'description': ob.desc, 'status': ob.status, 'at': ob.loc})
            if len(samples) >= 5:
                break
    # replay violations on the real code
    rc = 0
    scratch = os.path.realpath(ctx.repo) != '/repo'    # a scratch copy (self-test / mutation run): never touch the committed evidence
    replay_dir = os.path.join('/var/tmp/vf-scratch-replays' if scratch else os.path.join(ROOT, 'evidence', 'replays'), prop)
    shutil.rmtree(replay_dir, ignore_errors=True)
    lines = []
    seen_k = set()
    for k, ob in known_seen:
        if k['id'] in seen_k:
            continue
        seen_k.add(k['id'])
        lines.append('KNOWN-FINDING: property=%s %s' % (prop, k['what']))
    reported = set()
    for res, ob in violations:
        key = (res.job.name,)
        if key in reported:
            continue
        reported.add(key)
        os.makedirs(replay_dir, exist_ok=True)
        u = unit_of[res.job.name]
        failed_here = [o for (r2, o) in violations if r2 is res]
        rec = {'property': prop, 'unit': res.job.unit, 'job': res.job.name, 'meta': res.job.meta,
               'failed_obligations': [{'id': o.pid, 'description': o.desc, 'at': o.loc} for o in failed_here],
               'cbmc_commands': res.cmds,
               'counterexample': {pid: [list(a) for a in tr if a[0] and (a[0].startswith('cex_') or a[0].startswith('in_') or a[0].startswith('fresh'))][:80]
                                  for pid, tr in res.trace.items()},
               'verifier_output': res.raw_fail_output}
        reproduced, text = None, 'no replay driver for this unit'
        try:
            if hasattr(u, 'replay'):
                reproduced, text = u.replay(ctx, res, failed_here, rec)
        except Exception:
            reproduced, text = None, 'replay driver failed: ' + traceback.format_exc()[-1500:]
        rec['replay'] = {'reproduced_on_real_code': reproduced, 'output': text}
        path = os.path.join(replay_dir, re.sub(r'[^A-Za-z0-9_.-]', '_', res.job.name) + '.json')
        with open(path, 'w') as f:
            json.dump(rec, f, indent=1)
        # keep the generated C next to it for audit
        if res.c_path and os.path.exists(res.c_path):
            shutil.copy(res.c_path, path[:-5] + '.c')
        tail = '' if reproduced else ' no-failing-input-found'
        lines.append('VIOLATION property=%s replay=%s obligation="%s" job=%s%s' % (
            prop, path, failed_here[0].desc[:120], res.job.name, tail))
        rc = 1
    # thorough tier: the real-code drivers of the units are run on the tree under check as a sanity layer (a test, NOT the deciding technique): a driver that fails although every
    # obligation was discharged means the contracts do not cover what the driver observes, or the driver is wrong: undecided (exit 2), never a violation
    drivers_run = []
    if ctx.tier == 'thorough' and rc == 0 and not args.jobs:
        from vf import replay as rp
        seen_d = set()
        for u in units:
            for drv, dargs, flavour in getattr(u, 'DRIVERS', []):
                key = (drv, tuple(map(str, dargs)), flavour)
                if key in seen_d:
                    continue
                seen_d.add(key)
                try:
                    if flavour == 'coro':
                        bad, log = rp.run_coro_driver(ctx, drv, dargs, timeout=240)
                    elif flavour == 'fiber':
                        bad, log = rp.run_fiber_driver(ctx, drv, dargs, timeout=240)
                    elif flavour == 'fiber_debug':
                        bad, log = rp.run_fiber_driver(ctx, drv, dargs, timeout=240, glibcxx_debug=True)
                    else:
                        bad, log = rp.run_driver(ctx, drv, dargs, sanitize=(flavour == 'asan'), timeout=240)
                except Exception as e:      # a driver problem must not hide the proof result
                    bad, log = None, 'driver could not be run: %r' % (e,)
                drivers_run.append({'driver': drv, 'args': [str(a) for a in dargs], 'flavour': flavour, 'passed': (bad is False), 'could_run': bad is not None})
                if bad:
                    undecided.append('real-code driver %s %s (%s build) FAILS on this tree although every obligation was discharged: %s' % (drv, ' '.join(map(str, dargs)), flavour, log[-300:].replace('\n', ' | ')))
    if rc == 0 and undecided:
        rc = 2
    wall = time.time() - t0
    trusted, dropped, assumptions = list(COMMON_TRUSTED), list(COMMON_DROPPED), []
    for u in units:
        trusted += getattr(u, 'TRUSTED', [])
        dropped += getattr(u, 'DROPPED', [])
        assumptions += getattr(u, 'ASSUMPTIONS', [])
    level = 'proof'
    reg = importlib.import_module('units')
    level = getattr(reg, 'LEVEL', {}).get(prop, 'proof')
    ev = {
        'property_id': prop, 'tier': ctx.tier, 'seed': ctx.seed, 'level': level,
        'coverage': {
            'obligations': n_obl, 'discharged': n_dis,
            'checker_cmd': 'goto-cc --function <harness> unit.c; goto-instrument --dfcc <harness> --enforce-contract <f> '
                           '[--replace-call-with-contract <g>] [--apply-loop-contracts]; cbmc --bounds-check --pointer-check '
                           '--div-by-zero-check --sat-solver cadical',
            'trusted_base': trusted,
            'explanation': 'Per-function code contracts on C text extracted mechanically from %s on this run; every obligation '
                           'listed was generated by goto-instrument from the current source and discharged by cbmc without '
                           'unwinding (loops closed by loop contracts) unless listed under bounded_checks.' % ctx.repo,
            'jobs': len(results), 'jobs_ok': sum(r.status == 'ok' for r in results),
            'functions_under_contract': sorted(funcs.values(), key=lambda x: (x['file'], x['lines'][0])),
            'backend': 'cbmc 6.11.0, propositional back end, SAT solver cadical (built in), no quantifiers',
            'solver_time_s': round(solver, 2),
            'bounded_checks': bounded, 'bounded_obligations': n_bounded, 'bounded_discharged': n_bounded_ok,
            'canaries_reached': canaries,
            'dropped_by_extraction': dropped,
            'samples': samples[:12],
            'known_findings_seen': [{'id': k['id'], 'what': k['what'], 'obligation': ob.label()} for k, ob in known_seen],
            'undecided': undecided,
            'real_code_drivers': drivers_run,
            'exhaustive': False,
        },
        'assumptions': assumptions + ['sequentially consistent atomics in all rely/guarantee proofs',
                                      'machine integers are bit-precise (CBMC), no mathematical-integer abstraction'],
        'wall_s': round(wall, 2),
        'violations': len(reported),
    }
    if not args.jobs and not scratch:
        os.makedirs(os.path.dirname(evid_path), exist_ok=True)
        with open(evid_path, 'w') as f:
            json.dump(ev, f, indent=1)
    for l in lines:
        print(l)
    print('%s tier=%s jobs=%d ok=%d obligations=%d discharged=%d bounded=%d/%d undecided=%d violations=%d wall=%.1fs' % (
        prop, ctx.tier, len(results), sum(r.status == 'ok' for r in results), n_obl, n_dis, n_bounded_ok, n_bounded,
        len(undecided), len(reported), wall))
    for u_ in undecided[:20]:
        print('UNDECIDED: ' + u_[:600])
    return rc


if __name__ == '__main__':
    sys.exit(main())
