"""Vocabulary-based C++ -> C rewriter (DESIGN 4.1).

The rewriter never invents code: it maps the tokens of an extracted function body onto C
tokens using a fixed vocabulary plus the recipe's configuration (which members are atomic,
which names are references, which calls are member calls, ...).  Every rule counts how often
it fired; a recipe may demand minimum counts (`must`), and any C++-only residue after
rewriting is an extraction break (exit 2), never a violation.
"""
import re

from .extract import ExtractionBreak, match_brace

MO = ['relaxed', 'consume', 'acquire', 'release', 'acq_rel', 'seq_cst']

ATOMIC_OPS = ['load', 'store', 'exchange', 'fetch_add', 'fetch_sub', 'fetch_or', 'fetch_and', 'fetch_xor',
              'compare_exchange_weak', 'compare_exchange_strong', 'wait', 'notify_one', 'notify_all',
              'test_and_set', 'clear', 'test']

STD_STRIP = ['uintptr_t', 'intptr_t', 'size_t', 'ptrdiff_t', 'uint8_t', 'uint16_t', 'uint32_t', 'uint64_t',
             'int8_t', 'int16_t', 'int32_t', 'int64_t']


def split_args(s):
    """split a call's argument text at top-level commas"""
    args, depth, cur = [], 0, []
    i = 0
    while i < len(s):
        ch = s[i]
        if ch in '([{':
            depth += 1
        elif ch in ')]}':
            depth -= 1
        elif ch == '<' and False:
            pass
        if ch == ',' and depth == 0:
            args.append(''.join(cur).strip())
            cur = []
        else:
            cur.append(ch)
        i += 1
    last = ''.join(cur).strip()
    if last or args:
        args.append(last)
    return args


def match_angle(text, i):
    """text[i] == '<' : return index of matching '>' treating it as a template bracket, or -1"""
    depth = 0
    n = len(text)
    j = i
    while j < n:
        ch = text[j]
        if ch == '<':
            depth += 1
        elif ch == '>':
            if j > 0 and text[j - 1] == '-':   # '->'
                j += 1
                continue
            depth -= 1
            if depth == 0:
                return j
        elif ch in ';{}':
            return -1
        elif ch == '(':
            j = match_brace(text, j)
        j += 1
    return -1


def postfix_start(text, end):
    """index where the postfix-expression ending at text[:end] starts (identifiers, ->, ., (), [])"""
    i = end
    while i > 0:
        ch = text[i - 1]
        if ch.isalnum() or ch == '_':
            i -= 1
        elif ch == '.':
            i -= 1
        elif ch == '>' and i >= 2 and text[i - 2] == '-':
            i -= 2
        elif ch in ')]':
            # find the matching opener backwards
            close = ch
            opener = '(' if ch == ')' else '['
            depth = 0
            j = i - 1
            while j >= 0:
                if text[j] == close:
                    depth += 1
                elif text[j] == opener:
                    depth -= 1
                    if depth == 0:
                        break
                j -= 1
            if j < 0:
                raise ExtractionBreak('unbalanced bracket while scanning backwards')
            i = j
        else:
            break
    # do not swallow a keyword such as 'return' glued by whitespace: we never cross whitespace
    return i


class Rewriter:
    def __init__(self, name, atomics=(), refs=(), methods=(), omethods=(), tcalls=(), types=None,
                 pre=(), post=(), must=None, members=(), nomembers=(), keep_this=False, casts=None):
        self.name = name
        self.atomics = set(atomics)      # member / variable names that are atomics
        self.refs = set(refs)            # names that are C++ references (pointers in C)
        self.methods = set(methods)      # unqualified calls that are member calls on this
        self.omethods = set(omethods)    # x.f(a) / x->f(a)  ->  f(x, a)
        self.tcalls = set(tcalls)        # f<T...>(a) -> f_T(T..., a)
        self.types = dict(types or {})   # textual type map used in casts and declarations
        self.pre = list(pre)             # [(regex, repl, minfire)] applied before the vocabulary
        self.post = list(post)           # the same, applied after it
        self.must = dict(must or {})     # rule name -> minimum fire count
        self.members = set(members)      # additional member names not starting with '_'
        self.nomembers = set(nomembers)  # names starting with '_' that are NOT members
        self.casts = dict(casts or {})   # DownCast<T> etc: template-arg text -> C type
        self.fired = {}

    def _fire(self, rule, n=1):
        self.fired[rule] = self.fired.get(rule, 0) + n

    def _sub(self, rule, pattern, repl, text, flags=0):
        new, n = re.subn(pattern, repl, text, flags=flags)
        if n:
            self._fire(rule, n)
        return new

    # -- individual passes ---------------------------------------------------------------
    def _ctype(self, t):
        t = ' '.join(t.split())
        if t in self.types:
            return self.types[t]
        t2 = re.sub(r'\bstd::', '', t)
        t2 = re.sub(r'\bconst\b', '', t2).strip()
        t2 = ' '.join(t2.split())
        if t2 in self.types:
            return self.types[t2]
        if re.search(r'[<>:]', t2):
            raise ExtractionBreak('%s: no C type for C++ type "%s"' % (self.name, t))
        return t2.replace('&', '*')

    def _casts(self, text):
        pat = re.compile(r'\b(reinterpret_cast|static_cast|const_cast|DownCast|UpCast)\s*<')
        while True:
            m = pat.search(text)
            if not m:
                return text
            lt = m.end() - 1
            gt = match_angle(text, lt)
            if gt < 0:
                raise ExtractionBreak('%s: cannot parse cast at "%s"' % (self.name, text[m.start():m.start() + 40]))
            ty = text[lt + 1:gt]
            k = gt + 1
            while text[k].isspace():
                k += 1
            if text[k] != '(':
                raise ExtractionBreak('%s: cast without parenthesis' % self.name)
            close = match_brace(text, k)
            inner = text[k + 1:close]
            kind = m.group(1)
            if kind in ('DownCast', 'UpCast'):
                cty = self.casts.get(' '.join(ty.split()))
                if cty is None:
                    cty = self._ctype(ty)
                # DownCast<T>(ref) yields T&; DownCast<T>(ptr) yields T*: both are pointers in C
                inner_s = inner.strip()
                if inner_s.startswith('*'):
                    inner_s = inner_s[1:]
                text = text[:m.start()] + '((' + cty.rstrip('*').strip() + '*)(' + inner_s + '))' + text[close + 1:]
            else:
                text = text[:m.start()] + '((' + self._ctype(ty) + ')(' + inner + '))' + text[close + 1:]
            self._fire('cast')

    def _atomic_ops(self, text):
        # EXPR.op(args) where EXPR ends in an atomic name
        names = '|'.join(sorted((re.escape(a) for a in self.atomics), key=len, reverse=True))
        if not names:
            return text
        pat = re.compile(r'\b(' + names + r')\s*\.\s*(' + '|'.join(ATOMIC_OPS) + r')\s*\(')
        pos = 0
        while True:
            m = pat.search(text, pos)
            if not m:
                return text
            start = postfix_start(text, m.start(1))
            obj = text[start:m.end(1)]
            op = m.group(2)
            close = match_brace(text, m.end() - 1)
            args = split_args(text[m.end():close])
            args = [a for a in args if a != '']
            sc = 'mo_seq_cst'
            if op == 'load':
                args = args or [sc]
                call = 'A_load(&%s, %s)' % (obj, args[0])
            elif op in ('store', 'exchange', 'fetch_add', 'fetch_sub', 'fetch_or', 'fetch_and', 'fetch_xor'):
                if len(args) == 1:
                    args.append(sc)
                call = 'A_%s(&%s, %s, %s)' % (op, obj, args[0], args[1])
            elif op in ('compare_exchange_weak', 'compare_exchange_strong'):
                if len(args) == 2:
                    args += [sc, sc]
                elif len(args) == 3:
                    args.append('MO_FAIL(%s)' % args[2])
                short = 'cas_weak' if op.endswith('weak') else 'cas_strong'
                e = args[0]
                e = e[1:] if e.startswith('*') else '&' + e
                call = 'A_%s(&%s, %s, %s, %s, %s)' % (short, obj, e, args[1], args[2], args[3])
            elif op in ('test_and_set', 'clear', 'test'):
                args = args or [sc]
                call = 'A_%s(&%s, %s)' % (op, obj, args[0])
            elif op == 'wait':
                if len(args) == 1:
                    args.append(sc)
                call = 'A_wait(&%s, %s, %s)' % (obj, args[0], args[1])
            else:
                call = 'A_%s(&%s)' % (op, obj)
            text = text[:start] + call + text[close + 1:]
            pos = start + len(call)
            self._fire('atomic')
            self._fire('atomic.' + op)

    def _omethods(self, text):
        if not self.omethods:
            return text
        names = '|'.join(sorted((re.escape(a) for a in self.omethods), key=len, reverse=True))
        pat = re.compile(r'(->|\.)\s*(' + names + r')\s*\(')
        pos = 0
        while True:
            m = pat.search(text, pos)
            if not m:
                return text
            start = postfix_start(text, m.start())
            if start == m.start():
                pos = m.end()
                continue
            obj = text[start:m.start()]
            if m.group(1) == '.' and obj not in self.refs and not obj.endswith(')'):
                obj = '&' + obj
            close = match_brace(text, m.end() - 1)
            inner = text[m.end():close].strip()
            call = '%s(%s%s)' % (m.group(2), obj, (', ' + inner) if inner else '')
            text = text[:start] + call + text[close + 1:]
            pos = start + len(m.group(2)) + 1
            self._fire('omethod')

    def _methods(self, text):
        if not self.methods:
            return text
        names = '|'.join(sorted((re.escape(a) for a in self.methods), key=len, reverse=True))
        pat = re.compile(r'(?<![\w.>:])(' + names + r')\s*\(')

        def rep(m):
            self._fire('method')
            return m.group(1) + '(self, '
        text = pat.sub(rep, text)
        text = re.sub(r'\(self, \s*\)', '(self)', text)
        return text

    def _tcalls(self, text):
        if not self.tcalls:
            return text
        names = '|'.join(sorted((re.escape(a) for a in self.tcalls), key=len, reverse=True))
        pat = re.compile(r'\b(' + names + r')\s*<')
        pos = 0
        while True:
            m = pat.search(text, pos)
            if not m:
                return text
            lt = m.end() - 1
            gt = match_angle(text, lt)
            if gt < 0:
                pos = m.end()
                continue
            k = gt + 1
            while k < len(text) and text[k].isspace():
                k += 1
            if k >= len(text) or text[k] != '(':
                pos = m.end()
                continue
            targs = text[lt + 1:gt].strip()
            close = match_brace(text, k)
            inner = text[k + 1:close].strip()
            # a member template called on an object:  obj->f<T>(a) / obj.f<T>(a)  ->  f_T(T, obj, a)
            start = m.start()
            objarg = ''
            mm = re.search(r'(->|\.)\s*$', text[:start])
            if mm:
                ostart = postfix_start(text, mm.start())
                if ostart < mm.start():
                    obj = text[ostart:mm.start()]
                    if mm.group(1) == '.' and obj not in self.refs and not obj.endswith(')'):
                        obj = '&' + obj
                    objarg = ', ' + obj
                    start = ostart
            call = '%s_T(%s%s%s)' % (m.group(1), targs, objarg, (', ' + inner) if inner else '')
            text = text[:start] + call + text[close + 1:]
            pos = start + len(m.group(1)) + 3
            self._fire('tcall')

    def _while_decl(self, text):
        # while (auto* n = EXPR) {   ->   for (;;) { __auto_type n = EXPR; if (!n) break;
        pat = re.compile(r'\bwhile\s*\(\s*(?:const\s+)?auto\s*\*?\s*(\w+)\s*=')
        while True:
            m = pat.search(text)
            if not m:
                return text
            op = text.find('(', m.start())
            close = match_brace(text, op)
            expr = text[m.end():close].strip()
            k = close + 1
            while text[k].isspace():
                k += 1
            if text[k] != '{':
                raise ExtractionBreak('%s: while-with-declaration without braces' % self.name)
            text = (text[:m.start()] + 'while (1) { __auto_type %s = %s; if (!%s) break;' % (m.group(1), expr, m.group(1))
                    + text[k + 1:])
            self._fire('while_decl')

    def _strip_log(self, t):
        # YACLIB_DEBUG / WARN / INFO(cond, message); : logging only, removed (arbitrary nesting of parentheses)
        pat = re.compile(r'\bYACLIB_(?:DEBUG|WARN|INFO)\s*\(')
        while True:
            m = pat.search(t)
            if not m:
                return t
            close = match_brace(t, m.end() - 1)
            k = close + 1
            while k < len(t) and t[k].isspace():
                k += 1
            if k < len(t) and t[k] == ';':
                k += 1
            t = t[:m.start()] + ';' + t[k:]
            self._fire('debug')

    # -- driver --------------------------------------------------------------------------
    def _static_asserts(self, t):
        """`static_assert(...);` inside a body is checked by the C++ compiler on every build and has no run-time meaning: dropped (balanced parentheses)"""
        while True:
            m = re.search(r'\bstatic_assert\s*\(', t)
            if not m:
                return t
            c = match_brace(t, m.end() - 1)
            mm = re.match(r'\s*;', t[c + 1:])
            if not mm:
                raise ExtractionBreak('%s: static_assert without terminating semicolon' % self.name)
            t = t[:m.start()] + t[c + 1 + mm.end():]
            self._fire('static_assert')

    def rewrite(self, body):
        t = body
        for (pat, repl, minfire) in self.pre:
            t2, n = re.subn(pat, repl, t, flags=re.S)
            if n < minfire:
                raise ExtractionBreak('%s: recipe rule /%s/ fired %d < %d times' % (self.name, pat, n, minfire))
            t = t2
        t = self._static_asserts(t)
        t = self._sub('attr', r'\[\[[^\]]*\]\]', '', t)
        t = self._sub('noexcept', r'\bnoexcept\b', '', t)
        t = self._sub('inline', r'\bYACLIB_INLINE\b', '', t)
        t = self._sub('if_constexpr', r'\bif\s+constexpr\b', 'if', t)
        t = self._sub('constexpr', r'\b(static\s+)?constexpr\b', 'const', t)
        t = self._sub('template_kw', r'(->|\.|::)\s*template\s+', r'\1', t)
        t = self._sub('typename', r'\btypename\s+', '', t)
        t = self._strip_log(t)
        t = self._sub('ignore', r'\bstd::ignore\s*=', '(void)', t)
        t = self._sub('mo', r'\bstd::memory_order(?:_|::)(' + '|'.join(MO) + r')\b', r'mo_\1', t)
        t = self._while_decl(t)
        t = self._casts(t)
        t = self._atomic_ops(t)
        t = self._tcalls(t)
        t = self._omethods(t)
        t = self._methods(t)
        # references: &r -> r ; r.x -> r->x
        for r in sorted(self.refs, key=len, reverse=True):
            t = self._sub('ref', r'(?<![\w&])&\s*' + re.escape(r) + r'\b(?!\s*(?:\(|\.|->))', r, t)
            t = self._sub('ref', r'\b' + re.escape(r) + r'\s*\.(?=\s*[A-Za-z_])', r + '->', t)
        t = self._sub('this', r'\*\s*this\b', 'self', t)
        # an object passed by reference: `f(*p)` -> `f(p)` (references are pointers in the generated C)
        t = self._sub('deref_arg', r'((?<=\w)\(\s*|,\s*)\*\s*([A-Za-z_]\w*(?:->\w+)*)\s*(?=[,)])', r'\1\2', t)
        t = self._sub('this', r'\bthis\b', 'self', t)
        # bare members
        def member(m):
            nm = m.group(0)
            if nm in self.nomembers or nm.startswith('__'):
                return nm
            self._fire('member')
            return 'self->' + nm
        t = re.sub(r'(?<![\w.>])_[A-Za-z]\w*', member, t)
        for mem in sorted(self.members, key=len, reverse=True):
            t = self._sub('member', r'(?<![\w.>])' + re.escape(mem) + r'\b', 'self->' + mem, t)
        t = self._sub('auto', r'\b(?:const\s+)?auto\s*(?:\*|&&|&)?\s*(?:const\s+)?(?=[A-Za-z_\[])', '__auto_type ', t)
        t = self._sub('nullptr', r'\bnullptr\b', 'NULL', t)
        t = self._sub('assert', r'\bYACLIB_ASSERT\b', 'REPO_ASSERT', t)
        t = self._sub('move', r'\bstd::move\b', 'MOVE', t)
        t = self._sub('forward', r'\bstd::forward\s*<[^<>()]*(?:<[^<>()]*>)?[^<>()]*>', 'FWD', t)
        t = self._sub('exchange', r'\bstd::exchange\b', 'STD_EXCHANGE', t)
        t = self._sub('as_const', r'\bstd::as_const\b', 'AS_CONST', t)
        t = self._sub('memcmp', r'\bstd::memcmp\b', 'VF_MEMCMP', t)
        t = self._sub('std_types', r'\bstd::(' + '|'.join(STD_STRIP) + r')\b', r'\1', t)
        for ty, cty in self.types.items():
            if re.match(r'^[\w:]+$', ty) and '::' in ty:
                t = self._sub('type', re.escape(ty) + r'\b', cty, t)
        for (pat, repl, minfire) in self.post:
            t2, n = re.subn(pat, repl, t, flags=re.S)
            if n < minfire:
                raise ExtractionBreak('%s: recipe post rule /%s/ fired %d < %d times' % (self.name, pat, n, minfire))
            t = t2
        for rule, need in self.must.items():
            if self.fired.get(rule, 0) < need:
                raise ExtractionBreak('%s: vocabulary rule "%s" fired %d < %d times' % (self.name, rule, self.fired.get(rule, 0), need))
        self._residue(t)
        return t

    def _residue(self, t):
        code = re.sub(r'"(?:[^"\\]|\\.)*"', '""', t)
        for pat, what in [(r'::', "'::'"), (r'\btemplate\b', 'template'), (r'\btypename\b', 'typename'),
                          (r'(?<!_)\bauto\b', 'auto'), (r'\bdecltype\b', 'decltype'), (r'\bnew\b', 'new'),
                          (r'\bdelete\b', 'delete'), (r'\bthrow\b', 'throw'), (r'\btry\b', 'try'),
                          (r'\bcatch\b', 'catch'), (r'\bstd\b', 'std'), (r'\[\s*[&=]?\s*\]\s*[({]', 'lambda'),
                          (r'\bthis\b', 'this'), (r'\b(?:static|reinterpret|const|dynamic)_cast\b', 'cast')]:
            m = re.search(pat, code)
            if m:
                ctx = code[max(0, m.start() - 30):m.end() + 30].replace('\n', ' ')
                raise ExtractionBreak('%s: C++ residue %s after rewriting: ...%s...' % (self.name, what, ctx))


def count_loops(c_text):
    return len(re.findall(r'\b(?:while|for|do)\b', c_text))


def attach_loop_contracts(name, c_text, clauses):
    """clauses: list, one entry per loop in textual order (None = loop keeps no contract: only for
    loops that the job unwinds).  For `while(...)`/`for(...)` the clauses go between ')' and the body,
    for `do` right after the keyword (probe result, DESIGN 3)."""
    pat = re.compile(r'\b(while|for|do)\b')
    # 'while' that closes a do-loop must not be counted: detect "} while" preceded by do-body
    out = []
    pos = 0
    idx = 0
    do_stack = []
    loops = []
    for m in pat.finditer(c_text):
        kw = m.group(1)
        if kw == 'while':
            # is this the tail of a do-while?  look backwards for '}' and the innermost open 'do'
            j = m.start() - 1
            while j >= 0 and c_text[j].isspace():
                j -= 1
            if j >= 0 and c_text[j] == '}' and do_stack:
                # find the brace that this '}' closes
                depth = 0
                k = j
                while k >= 0:
                    if c_text[k] == '}':
                        depth += 1
                    elif c_text[k] == '{':
                        depth -= 1
                        if depth == 0:
                            break
                    k -= 1
                if do_stack and do_stack[-1] == k:
                    do_stack.pop()
                    continue
        if kw == 'do':
            k = m.end()
            while c_text[k].isspace():
                k += 1
            do_stack.append(k)
            loops.append(('do', m.end()))
        else:
            op = c_text.find('(', m.end())
            close = match_brace(c_text, op)
            loops.append((kw, close + 1))
    if len(loops) != len(clauses):
        raise ExtractionBreak('%s: %d loops in the extracted body, recipe has clauses for %d' % (name, len(loops), len(clauses)))
    res = []
    last = 0
    for (kw, at), cl in zip(loops, clauses):
        res.append(c_text[last:at])
        if cl:
            res.append('\n' + cl + '\n')
        last = at
    res.append(c_text[last:])
    return ''.join(res)


def expand_lock(name, text, mutex='self->_m', lockvar='lock'):
    """Mechanical expansion of an RAII lock object declared at the top level of a function body:

        std::unique_lock lock{_m}; / std::lock_guard lock{_m};  ->  MON_LOCK(&M); int lock_held = 1;
        lock.unlock(); / lock.lock();                           ->  MON_UNLOCK / MON_LOCK + flag
        return [e];                                             ->  release if held, then return
        end of body                                             ->  release if held
    `std::move(lock)` handed to a callee transfers the duty to unlock: the recipe rewrites that call itself
    (callee contract: requires held, ensures released) and this function clears the flag after it."""
    L = re.escape(lockvar)
    decl = re.compile(r'std::(?:unique_lock|lock_guard)(?:<[^>]*>)?\s+' + L + r'\s*\{\s*(\w+)\s*\}\s*;')
    m = decl.search(text)
    if not m:
        raise ExtractionBreak('%s: no RAII lock declaration `%s`' % (name, lockvar))
    # the flag is declared at the top of the body so that a return placed before the declaration of the lock object stays well formed
    text = 'int %s_held = 0; ' % lockvar + text[:m.start()] + 'MON_LOCK(&%s); %s_held = 1;' % (mutex, lockvar) + text[m.end():]
    text = re.sub(L + r'\s*\.\s*unlock\s*\(\s*\)\s*;', '{ MON_UNLOCK(&%s); %s_held = 0; }' % (mutex, lockvar), text)
    text = re.sub(L + r'\s*\.\s*lock\s*\(\s*\)\s*;', '{ MON_LOCK(&%s); %s_held = 1; }' % (mutex, lockvar), text)
    # calls that take the lock by move: f(std::move(lock))  ->  f_locked(...) ; flag cleared
    text = re.sub(r'\breturn\s+(\w+)\s*\(\s*std::move\(\s*' + L + r'\s*\)\s*\)\s*;', r'{ \1_locked(self); %s_held = 0; return; }' % lockvar, text)
    text = re.sub(r'(?<![\w.>])(\w+)\s*\(\s*std::move\(\s*' + L + r'\s*\)\s*\)\s*;', r'{ \1_locked(self); %s_held = 0; }' % lockvar, text)
    text = re.sub(r'\breturn\s*;', '{ if (%s_held) MON_UNLOCK(&%s); return; }' % (lockvar, mutex), text)
    text = re.sub(r'\breturn\s+([^;{}]+);', r'{ __auto_type vf_ret = (\1); if (%s_held) MON_UNLOCK(&%s); return vf_ret; }' % (lockvar, mutex), text)
    # the two rewrites above must not touch the `return;` we generated for moved locks
    text = text.replace('%s_held = 0; { if (%s_held) MON_UNLOCK(&%s); return; } }' % (lockvar, lockvar, mutex), '%s_held = 0; return; }' % lockvar)
    text = text + '\n  if (%s_held) MON_UNLOCK(&%s);\n' % (lockvar, mutex)
    return text


def _ws(pattern_text):
    """literal C++ text -> whitespace-insensitive regex"""
    toks = re.findall(r'\w+|[^\w\s]', pattern_text)
    return r'\s*'.join(re.escape(t) for t in toks)


def drop_pinned(name, text, pinned, optional=()):
    """Compile-time selections (type aliases, `static constexpr` predicates) are CONFIGURATION for this family: contracts are proved per configuration value, the mapping from C++ types to
    the value is not a theorem. They may only be dropped from an extracted body if their text is exactly the pinned one; anything else of that kind left in the body is an extraction break
    (undecided: the selection changed), never silence."""
    for lit in pinned:
        text, n = re.subn(_ws(lit), '', text)
        if n == 0:
            raise ExtractionBreak('%s: pinned compile-time selection is gone or changed: `%s`' % (name, lit))
    for lit in optional:
        text = re.sub(_ws(lit), '', text)
    rest = re.findall(r'(?:\bstatic\s+constexpr\s+[\w:<>]+\s+\w+\s*=|\busing\s+\w+\s*=)[^;]*;', text)
    if rest:
        raise ExtractionBreak('%s: compile-time selection not pinned by the recipe (changed configuration cannot be decided by contracts): %s' % (name, ' '.join(rest[0].split())[:160]))
    return text


C_KEYWORDS = {'if', 'for', 'while', 'switch', 'return', 'sizeof', 'do', 'else'}


def auto_helpers(repo, rel, within, c_text, known, rewrite, ctype=None, max_rounds=3):
    """A refactoring that moves a few lines of a function under contract into a new private helper of the same class must not make the job undecided: every CamelCase callee of the
    rewritten body that the job neither defines nor declares (`known`) is looked up as a member function of the same class (`within`), extracted with the same rules (`rewrite`)
    and returned as C definitions to be placed in front of the function (the helper is verified inline, as part of its caller).  Only helpers with scalar / pointer / reference
    parameters are taken; anything else stays an undefined function (undecided).  Returns (definitions_text, list of Body)."""
    from vf.extract import find_body, ExtractionBreak as EB
    defs, bodies = [], []
    seen = set(known)
    text = c_text
    for _ in range(max_rounds):
        scan = re.sub(r'"(?:[^"\\]|\\.)*"', '""', re.sub(r'/\*.*?\*/', ' ', text, flags=re.S))      # not in comments, not in string literals
        calls = [c for c in dict.fromkeys(re.findall(r'(?<![\w.>])([A-Z]\w*[a-z]\w*)\s*\(', scan)) if c not in seen and c not in C_KEYWORDS]
        if not calls:
            break
        text = ''
        for nm in calls:
            seen.add(nm)
            try:
                b = find_body(repo, rel, r'(?:YACLIB_INLINE\s+|static\s+|inline\s+|\[\[nodiscard\]\]\s+)*(?<!\w)(?!(?:return|else|co_return|co_await|co_yield|throw|new|delete|case|goto|typename|using)\b)(?:void|bool|auto\s*\*?|[\w:]+(?:<[^<>()]*>)?\s*[*&]?)\s+' + nm + r'\s*\((?:[^()]|\([^()]*\))*\)\s*(?:const\s*)?(?:noexcept\s*)?', nm, within=within)
            except EB:
                continue
            m = re.match(r'\s*(?:YACLIB_INLINE\s+|static\s+|inline\s+|\[\[nodiscard\]\]\s+)*(void|bool|auto\s*\*?|[\w:]+(?:<[^<>()]*>)?\s*[*&]?)\s+' + nm + r'\s*\(((?:[^()]|\([^()]*\))*)\)', b.sig)
            if not m:
                continue
            ret = m.group(1).replace(' ', '')
            cret = 'void' if ret == 'void' else 'int' if ret == 'bool' else (ctype or (lambda t: None))(ret) or ('void*' if ret.endswith('*') or ret.endswith('&') else None)
            if cret is None:
                continue
            params = []
            ok = True
            for prm in [x.strip() for x in m.group(2).split(',') if x.strip()]:
                pm = re.match(r'(?:const\s+)?([\w:]+(?:<[^<>]*>)?)\s*([*&]*)\s*(\w+)$', prm)
                if not pm:
                    ok = False
                    break
                base = pm.group(1).replace('std::', '')
                cbase = (ctype or (lambda t: None))(base) or ({'size_t': 'size_t', 'uint64_t': 'uint64_t', 'uint32_t': 'uint32_t', 'bool': 'int', 'int': 'int'}.get(base))
                if cbase is None:
                    ok = False
                    break
                params.append((cbase + ('*' if pm.group(2) and not cbase.endswith('*') else ''), pm.group(3), bool(pm.group(2) == '&')))
            if not ok:
                continue
            body_c = rewrite(nm, b.text, [p[1] for p in params if p[2]])
            defs.append('static %s %s(%s) {%s}\n' % (cret, nm, ', '.join('%s %s' % (t, n) for t, n, _ in params) or 'void', body_c))
            bodies.append(b)
            text += body_c
    return ''.join(reversed(defs)), bodies


def inline_void_helpers(repo, rel, body_text, known=(), max_rounds=2):
    """A refactoring that moves a few statements (possibly a loop) of a function under contract into a NEW helper of the same file (`void Name(params)`: free function in an anonymous
    namespace, static function or member), called as a statement `Name(a, b);`, is undone textually before rewriting: the call statement is replaced by `{ body }` with the parameter
    names replaced by the argument expressions.  Only helpers without `return`, whose parameters are references / pointers / scalars and whose arguments are plain identifiers
    (or `*this` / member names) are taken; anything else is left alone (the job then stays undecided at the undefined call).  Returns (text, [Body of inlined helpers])."""
    from vf.extract import find_body, ExtractionBreak as EB
    bodies = []
    text = body_text
    for _ in range(max_rounds):
        changed = False
        for m in list(re.finditer(r'(?<![\w.>:])([A-Z]\w*[a-z]\w*)\s*\(\s*((?:[\w*>.-]+\s*(?:,\s*[\w*>.-]+\s*)*)?)\)\s*;', text)):
            nm = m.group(1)
            if nm in known or nm in C_KEYWORDS:
                continue
            pre_stmt = text[:m.start()].rstrip()
            if pre_stmt and pre_stmt[-1] not in ';{}':       # must be a statement on its own (not `return F();`, not `x = F();`)
                continue
            try:
                b = find_body(repo, rel, r'(?<!\w)(?:static\s+|inline\s+|YACLIB_INLINE\s+)*void\s+(?:\w+::)?' + nm + r'\s*\((?:[^()]|\([^()]*\))*\)\s*(?:const\s*)?(?:noexcept\s*)?', nm)
            except EB:
                continue
            if re.search(r'\breturn\b', b.text):
                continue
            pm = re.search(nm + r'\s*\(((?:[^()]|\([^()]*\))*)\)', b.sig)
            params = [x.strip() for x in pm.group(1).split(',') if x.strip()] if pm else None
            args = [x.strip() for x in m.group(2).split(',') if x.strip()]
            if params is None or len(params) != len(args):
                continue
            names, ok = [], True
            for prm in params:
                q = re.match(r'(?:const\s+)?[\w:]+(?:<[^<>]*>)?\s*[*&]*\s*(\w+)$', prm)
                if not q:
                    ok = False
                    break
                names.append(q.group(1))
            if not ok:
                continue
            inl = b.text
            for pn, a in zip(names, args):
                if pn != a:
                    if re.search(r'\b%s\b' % re.escape(a), inl) and not re.match(r'^\w+$', a):
                        ok = False
                        break
                    inl = re.sub(r'\b%s\b' % re.escape(pn), a, inl)
            if not ok:
                continue
            text = text[:m.start()] + '{' + inl + '}' + text[m.end():]
            bodies.append(b)
            changed = True
            break        # offsets changed: rescan
        if not changed:
            break
    return text, bodies


def translate_selection(name, text, alias, atoms, allowed_names, classes):
    """`using <alias> = std::conditional_t<COND, A, B>;` inside an extracted body is a compile-time choice.  Instead of dropping it (which would let a changed choice pass silently) or
    pinning its text (which makes every change undecided), it is TRANSLATED: COND is rewritten with `atoms` [(regex, C text)] into a C expression over free configuration names
    (`allowed_names`; comparison / boolean operators and integer literals are allowed), A and B must start with one of `classes`.  Returns (text without the alias,
    C condition, (class_A, template_args_A), (class_B, template_args_B)).  Anything outside this vocabulary is an ExtractionBreak of the function (undecided, never silent)."""
    ms = list(re.finditer(r'using\s+' + re.escape(alias) + r'\s*=\s*std::conditional_t<', text))
    if len(ms) != 1:
        raise ExtractionBreak('%s: the selection `using %s = std::conditional_t<...>` was not found exactly once' % (name, alias))
    st = ms[0].end() - 1
    depth, i, parts, last = 0, st, [], st + 1
    while i < len(text):
        ch = text[i]
        nxt = text[i + 1] if i + 1 < len(text) else ''
        prev = text[i - 1] if i else ''
        if ch == '(' or (ch == '<' and nxt != '=' and (i == st or re.match(r'[\w>]', prev))):        # `<` opens template arguments only after a name; `a <= b` / `a < b` with spaces are operators
            depth += 1
        elif ch == ')' or (ch == '>' and nxt != '=' and depth > 0 and not (prev == ' ' and nxt == ' ')):
            depth -= 1
            if depth == 0:
                parts.append(text[last:i])
                break
        elif ch == ',' and depth == 1:
            parts.append(text[last:i])
            last = i + 1
        i += 1
    end = text.find(';', i)
    if len(parts) != 3 or end < 0:
        raise ExtractionBreak('%s: selection %s is not of the form conditional_t<COND, A, B>' % (name, alias))
    cond = parts[0]
    for rx, rep in list(atoms) + [(r'\btrue\b', '1'), (r'\bfalse\b', '0')]:
        cond = re.sub(rx, rep, cond)
    if re.search(r'[^\s!&|()<>=\w]', cond) or [w for w in re.findall(r'[A-Za-z_]\w*', cond) if w not in allowed_names]:
        raise ExtractionBreak('%s: the condition of selection %s has a term outside the translated vocabulary: %s' % (name, alias, ' '.join(parts[0].split())))
    out = []
    for pt in parts[1:]:
        m = re.match(r'\s*(' + '|'.join(re.escape(c) for c in classes) + r')\b\s*(?:<(.*)>)?\s*$', pt, flags=re.S)
        if not m:
            raise ExtractionBreak('%s: unknown class in selection %s: %s' % (name, alias, ' '.join(pt.split())))
        out.append((m.group(1), ' '.join((m.group(2) or '').split())))
    return text[:ms[0].start()] + text[end + 1:], ' '.join(cond.split()), out[0], out[1]
