"""goto-cc -> goto-instrument --dfcc -> cbmc, 16-wide, with timeouts and memory limits."""
import concurrent.futures
import json
import os
import re
import resource
import shutil
import subprocess
import time

LIB = os.path.join(os.path.dirname(os.path.dirname(os.path.abspath(__file__))), 'lib')

CANARY_TAG = 'VF_CANARY'


class Job:
    def __init__(self, name, props, c_source, entry, enforce=None, replace=(), loop_contracts=False,
                 unwind=None, defines=None, funcs=(), meta=None, kind='proof', cbmc_flags=(), expect=(),
                 timeout=180, canaries=1, unit=None, notes=()):
        self.name = name
        self.props = list(props)
        self.c_source = c_source
        self.entry = entry
        self.enforce = enforce
        self.replace = list(replace)
        self.loop_contracts = loop_contracts
        self.unwind = unwind
        self.defines = dict(defines or {})
        self.funcs = list(funcs)            # extract.Body objects whose text is in c_source
        self.meta = dict(meta or {})
        self.kind = kind                    # 'proof' | 'lemma' | 'bounded'
        self.cbmc_flags = list(cbmc_flags)
        self.expect = list(expect)          # regexes that must match some obligation name/description
        self.timeout = timeout
        self.canaries = canaries            # number of VF_CANARY assertions that must be reachable
        self.unit = unit
        self.notes = list(notes)


class Obligation:
    def __init__(self, job, pid, desc, status, loc):
        self.job = job
        self.pid = pid
        self.desc = desc
        self.status = status
        self.loc = loc
        m = re.match(r'\s*(C\d\d(?:,C\d\d)*):', desc)
        self.tags = m.group(1).split(',') if m else None

    def label(self):
        return '%s :: %s [%s]' % (self.job, self.desc, self.pid)


class JobResult:
    def __init__(self, job):
        self.job = job
        self.status = 'undecided'      # 'ok' | 'failed' | 'undecided'
        self.reason = ''
        self.obligations = []
        self.failed = []
        self.canaries_hit = 0
        self.time_s = 0.0
        self.solver_s = 0.0
        self.cmds = []
        self.trace = {}                # pid -> list of (lhs, value, function)
        self.raw_fail_output = ''
        self.c_path = None


def _limits(mem_gb):
    def f():
        lim = int(mem_gb * (1 << 30))
        resource.setrlimit(resource.RLIMIT_AS, (lim, lim))
        os.setsid()
    return f


def _run(cmd, timeout, mem_gb=8, cwd=None):
    t0 = time.time()
    try:
        p = subprocess.run(cmd, stdout=subprocess.PIPE, stderr=subprocess.PIPE, timeout=timeout, cwd=cwd,
                           preexec_fn=_limits(mem_gb))
        return p.returncode, p.stdout.decode('utf-8', 'replace'), p.stderr.decode('utf-8', 'replace'), time.time() - t0
    except subprocess.TimeoutExpired as e:
        return -9, (e.stdout or b'').decode('utf-8', 'replace'), 'TIMEOUT after %ss' % timeout, time.time() - t0


def _parse_cbmc_json(out):
    try:
        data = json.loads(out)
    except Exception:
        return None, None, None
    results, status, msgs = None, None, []
    for x in data:
        if 'result' in x:
            results = x['result']
        if 'cProverStatus' in x:
            status = x['cProverStatus']
        if 'messageText' in x:
            msgs.append(x['messageText'])
    return results, status, msgs


def _val(v):
    data = v.get('data', v.get('name'))
    if 'binary' in v and len(v['binary']) <= 64:
        data = '0b' + v['binary']
    return data


def _trace_assignments(tr):
    """visible assignments of the counterexample, plus the initial contents of every object created by
    __CPROVER_is_fresh (named fresh0, fresh1, ... in the order of the requires clauses)"""
    res = []
    fresh = {}
    for s in tr or []:
        if s.get('stepType') != 'assignment':
            continue
        fn = s.get('sourceLocation', {}).get('function')
        line = s.get('sourceLocation', {}).get('line')
        lhs = s.get('lhs') or ''
        v = s.get('value', {})
        if fn == '__CPROVER_contracts_is_fresh' and lhs.startswith('dynamic_object'):
            m = re.match(r'(dynamic_object(?:\$\d+)?)(.*)$', lhs)
            k = fresh.setdefault(m.group(1), len(fresh))
            if 'members' in v:
                continue
            res.append(('fresh%d%s' % (k, m.group(2)), _val(v), fn, line))
            continue
        if not s.get('hidden'):
            res.append((lhs, _val(v), fn, line))
    return res


def _file_scope_names(src_lines):
    """names of objects declared at file scope of the generated unit (crude but conservative: anything that might be a global counts as one)"""
    text = '\n'.join(src_lines)
    text = re.sub(r'/\*.*?\*/', ' ', text, flags=re.S)
    text = re.sub(r'^\s*#.*$', ' ', text, flags=re.M)
    out, depth, cur = [], 0, []
    for ch in text:
        if ch == '{':
            depth += 1
        elif ch == '}':
            depth -= 1
        elif depth == 0:
            cur.append(ch)
    names = set()
    for stmt in ''.join(cur).split(';'):
        if '(' in stmt:
            continue
        for part in stmt.split(','):
            m = re.search(r'(\w+)\s*(?:\[[^\]]*\]\s*)*(?:=.*)?$', part.strip(), flags=re.S)
            if m:
                names.add(m.group(1))
    return names


def _local_frame_artifact(ob, src_lines):
    m = re.match(r'^Check that (\w+) is assignable$', ob.desc.strip())
    return bool(m) and m.group(1) not in _file_scope_names(src_lines)


def run_job(job, workdir, want_trace=True):
    r = JobResult(job)
    t0 = time.time()
    safe = re.sub(r'[^A-Za-z0-9_.-]', '_', job.name)
    d = os.path.join(workdir, safe)
    os.makedirs(d, exist_ok=True)
    c = os.path.join(d, 'unit.c')
    with open(c, 'w') as f:
        f.write(job.c_source)
        if job.replace:
            # keep the symbols of contract-only callees alive even when the extracted body no longer calls them
            f.write('\nvoid vf_keep_symbols(void) { void* vf_p; %s }\n' % ' '.join('vf_p = (void*)&%s;' % g for g in job.replace))
    r.c_path = c
    src_lines = job.c_source.split('\n')
    defs = ['-D%s=%s' % (k, v) for k, v in job.defines.items()]
    a, b = os.path.join(d, 'a.gb'), os.path.join(d, 'b.gb')
    cmd = ['goto-cc', '--function', job.entry, '-I', LIB] + defs + [c, '-o', a]
    r.cmds.append(' '.join(cmd))
    rc, out, err, _ = _run(cmd, 120)
    if rc != 0:
        r.reason = 'goto-cc failed (extracted text is not C after rewriting): ' + (err or out)[-1500:]
        r.time_s = time.time() - t0
        return r
    if job.enforce or job.loop_contracts or job.replace:
        cmd = ['goto-instrument', '--dfcc', job.entry]
        if job.enforce:
            cmd += ['--enforce-contract', job.enforce]
        for g in job.replace:
            cmd += ['--replace-call-with-contract', g]
        if job.loop_contracts:
            cmd += ['--apply-loop-contracts']
        cmd += [a, b]
        r.cmds.append(' '.join(cmd))
        rc, out, err, _ = _run(cmd, 300)
        if rc != 0:
            r.reason = 'goto-instrument failed: ' + (out + err)[-2500:]
            r.time_s = time.time() - t0
            return r
    else:
        b = a
    base = ['cbmc', b, '--bounds-check', '--pointer-check', '--div-by-zero-check', '--object-bits', '12', '--json-ui'] + (job.cbmc_flags if '--sat-solver' in job.cbmc_flags else ['--sat-solver', 'cadical'] + job.cbmc_flags)
    if job.unwind is not None:
        base += ['--unwind', str(job.unwind), '--unwinding-assertions']
    r.cmds.append(' '.join(base))
    rc, out, err, dt = _run(base, job.timeout)
    r.solver_s = dt
    if rc == -9:
        r.reason = 'cbmc timeout after %ss' % job.timeout
        r.time_s = time.time() - t0
        return r
    results, status, msgs = _parse_cbmc_json(out)
    if results is None:
        r.reason = 'cbmc gave no result (rc=%s): %s' % (rc, (out[-1500:] + err[-500:]))
        r.time_s = time.time() - t0
        return r
    for m in msgs or []:
        if 'ignoring' in m:
            r.reason = 'cbmc ignored a construct: ' + m
            r.time_s = time.time() - t0
            return r
    for x in results:
        desc = x.get('description', '')
        pid = x.get('property', '')
        loc = x.get('sourceLocation', {})
        if CANARY_TAG in desc:
            if x['status'] == 'FAILURE':
                r.canaries_hit += 1
            continue
        ob = Obligation(job.name, pid, desc, x['status'], '%s:%s' % (loc.get('function', ''), loc.get('line', '')))
        if ob.tags is None and loc.get('file', '').endswith('unit.c') and str(loc.get('line', '')).isdigit():
            ln = int(loc['line'])
            if 0 < ln <= len(src_lines):
                mt = re.search(r'/\*(C\d\d(?:,C\d\d)*)\*/', src_lines[ln - 1])
                if mt:
                    ob.tags = mt.group(1).split(',')
        r.obligations.append(ob)
        if x['status'] != 'SUCCESS':
            r.failed.append(ob)
    if not r.obligations:
        r.reason = 'vacuous: zero obligations generated'
    elif any('undefined function should be unreachable' in o.desc for o in r.failed):
        # the extracted body calls a function the job has neither a body nor a contract for (new helper, renamed callee): an extraction limit, undecided, never a violation
        r.reason = 'call of a function without body or contract in this job (extraction limit): ' + '; '.join(o.loc for o in r.failed if 'undefined function' in o.desc)[:200]
        r.failed = []
    elif any(o.desc.startswith('SHAPE:') for o in r.failed):
        # the code changed the *shape* of an algorithm the ghost model relies on: undecided, never a violation
        r.reason = 'shape guard: ' + '; '.join(o.desc for o in r.failed if o.desc.startswith('SHAPE:'))[:300]
        r.failed = []
    elif r.failed and all(_local_frame_artifact(o, src_lines) for o in r.failed):
        # the only failures are frame checks on a plain local / by-value parameter of the extracted function (e.g. an iterator the recipe abstracts, now advanced inside a loop whose
        # frame the recipe wrote): no property speaks about a local; the recipe does not cover this shape: undecided, never a violation
        r.reason = 'frame of the recipe does not cover a local of the extracted body (extraction limit): ' + '; '.join(o.desc for o in r.failed)[:200]
        r.failed = []
    elif r.failed:
        r.status = 'failed'      # a counterexample outranks every vacuity guard
    elif r.canaries_hit < job.canaries:
        r.reason = 'vacuous: only %d of %d reachability canaries reachable (contradictory requires / unreachable end)' % (
            r.canaries_hit, job.canaries)
    else:
        missing = [e for e in job.expect if not any(re.search(e, o.pid) or re.search(e, o.desc) for o in r.obligations)]
        if missing:
            r.reason = 'expected obligations not generated (dropped contract?): %s' % missing
        else:
            r.status = 'ok'
    if r.status == 'failed' and want_trace:
        # second run for the trace of the failing obligations only
        cmd = base + ['--trace']
        for ob in r.failed[:3]:
            cmd += ['--property', ob.pid]
        rc, out, err, dt = _run(cmd, job.timeout)
        results, status, msgs = _parse_cbmc_json(out)
        for x in results or []:
            if x.get('status') == 'FAILURE' and 'trace' in x:
                r.trace[x['property']] = _trace_assignments(x['trace'])
        r.raw_fail_output = '\n'.join('%s: %s  (%s)' % (o.pid, o.desc, o.status) for o in r.failed)
    r.time_s = time.time() - t0
    return r


def run_jobs(jobs, workdir, par=None, progress=None):
    par = par or min(16, os.cpu_count() or 4)
    results = []
    with concurrent.futures.ThreadPoolExecutor(max_workers=par) as ex:
        futs = {ex.submit(run_job, j, workdir): j for j in jobs}
        for f in concurrent.futures.as_completed(futs):
            res = f.result()
            results.append(res)
            if progress:
                progress(res)
    order = {j.name: i for i, j in enumerate(jobs)}
    results.sort(key=lambda r: order[r.job.name])
    return results


def cleanup(workdir):
    shutil.rmtree(workdir, ignore_errors=True)
