"""Locate function bodies in /repo's current text (signature regex + brace matching).

Nothing here interprets the code: it only cuts text.  Zero or several matches of a
signature pattern are an *extraction break* (exit 2), never a violation.
"""
import hashlib
import os
import re


class ExtractionBreak(Exception):
    pass


_cache = {}


def strip_comments(text):
    """Replace comments by spaces (newlines kept) and leave string/char literals intact."""
    out = []
    i, n = 0, len(text)
    while i < n:
        c = text[i]
        if c == '/' and i + 1 < n and text[i + 1] == '/':
            j = text.find('\n', i)
            if j < 0:
                j = n
            out.append(' ' * (j - i))
            i = j
        elif c == '/' and i + 1 < n and text[i + 1] == '*':
            j = text.find('*/', i + 2)
            j = n if j < 0 else j + 2
            out.append(''.join(ch if ch == '\n' else ' ' for ch in text[i:j]))
            i = j
        elif c == '"' or c == "'":
            q = c
            j = i + 1
            while j < n and text[j] != q:
                if text[j] == '\\':
                    j += 1
                j += 1
            out.append(text[i:j + 1])
            i = j + 1
        else:
            out.append(c)
            i += 1
    return ''.join(out)


def read_source(repo, rel):
    key = (repo, rel)
    if key not in _cache:
        path = os.path.join(repo, rel)
        try:
            with open(path, encoding='utf-8') as f:
                raw = f.read()
        except OSError as e:
            raise ExtractionBreak('cannot read %s: %s' % (rel, e))
        _cache[key] = (raw, strip_comments(raw))
    return _cache[key]


def match_brace(text, open_idx):
    """text[open_idx] is '{' (or '(' / '['); return index of the matching closer."""
    pairs = {'{': '}', '(': ')', '[': ']'}
    o = text[open_idx]
    c = pairs[o]
    depth = 0
    i, n = open_idx, len(text)
    while i < n:
        ch = text[i]
        if ch == '"' or ch == "'":
            q = ch
            i += 1
            while i < n and text[i] != q:
                if text[i] == '\\':
                    i += 1
                i += 1
        elif ch == o:
            depth += 1
        elif ch == c:
            depth -= 1
            if depth == 0:
                return i
        i += 1
    raise ExtractionBreak('unbalanced %s at offset %d' % (o, open_idx))


class Body:
    def __init__(self, rel, name, text, line0, line1, handler=None, sig=''):
        self.file = rel
        self.name = name
        self.text = text          # text between the braces (comments already blanked)
        self.line0 = line0
        self.line1 = line1
        self.handler = handler    # text of catch(...) handler of a function-try-block, if any
        self.sig = sig
        self.sha256 = hashlib.sha256((text + (handler or '')).encode()).hexdigest()

    def info(self):
        return {'name': self.name, 'file': self.file, 'lines': [self.line0, self.line1], 'sha256': self.sha256[:16]}


def find_body(repo, rel, sig_regex, name=None, within=None, nth=None):
    """Find the unique function whose signature matches sig_regex (a regex applied to the
    comment-stripped text, must end before the opening brace).  `within` optionally restricts
    the search to the body of the unique class/namespace whose header matches that regex.
    `nth` selects one of several textual matches *on purpose* (e.g. the const/volatile overloads
    that have identical signatures up to a qualifier)."""
    raw, text = read_source(repo, rel)
    lo, hi = 0, len(text)
    if within:
        ms = list(re.finditer(within, text))
        if len(ms) != 1:
            raise ExtractionBreak('%s: scope /%s/ matched %d times' % (rel, within, len(ms)))
        b = ms[0].end() - 1 if text[ms[0].end() - 1] == '{' else text.find('{', ms[0].end())
        if b < 0:
            raise ExtractionBreak('%s: scope /%s/ has no body' % (rel, within))
        lo, hi = b, match_brace(text, b)
    ms = [m for m in re.finditer(sig_regex, text) if lo <= m.start() < hi]
    if nth is None:
        if len(ms) != 1:
            raise ExtractionBreak('%s: signature /%s/ matched %d times (expected 1)' % (rel, sig_regex, len(ms)))
        m = ms[0]
    else:
        if len(ms) <= nth:
            raise ExtractionBreak('%s: signature /%s/ matched %d times (need #%d)' % (rel, sig_regex, len(ms), nth))
        m = ms[nth]
    # the opening brace: first '{' after the match that is not inside parentheses
    i = m.start()
    depth = 0
    while i < hi:
        ch = text[i]
        if ch == '(':
            depth += 1
        elif ch == ')':
            depth -= 1
        elif ch == ';' and depth == 0:
            raise ExtractionBreak('%s: /%s/ is a declaration, not a definition' % (rel, sig_regex))
        elif ch == '{' and depth == 0:
            break
        i += 1
    else:
        raise ExtractionBreak('%s: no body after /%s/' % (rel, sig_regex))
    between = text[m.end():i]
    end = match_brace(text, i)
    body = text[i + 1:end]
    handler = None
    if re.search(r'\btry\s*$', between):
        mm = re.match(r'\s*catch\s*\(\s*\.\.\.\s*\)\s*\{', text[end + 1:])
        if not mm:
            raise ExtractionBreak('%s: function-try-block of /%s/ without catch(...)' % (rel, sig_regex))
        hb = end + 1 + mm.end() - 1
        he = match_brace(text, hb)
        handler = text[hb + 1:he]
        end = he
    line0 = text.count('\n', 0, m.start()) + 1
    line1 = text.count('\n', 0, end) + 1
    return Body(rel, name or sig_regex, body, line0, line1, handler, sig=text[m.start():i].strip())


def find_body_after(repo, rel, full_regex, name):
    """Like find_body, for definitions whose signature is followed by a member-initialiser list: `full_regex` (applied to the comment-stripped text) must match
    signature AND initialiser list and END WITH the opening brace of the body, so that the initialisers are pinned by the regex (they are part of what is extracted)."""
    raw, text = read_source(repo, rel)
    ms = list(re.finditer(full_regex, text))
    if len(ms) != 1:
        raise ExtractionBreak('%s: %d matches for the definition in %s (expected exactly 1)' % (name, len(ms), rel))
    m = ms[0]
    if text[m.end() - 1] != '{':
        raise ExtractionBreak('%s: pattern does not end at the opening brace' % name)
    close = match_brace(text, m.end() - 1)
    return Body(rel, name, text[m.end():close], text.count('\n', 0, m.start()) + 1, text.count('\n', 0, close) + 1, sig=m.group(0))
