"""Regenerate MANIFEST.json from units/__init__.py (run by hand after registering a property)."""
import json
import os
import sys

ROOT = os.path.dirname(os.path.dirname(os.path.abspath(__file__)))
sys.path.insert(0, ROOT)
import units  # noqa: E402

ALL = ['C%02d' % i for i in range(1, 21)]


def main():
    checks = []
    for p in ALL:
        if p not in units.REGISTRY or p not in units.CLAIMS:
            continue
        c = units.CLAIMS[p]
        checks.append({
            'property_id': p,
            'quick_cmd': 'bin/check %s --tier quick' % p,
            'thorough_cmd': 'bin/check %s --tier thorough' % p,
            'evidence_file': 'evidence/%s.json' % p,
            'replay_cmd_template': 'bin/check %s --replay {path}' % p,
            'engine': 'vf',
            'level_claimed': {'category': units.LEVEL.get(p, 'proof'), 'text': c['text'], 'design_ref': c['design']},
            'level_note': c['note'],
            'technique': units.TECHNIQUE,
        })
    na = [{'property_id': p, 'reason': units.NOT_APPLICABLE.get(p, 'not yet built in this round: no check is registered; see DESIGN.md section 6 for the planned contracts')}
          for p in ALL if p not in {c['property_id'] for c in checks}]
    man = {
        'version': 1,
        'setup_cmd': 'python3 -m compileall -q vf units && python3 -m vf.selfcheck',
        'hooks': {
            'guard': 'YACLIB_VERIF',
            'enable': 'proofs need no hook: contracts live in /verif and function bodies are extracted from /repo\'s working tree on every run; replay drivers compile /repo\'s real sources',
            'baseline_off_cmd': 'cmake --build /repo/_build && ctest --test-dir /repo/_build -j8 --timeout 900',
            'source_commits': [],
            'add_only': True,
        },
        'engines': [{'name': 'vf', 'path': 'vf/', 'serves_properties': [c['property_id'] for c in checks],
                     'kind_free_text': 'mechanical extraction of function bodies from /repo (vf/extract.py, vf/cxx2c.py) + CBMC code contracts enforced per function with goto-instrument --dfcc, discharged by cbmc (SAT); replay drivers in replay/ run the real C++'}],
        'checks': checks,
        'not_applicable': na,
        'notes': 'Known findings and fix: commits are listed in known_findings.json; DESIGN.md section 11 records corrections.',
    }
    with open(os.path.join(ROOT, 'MANIFEST.json'), 'w') as f:
        json.dump(man, f, indent=1)
    print('MANIFEST.json: %d checks, %d not applicable' % (len(checks), len(na)))


if __name__ == '__main__':
    main()
