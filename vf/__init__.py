"""Contract-based deductive verification framework for YACLib (CBMC code contracts)."""
