"""setup-time sanity: tools present, registry importable, manifest consistent."""
import json
import os
import shutil
import sys

ROOT = os.path.dirname(os.path.dirname(os.path.abspath(__file__)))


def main():
    bad = []
    for tool in ('goto-cc', 'goto-instrument', 'cbmc', 'g++'):
        if not shutil.which(tool):
            bad.append('missing tool ' + tool)
    sys.path.insert(0, ROOT)
    import importlib
    reg = importlib.import_module('units')
    for prop, us in reg.REGISTRY.items():
        for u in us:
            importlib.import_module('units.' + u)
    man = json.load(open(os.path.join(ROOT, 'MANIFEST.json')))
    claimed = {c['property_id'] for c in man['checks']}
    na = {c['property_id'] for c in man.get('not_applicable', [])}
    for p in claimed:
        if p not in reg.REGISTRY:
            bad.append('manifest claims %s but no unit is registered' % p)
    json.load(open(os.path.join(ROOT, 'known_findings.json')))
    if bad:
        print('\n'.join(bad))
        return 1
    print('selfcheck ok: %d properties claimed, %d not applicable' % (len(claimed), len(na)))
    return 0


if __name__ == '__main__':
    sys.exit(main())
