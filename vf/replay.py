"""Build and run replay drivers against the REAL sources of the tree under check."""
import glob
import os
import subprocess

ROOT = os.path.dirname(os.path.dirname(os.path.abspath(__file__)))


def _sh(cmd, timeout=600, cwd=None):
    p = subprocess.run(cmd, stdout=subprocess.PIPE, stderr=subprocess.STDOUT, timeout=timeout, cwd=cwd)
    return p.returncode, p.stdout.decode('utf-8', 'replace')


def real_lib(ctx, std='c++17', extra=()):
    """static library of the non-fault sources of ctx.repo, built once per run in the scratch dir"""
    tag = 'lib_%s_%s' % (std.replace('+', 'p'), '_'.join(e.strip('-').replace('=', '') for e in extra))
    d = os.path.join(ctx.workdir, tag)
    lib = os.path.join(d, 'libyaclib_real.a')
    if os.path.exists(lib):
        return lib, ''
    os.makedirs(d, exist_ok=True)
    srcs = []
    for sub in ('algo', 'async', 'exe', 'lazy', 'runtime', 'util'):
        srcs += sorted(glob.glob(os.path.join(ctx.repo, 'src', sub, '*.cpp')))
    inc = ['-I', os.path.join(ctx.repo, 'include'), '-I', os.path.join(ctx.repo, 'src'), '-I', '/repo/_build/include']
    procs = []
    objs = []
    for s in srcs:
        o = os.path.join(d, os.path.basename(s).replace('.cpp', '.o'))
        objs.append(o)
        procs.append(subprocess.Popen(['g++', '-std=' + std, '-O0', '-g0', '-c', s, '-o', o] + inc + list(extra),
                                      stdout=subprocess.PIPE, stderr=subprocess.STDOUT))
    log = ''
    for p in procs:
        out, _ = p.communicate()
        if p.returncode != 0:
            log += out.decode('utf-8', 'replace')[-1500:]
    if log:
        return None, 'real library does not build from the tree under check:\n' + log
    rc, out = _sh(['ar', 'rcs', lib] + objs)
    if rc != 0:
        return None, out
    return lib, ''


def run_driver(ctx, driver, args=(), std='c++17', link_lib=True, extra=(), timeout=120, sanitize=False):
    src = os.path.join(ROOT, 'replay', driver)
    exe = os.path.join(ctx.workdir, driver.replace('.cpp', '') + ('_san' if sanitize else ''))
    if not os.path.exists(exe):
        cmd = ['g++', '-std=' + std, '-O0', '-g', '-I', os.path.join(ctx.repo, 'include'), '-I', '/repo/_build/include', src] + list(extra)
        if sanitize:
            cmd += ['-fsanitize=address,undefined', '-fno-omit-frame-pointer']
        if link_lib:
            lib, log = real_lib(ctx, std)
            if lib is None:
                return None, log
            cmd += [lib, '-lpthread']
        cmd += ['-o', exe]
        rc, out = _sh(cmd)
        if rc != 0:
            return None, 'replay driver does not compile against the tree under check:\n' + out[-2000:]
    try:
        rc, out = _sh([exe] + [str(a) for a in args], timeout=timeout)
    except subprocess.TimeoutExpired:
        return True, '$ %s %s\nTIMEOUT after %ss (hang reproduced)' % (driver, ' '.join(map(str, args)), timeout)
    return (rc != 0), '$ %s %s\n%s\nexit=%d' % (driver, ' '.join(map(str, args)), out[-3000:], rc)


def fiber_lib(ctx, coro=False, glibcxx_debug=False):
    """the REAL library of ctx.repo built with its own FIBER fault backend (cmake + ninja, ~15 s), cached per run"""
    tag = 'fiberlib' + ('_coro' if coro else '') + ('_dbg' if glibcxx_debug else '')
    d = os.path.join(ctx.workdir, tag)
    lib = os.path.join(d, 'src', 'libyaclib.a')
    if os.path.exists(lib):
        return d, ''
    cmd = ['cmake', '-G', 'Ninja', '-S', ctx.repo, '-B', d, '-DCMAKE_BUILD_TYPE=RelWithDebInfo', '-DYACLIB_FAULT=FIBER', '-DYACLIB_TEST=OFF']
    if coro:
        cmd += ['-DYACLIB_CXX_STANDARD=20', '-DYACLIB_FLAGS=CORO']
    if glibcxx_debug:
        cmd += ['-DCMAKE_CXX_FLAGS=-D_GLIBCXX_DEBUG']      # checked iterators: a dereference of end() aborts
    rc, out = _sh(cmd, timeout=300)
    if rc == 0:
        rc, out2 = _sh(['cmake', '--build', d, '-j', '12'], timeout=900)
        out += out2
    if rc != 0 or not os.path.exists(lib):
        return None, 'the FIBER build of the tree under check failed:\n' + out[-2500:]
    return d, ''


def run_fiber_driver(ctx, driver, args=(), coro=False, timeout=120, glibcxx_debug=False):
    d, log = fiber_lib(ctx, coro, glibcxx_debug)
    if d is None:
        return None, log
    src = os.path.join(ROOT, 'replay', driver)
    exe = os.path.join(ctx.workdir, driver.replace('.cpp', '') + '_fiber' + ('_dbg' if glibcxx_debug else ''))
    if not os.path.exists(exe):
        cmd = ['g++', '-std=' + ('c++20' if coro else 'c++17'), '-O1', '-g'] + (['-D_GLIBCXX_DEBUG'] if glibcxx_debug else []) + [ '-I', os.path.join(ctx.repo, 'include'), '-I', os.path.join(ctx.repo, 'src'),
               '-I', os.path.join(d, 'include'), src, os.path.join(d, 'src', 'libyaclib.a'), '-lpthread', '-o', exe]
        rc, out = _sh(cmd)
        if rc != 0:
            return None, 'fiber replay driver does not compile against the tree under check:\n' + out[-2000:]
    try:
        rc, out = _sh([exe] + [str(a) for a in args], timeout=timeout)
    except subprocess.TimeoutExpired:
        return True, '$ %s %s\nTIMEOUT after %ss (hang reproduced)' % (driver, ' '.join(map(str, args)), timeout)
    return (rc != 0), '$ %s %s\n%s\nexit=%d' % (driver, ' '.join(map(str, args)), out[-3000:], rc)


def coro_lib(ctx):
    """the REAL library of ctx.repo built with coroutine support (C++20, YACLIB_FLAGS=CORO), cached per run"""
    d = os.path.join(ctx.workdir, 'corolib')
    lib = os.path.join(d, 'src', 'libyaclib.a')
    if os.path.exists(lib):
        return d, ''
    cmd = ['cmake', '-G', 'Ninja', '-S', ctx.repo, '-B', d, '-DCMAKE_BUILD_TYPE=Debug', '-DYACLIB_CXX_STANDARD=20', '-DYACLIB_FLAGS=CORO', '-DYACLIB_TEST=OFF']
    rc, out = _sh(cmd, timeout=300)
    if rc == 0:
        rc, out2 = _sh(['cmake', '--build', d, '-j', '12'], timeout=900)
        out += out2
    if rc != 0 or not os.path.exists(lib):
        return None, 'the CORO build of the tree under check failed:\n' + out[-2500:]
    return d, ''


def run_coro_driver(ctx, driver, args=(), timeout=90):
    d, log = coro_lib(ctx)
    if d is None:
        return None, log
    src = os.path.join(ROOT, 'replay', driver)
    exe = os.path.join(ctx.workdir, driver.replace('.cpp', '') + '_coro')
    if not os.path.exists(exe):
        cmd = ['g++', '-std=c++20', '-fcoroutines', '-O0', '-g', '-I', os.path.join(ctx.repo, 'include'), '-I', os.path.join(d, 'include'), src,
               os.path.join(d, 'src', 'libyaclib.a'), '-lpthread', '-o', exe]
        rc, out = _sh(cmd)
        if rc != 0:
            return None, 'coroutine replay driver does not compile against the tree under check:\n' + out[-2000:]
    try:
        rc, out = _sh([exe] + [str(a) for a in args], timeout=timeout)
    except subprocess.TimeoutExpired:
        return True, '$ %s %s\nTIMEOUT after %ss (hang reproduced)' % (driver, ' '.join(map(str, args)), timeout)
    return (rc != 0), '$ %s %s\n%s\nexit=%d' % (driver, ' '.join(map(str, args)), out[-3000:], rc)
