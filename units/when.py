"""WhenAll / Join and the combinator machinery (async/when/when.hpp, all.hpp, all_tuple.hpp, join.hpp):  C09 (+ C03, C20 parts).

Election + reference accounting of the combinator (B, E), index order of the aggregate via ghost indices, loops over inputs closed
by loop invariants (unbounded count).
"""
import re

from vf.cxx2c import Rewriter, attach_loop_contracts
from vf.extract import ExtractionBreak, find_body, read_source
from vf.runner import Job

F_WHEN = 'include/yaclib/async/when/when.hpp'
F_ALL = 'include/yaclib/async/when/all.hpp'
F_TUP = 'include/yaclib/async/when/all_tuple.hpp'
F_JOIN = 'include/yaclib/async/when/join.hpp'

TRUSTED = ['Promise::Set / Valid (C01 producer contract), UniqueCore/SharedCore::Retire (proved in unit handles), AtomicCounter DecRef of the combinator (unit event)',
           'std::vector: resize(n) gives n slots, reserve allocates once, push_back appends (VEC_* stubs)']
DROPPED = ['pack expansion of the static form (`(SetCore<Is>(cores), ...)`) is assumed to call SetCore<i> exactly once per i, in order',
           'std::get<Index>(_tuple) = x is TUP_SET(Index, x) with a ghost "slot Index filled from input Index"',
           'range-for over the vector member _cores is rewritten to an index loop (vocabulary rule)',
           'StaticCombinator::GetCallbackHelper / Init / the Callbacks tuple types (index_of_v, translate_index_v: template metaprogramming over type lists) are not extractable: '
           'SetCore is proved against "GetCallbackHelper<Index, Core>() is the node reserved for input Index"; that each unordered unique-core TYPE shares one node is the same '
           'one-node-per-unique-core-type rule the When entry contract states as g_one_node',
           'the combinator selection `using FinalCombinator = std::conditional_t<COND, A, B>` is translated to (COND\') ? K_A : K_B over free configuration predicates']
ASSUMPTIONS = ['input Results are not Empty (an Empty Result is neither a value nor a failure; outside what the property states for WhenAll)',
               'every input completes exactly once (C01) - so every callback / inline consumption happens once per input']
# real-code drivers that exercise what this unit proves (thorough tier: sanity run on the tree under check)
DRIVERS = [('whenall_tuple.cpp', [], 'default'), ('whenall_shared_overlap.cpp', [], 'default')]

COMMON = r'''
#include "vf.h"
#include <stdlib.h>
enum { RS_Value = 0, RS_Exception = 1, RS_Error = 2, RS_Empty = 3 };
typedef struct Res { unsigned char state; unsigned long tag; unsigned long src; } Res;    /* src = index of the input it came from (ghost) */
typedef struct Core { Res _result; } Core;
#define RG_WORD unsigned long
struct Ghost {
  unsigned char elected, elected_me, out_set; unsigned char out_state; unsigned long out_tag; unsigned char out_is_aggregate;
  unsigned long remaining;
  unsigned long retires, decrefs, pushed, count;
  unsigned long comb_decrefs;
} g;
/* the output promise */
int P_Valid(void* self) __CPROVER_assigns() __CPROVER_ensures(RET == !g.out_set);
void P_Set_fail(void* self, int state, Res* r)
__CPROVER_requires(g.elected_me && !g.out_set && state == r->state && r->state != RS_Value)          /* first failure: Set once, by the elected input, with its own error / exception */
__CPROVER_assigns(g.out_set, g.out_state, g.out_tag, g.out_is_aggregate)
__CPROVER_ensures(g.out_set == 1 && g.out_state == r->state && g.out_tag == r->tag && g.out_is_aggregate == 0);
void P_Set_aggregate(void* self)
__CPROVER_requires(!g.out_set)
__CPROVER_assigns(g.out_set, g.out_state, g.out_is_aggregate)
__CPROVER_ensures(g.out_set == 1 && g.out_state == RS_Value && g.out_is_aggregate == 1);
'''

DONE_RG = r'''
/* `_done`: 0 -> 1 once; whoever wins the exchange is elected (same sheet as WhenAny None, A.5) */
#define INV(W) ((W) <= 1 && g.elected <= 1 && g.out_set <= 1 && g.elected == (W) && (g.out_set ==> g.elected) && g.remaining >= 1)
static inline void rg_env(RG_WORD* p) {
  if (g.remaining > 1 && nondet_bool()) { g.remaining -= 1; if (!*p && nondet_bool()) { *p = 1; g.elected = 1; } }
  if (g.elected && !g.elected_me && nondet_bool()) g.out_set = 1;
  __CPROVER_assert(INV(*p), "rely preserves Inv (_done)");
}
static inline void rg_read(RG_WORD* p, RG_WORD v, int mo) { }
static inline void rg_write(RG_WORD* p, RG_WORD o, RG_WORD n, int mo, int kind) {
  __CPROVER_assert(kind == RG_XCHG && n == 1, "G: the only write is exchange(true)");
  if (o == 0) { __CPROVER_assert(!g.elected, "elected at most once"); g.elected = 1; g.elected_me = 1; }
  __CPROVER_assert(INV(*p), "own step preserves Inv (_done)");
}
#include "rg_atomic.h"
'''


def res_rules(var='result'):
    v = re.escape(var)
    return [
        # Result::operator bool in every boolean context (a bare pointer would be "always true" in C: guarded by check_bool below)
        (r'if\s*\(\s*' + v + r'\s*\)', 'if (RES_OK(' + var + '))', 0),
        (r'(&&|\|\|)\s*' + v + r'\b(?!\s*[.\-(])', r'\1 RES_OK(' + var + ')', 0),
        (r'(?<![\w.>])' + v + r'\s*(&&|\|\|)', 'RES_OK(' + var + r') \1', 0),
        (r'!\s*' + v + r'\b(?!\s*[.\-(])', '!RES_OK(' + var + ')', 0),
        (v + r'\.State\(\)\s*(==|!=)\s*ResultState::(\w+)', r'RES_STATE(' + var + r') \1 RS_\2', 0),
        (r'std::move\(_p\)\.Set\(\s*(?:std::forward<Result>\(' + v + r'\)|std::as_const\(' + v + r'\))\.(Error|Exception)\(\)\s*\)\s*;', r'P_Set_fail(self, RS_\1, ' + var + ');', 0),
        (r'\b(\d+)U\b', r'\1u', 0),
    ]


def check_bool(name, c, var='result'):
    """the Result variable is a pointer in the C text: any use of it as a truth value that the rules above did not turn into RES_OK would silently read as `true`"""
    m = re.search(r'(?:[(!]|&&|\|\||\?)\s*' + re.escape(var) + r'\s*(?:[)?]|&&|\|\|)', re.sub(r'\b\w+\([^()]*\)', 'CALL', c))
    if m:
        raise ExtractionBreak('%s: `%s` used as a truth value in a form the recipe does not translate: ...%s...' % (name, var, m.group(0)))
    return c


ARG = r'((?:[^(),]|\([^()]*\))+?)'     # one call argument (one level of nested parentheses)


def jobs(ctx):
    repo = ctx.repo
    props = ['C09', 'C03', 'C20']
    out = []

    def job(name, b, src, enforce, replace, canaries=1, loops=False, expect=(r'postcondition',), entry='harness', timeout=180):
        out.append(Job('when/' + name, props, src, entry, enforce=enforce, replace=replace, loop_contracts=loops, funcs=b if isinstance(b, list) else [b],
                       canaries=canaries, expect=list(expect), meta={'fn': name}, timeout=timeout))

    RESM = '#define RES_OK(r) ((r)->state == RS_Value)\n#define RES_STATE(r) ((r)->state)\n'
    # ---------------- FirstFail Consume of Join / AllTuple / All -------------------------------------------------------------
    b_join = find_body(repo, F_JOIN, r'void\s+Consume\s*\(\s*Result\s*&&\s*result\s*\)', 'Join<FirstFail>::Consume', within=r'struct\s+Join<FailPolicy::FirstFail,')
    c = Rewriter('Join<FirstFail>::Consume', atomics=['_done'], pre=res_rules()).rewrite(b_join.text)
    c = check_bool('Join<FirstFail>::Consume', c)
    contract = '''typedef struct St { unsigned long _done; } St;
void Consume(St* self, Res* result)
__CPROVER_requires(__CPROVER_is_fresh(self, sizeof(*self)) && __CPROVER_is_fresh(result, sizeof(*result)) && result->state <= RS_Error)
__CPROVER_requires(INV(self->_done) && !g.elected_me && (!g.elected ==> !g.out_set))
__CPROVER_assigns(self->_done, g)
__CPROVER_ensures(INV(self->_done))
/* FirstFail: as soon as the first input fails the output carries that input's error / exception; Set exactly once; values and later failures have no effect */
__CPROVER_ensures(g.elected_me ==> (result->state != RS_Value && g.out_set && g.out_state == result->state && g.out_tag == result->tag))
__CPROVER_ensures(result->state == RS_Value ==> !g.elected_me)
__CPROVER_ensures(result->state != RS_Value ==> g.elected)
'''
    harness = 'void harness(void) { St* s; Res* r; g.elected_me = 0; Consume(s, r); if (g.elected_me) VF_CANARY("first failure"); else if (r->state == RS_Value) VF_CANARY("a value"); else VF_CANARY("a later failure"); }\n'
    harness = harness.replace('if (r->state == RS_Value)', 'if (g_was_value)')
    src = COMMON + RESM + DONE_RG + 'unsigned char g_was_value;\n' + contract.replace('__CPROVER_assigns(self->_done, g)', '__CPROVER_assigns(self->_done, g, g_was_value)') + \
        '{ g_was_value = (result->state == RS_Value); ' + c + '}\n' + harness
    job('Join.FirstFail.Consume', b_join, src, 'Consume', ['P_Set_fail'], canaries=3, expect=[r'postcondition', r'precondition'])
    # AllTuple<FirstFail>::Consume<Index>
    b_tc = find_body(repo, F_TUP, r'void\s+Consume\s*\(\s*Result\s*&&\s*result\s*\)', 'AllTuple<FirstFail>::Consume', within=r'struct\s+AllTuple<FailPolicy::FirstFail,')
    pre = res_rules() + [(r'std::get<Index>\(_tuple\)\s*=\s*std::forward<Result>\(result\)\.Value\(\)\s*;', 'TUP_SET_VALUE(Index, result);', 0)]
    c = Rewriter('AllTuple<FirstFail>::Consume', atomics=['_done'], pre=pre).rewrite(b_tc.text)
    c = check_bool('AllTuple<FirstFail>::Consume', c)
    tup = '''unsigned long Index; unsigned g_tup_sets; unsigned long g_tup_slot, g_tup_src;
static inline void TUP_SET_VALUE(unsigned long idx, Res* r) {
  __CPROVER_assert(r->state == RS_Value, "C09: .Value() only on an input that holds a value (a failed input after the first failure must not reach it)");
  g_tup_sets++; g_tup_slot = idx; g_tup_src = r->src; }
'''
    src = COMMON + RESM + DONE_RG + tup + 'unsigned char g_was_value;\n' + contract.replace('__CPROVER_assigns(self->_done, g)', '__CPROVER_assigns(self->_done, g, g_was_value, g_tup_sets, g_tup_slot, g_tup_src)') \
        .replace('__CPROVER_requires(INV(self->_done)', '__CPROVER_requires(g_tup_sets == 0 && result->src == Index && INV(self->_done)') + \
        '/* a value is stored in the slot of its own input (index order regardless of completion order) */\n__CPROVER_ensures(result->state == RS_Value ==> (g_tup_sets == 1 && g_tup_slot == Index && g_tup_src == Index))\n__CPROVER_ensures(result->state != RS_Value ==> g_tup_sets == 0)\n' + \
        '{ g_was_value = (result->state == RS_Value); ' + c + '}\n' + harness.replace('g.elected_me = 0;', 'g.elected_me = 0; g_tup_sets = 0;')
    job('AllTuple.FirstFail.Consume', b_tc, src, 'Consume', ['P_Set_fail'], canaries=3, expect=[r'postcondition', r'precondition', r'only on an input that holds a value'])
    # All<FirstFail>::Consume(core)
    b_ac = find_body(repo, F_ALL, r'void\s+Consume\s*\(\s*InputCore\s*&\s*core\s*\)', 'All<FirstFail>::Consume', within=r'struct\s+All<FailPolicy::FirstFail,')
    pre = [(r'auto\s*&\s*result\s*=\s*core\.Get\(\)\s*;', 'Res* result = &core->_result;', 0)] + res_rules()
    c = Rewriter('All<FirstFail>::Consume', atomics=['_done'], pre=pre, refs=['core']).rewrite(b_ac.text)
    c = check_bool('All<FirstFail>::Consume', c)
    contract_all = contract.replace('void Consume(St* self, Res* result)', 'void Consume(St* self, Core* core)').replace('__CPROVER_is_fresh(result, sizeof(*result)) && result->state <= RS_Error', '__CPROVER_is_fresh(core, sizeof(*core)) && core->_result.state <= RS_Error') \
        .replace('result->', 'core->_result.')
    src = COMMON + RESM + DONE_RG + 'unsigned char g_was_value;\n' + contract_all.replace('__CPROVER_assigns(self->_done, g)', '__CPROVER_assigns(self->_done, g, g_was_value)') + \
        '/* Owned policy: the input core is only looked at here (copied from), it is released by the destructor */\n__CPROVER_ensures(g.retires == OLD(g.retires) && g.decrefs == OLD(g.decrefs))\n' + \
        '{ g_was_value = (core->_result.state == RS_Value); ' + c + '}\n' + harness.replace('Res* r;', 'Core* r;')
    job('All.FirstFail.Consume', b_ac, src, 'Consume', ['P_Set_fail'], canaries=3, expect=[r'postcondition', r'precondition'])
    # AllTuple<None>::Consume<Index>
    b_tn = find_body(repo, F_TUP, r'void\s+Consume\s*\(\s*Result\s*&&\s*result\s*\)', 'AllTuple<None>::Consume', within=r'struct\s+AllTuple<FailPolicy::None,')
    c = Rewriter('AllTuple<None>::Consume', pre=[(r'std::get<Index>\(_tuple\)\s*=\s*std::forward<Result>\(result\)\s*;', 'TUP_SET(Index, result);', 0)]).rewrite(b_tn.text)
    src = COMMON + '''unsigned long Index; unsigned g_tup_sets; unsigned long g_tup_slot, g_tup_src; unsigned char g_tup_state;
static inline void TUP_SET(unsigned long idx, Res* r) { g_tup_sets++; g_tup_slot = idx; g_tup_src = r->src; g_tup_state = r->state; }
void Consume(void* self, Res* result)
__CPROVER_requires(__CPROVER_is_fresh(result, sizeof(*result)) && result->src == Index && g_tup_sets == 0)
__CPROVER_assigns(g_tup_sets, g_tup_slot, g_tup_src, g_tup_state)
/* FailPolicy::None: every input's Result, whatever it is, lands in the slot of its own index; the output is decided by the destructor only */
__CPROVER_ensures(g_tup_sets == 1 && g_tup_slot == Index && g_tup_src == Index && g_tup_state == result->state && g.out_set == OLD(g.out_set))
{''' + c + '''}
void harness(void) { void* s; Res* r; g_tup_sets = 0; Consume(s, r); VF_CANARY("end"); }
'''
    job('AllTuple.None.Consume', b_tn, src, 'Consume', [])
    # ---------------- destructors ------------------------------------------------------------------------------------------------
    for nm, f, within, valid_guard in (('Join.None.Dtor', F_JOIN, r'struct\s+Join<FailPolicy::None,', 0), ('Join.FirstFail.Dtor', F_JOIN, r'struct\s+Join<FailPolicy::FirstFail,', 1),
                                       ('AllTuple.None.Dtor', F_TUP, r'struct\s+AllTuple<FailPolicy::None,', 0), ('AllTuple.FirstFail.Dtor', F_TUP, r'struct\s+AllTuple<FailPolicy::FirstFail,', 1)):
        b = find_body(repo, f, r'~(?:Join|AllTuple)\s*\(\s*\)', nm, within=within)
        pre = [(r'_p\.Valid\(\)', 'P_Valid(self)', 0), (r'std::move\(_p\)\.Set\(\s*(?:std::move\(_tuple\))?\s*\)\s*;', 'P_Set_aggregate(self);', 0)]
        c = Rewriter(nm, pre=pre).rewrite(b.text)
        src = COMMON + '''void Dtor(void* self)
__CPROVER_requires(g.out_set <= 1 && (VALID_GUARD ? 1 : !g.out_set))      /* runs when the last input dropped its combinator reference: every input was consumed */
__CPROVER_assigns(g.out_set, g.out_state, g.out_is_aggregate)
/* the output is completed exactly once overall: by the elected first failure, else by the destructor with the aggregate (None: always the destructor) */
__CPROVER_ensures(g.out_set == 1)
__CPROVER_ensures(OLD(g.out_set) ? (g.out_is_aggregate == OLD(g.out_is_aggregate) && g.out_state == OLD(g.out_state)) : (g.out_is_aggregate == 1 && g.out_state == RS_Value))
{''' + c + '''}
void harness(void) { void* s; g.out_set = nondet_bool(); int was = g.out_set; Dtor(s); if (was) VF_CANARY("a failure was already published"); else VF_CANARY("aggregate published"); }
'''
        job(nm, b, src.replace('VALID_GUARD', str(valid_guard)), 'Dtor', ['P_Valid', 'P_Set_aggregate'], canaries=2 if valid_guard else 1, expect=[r'postcondition', r'precondition'])
    # All<None>::~All and All<FirstFail>::~All: loops over the registered cores
    VEC = r'''
unsigned long POOL_MAX; Core* pool;                     /* input i's core is pool[i] (Register contract: _cores[i] == &input i) */
#define POOL_INIT() do { POOL_MAX = nondet_ulong(); __CPROVER_assume(POOL_MAX >= 1 && POOL_MAX <= (1UL << 36)); pool = malloc(sizeof(Core) * POOL_MAX); __CPROVER_assume(pool != 0); \
                         g.count = nondet_ulong(); __CPROVER_assume(g.count >= 1 && g.count <= POOL_MAX); g.retires = g.decrefs = g.pushed = 0; } while (0)
#define VEC_SIZE(v) g.count
#define VEC_AT(v, i) (&pool[i])
unsigned g_reserves; unsigned long g_reserved;
void VEC_RESERVE(unsigned long n) __CPROVER_assigns(g_reserves, g_reserved) __CPROVER_ensures(g_reserves == OLD(g_reserves) + 1 && g_reserved == n);
Res Retire(Core* c)
__CPROVER_requires(c == &pool[g.retires] && g.retires < g.count && g.decrefs == 0)      /* every input retired exactly once, in index order */
__CPROVER_assigns(g.retires)
__CPROVER_ensures(g.retires == OLD(g.retires) + 1 && RET.src == OLD(g.retires) && RET.state <= RS_Error && (g_all_values ==> RET.state == RS_Value));
unsigned char g_all_values;
void VEC_PUSH(Res r)
__CPROVER_requires(r.src == g.pushed)          /* aggregate: element k comes from input k, built in index order (that the vector is reserved once is C20: unit alloc) */
__CPROVER_assigns(g.pushed) __CPROVER_ensures(g.pushed == OLD(g.pushed) + 1);
static inline Res RES_VALUE_OF(Res r) { __CPROVER_assert(r.state == RS_Value, "C09: .Value() only on an input that holds a value"); return r; }
void DecRef(Core* c)
__CPROVER_requires(c == &pool[g.decrefs] && g.decrefs < g.count && g.retires == 0)
__CPROVER_assigns(g.decrefs) __CPROVER_ensures(g.decrefs == OLD(g.decrefs) + 1);
'''.replace('Res Retire(Core* c)', 'unsigned char g_all_values_decl;\nRes Retire(Core* c)').replace('unsigned char g_all_values;\nvoid VEC_PUSH', 'void VEC_PUSH').replace('unsigned char g_all_values_decl;', 'unsigned char g_all_values;')
    # both ways of walking the inputs are normalised to one canonical loop (ghost index vf_i): range-for over _cores, or an index loop 0 .. _cores.size()
    vec_pre = [(r'for\s*\(\s*auto\s*\*\s*core\s*:\s*_cores\s*\)\s*\{', 'for (size_t vf_i = 0; vf_i < VEC_SIZE(_cores); ++vf_i) { Core* core = VEC_AT(_cores, vf_i);', 0),
               (r'for\s*\(\s*(?:std::)?size_t\s+(\w+)\s*=\s*0\s*;\s*\1\s*(?:!=|<)\s*_cores\.size\(\)\s*;\s*(?:\+\+\s*\1|\1\s*\+\+)\s*\)\s*\{',
                r'for (size_t vf_i = 0; vf_i < VEC_SIZE(_cores); ++vf_i) { size_t \1 = vf_i;', 0),
               (r'_cores\[\s*(\w+)\s*\]', r'VEC_AT(_cores, \1)', 0),
               (r'OutputValue\s+(\w+)\s*;', '', 0), (r'\b(?:output|result)\.reserve\(\s*_cores\.size\(\)\s*\)\s*;', 'VEC_RESERVE(VEC_SIZE(_cores));', 0),
               (r'(VEC_AT\([^()]*\)|\bcore)->Retire\(\)\.Value\(\)', r'RES_VALUE_OF(Retire(\1))', 0), (r'(VEC_AT\([^()]*\)|\bcore)->Retire\(\)', r'Retire(\1)', 0),
               (r'(VEC_AT\([^()]*\)|\bcore)->DecRef\(\)', r'DecRef(\1)', 0),
               (r'\b(?:output|result)\.(?:push_back|emplace_back)\(\s*((?:RES_VALUE_OF\()?Retire\((?:VEC_AT\([^()]*\)|core)\)\)?)\s*\)\s*;', r'VEC_PUSH(\1);', 0),
               (r'std::move\(_p\)\.Set\(\s*std::move\(\s*(?:output|result)\s*\)\s*\)\s*;', 'P_Set_aggregate(self);', 0), (r'_p\.Valid\(\)', 'P_Valid(self)', 0)]
    b = find_body(repo, F_ALL, r'~All\s*\(\s*\)', 'All<None>::~All', within=r'struct\s+All<FailPolicy::None,')
    c = Rewriter('All<None>::~All', pre=vec_pre, nomembers=['_cores']).rewrite(b.text)
    inv = '__CPROVER_assigns(vf_i, g.retires, g.pushed)\n__CPROVER_loop_invariant(vf_i <= g.count && g.retires == vf_i && g.pushed == vf_i && g.decrefs == 0 && !g.out_set)'
    c = attach_loop_contracts('All<None>::~All', c, [inv])
    src = COMMON + VEC + '''void Dtor(void* self)
__CPROVER_requires(!g.out_set && g.retires == 0 && g.decrefs == 0 && g.pushed == 0 && g.count >= 1 && g.count <= POOL_MAX)
__CPROVER_assigns(g.retires, g.pushed, g_reserves, g_reserved, g.out_set, g.out_state, g.out_is_aggregate)
/* FailPolicy::None: when the last input completed, every input's Result is moved out (and the input released) exactly once, in input order, into one
   vector, and the output is set with it (C20, one reserve: unit alloc) */
__CPROVER_ensures(g.retires == g.count && g.pushed == g.count && g.out_set == 1 && g.out_is_aggregate == 1)
{''' + c + '''}
void harness(void) { POOL_INIT(); g.out_set = 0; g_reserves = 0; g_all_values = 0; void* s; Dtor(s); if (g.count > 1) VF_CANARY("several inputs"); else VF_CANARY("one input"); }
'''
    job('All.None.Dtor', b, src, 'Dtor', ['VEC_RESERVE', 'Retire', 'VEC_PUSH', 'P_Set_aggregate'], canaries=2, loops=True, expect=[r'postcondition', r'invariant after step|loop_invariant_step'])
    b = find_body(repo, F_ALL, r'~All\s*\(\s*\)', 'All<FirstFail>::~All', within=r'struct\s+All<FailPolicy::FirstFail,')
    c = Rewriter('All<FirstFail>::~All', pre=vec_pre, nomembers=['_cores']).rewrite(b.text)
    inv1 = '__CPROVER_assigns(vf_i, g.retires, g.pushed)\n__CPROVER_loop_invariant(vf_i <= g.count && g.retires == vf_i && g.pushed == vf_i && g.decrefs == 0 && !g.out_set)'
    inv2 = '__CPROVER_assigns(vf_i, g.decrefs)\n__CPROVER_loop_invariant(vf_i <= g.count && g.decrefs == vf_i && g.retires == 0 && g.pushed == 0 && g.out_set)'
    c = attach_loop_contracts('All<FirstFail>::~All', c, [inv1, inv2])
    src = COMMON + VEC + '''void Dtor(void* self)
__CPROVER_requires(g.out_set <= 1 && g.retires == 0 && g.decrefs == 0 && g.pushed == 0 && g.count >= 1 && g.count <= POOL_MAX)
__CPROVER_requires(g.out_set == !g_all_values)          /* the output was already decided iff some input failed (Consume contract) */
__CPROVER_assigns(g.retires, g.decrefs, g.pushed, g_reserves, g_reserved, g.out_set, g.out_state, g.out_is_aggregate)
/* every input is released exactly once whether or not the output was already decided: no failure - values moved out in input order and the aggregate is set;
   a failure was published - the inputs are only released */
__CPROVER_ensures(g.retires + g.decrefs == g.count && g.out_set == 1)
__CPROVER_ensures(OLD(g.out_set) ? (g.decrefs == g.count && g.pushed == 0) : (g.retires == g.count && g.pushed == g.count && g.out_is_aggregate == 1))
{''' + c + '''}
void harness(void) { POOL_INIT(); g.out_set = nondet_bool(); g_all_values = !g.out_set; g_reserves = 0; int was = g.out_set; void* s; Dtor(s); if (was) VF_CANARY("failed earlier"); else VF_CANARY("all succeeded"); }
'''
    job('All.FirstFail.Dtor', b, src, 'Dtor', ['VEC_RESERVE', 'Retire', 'VEC_PUSH', 'P_Set_aggregate', 'P_Valid', 'DecRef'], canaries=2, loops=True,
        expect=[r'postcondition', r'invariant after step|loop_invariant_step'], timeout=300)
    # Register (both All policies share the text shape)
    for nm, within in (('All.None.Register', r'struct\s+All<FailPolicy::None,'), ('All.FirstFail.Register', r'struct\s+All<FailPolicy::FirstFail,')):
        b = find_body(repo, F_ALL, r'void\s+Register\s*\(\s*std::size_t\s+i\s*,\s*InputCore\s*&\s*core\s*\)', nm, within=within)
        c = Rewriter(nm, refs=['core'], pre=[(r'_cores\[\s*(\w+)\s*\]\s*=\s*([^;]+);', r'VEC_STORE(\1, \2);', 0)]).rewrite(b.text)
        src = COMMON + '''unsigned g_stores; unsigned long g_store_i; Core* g_store_c;
static inline void VEC_STORE(unsigned long i, Core* c) { __CPROVER_assert(i < g.count, "vector index in range (resize(count) in the constructor)"); g_stores++; g_store_i = i; g_store_c = c; }
void Register(void* self, size_t i, Core* core)
__CPROVER_requires(i < g.count && g_stores == 0)
__CPROVER_assigns(g_stores, g_store_i, g_store_c)
/* input i is remembered in slot i (so the destructor's index order is input order) */
__CPROVER_ensures(g_stores == 1 && g_store_i == i && g_store_c == core)
{''' + c + '''}
void harness(void) { void* s; size_t i; Core* c; g_stores = 0; Register(s, i, c); VF_CANARY("end"); }
'''
        job(nm, b, src, 'Register', [])
    # ---------------- when.hpp: Consume dispatch, callbacks, registration loops, When --------------------------------------------
    b_c1 = find_body(repo, F_WHEN, r'void\s+Consume\s*\(\s*Strategy\s*&\s*st\s*,\s*Core\s*&\s*core\s*\)', 'when::Consume<Index>')
    b_c2 = find_body(repo, F_WHEN, r'void\s+Consume\s*\(\s*Strategy\s*&\s*st\s*,\s*Core\s*&\s*core\s*,\s*std::size_t\s+index\s*\)', 'when::Consume(index)')
    b_ci = [find_body(repo, F_WHEN, r'void\s+ConsumeImpl\s*\(\s*Strategy\s*&\s*st\s*,\s*Core\s*&\s*core\s*\)', 'when::ConsumeImpl#%d' % k, nth=k) for k in (0, 1)]
    b_ci3 = find_body(repo, F_WHEN, r'void\s+ConsumeImpl\s*\(\s*Strategy\s*&\s*st\s*,\s*Core\s*&\s*core\s*,\s*std::size_t\s+index\s*\)', 'when::ConsumeImpl(index)')
    pol = [(r'Strategy::kConsumePolicy\s*(==|!=)\s*ConsumePolicy::(\w+)', r'CONSUME_POLICY \1 CP_\2', 0), (r'Strategy::kCorePolicy\s*(==|!=)\s*CorePolicy::(\w+)', r'CORE_POLICY \1 KP_\2', 0),
           (r'static_assert\([^;]*\)\s*;', '', 0),
           (r'st\.template\s+Consume<Index>\(\s*core\.Retire\(\)\s*\)', 'ST_CONSUME(st, Index, 1, core)', 0), (r'st\.template\s+Consume<Index>\(\s*core\s*\)', 'ST_CONSUME(st, Index, 0, core)', 0),
           (r'st\.Consume\(\s*index\s*,\s*core\.Retire\(\)\s*\)', 'ST_CONSUME(st, index, 1, core)', 0), (r'st\.Consume\(\s*index\s*,\s*core\s*\)', 'ST_CONSUME(st, index, 0, core)', 0),
           (r'st\.Consume\(\s*core\.Retire\(\)\s*\)', 'ST_CONSUME(st, NO_INDEX, 1, core)', 0), (r'st\.Consume\(\s*core\s*\)', 'ST_CONSUME(st, NO_INDEX, 0, core)', 0),
           (r'ConsumeImpl<Index>\(', 'ConsumeImplIdx(', 0), (r'ConsumeImpl\(\s*st\s*,\s*core\s*,\s*(\w+)\s*\)', r'ConsumeImplDyn(st, core, \1)', 0), (r'ConsumeImpl\(\s*st\s*,\s*core\s*\)', 'ConsumeImplUn(st, core)', 0),
           (r'core\.DecRef\(\)', 'CoreDecRef(core)', 0)]
    disp = '''enum { CP_None, CP_Unordered, CP_Static, CP_Dynamic }; enum { KP_Owned, KP_Managed };
#define NO_INDEX (~0UL)
unsigned g_st_consumes, g_core_retires, g_core_decrefs; unsigned long g_st_index; unsigned char g_st_retired;
/* the strategy's Consume: receives the core itself (Owned: the strategy releases it later) or its retired Result (Managed: released here) */
void ST_CONSUME(void* st, unsigned long index, int retired, Core* core)
__CPROVER_requires(g_st_consumes == 0)
__CPROVER_assigns(g_st_consumes, g_st_index, g_st_retired, g_core_retires)
__CPROVER_ensures(g_st_consumes == 1 && g_st_index == index && g_st_retired == retired && g_core_retires == OLD(g_core_retires) + (retired ? 1 : 0));
void CoreDecRef(Core* c) __CPROVER_assigns(g_core_decrefs) __CPROVER_ensures(g_core_decrefs == OLD(g_core_decrefs) + 1);
'''
    rwd = lambda nm: Rewriter(nm, pre=pol, refs=['st', 'core'])
    bodies = {'un': rwd('ConsumeImplUn').rewrite(b_ci[0].text), 'idx': rwd('ConsumeImplIdx').rewrite(b_ci[1].text), 'dyn': rwd('ConsumeImplDyn').rewrite(b_ci3.text),
              'c1': rwd('Consume<Index>').rewrite(b_c1.text), 'c2': rwd('Consume(index)').rewrite(b_c2.text)}
    for cp in ('CP_None', 'CP_Unordered', 'CP_Static', 'CP_Dynamic'):
        for kp in ('KP_Owned', 'KP_Managed'):
            post = '''/* C09/C03: every input is consumed and released exactly once: Managed inputs are released here (Retire or DecRef), Owned inputs are handed to the strategy untouched;
   ordered strategies receive the index of the input */
__CPROVER_ensures(g_st_consumes == (CONSUME_POLICY == CP_None ? 0 : 1))
__CPROVER_ensures(g_core_retires + g_core_decrefs == (CORE_POLICY == KP_Managed ? 1 : 0))
__CPROVER_ensures(g_st_consumes ==> (g_st_retired == (CORE_POLICY == KP_Managed) && g_st_index == (CONSUME_POLICY == CP_Unordered ? NO_INDEX : EXPECT_INDEX)))
'''
            head = COMMON + '#define CONSUME_POLICY %s\n#define CORE_POLICY %s\nunsigned long Index;\n' % (cp, kp) + disp
            fwd = 'void ConsumeImplUn(void* st, Core* core) {%s}\nvoid ConsumeImplIdx(void* st, Core* core) {%s}\nvoid ConsumeImplDyn(void* st, Core* core, size_t index) {%s}\n' % (bodies['un'], bodies['idx'], bodies['dyn'])
            src = head + fwd + 'void Consume1(void* st, Core* core)\n__CPROVER_requires(g_st_consumes == 0 && g_core_retires == 0 && g_core_decrefs == 0)\n__CPROVER_assigns(g_st_consumes, g_st_index, g_st_retired, g_core_retires, g_core_decrefs)\n' + \
                post.replace('EXPECT_INDEX', 'Index') + '{' + bodies['c1'] + '}\nvoid harness(void) { void* s; Core* c; g_st_consumes = g_core_retires = g_core_decrefs = 0; Consume1(s, c); VF_CANARY("end"); }\n'
            job('Consume.static.%s.%s' % (cp[3:], kp[3:]), [b_c1] + b_ci + [b_ci3], src, 'Consume1', ['ST_CONSUME', 'CoreDecRef'])
            if cp != 'CP_Static':
                src = head + fwd + 'void Consume2(void* st, Core* core, size_t index)\n__CPROVER_requires(g_st_consumes == 0 && g_core_retires == 0 && g_core_decrefs == 0)\n__CPROVER_assigns(g_st_consumes, g_st_index, g_st_retired, g_core_retires, g_core_decrefs)\n' + \
                    post.replace('EXPECT_INDEX', 'index') + '{' + bodies['c2'] + '}\nvoid harness(void) { void* s; Core* c; size_t i; g_st_consumes = g_core_retires = g_core_decrefs = 0; Consume2(s, c, i); VF_CANARY("end"); }\n'
                job('Consume.dynamic.%s.%s' % (cp[3:], kp[3:]), [b_c2] + b_ci + [b_ci3], src, 'Consume2', ['ST_CONSUME', 'CoreDecRef'])
    # CombinatorCallback::Impl / SingleCombinator::Impl
    b_cb = find_body(repo, F_WHEN, r'void\s+Impl\s*\(\s*InlineCore\s*&\s*caller\s*\)', 'CombinatorCallback::Impl', within=r'struct\s+CombinatorCallback\s+final')
    pre = [(r'auto\s*&\s*core\s*=\s*DownCast<Core>\(caller\)\s*;', 'Core* core = (Core*)caller;', 0), (r'DownCast<Core>\(\s*caller\s*\)', '(Core*)caller', 0), (r'Index\s*==\s*kDynamicTag', 'IS_DYNAMIC', 0),
           (r'this\s*-\s*_self->callbacks\.data\(\)', 'CALLBACK_INDEX(self)', 0), (r'Consume<Index>\(\s*_self->st\s*,\s*%s\s*\)' % ARG, r'ConsumeStatic(self, \1)', 0),
           (r'Consume\(\s*_self->st\s*,\s*%s\s*,\s*%s\s*\)' % (ARG, ARG), r'ConsumeDynamic(self, \1, \2)', 0), (r'_self->DecRef\(\)', 'CombinatorDecRef(self)', 0)]
    c = Rewriter('CombinatorCallback::Impl', pre=pre, refs=['caller'], nomembers=['_self']).rewrite(b_cb.text)
    cbstubs = '''unsigned g_consumes, g_comb_decrefs; unsigned long g_consume_index; Core* g_consume_core; unsigned char g_decref_after_consume; unsigned long g_my_index;
#define CALLBACK_INDEX(s) ((long)g_my_index)
void ConsumeStatic(void* self, Core* core) __CPROVER_requires(g_consumes == 0) __CPROVER_assigns(g_consumes, g_consume_core, g_consume_index) __CPROVER_ensures(g_consumes == 1 && g_consume_core == core && g_consume_index == ~0UL);
void ConsumeDynamic(void* self, Core* core, unsigned long index) __CPROVER_requires(g_consumes == 0) __CPROVER_assigns(g_consumes, g_consume_core, g_consume_index) __CPROVER_ensures(g_consumes == 1 && g_consume_core == core && g_consume_index == index);
void CombinatorDecRef(void* self) __CPROVER_requires(g_comb_decrefs == 0) __CPROVER_assigns(g_comb_decrefs, g_decref_after_consume) __CPROVER_ensures(g_comb_decrefs == 1 && g_decref_after_consume == (g_consumes == 1));
'''
    for dyn in (0, 1):
        src = COMMON + '#define IS_DYNAMIC %d\n' % dyn + cbstubs + '''void Impl(void* self, void* caller)
__CPROVER_requires(g_consumes == 0 && g_comb_decrefs == 0)
__CPROVER_assigns(g_consumes, g_consume_core, g_consume_index, g_comb_decrefs, g_decref_after_consume)
/* an input completed: it is consumed exactly once under its own index (dynamic form: the position of this callback in the callbacks vector), and only then one combinator
   reference is dropped (the combinator - and with it the strategy - is destroyed exactly when the last input's reference is dropped) */
__CPROVER_ensures(g_consumes == 1 && g_consume_core == (Core*)caller && g_comb_decrefs == 1 && g_decref_after_consume)
__CPROVER_ensures(IS_DYNAMIC ? g_consume_index == g_my_index : g_consume_index == ~0UL)
{''' + c + '''}
void harness(void) { void* s; void* c; g_consumes = g_comb_decrefs = 0; Impl(s, c); VF_CANARY("end"); }
'''
        job('CombinatorCallback.Impl.dynamic%d' % dyn, b_cb, src, 'Impl', ['ConsumeStatic', 'ConsumeDynamic', 'CombinatorDecRef'])
    # SingleCombinator::Impl: the one node serves every input, consumed without index
    def single_impl():
        b_si = find_body(repo, F_WHEN, r'void\s+Impl\s*\(\s*InlineCore\s*&\s*caller\s*\)', 'SingleCombinator::Impl', within=r'struct\s+SingleCombinator\s*:')
        pre_s = [(r'auto\s*&\s*core\s*=\s*DownCast<Core>\(caller\)\s*;', 'Core* core = (Core*)caller;', 0), (r'DownCast<Core>\(\s*caller\s*\)', '(Core*)caller', 0),
                 (r'Consume<0>\(\s*st\s*,\s*%s\s*\)' % ARG, r'ConsumeStatic(self, \1)', 0),
                 (r'Consume\(\s*st\s*,\s*%s\s*,\s*(\w+)\s*\)' % ARG, r'ConsumeDynamic(self, \1, \2)', 0), (r'(?<![\w.>])DecRef\(\)', 'CombinatorDecRef(self)', 0)]
        c = Rewriter('SingleCombinator::Impl', pre=pre_s, refs=['caller'], nomembers=['st']).rewrite(b_si.text)
        src = COMMON + cbstubs + '''void Impl(void* self, void* caller)
__CPROVER_requires(g_consumes == 0 && g_comb_decrefs == 0)
__CPROVER_assigns(g_consumes, g_consume_core, g_consume_index, g_comb_decrefs, g_decref_after_consume)
/* an input completed: consumed exactly once (no index: the single node cannot tell inputs apart), and only then one combinator reference is dropped */
__CPROVER_ensures(g_consumes == 1 && g_consume_core == (Core*)caller && g_consume_index == ~0UL && g_comb_decrefs == 1 && g_decref_after_consume)
{''' + c + '''}
void harness(void) { void* s; void* c; g_consumes = g_comb_decrefs = 0; Impl(s, c); VF_CANARY("end"); }
'''
        job('SingleCombinator.Impl', b_si, src, 'Impl', ['ConsumeStatic', 'ConsumeDynamic', 'CombinatorDecRef'])
    # Here / Next of both callback classes: exactly Impl on the completed input, and no further core to run (the combinator never continues the completing walk)
    def here_next():
        for nm, within in (('CombinatorCallback', r'struct\s+CombinatorCallback\s+final'), ('SingleCombinator', r'struct\s+SingleCombinator\s*:')):
            for meth, sig, ret in (('Here', r'InlineCore\s*\*\s*Here\s*\(\s*InlineCore\s*&\s*caller\s*\)\s*noexcept\s+final', 'RET == (void*)0'),
                                   ('Next', r'yaclib_std::coroutine_handle<>\s+Next\s*\(\s*InlineCore\s*&\s*caller\s*\)\s*noexcept\s+final', 'RET == NOOP')):
                b = find_body(repo, F_WHEN, sig, '%s::%s' % (nm, meth), within=within)
                c = Rewriter('%s::%s' % (nm, meth), pre=[(r'(?<![\w.>])Impl\(\s*caller\s*\)', 'ImplStub(self, caller)', 0), (r'yaclib_std::noop_coroutine\(\)', 'NOOP', 0)], refs=['caller'], nomembers=[]).rewrite(b.text)
                src = COMMON + '''unsigned g_impls; void* g_impl_caller; static char vf_noop;
#define NOOP ((void*)&vf_noop)
void ImplStub(void* self, void* caller) __CPROVER_assigns(g_impls, g_impl_caller) __CPROVER_ensures(g_impls == OLD(g_impls) + 1 && g_impl_caller == caller);
void* F(void* self, void* caller)
__CPROVER_requires(g_impls == 0)
__CPROVER_assigns(g_impls, g_impl_caller)
__CPROVER_ensures(g_impls == 1 && g_impl_caller == caller && %s)
{''' % ret + c + '''}
void harness(void) { void* s; void* c; g_impls = 0; F(s, c); VF_CANARY("end"); }
'''
                job('%s.%s' % (nm, meth), b, src, 'F', ['ImplStub'])
    # SetCore of the static forms: one registration step (what one iteration of the dynamic loops does)
    def set_core():
        sc_stubs = '''enum { KP_Owned, KP_Managed };
unsigned g_regs, g_sets, g_consumes, g_comb_decrefs; unsigned long g_reg_index; Core* g_reg_core; Core* g_set_core; Core* g_consume_core; void* g_set_cb; unsigned char g_set_ok, g_reg_before_set, g_order_ok;
void Register(void* st, unsigned long i, Core* core) __CPROVER_requires(g_regs == 0 && g_sets == 0) __CPROVER_assigns(g_regs, g_reg_index, g_reg_core) __CPROVER_ensures(g_regs == 1 && g_reg_index == i && g_reg_core == core);
int SetCallbackOf(Core* core, void* cb) __CPROVER_requires(g_sets == 0) __CPROVER_assigns(g_sets, g_set_core, g_set_cb, g_set_ok, g_reg_before_set)
  __CPROVER_ensures((RET == 0 || RET == 1) && g_sets == 1 && g_set_core == core && g_set_cb == cb && g_set_ok == RET && g_reg_before_set == (g_regs == 1));
void ConsumeStatic(void* self, Core* core) __CPROVER_requires(g_sets == 1 && !g_set_ok && g_consumes == 0) __CPROVER_assigns(g_consumes, g_consume_core) __CPROVER_ensures(g_consumes == 1 && g_consume_core == core);
void CombinatorDecRef(void* self) __CPROVER_requires(g_comb_decrefs == 0) __CPROVER_assigns(g_comb_decrefs, g_order_ok) __CPROVER_ensures(g_comb_decrefs == 1 && g_order_ok == (g_consumes == 1));
'''
        sc_post = '''__CPROVER_requires(g_regs == 0 && g_sets == 0 && g_consumes == 0 && g_comb_decrefs == 0)
__CPROVER_assigns(g_regs, g_reg_index, g_reg_core, g_sets, g_set_core, g_set_cb, g_set_ok, g_reg_before_set, g_consumes, g_consume_core, g_comb_decrefs, g_order_ok)
/* one registration step: (Owned) the core is registered under ITS index before it can complete; the callback is offered exactly once; an input that was already complete is consumed
   inline exactly once and one combinator reference dropped after it; a pending input is left to its callback (nothing consumed, no reference dropped) */
__CPROVER_ensures(g_sets == 1 && g_set_core == core && g_set_cb == EXPECT_CB)
__CPROVER_ensures(CORE_POLICY == KP_Owned ? (g_regs == 1 && g_reg_index == EXPECT_I && g_reg_core == core && g_reg_before_set) : g_regs == 0)
__CPROVER_ensures(g_set_ok ? (g_consumes == 0 && g_comb_decrefs == 0) : (g_consumes == 1 && g_consume_core == core && g_comb_decrefs == 1 && g_order_ok))
'''
        sc_pre = [(r'Strategy::kCorePolicy\s*==\s*CorePolicy::(\w+)', r'CORE_POLICY == KP_\1', 0), (r'st\.Register\(\s*(\w+)\s*,\s*core\s*\)', r'Register(self, \1, core)', 0),
                  (r'core\.SetCallback\(\s*\*this\s*\)', 'SetCallbackOf(core, self)', 0), (r'core\.SetCallback\(\s*callback\s*\)', 'SetCallbackOf(core, callback)', 0),
                  (r'auto\s*&\s*callback\s*=\s*GetCallbackHelper<Index,\s*Core>\(\)\s*;', 'void* callback = GetCallbackHelper(self, Index);', 0),
                  (r'Consume<(?:0|Index)>\(\s*st\s*,\s*core\s*\)', 'ConsumeStatic(self, core)', 0), (r'(?<![\w.>])DecRef\(\)', 'CombinatorDecRef(self)', 0)]
        b_ssc = find_body(repo, F_WHEN, r'void\s+SetCore\s*\(\s*Core\s*&\s*core\s*,\s*std::size_t\s+i\s*\)', 'SingleCombinator::SetCore', within=r'struct\s+SingleCombinator\s*:')
        b_stc = find_body(repo, F_WHEN, r'void\s+SetCore\s*\(\s*Core\s*&\s*core\s*\)', 'StaticCombinator::SetCore', within=r'struct\s+StaticCombinator\s*:')
        for kp in ('KP_Owned', 'KP_Managed'):
            c = Rewriter('SingleCombinator::SetCore', pre=sc_pre, refs=['core'], nomembers=['st']).rewrite(b_ssc.text)
            src = COMMON + '#define CORE_POLICY %s\n#define EXPECT_CB self\n#define EXPECT_I i\n' % kp + sc_stubs + 'void SetCore(void* self, Core* core, size_t i)\n' + sc_post + '{' + c + '''}
void harness(void) { void* s; Core* c; size_t i; g_regs = g_sets = g_consumes = g_comb_decrefs = 0; SetCore(s, c, i); if (g_set_ok) VF_CANARY("pending"); else VF_CANARY("already complete"); }
'''
            job('SingleCombinator.SetCore.%s' % kp[3:], b_ssc, src, 'SetCore', ['Register', 'SetCallbackOf', 'ConsumeStatic', 'CombinatorDecRef'], canaries=2)
            c = Rewriter('StaticCombinator::SetCore', pre=sc_pre, refs=['core'], nomembers=['st']).rewrite(b_stc.text)
            src = COMMON + '#define CORE_POLICY %s\n#define EXPECT_CB g_helper_cb\n#define EXPECT_I Index\n' % kp + sc_stubs + '''unsigned long Index; void* g_helper_cb;
/* GetCallbackHelper<Index, Core>: the callback node reserved for input Index */
void* GetCallbackHelper(void* self, unsigned long index) __CPROVER_requires(index == Index) __CPROVER_assigns() __CPROVER_ensures(RET == g_helper_cb);
void SetCore(void* self, Core* core)
''' + sc_post + '{' + c + '''}
void harness(void) { void* s; Core* c; g_regs = g_sets = g_consumes = g_comb_decrefs = 0; SetCore(s, c); if (g_set_ok) VF_CANARY("pending"); else VF_CANARY("already complete"); }
'''
            job('StaticCombinator.SetCore.%s' % kp[3:], b_stc, src, 'SetCore', ['Register', 'SetCallbackOf', 'ConsumeStatic', 'CombinatorDecRef', 'GetCallbackHelper'], canaries=2)
    for fn in (single_impl, here_next, set_core):
        try:
            fn()
        except ExtractionBreak as e:      # one function outside the recipe leaves the other jobs of this unit decided
            ctx.breaks.append(str(e))
    # registration loops: DynamicCombinator::Set and SingleCombinator::Set(Iterator)
    reg_stubs = '''enum { KP_Owned, KP_Managed };
unsigned long g_next_input;      /* iterator position: inputs are taken in order, each released from its future exactly once */
unsigned long g_registered, g_attached, g_inline, g_comb_decrefs; unsigned long g_last_reg_i, g_last_cb_i, g_last_consume_i; unsigned char g_attach_ok;
Core* g_cores; unsigned char g_unique_cores;   /* IsUniqueCore<Core>::Value of this instantiation */
Core* TAKE_INPUT(void) __CPROVER_requires(g_next_input < g.count) __CPROVER_assigns(g_next_input) __CPROVER_ensures(RET == &g_cores[OLD(g_next_input)] && g_next_input == OLD(g_next_input) + 1);
void Register(void* st, unsigned long i, Core* core) __CPROVER_requires(core == &g_cores[i] && i == g_registered) __CPROVER_assigns(g_registered) __CPROVER_ensures(g_registered == OLD(g_registered) + 1);
int SetCallbackAt(Core* core, unsigned long cb_index)
__CPROVER_requires(core == &g_cores[g_attached + g_inline] && (CB_PER_INPUT ? cb_index == g_attached + g_inline : 1))     /* input i gets callback i */
__CPROVER_requires(CORE_POLICY == KP_Owned ? g_registered == g_attached + g_inline + 1 : 1)                            /* Owned: registered before it can complete */
/* one callback node can be linked into one shared core's callback list only: a node is reused for a further input only with unique cores (single slot, no link) */
__CPROVER_requires(CB_PER_INPUT || g_unique_cores || g_attached + g_inline == 0)
__CPROVER_assigns(g_attached, g_inline, g_attach_ok)
__CPROVER_ensures((RET == 0 || RET == 1) && g_attached == OLD(g_attached) + RET && g_inline == OLD(g_inline) + !RET && g_attach_ok == RET);
void ConsumeDyn(void* st, Core* core, unsigned long i)
__CPROVER_requires(!g_attach_ok && core == &g_cores[i] && i + 1 == g_attached + g_inline && g_inline == g_comb_decrefs + 1)   /* already-complete input: consumed inline, under its index */
__CPROVER_assigns(g_last_consume_i) __CPROVER_ensures(g_last_consume_i == i);
void CombDecRef(void* self) __CPROVER_requires(g_inline == g_comb_decrefs + 1) __CPROVER_assigns(g_comb_decrefs) __CPROVER_ensures(g_comb_decrefs == OLD(g_comb_decrefs) + 1);
'''
    reg_pre = [(r'auto\s*&\s*core\s*=\s*\*\s*begin->GetCore\(\)\.Release\(\)\s*;', 'Core* core = TAKE_INPUT();', 0), (r'\(void\)\s*\+\+begin|\+\+begin|begin\+\+', '(void)0', 0),
               (r'Strategy::kCorePolicy\s*==\s*CorePolicy::(\w+)', r'CORE_POLICY == KP_\1', 0), (r'st\.Register\(\s*(\w+)\s*,\s*core\s*\)', r'Register(self, \1, core)', 0),
               (r'core\.SetCallback\(\s*callbacks\[\s*(\w+)\s*\]\s*\)', r'SetCallbackAt(core, \1)', 0), (r'core\.SetCallback\(\s*\*this\s*\)', 'SetCallbackAt(core, 0)', 0),
               (r'Consume\(\s*st\s*,\s*core\s*,\s*(\w+)\s*\)', r'ConsumeDyn(self, core, \1)', 0), (r'(?<![\w.>])DecRef\(\)', 'CombDecRef(self)', 0)]
    for nm, within, sig, per in (('DynamicCombinator.Set', r'struct\s+DynamicCombinator\s*:', r'void\s+Set\s*\(\s*Iterator\s+begin\s*,\s*std::size_t\s+count\s*\)', 1),
                                 ('SingleCombinator.Set.dynamic', r'struct\s+SingleCombinator\s*:', r'void\s+Set\s*\(\s*Iterator\s+begin\s*,\s*std::size_t\s+count\s*\)', 0)):
        b = find_body(repo, F_WHEN, sig, nm, within=within)
        c = Rewriter(nm, pre=reg_pre, refs=['core'], nomembers=[]).rewrite(b.text)
        inv = ('__CPROVER_assigns(i, g_next_input, g_registered, g_attached, g_inline, g_attach_ok, g_last_consume_i, g_comb_decrefs)\n'
               '__CPROVER_loop_invariant(i <= count && g_next_input == i && g_attached + g_inline == i && g_comb_decrefs == g_inline && (CORE_POLICY == KP_Owned ? g_registered == i : g_registered == 0))')
        c = attach_loop_contracts(nm, c, [inv])
        # a private helper the loop body was moved into is extracted with the same rules and verified inline (vf.cxx2c.auto_helpers)
        from vf.cxx2c import auto_helpers
        hdefs, hb = auto_helpers(repo, F_WHEN, within, c, {'Register', 'Consume', 'Set', 'DecRef', 'IncRef', 'SetCallbackAt', 'ConsumeDyn', 'CombDecRef'},
                                 lambda hn, ht, refs: Rewriter(nm + '.' + hn, pre=reg_pre, refs=['core'] + refs, nomembers=[]).rewrite(ht).replace('self', 'vf_self'),
                                 ctype=lambda t: 'Core*' if t.rstrip('*&') in ('Core', 'InputCore', 'BaseCore') else None)
        hdefs = 'static void* vf_self;\n' + hdefs if hdefs else ''
        for kp in ('KP_Owned', 'KP_Managed'):
            src = COMMON + '#define CORE_POLICY %s\n#define CB_PER_INPUT %d\n' % (kp, per) + reg_stubs + hdefs + '''void Set(void* self, int begin, size_t count)
__CPROVER_requires(count == g.count && count >= 1 && count <= (1UL << 40) && g_next_input == 0 && g_registered == 0 && g_attached == 0 && g_inline == 0 && g_comb_decrefs == 0)
/* SingleCombinator::Set(begin, count) is instantiated for unique cores only: established by its only caller, the range-form When (job When.dynamic, COMB_SET precondition) */
__CPROVER_requires(CB_PER_INPUT || g_unique_cores)
__CPROVER_assigns(g_next_input, g_registered, g_attached, g_inline, g_attach_ok, g_last_consume_i, g_comb_decrefs)
/* registration (any count): every input is taken from its future exactly once, input i is registered / attached under index i, an input that was already complete is consumed
   inline under its index and drops one combinator reference right away - so the references still outstanding equal the inputs still pending */
__CPROVER_ensures(g_next_input == count && g_attached + g_inline == count && g_comb_decrefs == g_inline)
__CPROVER_ensures(CORE_POLICY == KP_Owned ? g_registered == count : g_registered == 0)
{''' + c + '''}
void harness(void) { g.count = nondet_ulong(); __CPROVER_assume(g.count >= 1 && g.count <= (1UL << 40)); g_cores = malloc(sizeof(Core) * g.count); __CPROVER_assume(g_cores != 0);
  g_next_input = g_registered = g_attached = g_inline = g_comb_decrefs = 0; g_unique_cores = CB_PER_INPUT ? (nondet_uchar() & 1) : 1; void* s; Set(s, 0, g.count); if (g_inline) VF_CANARY("some already complete"); else VF_CANARY("all pending"); }
'''
            job('%s.%s' % (nm, kp[3:]), [b] + hb, src, 'Set', ['TAKE_INPUT', 'Register', 'SetCallbackAt', 'ConsumeDyn', 'CombDecRef'], canaries=2, loops=True,
                expect=[r'postcondition', r'invariant after step|loop_invariant_step', r'precondition'], timeout=300)
    # When (both entry functions): empty input => invalid future, no allocation; else one contract + one combinator with one reference per input, and the compile-time
    # choice of the combinator class is TRANSLATED (not dropped): `std::conditional_t<COND, A, B>` becomes `(COND') ? K_A : K_B` over free configuration predicates, and the
    # contract demands what SingleCombinator relies on (one callback node for all inputs => no index, and cores that need no list link of their own)
    from vf.cxx2c import drop_pinned
    ATOMS = [(r'kIsOrdered<\s*S::kConsumePolicy\s*>', 'g_ordered'), (r'IsUniqueCore<\s*Core\s*>::Value', 'g_unique'), (r'IsSharedCore<\s*Core\s*>::Value', '(!g_unique)'),
             (r'CoreSignature<\s*typename\s+Futures::Core\s*\.\.\.\s*>::kTotalCount\s*==\s*1', 'g_one_node'), (r'\btrue\b', '1'), (r'\bfalse\b', '0')]

    def selection(name, text):
        ms = list(re.finditer(r'using\s+FinalCombinator\s*=\s*std::conditional_t<', text))
        if len(ms) != 1:
            raise ExtractionBreak('%s: the combinator selection `using FinalCombinator = std::conditional_t<...>` was not found exactly once' % name)
        st = ms[0].end() - 1
        depth, i, parts, last = 0, st, [], st + 1
        while i < len(text):
            ch = text[i]
            if ch in '<(':
                depth += 1
            elif ch in '>)':
                depth -= 1
                if depth == 0:
                    parts.append(text[last:i]); break
            elif ch == ',' and depth == 1:
                parts.append(text[last:i]); last = i + 1
            i += 1
        end = text.find(';', i)
        if len(parts) != 3 or end < 0:
            raise ExtractionBreak('%s: combinator selection is not of the form conditional_t<COND, A, B>' % name)
        cond = parts[0]
        for rx, rep in ATOMS:
            cond = re.sub(rx, rep, cond)
        if re.search(r'[^\s!&|()\w]', cond) or [w for w in re.findall(r'[A-Za-z_]\w*', cond) if w not in ('g_ordered', 'g_unique', 'g_one_node')]:
            raise ExtractionBreak('%s: combinator selection condition has a term outside the translated vocabulary: %s' % (name, ' '.join(parts[0].split())))
        kinds = []
        for pt in parts[1:]:
            m = re.match(r'\s*(SingleCombinator|DynamicCombinator|StaticCombinator)\s*<', pt)
            if not m:
                raise ExtractionBreak('%s: unknown combinator class in the selection: %s' % (name, ' '.join(pt.split())))
            kinds.append('K_' + m.group(1))
        return text[:ms[0].start()] + text[end + 1:], '#define FINAL_KIND ((%s) ? %s : %s)\n' % (' '.join(cond.split()), kinds[0], kinds[1])

    WHEN_STUBS = COMMON + """unsigned g_allocs, g_sets; unsigned long g_comb_refs, g_comb_count, g_set_count; void* g_future;
enum { K_SingleCombinator = 1, K_DynamicCombinator, K_StaticCombinator }; unsigned char g_ordered, g_unique, g_one_node, g_comb_kind;
#define INVALID_FUTURE() ((void*)0)
void* MAKE_CONTRACT(void) __CPROVER_assigns(g_allocs, g_future) __CPROVER_ensures(g_allocs == OLD(g_allocs) + 1 && RET == g_future && RET != 0);
void* MAKE_COMBINATOR(int kind, unsigned long refs, unsigned long count) __CPROVER_assigns(g_allocs, g_comb_refs, g_comb_count, g_comb_kind)
  __CPROVER_ensures(g_allocs == OLD(g_allocs) + 1 && g_comb_refs == refs && g_comb_count == count && g_comb_kind == kind && RET != 0);
void COMB_SET(void* c, unsigned long count) __CPROVER_requires(c != 0)
/* C09: a SingleCombinator registers ITSELF (one InlineCore node) as the callback of every input and consumes without an index: legal only for strategies that need no index and for
   inputs that one node can serve (range form: unique cores, whose single callback slot needs no list link; a shared core links its callbacks through the node's `next`, and one
   node can be in one list only.  Static form: CoreSignature::kTotalCount == 1) - this is the precondition of SingleCombinator::Set, discharged here at its only call sites */
__CPROVER_requires(g_comb_kind == K_SingleCombinator ==> (!g_ordered && NODE_OK))
__CPROVER_requires(g_comb_kind == K_DynamicCombinator || g_comb_kind == K_StaticCombinator || g_comb_kind == K_SingleCombinator)
__CPROVER_assigns(g_sets, g_set_count) __CPROVER_ensures(g_sets == OLD(g_sets) + 1 && g_set_count == count);
"""
    POST = ('/* an empty input set yields an invalid future and allocates nothing (C09, C20); otherwise one contract and one combinator holding exactly one reference per input */\n'
            '__CPROVER_ensures(count == 0 ? (RET == (void*)0 && g_allocs == 0 && g_sets == 0) : (RET == g_future && g_allocs == 2 && g_comb_refs == count && g_comb_count == count && g_sets == 1 && g_set_count == count))\n')
    HARN = ('void harness(void) { size_t n; g_allocs = g_sets = 0; g_ordered = nondet_uchar() & 1; g_unique = nondet_uchar() & 1; g_one_node = nondet_uchar() & 1; void* f = When(0, n);\n'
            '  if (f && g_comb_kind == K_SingleCombinator) VF_CANARY("single node"); else if (f) VF_CANARY("node per input"); else VF_CANARY("empty input"); }\n')

    def when_dynamic():
        b_wd = find_body(repo, F_WHEN, r'auto\s+When\s*\(\s*Iterator\s+begin\s*,\s*std::size_t\s+count\s*\)', 'when::When(begin, count)')
        t, kind = selection('when::When(begin, count)', b_wd.text)
        t = drop_pinned('when::When(begin, count)', t, ['using Core = typename Value::Core;', 'using S = Strategy<F, OutputValue, OutputError, Core>;'])
        t = re.sub(r'static_assert\([^;]*\)\s*;', '', t)
        pre = [(r'return\s+Future<OutputValue,\s*OutputError>\{\s*nullptr\s*\}\s*;', 'return INVALID_FUTURE();', 0), (r'auto\s*\[\s*f\s*,\s*p\s*\]\s*=\s*MakeContract<OutputValue,\s*OutputError>\(\)\s*;', 'void* f = MAKE_CONTRACT();', 0),
               (r'auto\s*\*\s*combinator\s*=\s*MakeShared<FinalCombinator>\(\s*([^,;]+?)\s*,\s*([^,;]+?)\s*,\s*std::move\(p\)\s*\)\.Release\(\)\s*;', r'void* combinator = MAKE_COMBINATOR(FINAL_KIND, \1, \2);', 0),
               (r'combinator->Set\(\s*begin\s*,\s*count\s*\)\s*;', 'COMB_SET(combinator, count);', 0), (r'return\s+std::move\(f\)\s*;', 'return f;', 0)]
        c = Rewriter('When(dynamic)', pre=pre).rewrite(t)
        src = '#define NODE_OK g_unique\n' + WHEN_STUBS + kind + 'void* When(int begin, size_t count)\n__CPROVER_requires(g_allocs == 0 && g_sets == 0)\n' \
            '__CPROVER_assigns(g_allocs, g_future, g_comb_refs, g_comb_count, g_comb_kind, g_sets, g_set_count)\n' + POST + '{' + c + '}\n' + HARN
        job('When.dynamic', b_wd, src, 'When', ['MAKE_CONTRACT', 'MAKE_COMBINATOR', 'COMB_SET'], canaries=3)

    def when_static():
        b_ws = find_body(repo, F_WHEN, r'auto\s+When\s*\(\s*Futures\s*\.\.\.\s*futures\s*\)', 'when::When(futures...)')
        t = b_ws.text
        # `if constexpr (sizeof...(Futures) == 0) {A} else {B}`: both branches are kept, the pack size becomes the symbolic `count`
        t, k = re.subn(r'if\s+constexpr\s*\(\s*sizeof\.\.\.\(Futures\)\s*==\s*0\s*\)', 'if (count == 0)', t)
        if k != 1:
            raise ExtractionBreak('when::When(futures...): the empty-pack test `if constexpr (sizeof...(Futures) == 0)` was not found exactly once')
        t, kind = selection('when::When(futures...)', t)
        t = drop_pinned('when::When(futures...)', t, ['using Head = typename head_t<Futures...>::Core;', 'using Value = typename Head::Value;', 'using Error = typename Head::Error;',
            'using InputCore = std::conditional_t<(... && std::is_same_v<Head, typename Futures::Core>), Head, std::conditional_t<(... && (std::is_same_v<Value, typename Futures::Core::Value> && '
            'std::is_same_v<Error, typename Futures::Core::Error>)), detail::ResultCore<Value, Error>, detail::InlineCore>>;', 'using S = Strategy<F, OutputValue, OutputError, InputCore>;'])
        pre = [(r'return\s+Future<OutputValue,\s*OutputError>\{\s*nullptr\s*\}\s*;', 'return INVALID_FUTURE();', 0), (r'auto\s*\[\s*f\s*,\s*p\s*\]\s*=\s*MakeContract<OutputValue,\s*OutputError>\(\)\s*;', 'void* f = MAKE_CONTRACT();', 0),
               (r'sizeof\.\.\.\(Futures\)', 'count', 0),
               (r'auto\s*\*\s*combinator\s*=\s*MakeShared<FinalCombinator>\(\s*([^,;]+?)\s*,\s*([^,;]+?)\s*,\s*std::move\(p\)\s*\)\.Release\(\)\s*;', r'void* combinator = MAKE_COMBINATOR(FINAL_KIND, \1, \2);', 0),
               # every future of the pack gives up its core exactly once (pack expansion): the count of cores handed over is the pack size
               (r'combinator->Set\(\s*\*\s*futures\.GetCore\(\)\.Release\(\)\s*\.\.\.\s*\)\s*;', 'COMB_SET(combinator, count);', 0), (r'return\s+std::move\(f\)\s*;', 'return f;', 0)]
        c = Rewriter('When(static)', pre=pre).rewrite(t)
        src = '#define NODE_OK g_one_node\n' + WHEN_STUBS + kind + 'void* When(int futures, size_t count)\n__CPROVER_requires(g_allocs == 0 && g_sets == 0)\n' \
            '__CPROVER_assigns(g_allocs, g_future, g_comb_refs, g_comb_count, g_comb_kind, g_sets, g_set_count)\n' + POST + '{' + c + '}\n' + HARN
        job('When.static', b_ws, src, 'When', ['MAKE_CONTRACT', 'MAKE_COMBINATOR', 'COMB_SET'], canaries=3)

    for fn in (when_dynamic, when_static):
        try:
            fn()
        except ExtractionBreak as e:      # one entry function outside the recipe leaves the other jobs of this unit decided
            ctx.breaks.append(str(e))
    if getattr(ctx, 'prop', None) == 'C10':
        # WhenAny runs on the same combinator plumbing (entry functions, registration, callbacks, consume dispatch); the WhenAll / Join strategies are not its business
        out = [j for j in out if re.match(r'when/(Consume\.|CombinatorCallback\.|DynamicCombinator\.|SingleCombinator\.|StaticCombinator\.|When\.)', j.name)]
    return out


def replay(ctx, res, failed, rec):
    from vf.replay import run_driver
    fn = res.job.meta.get('fn', '')
    if fn.startswith('AllTuple.FirstFail'):
        return run_driver(ctx, 'whenall_tuple.cpp', timeout=60)
    if fn.startswith('When.') and 'COMB_SET' in ' '.join(o.desc for o in failed):
        return run_driver(ctx, 'whenall_shared_overlap.cpp', timeout=60)
    return None, 'no sequential witness driver for this obligation'
