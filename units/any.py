"""WhenAny strategies (include/yaclib/async/when/any.hpp): C10.

R/G contracts on the three per-policy state words with a ghost `elected` set inside the winning atomic step
(DESIGN A.5): Set is called exactly once, by the elected input, carrying that input's outcome.
"""
import re

from vf.cxx2c import Rewriter
from vf.extract import find_body
from vf.runner import Job

F = 'include/yaclib/async/when/any.hpp'

TRUSTED = ['Promise::Set (C01 producer contract) for the output; every input is consumed exactly once (C09 Consume contract: rely `remaining >= 1`)']
DROPPED = ['Result<V,E> is a (state, tag) pair; `std::move(_p).Set(std::forward<Result>(result).X())` becomes P_Set(self, RS_X, result) by recipe rule',
           'the constructors are initialiser lists only: `_state{2 * count}` is checked by a must-match rule on the source text']
ASSUMPTIONS = ['count < 2^62 inputs (2*count does not overflow)']

COMMON = r'''
#include "vf.h"
enum { RS_Value = 0, RS_Exception = 1, RS_Error = 2, RS_Empty = 3 };
typedef struct Res { unsigned char state; unsigned long tag; } Res;
#define RES_OK(r) ((r)->state == RS_Value)
#define RES_STATE(r) ((r)->state)
#define RG_WORD unsigned long
typedef struct Any { unsigned long _state; unsigned long _done; Res error; int _p; } Any;
struct Ghost {
  unsigned long remaining;       /* inputs not yet linearised, including this call */
  unsigned char elected;         /* some input won (its atomic step happened); it calls Set exactly once */
  unsigned char elected_me;
  unsigned char value_won;
  unsigned char out_set;         /* the output promise was Set */
  unsigned char out_state; unsigned long out_tag;
  unsigned char err_saved; unsigned char err_state; unsigned long err_tag;
  unsigned char my_state; unsigned long my_tag;
  unsigned char my_pending, last_failure, i_save, other_saves;
} g;
static void ghost_havoc(void) {
  g.remaining = nondet_ulong(); g.elected = nondet_bool(); g.elected_me = 0; g.value_won = nondet_bool(); g.out_set = nondet_bool();
  g.out_state = nondet_uint(); g.out_tag = nondet_ulong(); g.err_saved = nondet_bool(); g.err_state = nondet_uint(); g.err_tag = nondet_ulong();
}
/* the output promise: valid until Set; only the elected input (or the destructor) may Set it, exactly once */
void P_Set(Any* self, int state, Res* r)
__CPROVER_requires(g.elected_me && !g.out_set)                       /* C10: Set at most once per strategy lifetime, by the winner */
__CPROVER_requires(state == r->state)                                /* carrying that input's own outcome (value / error / exception as its state says) */
__CPROVER_assigns(g.out_set, g.out_state, g.out_tag)
__CPROVER_ensures(g.out_set == 1 && g.out_state == r->state && g.out_tag == r->tag);
'''


def pre_rules():
    return [
        # Result::operator bool in every boolean context (a bare pointer would be "always true" in C: guarded by units.when.check_bool)
        (r'if\s*\(\s*result\s*\)', 'if (RES_OK(result))', 0),
        (r'(&&|\|\|)\s*result\b(?!\s*[.\-(])', r'\1 RES_OK(result)', 0),
        (r'(?<![\w.>])result\s*(&&|\|\|)', r'RES_OK(result) \1', 0),
        (r'!\s*result\b(?!\s*[.\-(])', '!RES_OK(result)', 0),
        (r'result\.State\(\)\s*(==|!=)\s*ResultState::(\w+)', r'RES_STATE(result) \1 RS_\2', 0),
        (r'std::move\(_p\)\.Set\(\s*std::forward<Result>\(result\)\.(\w+)\(\)\s*\)\s*;', r'P_Set(self, RS_\1, result);', 0),
        (r'error\s*=\s*std::forward<Result>\(result\)\.(\w+)\(\)\s*;', r'ERR_SAVE(self, RS_\1, result);', 0),
        (r'\bState::(k\w+)', r'\1', 0),
        (r'\bState\s+expected\b', 'unsigned long expected', 0),
        (r'\b(\d+)U\b', r'\1u', 0),
    ]


def jobs(ctx):
    repo = ctx.repo
    props = ['C10', 'C03']
    out = []
    b_none = find_body(repo, F, r'void\s+Consume\s*\(\s*Result\s*&&\s*result\s*\)', 'Any<None>::Consume', within=r'struct\s+Any<FailPolicy::None,')
    b_ff = find_body(repo, F, r'void\s+Consume\s*\(\s*Result\s*&&\s*result\s*\)', 'Any<FirstFail>::Consume', within=r'struct\s+Any<FailPolicy::FirstFail,')
    b_ffd = find_body(repo, F, r'~Any\s*\(\s*\)', 'Any<FirstFail>::~Any', within=r'struct\s+Any<FailPolicy::FirstFail,')
    b_lf = find_body(repo, F, r'void\s+Consume\s*\(\s*Result\s*&&\s*result\s*\)', 'Any<LastFail>::Consume', within=r'struct\s+Any<FailPolicy::LastFail,')
    b_done = find_body(repo, F, r'static\s+bool\s+DoneImpl\s*\(', 'Any<LastFail>::DoneImpl', within=r'struct\s+Any<FailPolicy::LastFail,')
    b_ctor = find_body(repo, F, r'Any\s*\(\s*std::size_t\s+count\s*,\s*PromiseType\s+p\s*\)\s*:\s*_state\s*\{', 'Any<LastFail>::Any', within=r'struct\s+Any<FailPolicy::LastFail,')
    m_init = re.search(r':\s*_state\s*\{([^{}]*)\}', b_ctor.sig + '{' + b_ctor.text)
    from vf.extract import ExtractionBreak, read_source
    raw, txt = read_source(repo, F)
    m_init = re.search(r'Any\s*\(\s*std::size_t\s+count\s*,\s*PromiseType\s+p\s*\)\s*:\s*_state\s*\{([^{}]*)\}', txt)
    if not m_init:
        raise ExtractionBreak('Any<LastFail>::Any: initialiser of _state not found')
    init_expr = m_init.group(1)
    if not re.match(r'^[\s\w*+()-]*$', init_expr):
        raise ExtractionBreak('Any<LastFail>::Any: initialiser of _state is not plain arithmetic: ' + init_expr)

    harness = ('void harness(void) {\n  ghost_havoc();\n  Any* self; Res* result;\n  Consume(self, result);\n'
               '  if (g.elected_me) VF_CANARY("this input wins"); else VF_CANARY("this input loses");\n}\n')
    FRESH = '__CPROVER_requires(__CPROVER_is_fresh(self, sizeof(*self)) && __CPROVER_is_fresh(result, sizeof(*result)) && result->state <= RS_Error)'

    # ---------------- FailPolicy::None: whoever wins the exchange -------------------------------------------
    proto_none = COMMON + r'''
#define INV(W) ((W) <= 1 && g.elected <= 1 && g.out_set <= 1 && g.elected == (W) && (g.out_set ==> g.elected) && g.remaining >= 1)
static inline void rg_env(RG_WORD* p) {
  /* rely: the other inputs (at most remaining-1 of them) each do: load, maybe exchange(true) and then Set */
  if (g.remaining > 1 && nondet_bool()) {
    g.remaining -= 1;
    if (!*p) { *p = 1; g.elected = 1; }
    if (nondet_bool() && !g.elected_me) g.out_set = g.elected && !g.elected_me ? nondet_bool() : g.out_set;
  }
  __CPROVER_assert(INV(*p), "rely preserves Inv (None)");
}
static inline void rg_read(RG_WORD* p, RG_WORD v, int mo) { }
static inline void rg_write(RG_WORD* p, RG_WORD o, RG_WORD n, int mo, int kind) {
  __CPROVER_assert(kind == RG_XCHG && n == 1, "G: the only write is exchange(true)");
  if (o == 0) { __CPROVER_assert(!g.elected, "elected at most once"); g.elected = 1; g.elected_me = 1; }
  __CPROVER_assert(INV(*p), "own step preserves Inv (None)");
}
#include "rg_atomic.h"
'''
    c = Rewriter('Any<None>::Consume', atomics=['_done'], pre=pre_rules()).rewrite(b_none.text)
    from units.when import check_bool
    c = check_bool('Any<None>::Consume', c)
    contract = '''void Consume(Any* self, Res* result)
%s
__CPROVER_requires(INV(self->_done) && !g.elected_me)
__CPROVER_requires(!g.elected ==> !g.out_set)
__CPROVER_assigns(self->_done, g)
__CPROVER_ensures(INV(self->_done))
/* None: the output is Set exactly once, by whoever wins the exchange, with its own outcome; losers have no effect */
__CPROVER_ensures(g.elected)
__CPROVER_ensures(g.elected_me ==> (g.out_set && g.out_state == result->state && g.out_tag == result->tag))
''' % FRESH
    out.append(Job('any/None.Consume', props, proto_none + contract + '{' + c + '}\n' + harness, 'harness', enforce='Consume', replace=['P_Set'], funcs=[b_none], canaries=2,
                   expect=[r'postcondition', r'precondition'], meta={'fn': 'Any<None>::Consume'}))

    # ---------------- FailPolicy::LastFail ------------------------------------------------------------------------
    proto_lf = COMMON + r'''
/* A.5: S even => S == 2*remaining (only failures so far), nobody elected; S odd => a value won and is elected */
#define INV(W) ( g.elected <= 1 && g.value_won <= 1 && g.out_set <= 1 && g.remaining < (1UL << 62)                     \
   && ((((W) & 1) == 0) ==> ((W) == 2 * g.remaining && !g.value_won && g.elected == ((W) == 0)))                     \
   && ((((W) & 1) == 1) ==> (g.value_won && g.elected)) && (g.out_set ==> g.elected) )
static inline void rg_env(RG_WORD* p) {
  /* rely: k of the other not-yet-linearised inputs fail, then possibly one delivers a value, then anything odd */
  if ((*p & 1) == 0) {
    if (!g.elected_me) {
      unsigned long k = nondet_ulong();
      __CPROVER_assume(g.remaining >= 1 && k <= g.remaining - (g.my_pending ? 1 : 0) && k <= g.remaining);
      *p -= 2 * k; g.remaining -= k;
      if (*p == 0) g.elected = 1;
      else if (g.remaining > (g.my_pending ? 1UL : 0UL) && nondet_bool()) { *p = 1; g.value_won = 1; g.elected = 1; g.remaining -= 1; }
    }
  } else {
    unsigned long w = nondet_ulong(); __CPROVER_assume(w & 1); *p = w;
  }
  if (g.elected && !g.elected_me && nondet_bool()) g.out_set = 1;
  __CPROVER_assert(INV(*p), "rely preserves Inv (LastFail)");
}
static inline void rg_read(RG_WORD* p, RG_WORD v, int mo) { }
static inline void rg_write(RG_WORD* p, RG_WORD o, RG_WORD n, int mo, int kind) {
  __CPROVER_assert(g.my_pending, "one linearisation step per input");
  g.my_pending = 0;
  if (kind == RG_XCHG) {
    __CPROVER_assert(n == 1 && g.my_state == RS_Value, "G_value: a value input exchanges 1 in");
    if ((o & 1) == 0) { __CPROVER_assert(!g.elected, "elected at most once"); g.elected = 1; g.elected_me = 1; g.value_won = 1; }
    g.remaining -= ((o & 1) == 0);
  } else {
    __CPROVER_assert(kind == RG_SUB && o - n == 2 && g.my_state != RS_Value, "G_fail: a failed input subtracts 2");
    if ((o & 1) == 0) { g.remaining -= 1; if (o == 2) { __CPROVER_assert(!g.elected, "elected at most once"); g.elected = 1; g.elected_me = 1; g.last_failure = 1; } }
  }
  __CPROVER_assert(INV(*p), "own step preserves Inv (LastFail)");
}
#include "rg_atomic.h"
'''
    c = Rewriter('Any<LastFail>::Consume', atomics=['_state'], pre=pre_rules()).rewrite(b_lf.text)
    from units.when import check_bool
    c = check_bool('Any<LastFail>::Consume', c)
    cd = Rewriter('DoneImpl', pre=pre_rules()).rewrite(b_done.text)
    contract = '''int DoneImpl(unsigned long value)
__CPROVER_assigns()
__CPROVER_ensures(RET == (int)(value & 1))
{%s}
void Consume(Any* self, Res* result)
%s
__CPROVER_requires(INV(self->_state) && !g.elected_me && g.my_pending == 1 && g.last_failure == 0 && g.remaining >= 1 && g.my_state == result->state && g.my_tag == result->tag)
__CPROVER_requires(!g.elected ==> !g.out_set)
__CPROVER_assigns(self->_state, g)
__CPROVER_ensures(INV(self->_state))
/* LastFail: Set exactly once; a value wins iff it is the first value to arrive; a failure wins only if it is the last input and no value arrived */
__CPROVER_ensures(g.elected_me ==> (g.out_set && g.out_state == result->state && g.out_tag == result->tag))
__CPROVER_ensures((g.elected_me && result->state != RS_Value) ==> (g.last_failure && g.remaining == 0 && !g.value_won))
__CPROVER_ensures((g.elected_me && result->state == RS_Value) ==> g.value_won)
__CPROVER_ensures((!g.elected_me && result->state == RS_Value) ==> g.value_won)    /* a losing value lost against an earlier value */
''' % (cd, FRESH)
    h = harness.replace('ghost_havoc();', 'ghost_havoc(); g.my_pending = 1; g.last_failure = 0; g.my_state = nondet_uint(); g.my_tag = nondet_ulong();')
    h = h.replace('if (g.elected_me) VF_CANARY("this input wins"); else VF_CANARY("this input loses");',
                  'if (g.elected_me && g.last_failure) VF_CANARY("last failure wins"); else if (g.elected_me) VF_CANARY("first value wins"); else VF_CANARY("this input loses");')
    out.append(Job('any/LastFail.Consume', props, proto_lf + contract + '{' + c + '}\n' + h, 'harness', enforce='Consume', replace=['P_Set'], funcs=[b_lf, b_done], canaries=3,
                   expect=[r'postcondition', r'G_value|G_fail'], meta={'fn': 'Any<LastFail>::Consume'}))
    src = '#include "vf.h"\nint DoneImpl(unsigned long value)\n__CPROVER_assigns()\n__CPROVER_ensures(RET == (int)(value & 1))\n{%s}\nvoid harness(void) { unsigned long v; int r = DoneImpl(v); if (r) VF_CANARY("done"); else VF_CANARY("open"); }\n' % cd
    out.append(Job('any/LastFail.DoneImpl', props, src, 'harness', enforce='DoneImpl', funcs=[b_done], canaries=2, expect=[r'postcondition'], meta={'fn': 'DoneImpl'}))
    # constructor: the state starts at 2*count (text rule: the signature regexp above demands `_state{2 * count}`); lemma: initial state satisfies Inv
    lem = proto_lf + '''void lemma_init(void) { unsigned long count = nondet_ulong(); __CPROVER_assume(count >= 1 && count < (1UL << 62));
  g.remaining = count; g.elected = 0; g.value_won = 0; g.out_set = 0;
  unsigned long S = INIT_EXPR;     /* the member initialiser of _state, text taken from the constructor */
  __CPROVER_assert(INV(S), "lemma: the initial state 2*count with nothing consumed satisfies Inv (LastFail)");
  VF_CANARY("lemma reachable"); }
'''
    lem = lem.replace('INIT_EXPR', '(' + init_expr + ')')
    out.append(Job('any/LastFail.lemma_init', props, lem, 'lemma_init', kind='lemma', funcs=[b_ctor], expect=[r'lemma'], meta={'fn': 'Any<LastFail>::Any'}))

    # ---------------- FailPolicy::FirstFail ---------------------------------------------------------------------------
    proto_ff = COMMON + r'''
enum { kEmpty = 0, kError = 1, kValue = 2 };
/* T == kValue <=> a value was elected; T == kError => exactly one failure won empty->error and saves `error`; the destructor publishes it */
#define INV(W) ( (W) <= kValue && g.elected <= 1 && g.value_won <= 1 && g.out_set <= 1 && g.err_saved <= 1            \
   && (((W) == kValue) == g.value_won) && (g.value_won ==> g.elected) && (g.out_set ==> g.value_won)                  \
   && (g.err_saved ==> ((W) != kEmpty)) && g.remaining >= 1 )
static inline void rg_env(RG_WORD* p) {
  if (g.remaining > 1 && nondet_bool()) {
    g.remaining -= 1;
    if (nondet_bool()) { if (*p != kValue) { *p = kValue; g.value_won = 1; g.elected = 1; } }      /* another value */
    else if (*p == kEmpty) { *p = kError; g.other_saves = 1; }                                     /* another failure wins */
  }
  if (g.value_won && !g.elected_me && nondet_bool()) g.out_set = 1;
  if (g.other_saves && nondet_bool()) { g.err_saved = 1; g.other_saves = 0; }
  __CPROVER_assert(INV(*p), "rely preserves Inv (FirstFail)");
}
static inline void rg_read(RG_WORD* p, RG_WORD v, int mo) { }
static inline void rg_write(RG_WORD* p, RG_WORD o, RG_WORD n, int mo, int kind) {
  if (n == kValue) {
    __CPROVER_assert(kind == RG_XCHG && g.my_state == RS_Value, "G_value: a value input exchanges kValue in");
    if (o != kValue) { __CPROVER_assert(!g.value_won, "a value is elected at most once"); g.value_won = 1; g.elected = 1; g.elected_me = 1; }
  } else {
    __CPROVER_assert(kind == RG_CAS && o == kEmpty && n == kError && g.my_state != RS_Value, "G_fail: a failure only moves empty -> error");
    g.i_save = 1;
  }
  __CPROVER_assert(INV(*p), "own step preserves Inv (FirstFail)");
}
#include "rg_atomic.h"
void ERR_SAVE(Any* self, int state, Res* r)
__CPROVER_requires(g.i_save && !g.err_saved && state == r->state)       /* only the failure that won empty->error writes `error`, with its own outcome */
__CPROVER_assigns(g.err_saved, g.err_state, g.err_tag)
__CPROVER_ensures(g.err_saved == 1 && g.err_state == r->state && g.err_tag == r->tag);
'''
    c = Rewriter('Any<FirstFail>::Consume', atomics=['_state'], pre=pre_rules()).rewrite(b_ff.text)
    from units.when import check_bool
    c = check_bool('Any<FirstFail>::Consume', c)
    contract = '''void Consume(Any* self, Res* result)
%s
__CPROVER_requires(INV(self->_state) && !g.elected_me && !g.i_save && !g.other_saves && g.my_state == result->state && g.my_tag == result->tag)
__CPROVER_assigns(self->_state, g)
__CPROVER_ensures(INV(self->_state))
/* FirstFail: the first value (by exchange order) is Set at once; with no value the failure that won empty->error is saved for the destructor */
__CPROVER_ensures(g.elected_me ==> (result->state == RS_Value && g.out_set && g.out_state == result->state && g.out_tag == result->tag))
__CPROVER_ensures(result->state == RS_Value ==> g.value_won)
__CPROVER_ensures(g.i_save ==> (result->state != RS_Value && g.err_saved && g.err_state == result->state && g.err_tag == result->tag))
__CPROVER_ensures(self->_state != kEmpty)
''' % FRESH
    h = harness.replace('ghost_havoc();', 'ghost_havoc(); g.i_save = 0; g.other_saves = 0; g.my_state = nondet_uint(); g.my_tag = nondet_ulong();')
    h = h.replace('if (g.elected_me) VF_CANARY("this input wins"); else VF_CANARY("this input loses");',
                  'if (g.elected_me) VF_CANARY("value wins"); else if (g.i_save) VF_CANARY("first failure saved"); else VF_CANARY("this input loses");')
    out.append(Job('any/FirstFail.Consume', props, proto_ff + contract + '{' + c + '}\n' + h, 'harness', enforce='Consume', replace=['P_Set', 'ERR_SAVE'], funcs=[b_ff], canaries=3,
                   expect=[r'postcondition', r'G_value|G_fail'], meta={'fn': 'Any<FirstFail>::Consume'}))
    # destructor: runs after every input was consumed
    pre = pre_rules() + [(r'_p\.Valid\(\)', 'P_Valid(self)', 0), (r'error\.State\(\)\s*(==|!=)\s*ResultState::(\w+)', r'g.err_state \1 RS_\2', 0),
                         (r'std::move\(_p\)\.Set\(\s*std::move\(error\)\.(\w+)\(\)\s*\)\s*;', r'P_Set_saved(self, RS_\1);', 0)]
    c = Rewriter('Any<FirstFail>::~Any', pre=pre).rewrite(b_ffd.text)
    src = proto_ff + '''int P_Valid(Any* self) __CPROVER_assigns() __CPROVER_ensures(RET == !g.out_set);
void P_Set_saved(Any* self, int state)
__CPROVER_requires(!g.out_set && g.err_saved && state == g.err_state)      /* publishes the saved first failure as what it was (error / exception) */
__CPROVER_assigns(g.out_set, g.out_state, g.out_tag)
__CPROVER_ensures(g.out_set == 1 && g.out_state == g.err_state && g.out_tag == g.err_tag);
void Dtor(Any* self)
__CPROVER_requires(__CPROVER_is_fresh(self, sizeof(*self)))
/* quiescence: every input was consumed (count >= 1), so T != kEmpty; a won value was Set; a won failure was saved */
__CPROVER_requires(self->_state != kEmpty && self->_state <= kValue && g.out_set == (self->_state == kValue) && (self->_state == kError ==> g.err_saved) && g.err_state != RS_Value && g.err_state <= RS_Error)
__CPROVER_assigns(g.out_set, g.out_state, g.out_tag)
/* the output is completed exactly once overall */
__CPROVER_ensures(g.out_set == 1)
__CPROVER_ensures(OLD(self->_state) == kError ==> (g.out_state == g.err_state && g.out_tag == g.err_tag))
{''' + c + '''}
void harness(void) { ghost_havoc(); Any* self; Dtor(self); if (g.out_state == RS_Value) VF_CANARY("value was already set"); else VF_CANARY("failure published"); }
'''
    out.append(Job('any/FirstFail.Dtor', props, src, 'harness', enforce='Dtor', replace=['P_Valid', 'P_Set_saved'], funcs=[b_ffd], canaries=1, expect=[r'postcondition', r'precondition'], meta={'fn': 'Any<FirstFail>::~Any'}))
    # ---- WhenAny(begin, count): the one-future short cut ---------------------------------------------------------------------------------------------
    F_WA = 'include/yaclib/async/when_any.hpp'
    b = find_body(repo, F_WA, r'auto\s+WhenAny\s*\(\s*It\s+begin\s*,\s*std::size_t\s+count\s*\)', 'WhenAny(begin, count)')
    pre = [(r'is_future_base_v<T>', 'IS_UNIQUE', 0), (r'using\s+\w+\s*=\s*async_\w+_t<T>\s*;', '', 0),
           (r'return\s+Future<V,\s*E>\{\s*std::exchange\(\s*begin->GetCore\(\)\s*,\s*nullptr\s*\)\s*\}\s*;', '{ Core* vf_c = begin->_core; begin->_core = 0; return vf_c; }', 1),
           (r'return\s+when::When<when::Any,\s*F,\s*typename\s+T::Core::Value,\s*typename\s+T::Core::Error>\(\s*begin\s*,\s*count\s*\)\s*;', 'return WHEN_ANY(begin, count);', 1)]
    c = Rewriter('WhenAny(begin, count)', pre=pre).rewrite(b.text)
    for uq in (0, 1):
        src = '#include "vf.h"\n#define IS_UNIQUE %d\n' % uq + '''typedef struct Core { int x; } Core; typedef struct Handle { Core* _core; } Handle;
unsigned g_whens; Handle* g_when_begin; size_t g_when_count; Core g_out;
Core* WHEN_ANY(Handle* b, size_t n) __CPROVER_requires(g_whens == 0) __CPROVER_assigns(g_whens, g_when_begin, g_when_count) __CPROVER_ensures(g_whens == 1 && g_when_begin == b && g_when_count == n && RET == &g_out);
Core* WhenAny(Handle* begin, size_t count)
__CPROVER_requires(__CPROVER_is_fresh(begin, sizeof(*begin)) && begin->_core != 0 && g_whens == 0)
__CPROVER_assigns(begin->_core, g_whens, g_when_begin, g_when_count)
/* C10: WhenAny over exactly one unique future IS that future (its outcome, its readiness moment; the input handle is consumed, nothing is allocated); every other case goes through the
   combinator exactly once with the whole range (SharedFuture inputs always do: the input must stay usable) */
__CPROVER_ensures((IS_UNIQUE && count == 1) ? (RET == OLD(begin->_core) && begin->_core == 0 && g_whens == 0) : (g_whens == 1 && g_when_begin == begin && g_when_count == count && RET == &g_out && begin->_core == OLD(begin->_core)))
{''' + c + '''}
void harness(void) { g_whens = 0; Handle* b; size_t n; WhenAny(b, n); if (g_whens) VF_CANARY("combinator"); else VF_CANARY("the future itself"); }
'''
        out.append(Job('any/WhenAny.range.unique%d' % uq, props + ['C20'], src, 'harness', enforce='WhenAny', replace=['WHEN_ANY'], funcs=[b], canaries=2 if uq else 1, expect=[r'postcondition'], meta={'fn': 'WhenAny(begin, count)'}))
    return out
