"""The fiber scheduler's loop (src/fault/fiber/scheduler.cpp: RunLoop, GetNext, Schedule, RescheduleCurrent):  C17, C18.

C17: a run is a function of the seed - every iteration takes its scheduling decision from the seeded generator exactly once (GetNext = one PollRandomElementFromList over the run
queue), in a fixed order of effects: (nothing runnable => jump virtual time to the earliest sleeper) -> wake everybody whose time has come -> pick -> tick -> resume.
C18: nobody runnable is forgotten and nobody is resumed twice for one pick; with nothing runnable but sleepers present the clock is advanced so that somebody becomes runnable (a
timed wait ends); the loop ends only when neither runnable nor sleeping fibers exist; a completed fiber is deleted exactly when its thread object let go of it.
The run queue and the sleep map are counts here (their element-wise contracts are units fault_sched and sleep_map); what a resumed fiber does is arbitrary interference.
"""
import re

from vf.cxx2c import Rewriter, attach_loop_contracts
from vf.extract import ExtractionBreak, find_body
from vf.runner import Job

F = 'src/fault/fiber/scheduler.cpp'
TRUSTED = ['AdvanceTime / WakeUpNeeded / TickTime / PollRandomElementFromList (units fault_sched, sleep_map: time jumps exactly to the earliest sleeper, every due sleeper is moved to the run queue, '
           'one tick per resumption, one seeded draw per pick)', 'fiber context switching: Resume() returns when the fiber suspends or completes; what it does in between is arbitrary']
DROPPED = ['`_queue` and `_sleep_list` are counts (runnable fibers, sleepers, sleepers whose time has come); `static thread_local sCurrent` is a global',
           'the casts between FiberBase and its BiNodeScheduler base are dropped']
ASSUMPTIONS = ['every bucket of the sleep map holds at least one sleeper (kept by Sleep / SleepPreemptive / WakeUpNeeded: unit sleep_map erases emptied buckets), so "sleep map not empty" means "somebody sleeps"',
               'fewer than 2^60 fibers']

COMMON = r'''
#include "vf.h"
typedef struct Fiber { int dummy; } Fiber;
typedef struct Sched { _Bool _running; } Sched;
Fiber* sCurrent;
struct Ghost { unsigned long q, s, due; unsigned long picks, ticks, resumes, deletes, advances, wakes; Fiber* picked; unsigned char picked_state_completed, picked_thread_alive, resumed_current_ok, order_ok;
               unsigned long pushes, suspends, run_loops; Fiber* pushed; unsigned char pushed_state_waiting, push_before_suspend, running_during_loop; } g;
#define INV (g.due <= g.s && g.s < (1UL << 60) && g.q < (1UL << 60))
static void ghost_reset(void) { g.picks = g.ticks = g.resumes = g.deletes = g.advances = g.wakes = 0; g.pushes = g.suspends = g.run_loops = 0; g.order_ok = 1; g.resumed_current_ok = 1; }
int QUEUE_EMPTY(void) __CPROVER_assigns() __CPROVER_ensures(RET == (g.q == 0));
int SLEEP_EMPTY(void) __CPROVER_assigns() __CPROVER_ensures(RET == (g.s == 0));
/* AdvanceTime dereferences _sleep_list.begin(): only with a sleeper present; afterwards the earliest sleeper's time has come */
void AdvanceTime(Sched* self) __CPROVER_requires(g.s >= 1 && INV) __CPROVER_assigns(g.due, g.advances) __CPROVER_ensures(g.due >= 1 && g.due <= g.s && g.due >= OLD(g.due) && g.advances == OLD(g.advances) + 1);
/* every sleeper whose time has come becomes runnable, nobody else */
void WakeUpNeeded(Sched* self) __CPROVER_requires(INV) __CPROVER_assigns(g.q, g.s, g.due, g.wakes) __CPROVER_ensures(g.q == OLD(g.q) + OLD(g.due) && g.s == OLD(g.s) - OLD(g.due) && g.due == 0 && g.wakes == OLD(g.wakes) + 1);
/* GetNext (own job): one seeded pick out of a non-empty run queue */
Fiber* GetNext(Sched* self) __CPROVER_requires(g.q >= 1 && g.picks == g.resumes && g.wakes == g.picks + 1) __CPROVER_assigns(g.q, g.picks, g.picked)
  __CPROVER_ensures(g.q == OLD(g.q) - 1 && g.picks == OLD(g.picks) + 1 && RET == g.picked && RET != 0);
void TickTime(Sched* self) __CPROVER_requires(g.ticks + 1 == g.picks) __CPROVER_assigns(g.ticks) __CPROVER_ensures(g.ticks == OLD(g.ticks) + 1);
/* the picked fiber runs until it suspends or completes: it may make fibers runnable (notify, spawn), go to sleep itself, let time pass - anything that keeps the counts consistent */
void Resume(Fiber* f) __CPROVER_requires(f == g.picked && g.ticks == g.picks && g.resumes + 1 == g.picks)
  __CPROVER_assigns(g.q, g.s, g.due, g.resumes, g.picked_state_completed, g.picked_thread_alive, g.resumed_current_ok)
  __CPROVER_ensures(INV && g.resumes == OLD(g.resumes) + 1 && g.picked_state_completed <= 1 && g.picked_thread_alive <= 1 && g.resumed_current_ok == (OLD(g.resumed_current_ok) && sCurrent == f));
int STATE_IS_COMPLETED(Fiber* f) __CPROVER_requires(f == g.picked) __CPROVER_assigns() __CPROVER_ensures(RET == g.picked_state_completed);
int IsThreadAlive(Fiber* f) __CPROVER_requires(f == g.picked) __CPROVER_assigns() __CPROVER_ensures(RET == g.picked_thread_alive);
void DELETE_FIBER(Fiber* f)
/* C18, C03: a fiber is freed by the scheduler only when it has completed AND its thread object has let go (detached / joined and destroyed) - never while somebody can still join it, never a live one */
__CPROVER_requires(f == g.picked && g.picked_state_completed && !g.picked_thread_alive && g.resumes == g.picks)
__CPROVER_assigns(g.deletes) __CPROVER_ensures(g.deletes == OLD(g.deletes) + 1);
'''


def jobs(ctx):
    repo = ctx.repo
    props = ['C17', 'C18']
    out = []

    def guarded(fn):
        try:
            fn()
        except ExtractionBreak as e:
            ctx.breaks.append(str(e))

    pre = [(r'_queue\.Empty\(\)', 'QUEUE_EMPTY()', 0), (r'_sleep_list\.empty\(\)', 'SLEEP_EMPTY()', 0), (r'next->Resume\(\)', 'Resume(next)', 0),
           (r'next->GetState\(\)\s*==\s*detail::fiber::Completed', 'STATE_IS_COMPLETED(next)', 0), (r'next->IsThreadAlive\(\)', 'IsThreadAlive(next)', 0),
           (r'delete\s+next\s*;', 'DELETE_FIBER(next);', 0), (r'auto\s*\*\s*next\s*=\s*GetNext\(\)\s*;', 'Fiber* next = GetNext(self);', 0)]

    def run_loop():
        b = find_body(repo, F, r'void\s+Scheduler::RunLoop\s*\(\s*\)', 'Scheduler::RunLoop')
        c = Rewriter('Scheduler::RunLoop', pre=pre, methods=['AdvanceTime', 'WakeUpNeeded', 'TickTime'], nomembers=['_queue', '_sleep_list']).rewrite(b.text)
        inv = ('__CPROVER_assigns(g.q, g.s, g.due, g.picks, g.ticks, g.resumes, g.deletes, g.advances, g.wakes, g.picked, g.picked_state_completed, g.picked_thread_alive, g.resumed_current_ok, sCurrent)\n'
               '__CPROVER_loop_invariant(INV && g.picks == g.resumes && g.ticks == g.picks && g.wakes == g.picks && g.resumed_current_ok)')
        c = attach_loop_contracts('Scheduler::RunLoop', c, [inv])
        src = COMMON + '''void RunLoop(Sched* self)
__CPROVER_requires(__CPROVER_is_fresh(self, sizeof(*self)) && INV && g.picks == 0 && g.ticks == 0 && g.resumes == 0 && g.deletes == 0 && g.advances == 0 && g.wakes == 0 && g.resumed_current_ok)
__CPROVER_assigns(g.q, g.s, g.due, g.picks, g.ticks, g.resumes, g.deletes, g.advances, g.wakes, g.picked, g.picked_state_completed, g.picked_thread_alive, g.resumed_current_ok, sCurrent)
/* C18: the loop ends only when nobody is runnable and nobody sleeps; C17: every resumption is exactly one wake-up pass, one seeded pick, one tick, in this order, and the picked fiber
   is the current one while it runs; afterwards no fiber is current */
__CPROVER_ensures(g.q == 0 && g.s == 0 && sCurrent == 0)
__CPROVER_ensures(g.picks == g.resumes && g.ticks == g.resumes && g.wakes == g.resumes && g.resumed_current_ok)
{''' + c + '''}
void harness(void) { ghost_reset(); Sched* s; RunLoop(s); if (g.resumes) VF_CANARY("ran fibers"); else VF_CANARY("nothing to run"); }
'''
        out.append(Job('run_loop/RunLoop', props, src, 'harness', enforce='RunLoop', replace=['QUEUE_EMPTY', 'SLEEP_EMPTY', 'AdvanceTime', 'WakeUpNeeded', 'GetNext', 'TickTime', 'Resume', 'STATE_IS_COMPLETED', 'IsThreadAlive', 'DELETE_FIBER'],
                       loop_contracts=True, funcs=[b], canaries=2, expect=[r'postcondition', r'invariant after step|loop_invariant_step', r'precondition'], meta={'fn': 'RunLoop'}))
    guarded(run_loop)

    def get_next():
        b = find_body(repo, F, r'detail::fiber::FiberBase\s*\*\s*Scheduler::GetNext\s*\(\s*\)', 'Scheduler::GetNext')
        c = Rewriter('Scheduler::GetNext', pre=[(r'auto\s*\*\s*next\s*=\s*PollRandomElementFromList\(\s*_queue\s*\)\s*;', 'Fiber* next = POLL_QUEUE();', 1),
                                                (r'return\s+static_cast<detail::fiber::FiberBase\s*\*>\(\s*static_cast<detail::fiber::BiNodeScheduler\s*\*>\(\s*next\s*\)\s*\)\s*;', 'return next;', 1),
                                                (r'YACLIB_DEBUG\([^;]*\)\s*;', '', 0)], nomembers=['_queue']).rewrite(b.text)
        src = '#include "vf.h"\n' + '''typedef struct Fiber { int dummy; } Fiber; typedef struct Sched { int d; } Sched;
unsigned long g_q; unsigned g_polls; Fiber* g_poll_result;
/* PollRandomElementFromList (unit fault_sched): removes one element chosen by the seeded generator from a non-empty list */
Fiber* POLL_QUEUE(void) __CPROVER_requires(g_q >= 1) __CPROVER_assigns(g_q, g_polls) __CPROVER_ensures(g_q == OLD(g_q) - 1 && g_polls == OLD(g_polls) + 1 && RET == g_poll_result && RET != 0);
Fiber* GetNext(Sched* self)
__CPROVER_requires(g_q >= 1 && g_polls == 0)
__CPROVER_assigns(g_q, g_polls)
/* C17: the next fiber is exactly one seeded draw from the run queue (removed from it) - no other source of choice */
__CPROVER_ensures(g_polls == 1 && RET == g_poll_result && g_q == OLD(g_q) - 1)
{''' + c + '''}
void harness(void) { g_polls = 0; Sched* s; GetNext(s); VF_CANARY("end"); }
'''
        out.append(Job('run_loop/GetNext', props, src, 'harness', enforce='GetNext', replace=['POLL_QUEUE'], funcs=[b], expect=[r'postcondition', r'precondition'], meta={'fn': 'GetNext'}))
    guarded(get_next)

    SCHED = '#include "vf.h"\n' + '''typedef struct Fiber { int dummy; } Fiber; typedef struct Sched { _Bool _running; } Sched;
Fiber* sCurrent; Sched g_sched;
unsigned g_pushes, g_suspends, g_run_loops, g_set_states; Fiber* g_pushed; Fiber* g_suspended; unsigned char g_state_waiting, g_push_before_suspend, g_state_before_push, g_running_in_loop;
enum { ST_Waiting = 1 };
void SET_STATE(Fiber* f, int st) __CPROVER_assigns(g_set_states, g_state_waiting) __CPROVER_ensures(g_set_states == OLD(g_set_states) + 1 && g_state_waiting == (st == ST_Waiting));
void QUEUE_PUSH(Sched* s, Fiber* f) __CPROVER_requires(f != 0) __CPROVER_assigns(g_pushes, g_pushed, g_state_before_push) __CPROVER_ensures(g_pushes == OLD(g_pushes) + 1 && g_pushed == f && g_state_before_push == (g_set_states >= 1));
void SUSPEND(Fiber* f) __CPROVER_requires(f != 0) __CPROVER_assigns(g_suspends, g_suspended, g_push_before_suspend) __CPROVER_ensures(g_suspends == OLD(g_suspends) + 1 && g_suspended == f && g_push_before_suspend == (g_pushes >= 1));
void RunLoopS(Sched* s) __CPROVER_requires(g_pushes >= 1) __CPROVER_assigns(g_run_loops, g_running_in_loop) __CPROVER_ensures(g_run_loops == OLD(g_run_loops) + 1 && g_running_in_loop == (s->_running != 0));
Sched* GetScheduler(void) __CPROVER_assigns() __CPROVER_ensures(RET == &g_sched);
static void reset(void) { g_pushes = g_suspends = g_run_loops = g_set_states = 0; }
'''
    spre = [(r'fiber->SetState\(\s*detail::fiber::Waiting\s*\)', 'SET_STATE(fiber, ST_Waiting)', 0),
            (r'GetScheduler\(\)->_queue\.PushBack\(\s*static_cast<detail::fiber::BiNodeScheduler\s*\*>\(\s*fiber\s*\)\s*\)', 'QUEUE_PUSH(GetScheduler(), fiber)', 0),
            (r'_queue\.PushBack\(\s*static_cast<detail::fiber::BiNodeScheduler\s*\*>\(\s*fiber\s*\)\s*\)', 'QUEUE_PUSH(self, fiber)', 0),
            (r'fiber->Suspend\(\)', 'SUSPEND(fiber)', 0), (r'(?<![\\w.>:])RunLoop\(\s*\)', 'RunLoopS(self)', 0), (r'auto\s*\*\s*fiber\s*=\s*sCurrent\s*;', 'Fiber* fiber = sCurrent;', 0)]

    def schedule():
        b = find_body(repo, F, r'void\s+Scheduler::Schedule\s*\(\s*detail::fiber::FiberBase\s*\*\s*fiber\s*\)', 'Scheduler::Schedule')
        c = Rewriter('Scheduler::Schedule', pre=spre, nomembers=['_queue']).rewrite(b.text)
        src = SCHED + '''void Schedule(Sched* self, Fiber* fiber)
__CPROVER_requires(__CPROVER_is_fresh(self, sizeof(*self)) && fiber != 0 && g_pushes == 0 && g_run_loops == 0 && g_set_states == 0 && self->_running <= 1)
__CPROVER_assigns(self->_running, g_pushes, g_pushed, g_state_before_push, g_set_states, g_state_waiting, g_run_loops, g_running_in_loop)
/* C18: a new fiber becomes runnable exactly once (marked Waiting first); the loop is entered by the outermost Schedule only - never re-entered from inside a running fiber -
   with the running flag up for its whole duration and restored afterwards */
__CPROVER_ensures(g_pushes == 1 && g_pushed == fiber && g_state_waiting && g_state_before_push)
__CPROVER_ensures(OLD(self->_running) ? (g_run_loops == 0 && self->_running) : (g_run_loops == 1 && g_running_in_loop && !self->_running))
{''' + c + '''}
void harness(void) { reset(); Sched* s; Fiber* f; Schedule(s, f); if (g_run_loops) VF_CANARY("outermost: runs the loop"); else VF_CANARY("from inside a fiber"); }
'''
        out.append(Job('run_loop/Schedule', props, src, 'harness', enforce='Schedule', replace=['SET_STATE', 'QUEUE_PUSH', 'RunLoopS'], funcs=[b], canaries=2, expect=[r'postcondition'], meta={'fn': 'Schedule'}))
    guarded(schedule)

    def reschedule():
        b = find_body(repo, F, r'void\s+Scheduler::RescheduleCurrent\s*\(\s*\)', 'Scheduler::RescheduleCurrent')
        c = Rewriter('Scheduler::RescheduleCurrent', pre=spre, nomembers=['_queue']).rewrite(b.text)
        src = SCHED + '''void RescheduleCurrent(void)
__CPROVER_requires(g_pushes == 0 && g_suspends == 0)
__CPROVER_assigns(g_pushes, g_pushed, g_state_before_push, g_suspends, g_suspended, g_push_before_suspend)
/* C18: a yield outside any fiber does nothing; inside, the current fiber is made runnable again FIRST (exactly once) and only then suspended - a fiber that suspends before it is
   queued is never resumed */
__CPROVER_ensures(sCurrent == 0 ? (g_pushes == 0 && g_suspends == 0) : (g_pushes == 1 && g_pushed == sCurrent && g_suspends == 1 && g_suspended == sCurrent && g_push_before_suspend))
{''' + c + '''}
void harness(void) { reset(); RescheduleCurrent(); if (sCurrent) VF_CANARY("yield"); else VF_CANARY("no fiber"); }
'''
        out.append(Job('run_loop/RescheduleCurrent', props, src, 'harness', enforce='RescheduleCurrent', replace=['QUEUE_PUSH', 'SUSPEND', 'GetScheduler'], funcs=[b], canaries=2, expect=[r'postcondition'], meta={'fn': 'RescheduleCurrent'}))
    guarded(reschedule)
    return out


def replay(ctx, res, failed, rec):
    return None, 'no sequential witness driver for this obligation'
