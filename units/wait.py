"""Wait / WaitFor / WaitUntil (include/yaclib/async/detail/wait_impl.hpp, shared_event.hpp):  C11 (+ C20: no allocation).

Counter accounting of WaitRange (DESIGN A.7) with the futures' completions as environment steps; the generic lambdas passed as `range`
are abstracted by a contract (registering returns w <= count and leaves w futures holding the event; resetting returns r <= w - signalled).
"""
import re

from vf.cxx2c import drop_pinned, Rewriter, attach_loop_contracts
from vf.extract import ExtractionBreak, find_body, match_brace
from vf.runner import Job

F = 'include/yaclib/async/detail/wait_impl.hpp'
F_SE = 'include/yaclib/algo/detail/shared_event.hpp'

TRUSTED = ['BaseCore::SetCallbackImpl / ResetImpl (unit base_core), CallCallback::Impl = Sub(1) (unit event), AtomicCounter::SubEqual (unit event), MutexEvent Wait / Set (unit event; AtomicEvent is not compiled in this tree: YACLIB_FUTEX is fixed to 0)']
DROPPED = ['the immediately-invoked lambda computing wait_count and the reset lambda are replaced by RANGE_SET / RANGE_RESET stubs carrying the range contract',
           'the event lives on the waiter\'s stack: "nobody touches it after return" is the ghost condition holders == 0 at every return']
ASSUMPTIONS = ['every listed future completes at most once and, if its callback is attached, signals the event exactly once (C01, C16 CallCallback)']

COMMON = r'''
#include "vf.h"
typedef struct Event { unsigned long count; } Event;
struct Ghost {
  unsigned long n;            /* number of listed futures */
  unsigned long w;            /* futures that took the event callback (were not ready when registering) */
  unsigned long s;            /* of those, how many have completed their Sub(1) (they never touch the event again) */
  unsigned long r;            /* callbacks removed again by Reset after a timeout */
  unsigned char registered, first_sub_done, reset_done, reset_sub_done, set_done, timed_out, waited;
} g;
Event* g_ev;                  /* bound by assignment (prologue) */
/* A.7: cnt = [self + the futures that were ready at registration, until subtracted] + holders - signalled - [reset ones once subtracted] */
#define CNT_INV ( g_ev->count == (g.first_sub_done ? 0 : g.n - (g.registered ? g.w : 0) + 1) + (g.registered ? g.w : 0) - g.s - (g.reset_sub_done ? g.r : 0)   \
                  && g.s + g.r <= g.w && g.w <= g.n && (g.set_done ==> (g.first_sub_done && g.s + (g.reset_sub_done ? g.r : 0) == g.w)) )
/* environment: k more holders complete; the one whose decrement reaches zero Sets the event */
static inline void env_signal(void) {
  if (!g.registered) return;
  unsigned long k = nondet_ulong();
  __CPROVER_assume(k <= g.w - g.s - g.r);
  g.s += k; g_ev->count -= k;
  if (k > 0 && g_ev->count == 0) g.set_done = 1;
}
size_t RANGE_SET(size_t count)
__CPROVER_requires(!g.registered && count == g.n)
__CPROVER_assigns(g.w, g.registered)
__CPROVER_ensures(RET <= count && g.w == RET && g.registered == 1);
size_t RANGE_RESET(void)
__CPROVER_requires(g.timed_out && !g.reset_done)                 /* callbacks are only removed after the deadline passed */
__CPROVER_assigns(g.r, g.reset_done)
__CPROVER_ensures(RET == g.r && g.r <= g.w - g.s && g.reset_done == 1);
static inline int SubEqual(Event* e, unsigned long nn) {
  env_signal();
  __CPROVER_assert(CNT_INV, "counter accounting (A.7)");
  __CPROVER_assert(e->count >= nn, "the waiter subtracts only what the counter still holds for it");
  int reached = (e->count == nn);
  e->count -= nn;
  if (!g.first_sub_done) { __CPROVER_assert(nn == g.n - g.w + 1, "first subtraction = self + the futures that were already ready"); g.first_sub_done = 1; }
  else { __CPROVER_assert(g.reset_done && !g.reset_sub_done && nn == g.r, "second subtraction = the callbacks removed by Reset"); g.reset_sub_done = 1; }
  __CPROVER_assert(CNT_INV, "counter accounting (A.7) after the waiter's subtraction");
  return reached;
}
static inline int Make(Event* e) { return 0; }
/* blocking wait: returns only after Set; legal only if somebody is still going to Set (otherwise the waiter sleeps forever) */
static inline void WaitForever(Event* e, int token) {
  __CPROVER_assert(g.first_sub_done && e->count > 0, "C11: a blocking wait is entered only while some holder has still to signal");
  env_signal();
  __CPROVER_assume(g.set_done);
  g.waited = 1;
}
static inline int WaitTimed(Event* e, int token, int timeout) {
  __CPROVER_assert(g.first_sub_done && e->count > 0 && !g.timed_out, "C11: the timed wait is entered only while some holder has still to signal");
  env_signal();
  if (g.set_done) return 1;
  g.timed_out = 1;             /* false is returned only after the deadline has passed */
  return 0;
}
#define WAIT_SEL(a, b, c, N, ...) N
#define Wait(...) WAIT_SEL(__VA_ARGS__, WaitTimed, WaitForever)(__VA_ARGS__)
'''


def jobs(ctx):
    repo = ctx.repo
    props = ['C11', 'C20']
    out = []
    b = find_body(repo, F, r'bool\s+WaitRange\s*\(', 'detail::WaitRange')
    t = b.text
    m = re.search(r'const\s+auto\s+wait_count\s*=\s*\[&\]\s*\{', t)
    if not m:
        raise ExtractionBreak('WaitRange: the lambda computing wait_count was not found')
    cb = match_brace(t, m.end() - 1)
    mm = re.match(r'\s*\(\s*\)\s*;', t[cb + 1:])
    if not mm:
        raise ExtractionBreak('WaitRange: wait_count lambda not invoked immediately')
    lam_set = t[m.end():cb]
    t = t[:m.start()] + 'const size_t wait_count = RANGE_SET(count);' + t[cb + 1 + mm.end():]
    m2 = re.search(r'range\(\s*\[\]\s*\(\s*UniqueHandle\s+handle\s*\)\s*noexcept\s*\{\s*return\s+handle\.Reset\(\)\s*;\s*\}\s*\)', t)
    if not m2:
        raise ExtractionBreak('WaitRange: reset lambda `range([](UniqueHandle h){ return h.Reset(); })` not found')
    t = t[:m2.start()] + 'RANGE_RESET()' + t[m2.end():]
    pre = [(r'!std::is_same_v<Timeout,\s*NoTimeoutTag>', 'HAS_TIMEOUT', 0), (r'std::size_t', 'size_t', 0)]
    c = Rewriter('WaitRange', pre=pre, refs=['event'], omethods=['SubEqual', 'Make', 'Wait']).rewrite(t)
    for has_timeout in (0, 1):
        src = COMMON + '#define HAS_TIMEOUT %d\n' % has_timeout + '''int WaitRange(Event* event, int timeout, int range, size_t count)
__CPROVER_requires(__CPROVER_is_fresh(event, sizeof(*event)) && count == g.n && count >= 1 && count < (1UL << 62) && event->count == count + 1)
__CPROVER_requires(!g.registered && !g.first_sub_done && !g.reset_done && !g.reset_sub_done && !g.set_done && !g.timed_out && g.s == 0 && g.r == 0 && g.w == 0)
__CPROVER_assigns(event->count, g, g_ev)
/* C11: true => every listed future is ready (all holders signalled, nothing was reset) */
__CPROVER_ensures(RET ==> (g.s == g.w && g.r == 0))
/* false => the deadline passed and at least one future is not ready (its callback was removed: it delivers its result to a later Wait / Get / continuation, C01) */
__CPROVER_ensures(!RET ==> (HAS_TIMEOUT && g.timed_out && g.r >= 1))
/* in either case no completion touches the waiter's stack event after the call returned: every holder has either signalled or was reset */
__CPROVER_ensures(g.s + g.r == g.w)
__CPROVER_ensures(RET == 0 || RET == 1)
{ g_ev = event; ''' + c + '''}
void harness(void) { Event* e; size_t n; g.n = n; g.registered = g.first_sub_done = g.reset_done = g.reset_sub_done = g.set_done = g.timed_out = g.waited = 0; g.s = g.r = g.w = 0;
  int r = WaitRange(e, 0, 0, n);
  if (!r) VF_CANARY("timed out"); else if (g.waited) VF_CANARY("blocked until the last completion"); else VF_CANARY("no blocking needed"); }
'''
        out.append(Job('wait/WaitRange.timeout%d' % has_timeout, props, src, 'harness', enforce='WaitRange', replace=['RANGE_SET', 'RANGE_RESET'], funcs=[b],
                       canaries=3 if has_timeout else 2, expect=[r'postcondition', r'counter accounting', r'blocking wait is entered'], meta={'fn': 'WaitRange', 'timeout': has_timeout}, timeout=600, cbmc_flags=['--sat-solver', 'cadical']))
    # the registration lambdas: which callback each handle receives
    m_un = re.search(r'range\(\s*\[&\]\s*\(auto\s+handle\)\s*noexcept\s*\{(.*?)\}\s*\)\s*;', lam_set, re.S)
    m_sh = re.search(r'range\(\s*\[&,\s*callback_count\s*=\s*std::size_t\{\}\]\s*\(auto\s+handle\)\s*mutable\s+noexcept\s*\{(.*)\}\s*\)\s*;\s*\}\s*else', lam_set, re.S)
    if not m_un or not m_sh:
        raise ExtractionBreak('WaitRange: registration lambdas not found')
    pre = [(r'std::is_same_v<UniqueHandle,\s*decltype\(handle\)>', 'IS_UNIQUE', 0), (r'handle\.SetCallback\(\s*event\.GetCall\(\)\s*\)', 'SetCallback(handle, EVENT_CALL)', 0),
           (r'handle\.SetCallback\(\s*event\.callbacks\[\s*([^\]]+?)\s*\]\s*\)', r'SetCallback(handle, HELPER(\1))', 0)]
    for nm, body, uniq in (('unique', m_un.group(1), 1), ('shared.unique_handle', m_sh.group(1), 1), ('shared.shared_handle', m_sh.group(1), 0)):
        c = Rewriter('WaitRange.lambda.' + nm, pre=pre).rewrite(body)
        src = '#include "vf.h"\n#define IS_UNIQUE %d\n' % uniq + '''#define EVENT_CALL (-1L)
#define HELPER(k) ((long)(k))
unsigned g_calls; long g_cb;
int SetCallback(int handle, long cb) __CPROVER_assigns(g_calls, g_cb) __CPROVER_ensures(g_calls == OLD(g_calls) + 1 && g_cb == cb);
size_t callback_count;
int lam(int handle)
__CPROVER_requires(g_calls == 0 && callback_count < (1UL << 40))
__CPROVER_assigns(g_calls, g_cb, callback_count)
/* a unique future receives the event's own callback; every shared future receives its own helper callback (shared cores link callbacks intrusively: one node each), numbered in order */
__CPROVER_ensures(g_calls == 1 && (IS_UNIQUE ? (g_cb == EVENT_CALL && callback_count == OLD(callback_count)) : (g_cb == (long)OLD(callback_count) && callback_count == OLD(callback_count) + 1)))
{''' + c + '''}
void harness(void) { g_calls = 0; lam(0); VF_CANARY("end"); }
'''
        out.append(Job('wait/WaitRange.lambda.' + nm, props, src, 'harness', enforce='lam', replace=['SetCallback'], funcs=[b], expect=[r'postcondition'], meta={'fn': 'WaitRange lambda'}))
    # WaitIterator: fast paths and event sizing
    b = find_body(repo, F, r'bool\s+WaitIterator\s*\(', 'detail::WaitIterator')
    t = re.sub(r'static_assert\((?:[^()]|\((?:[^()]|\([^()]*\))*\))*\)\s*;', '', b.text)
    from vf.cxx2c import drop_pinned
    # the choice of the event class is translated (not pinned): a range of SharedFutures needs a node per input (DynamicSharedEvent), see job wait/WaitCore
    from vf.cxx2c import translate_selection
    t, it_cond, it_a, it_b = translate_selection('WaitIterator', t, 'FinalEvent', [], ['kShared'], ['DynamicSharedEvent', 'CoreEvent'])

    def it_nodes(x):
        if x[0] == 'CoreEvent' and not x[1]:
            return '1'
        if x[0] == 'DynamicSharedEvent' and x[1] == 'CoreEvent':
            return 'count'
        raise ExtractionBreak('WaitIterator: event class outside the vocabulary: %s<%s>' % x)
    IT_NODES = '((%s) ? (%s) : (%s))' % (it_cond, it_nodes(it_a), it_nodes(it_b))
    t = drop_pinned('WaitIterator', t, ['static constexpr bool kShared = std::is_same_v<decltype(it->GetHandle()), SharedHandle>;',
                                        'using CoreEvent = MultiEvent<Event, AtomicCounter, CallCallback>;'])
    m = re.search(r'auto\s+range\s*=\s*\[&\]\s*\(auto&&\s*func\)\s*noexcept\s*\{', t)
    if not m:
        raise ExtractionBreak('WaitIterator: range lambda not found')
    cb = match_brace(t, m.end() - 1)
    e = t.index(';', cb)
    lam = t[m.end():cb]
    t = t[:m.start()] + 'int range = 0;' + t[e + 1:]
    pre = [(r'YACLIB_ASSERT\(it->Valid\(\)\)\s*;', '', 0), (r'WaitCore<Event>\(\s*timeout\s*,\s*it->GetHandle\(\)\s*\)', 'WaitCore1(timeout)', 0),
           (r'FinalEvent\s+event\s*\{\s*([^{};]+)\}\s*;', r'size_t event = EVENT_CTOR(\1, IT_NODES, count);', 0), (r'WaitRange\(\s*event\s*,\s*timeout\s*,\s*range\s*,\s*([^)]+)\)', r'WaitRangeStub(event, \1)', 0), (r'std::size_t', 'size_t', 0)]
    c = Rewriter('WaitIterator', pre=pre).rewrite(t)
    src = '#include "vf.h"\n#define IT_NODES %s      /* translated from `using FinalEvent = std::conditional_t<...>` */\n' % IT_NODES + '''unsigned g_core1, g_ranges, g_events; size_t g_event_total, g_range_count; int g_ret; unsigned char kShared;
int WaitCore1(int timeout) __CPROVER_assigns(g_core1) __CPROVER_ensures(g_core1 == OLD(g_core1) + 1 && RET == g_ret);
size_t EVENT_CTOR(size_t total, size_t nodes, size_t n)
/* C11, C06: a node for every SharedFuture of the range (each links the waiter into its callback list through the node's `next`; a node can be in one list only) */
__CPROVER_requires(nodes >= (kShared ? n : 0))
__CPROVER_assigns(g_events, g_event_total) __CPROVER_ensures(g_events == OLD(g_events) + 1 && g_event_total == total && RET == total);
int WaitRangeStub(size_t event_total, size_t count) __CPROVER_requires(event_total == count + 1) __CPROVER_assigns(g_ranges, g_range_count) __CPROVER_ensures(g_ranges == OLD(g_ranges) + 1 && g_range_count == count && RET == g_ret);
int WaitIterator(int timeout, int it, size_t count)
__CPROVER_requires(g_core1 == 0 && g_ranges == 0 && g_events == 0 && count < (1UL << 62))
__CPROVER_assigns(g_core1, g_ranges, g_events, g_event_total, g_range_count)
/* nothing to wait for => true at once; one future => the single-future path; otherwise an event sized count + 1 (the waiter's own unit) and WaitRange over exactly `count` futures */
__CPROVER_ensures(count == 0 ? (RET == 1 && g_core1 == 0 && g_ranges == 0) : count == 1 ? (g_core1 == 1 && g_ranges == 0 && RET == g_ret) : (g_core1 == 0 && g_ranges == 1 && g_range_count == count && g_event_total == count + 1 && RET == g_ret))
{''' + c + '''}
void harness(void) { size_t n; g_core1 = g_ranges = g_events = 0; kShared = nondet_uchar() & 1; WaitIterator(0, 0, n); if (n == 0) VF_CANARY("empty"); else if (n == 1) VF_CANARY("single"); else VF_CANARY("many"); }
'''
    out.append(Job('wait/WaitIterator', props, src, 'harness', enforce='WaitIterator', replace=['WaitCore1', 'EVENT_CTOR', 'WaitRangeStub'], funcs=[b], canaries=3,
                   expect=[r'postcondition', r'precondition'], meta={'fn': 'WaitIterator'}))
    # the iterator range lambda: applies func to each of `count` futures once and sums the results (loop invariant)
    pre = [(r'std::conditional_t<[^;]*>\s+range_it\s*=\s*it\s*;', 'size_t range_it = 0;', 0), (r'YACLIB_ASSERT\(range_it->Valid\(\)\)\s*;', '', 0),
           (r'static_cast<std::size_t>\(\s*func\(\s*range_it->GetHandle\(\)\s*\)\s*\)', 'FUNC(range_it)', 0), (r'std::size_t', 'size_t', 0)]
    c = Rewriter('WaitIterator.range', pre=pre).rewrite(lam)
    inv = '__CPROVER_assigns(i, range_it, wait_count, g_applied, g_sum)\n__CPROVER_loop_invariant(i <= count && range_it == i && g_applied == i && wait_count == g_sum && g_sum <= i)'
    c = attach_loop_contracts('WaitIterator.range', c, [inv])
    src = '#include "vf.h"\n' + '''size_t g_applied, g_sum; size_t count;
size_t FUNC(size_t idx) __CPROVER_requires(idx == g_applied) __CPROVER_assigns(g_applied, g_sum) __CPROVER_ensures(g_applied == OLD(g_applied) + 1 && RET <= 1 && g_sum == OLD(g_sum) + RET);
size_t range_lambda(void)
__CPROVER_requires(g_applied == 0 && g_sum == 0 && count >= 2 && count < (1UL << 62))
__CPROVER_assigns(g_applied, g_sum)
/* the range applies the operation to each listed future exactly once, in order, and returns how many answered true (the range contract used by WaitRange), for any count */
__CPROVER_ensures(g_applied == count && RET == g_sum && RET <= count)
{''' + c + '''}
void harness(void) { g_applied = g_sum = 0; range_lambda(); VF_CANARY("end"); }
'''
    out.append(Job('wait/WaitIterator.range', props, src, 'harness', enforce='range_lambda', replace=['FUNC'], loop_contracts=True, funcs=[b],
                   expect=[r'postcondition', r'invariant after step|loop_invariant_step'], meta={'fn': 'WaitIterator range lambda'}))
    # WaitCore: event sized n + 1, WaitRange over n
    b = find_body(repo, F, r'bool\s+WaitCore\s*\(', 'detail::WaitCore')
    # WaitCore under contract: its two compile-time selections are TRANSLATED (vf.cxx2c.translate_selection), the pack size and the number of shared handles are symbolic
    try:
        from vf.cxx2c import translate_selection
        t = b.text
        atoms = [(r'sizeof\.\.\.\(\s*(?:handles|Handles)\s*\)', 'N')]
        # a named constant for the pack size (`static constexpr std::size_t kX = sizeof...(handles);`) is the pack size
        for mm in list(re.finditer(r'(?:static\s+)?constexpr\s+(?:auto|std::size_t)\s+(\w+)\s*=\s*sizeof\.\.\.\(\s*(?:handles|Handles)\s*\)\s*;', t)):
            atoms.append((r'\b%s\b' % re.escape(mm.group(1)), 'N'))
        t = re.sub(r'(?:static\s+)?constexpr\s+(?:auto|std::size_t)\s+\w+\s*=\s*sizeof\.\.\.\(\s*(?:handles|Handles)\s*\)\s*;', '', t)
        t, c_final, fa, fb = translate_selection('detail::WaitCore', t, 'FinalEvent', atoms, ['N', 'kSharedCount'], ['CoreEvent', 'StaticSharedEvent'])
        t, c_core, ca, cb = translate_selection('detail::WaitCore', t, 'CoreEvent', atoms, ['N', 'kSharedCount'], ['MultiEvent'])

        def counter_of(args):
            m = re.match(r'^Event\s*,\s*(OneCounter|AtomicCounter)\s*,\s*CallCallback$', args)
            if not m:
                raise ExtractionBreak('detail::WaitCore: CoreEvent alternative outside the vocabulary: MultiEvent<%s>' % args)
            return 'K_' + m.group(1)

        def final_of(cls, args):
            if cls == 'CoreEvent':
                return 'F_CORE', '1'          # the event itself is the one callback node
            m = re.match(r'^CoreEvent\s*,\s*(\w+)$', args)
            if not m:
                raise ExtractionBreak('detail::WaitCore: FinalEvent alternative outside the vocabulary: StaticSharedEvent<%s>' % args)
            return 'F_STATIC_SHARED', m.group(1)
        (fka, fna), (fkb, fnb) = final_of(*fa), final_of(*fb)
        t = drop_pinned('detail::WaitCore', t, ['static constexpr std::size_t kSharedCount = kCount<SharedHandle, Handles...>;'])
        # the fold-expression lambda `range` is pinned textually (proved separately as far as extractable: job wait/WaitIterator.range is its iterator twin)
        t, k = re.subn(r'auto\s+range\s*=\s*\[&\]\(auto&&\s+func\)\s*noexcept\s*\{\s*return\s*\(\.\.\.\s*\+\s*static_cast<std::size_t>\(func\(handles\)\)\)\s*;\s*\}\s*;', '', t)
        if k != 1:
            raise ExtractionBreak('detail::WaitCore: the fold-expression range lambda no longer has the pinned shape')
        pre = [(r'FinalEvent\s+event\s*\{\s*([^{};]+)\}\s*;', r'EVENT_CTOR(FINAL_KIND, FINAL_NODES, CORE_KIND, \1);', 1),
               (r'return\s+WaitRange\(\s*event\s*,\s*timeout\s*,\s*range\s*,\s*([^;]+)\)\s*;', r'return WAIT_RANGE(\1);', 1)] + [(a_, b_, 0) for a_, b_ in atoms]
        c = Rewriter('detail::WaitCore', pre=pre).rewrite(t)
        src = '#include "vf.h"\n' + '''enum { K_OneCounter = 1, K_AtomicCounter }; enum { F_CORE = 1, F_STATIC_SHARED };
unsigned long N, kSharedCount;          /* pack size and number of SharedFuture handles in it: symbolic configuration */
#define CORE_KIND ((%s) ? %s : %s)      /* translated from `using CoreEvent = std::conditional_t<...>` */
#define FINAL_KIND ((%s) ? %s : %s)     /* translated from `using FinalEvent = std::conditional_t<...>` */
#define FINAL_NODES ((%s) ? (%s) : (%s))
unsigned g_ctors, g_waits; unsigned long g_units, g_range_n; unsigned char g_final, g_core; unsigned long g_nodes; int g_wr;
void EVENT_CTOR(int final_kind, unsigned long nodes, int core_kind, unsigned long units) __CPROVER_requires(g_ctors == 0)
/* C11: the stack event counts one unit per listed future plus one for the waiter itself */
__CPROVER_requires(units == N + 1)
/* C11, C16: a single-owner counter (OneCounter) cannot count - only for exactly one future; */
__CPROVER_requires(core_kind == K_OneCounter ==> N == 1)
/* C11, C06: every SharedFuture links the waiter into its intrusive callback list through the `next` of the node it is given, and a node can be in one list only: the event
   itself is one node, StaticSharedEvent<.., k> brings k of its own - there must be a node for every shared handle */
__CPROVER_requires(nodes >= kSharedCount)
__CPROVER_assigns(g_ctors, g_units, g_final, g_core, g_nodes) __CPROVER_ensures(g_ctors == 1 && g_units == units && g_final == final_kind && g_core == core_kind && g_nodes == nodes);
int WAIT_RANGE(unsigned long n) __CPROVER_requires(g_ctors == 1 && g_waits == 0) __CPROVER_assigns(g_waits, g_range_n) __CPROVER_ensures(g_waits == 1 && g_range_n == n && RET == g_wr);
int WaitCore(int timeout)
__CPROVER_requires(N >= 1 && N < (1UL << 32) && kSharedCount <= N && g_ctors == 0 && g_waits == 0)
__CPROVER_assigns(g_ctors, g_units, g_final, g_core, g_nodes, g_waits, g_range_n)
/* one event of the right shape, one WaitRange over exactly the listed futures, its verdict returned unchanged */
__CPROVER_ensures(g_ctors == 1 && g_waits == 1 && g_range_n == N && g_units == N + 1 && RET == g_wr)
{''' % (c_core, counter_of(ca[1]), counter_of(cb[1]), c_final, fka, fkb, c_final, fna, fnb) + c + '''}
void harness(void) { g_ctors = g_waits = 0; N = nondet_ulong(); kSharedCount = nondet_ulong(); WaitCore(0);
  if (kSharedCount > 1) VF_CANARY("several shared handles"); else if (N == 1) VF_CANARY("single future"); else VF_CANARY("several futures"); }
'''
        out.append(Job('wait/WaitCore', props, src, 'harness', enforce='WaitCore', replace=['EVENT_CTOR', 'WAIT_RANGE'], funcs=[b], canaries=3, expect=[r'postcondition', r'precondition'], meta={'fn': 'WaitCore'}))
    except ExtractionBreak as e:
        ctx.breaks.append(str(e))
    return out
