"""The public attach wrappers: Then / ThenInline / Detach / DetachInline / Subscribe / SubscribeInline of Future, FutureOn, SharedFuture, SharedFutureOn and Task:  C02, C05, C12.

Each wrapper is two statements: a CoreType flag set and one call of detail::SetCallback (proved in unit core).  The flag set IS the attachment mode the property quantifies over:
  Call    the step is a job of an executor (it can be dropped by a stopped executor: the step then sees StopError); without it the step runs inline in the completing walk
  Detach  terminal step (no result handle), ToUnique otherwise
  Lazy    Task steps only: attaching must not start anything
and the executor argument is `&e` for the explicit forms, nullptr for inline steps and for "the inherited executor" of the On-handles.  The expectation per wrapper is written from
the wrapper's name and class (the property's "Run/Then/ThenInline x explicit / inherited executor" cells), never from its body.
"""
import re

from vf.cxx2c import Rewriter
from vf.extract import ExtractionBreak, find_body
from vf.runner import Job

F_FUT = 'include/yaclib/async/future.hpp'
F_SF = 'include/yaclib/async/shared_future.hpp'
F_TASK = 'include/yaclib/lazy/task.hpp'
TRUSTED = ['detail::SetCallback<CoreT, On>(core, executor, f) (unit core: one step core made with exactly these flags, given this executor, attached to exactly this source)']
DROPPED = ['`static constexpr auto CoreT = A | B;` is kept as the (numeric) argument of the SetCallback stub; the template argument `On` (FutureOn or Future handed back) is passed as a number',
           'YACLIB_WARN diagnostics are dropped']
ASSUMPTIONS = []

COMMON = r'''
#include "vf.h"
enum { CT_Run = 1, CT_Then = 2, CT_Call = 4, CT_Lazy = 8, CT_ToUnique = 16, CT_ToShared = 32, CT_FromUnique = 64, CT_FromShared = 128, CT_Detach = 256 };
typedef struct Handle { void* _core; } Handle;
unsigned g_sets; unsigned g_flags; int g_on; void* g_src; void* g_exec; void* g_func; void* g_ret;
unsigned char g_ready;
/* Task::Ready(): the library asserts !Ready() before attaching to a Task (a precondition of the wrapper) */
int Ready(Handle* h) __CPROVER_assigns() __CPROVER_ensures(RET == g_ready);
void* SET_CALLBACK(unsigned flags, int on, void* core_slot, void* executor, void* f) __CPROVER_requires(g_sets == 0) __CPROVER_assigns(g_sets, g_flags, g_on, g_src, g_exec, g_func)
  __CPROVER_ensures(g_sets == 1 && g_flags == flags && g_on == on && g_src == core_slot && g_exec == executor && g_func == f && RET == g_ret);
'''

# (job name, file, class scope regex, signature regex, has executor parameter, expected flags, expected executor ('e' / '0'), expected On (None = irrelevant), what the cell means)
TABLE = [
    ('Future.Then.e', F_FUT, r'class\s+FutureBase\s*\{', r'auto\s+Then\s*\(\s*IExecutor\s*&\s*e\s*,\s*Func\s*&&\s*f\s*\)\s*&&', 1, 'CT_ToUnique | CT_Call', 'e', 1, 'Then(e, f): a job of executor e'),
    ('Future.DetachInline', F_FUT, r'class\s+FutureBase\s*\{', r'void\s+DetachInline\s*\(\s*Func\s*&&\s*f\s*\)\s*&&', 0, 'CT_Detach', '0', None, 'DetachInline(f): terminal, inline'),
    ('Future.Detach.e', F_FUT, r'class\s+FutureBase\s*\{', r'void\s+Detach\s*\(\s*IExecutor\s*&\s*e\s*,\s*Func\s*&&\s*f\s*\)\s*&&', 1, 'CT_Detach | CT_Call', 'e', None, 'Detach(e, f): terminal, a job of executor e'),
    ('Future.ThenInline', F_FUT, r'class\s+Future\s+final', r'auto\s+ThenInline\s*\(\s*Func\s*&&\s*f\s*\)\s*&&', 0, 'CT_ToUnique', '0', 0, 'ThenInline(f): inline, plain Future back'),
    ('FutureOn.ThenInline', F_FUT, r'class\s+FutureOn\s+final', r'auto\s+ThenInline\s*\(\s*Func\s*&&\s*f\s*\)\s*&&', 0, 'CT_ToUnique', '0', 1, 'ThenInline(f) on a FutureOn: inline, the executor is still inherited by later steps'),
    ('FutureOn.Then', F_FUT, r'class\s+FutureOn\s+final', r'auto\s+Then\s*\(\s*Func\s*&&\s*f\s*\)\s*&&', 0, 'CT_ToUnique | CT_Call', '0', 1, 'Then(f) on a FutureOn: a job of the INHERITED executor'),
    ('FutureOn.Detach', F_FUT, r'class\s+FutureOn\s+final', r'void\s+Detach\s*\(\s*Func\s*&&\s*f\s*\)\s*&&', 0, 'CT_Detach | CT_Call', '0', None, 'Detach(f) on a FutureOn: terminal, a job of the inherited executor'),
    ('SharedFuture.Then.e', F_SF, r'class\s+SharedFutureBase\s*\{', r'auto\s+Then\s*\(\s*IExecutor\s*&\s*e\s*,\s*Func\s*&&\s*f\s*\)\s*const', 1, 'CT_ToUnique | CT_Call', 'e', 1, 'Then(e, f): a job of executor e'),
    ('SharedFuture.SubscribeInline', F_SF, r'class\s+SharedFutureBase\s*\{', r'void\s+SubscribeInline\s*\(\s*Func\s*&&\s*f\s*\)\s*const', 0, 'CT_Detach', '0', None, 'SubscribeInline(f): terminal, inline'),
    ('SharedFuture.Subscribe.e', F_SF, r'class\s+SharedFutureBase\s*\{', r'void\s+Subscribe\s*\(\s*IExecutor\s*&\s*e\s*,\s*Func\s*&&\s*f\s*\)\s*const', 1, 'CT_Detach | CT_Call', 'e', None, 'Subscribe(e, f): terminal, a job of executor e'),
    ('SharedFuture.ThenInline', F_SF, r'class\s+SharedFuture\s+final', r'auto\s+ThenInline\s*\(\s*Func\s*&&\s*f\s*\)\s*const', 0, 'CT_ToUnique', '0', 0, 'ThenInline(f): inline'),
    ('SharedFutureOn.ThenInline', F_SF, r'class\s+SharedFutureOn\s+final', r'auto\s+ThenInline\s*\(\s*Func\s*&&\s*f\s*\)\s*const', 0, 'CT_ToUnique', '0', 1, 'ThenInline(f) on a SharedFutureOn: inline'),
    ('SharedFutureOn.Then', F_SF, r'class\s+SharedFutureOn\s+final', r'auto\s+Then\s*\(\s*Func\s*&&\s*f\s*\)\s*const', 0, 'CT_ToUnique | CT_Call', '0', 1, 'Then(f) on a SharedFutureOn: a job of the INHERITED executor'),
    ('SharedFutureOn.Subscribe', F_SF, r'class\s+SharedFutureOn\s+final', r'void\s+Subscribe\s*\(\s*Func\s*&&\s*f\s*\)\s*const', 0, 'CT_Detach | CT_Call', '0', None, 'Subscribe(f) on a SharedFutureOn: terminal, a job of the inherited executor'),
    ('Task.Then.e', F_TASK, r'class\s+Task\s+final', r'auto\s+Then\s*\(\s*IExecutor\s*&\s*e\s*,\s*Func\s*&&\s*f\s*\)\s*&&', 1, 'CT_ToUnique | CT_Call | CT_Lazy', 'e', None, 'Task::Then(e, f): a lazy step, a job of executor e once started'),
    ('Task.ThenInline', F_TASK, r'class\s+Task\s+final', r'auto\s+ThenInline\s*\(\s*Func\s*&&\s*f\s*\)\s*&&', 0, 'CT_ToUnique | CT_Lazy', '0', None, 'Task::ThenInline(f): a lazy inline step'),
    ('Task.Then', F_TASK, r'class\s+Task\s+final', r'auto\s+Then\s*\(\s*Func\s*&&\s*f\s*\)\s*&&', 0, 'CT_ToUnique | CT_Call | CT_Lazy', '0', None, 'Task::Then(f): a lazy step, a job of the inherited executor once started'),
]


def jobs(ctx):
    repo = ctx.repo
    props = ['C02', 'C05', 'C12']
    out = []
    pre = [(r'static\s+constexpr\s+auto\s+CoreT\s*=\s*([^;]+);', lambda m: 'const unsigned CoreT = %s;' % re.sub(r'CoreType::(\w+)', r'CT_\1', m.group(1)), 1),
           (r'(return\s+)?detail::SetCallback<\s*CoreT\s*,\s*(true|false)\s*>\(\s*(?:this->)?_core\s*,\s*(&e|nullptr)\s*,\s*std::forward<Func>\(f\)\s*\)\s*;',
            lambda m: '%sSET_CALLBACK(CoreT, %d, &self->_core, %s, f);' % ('return ' if m.group(1) else '', 1 if m.group(2) == 'true' else 0, 'e' if m.group(3) == '&e' else '(void*)0'), 1)]
    for nm, f, within, sig, has_e, flags, ex, on, why in TABLE:
        if ctx.prop == 'C12' and not nm.startswith('Task.'):
            continue
        if ctx.prop == 'C06' and not nm.startswith('SharedFuture'):
            continue
        try:
            b = find_body(repo, f, sig, nm, within=within)
            c = Rewriter(nm, pre=pre, nomembers=['_core'], methods=['Ready']).rewrite(b.text)
            ret = 'void*' if re.search(r'\breturn\b', c) else 'void'
            src = COMMON + '''%s F(Handle* self, void* e, void* f)
__CPROVER_requires(__CPROVER_is_fresh(self, sizeof(*self)) && g_sets == 0 && e != 0 && !g_ready)
__CPROVER_assigns(g_sets, g_flags, g_on, g_src, g_exec, g_func)
/* C02, C05%s: %s - exactly one step is attached to exactly this handle's core, made from exactly this functor, with exactly the flags of this attachment mode */
__CPROVER_ensures(g_sets == 1 && g_src == (void*)&self->_core && g_func == f)
__CPROVER_ensures(g_flags == (%s))
__CPROVER_ensures(g_exec == %s)
%s%s{''' % (ret, ', C12' if nm.startswith('Task.') else '', why, flags, 'e' if ex == 'e' else '(void*)0',
            '__CPROVER_ensures(g_on == %d)\n' % on if on is not None else '', '__CPROVER_ensures(RET == g_ret)\n' if ret != 'void' else '') + c + '''}
void harness(void) { Handle* h; void* e; void* f; g_sets = 0; g_ready = 0; F(h, e, f); VF_CANARY("end"); }
'''
            out.append(Job('attach/' + nm, props, src, 'harness', enforce='F', replace=['SET_CALLBACK', 'Ready'], funcs=[b], expect=[r'postcondition'], meta={'fn': nm}))
        except ExtractionBreak as e:
            ctx.breaks.append(str(e))
    return out


def replay(ctx, res, failed, rec):
    return None, 'no sequential witness driver for this obligation'
