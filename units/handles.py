"""User-facing handles and the small cores behind them: Promise, FutureBase, Task, detail::Start, UniqueCore / SharedCore / ResultCore
helpers, PromiseCore, Drop core, ReadyCore.   C01, C06, C12, C03 (ownership), C05 (Start), C20.
"""
import re

from vf.cxx2c import Rewriter
from vf.extract import ExtractionBreak, find_body
from vf.runner import Job

F_PROM = 'include/yaclib/async/promise.hpp'
F_FUT = 'include/yaclib/async/future.hpp'
F_TASK = 'include/yaclib/lazy/task.hpp'
F_TIMPL = 'src/lazy/task_impl.cpp'
F_UC = 'include/yaclib/algo/detail/unique_core.hpp'
F_SC = 'include/yaclib/algo/detail/shared_core.hpp'
F_RC = 'include/yaclib/algo/detail/result_core.hpp'
F_PC = 'include/yaclib/algo/detail/promise_core.hpp'
F_DROP = 'src/algo/drop_core.cpp'
F_MAKE = 'include/yaclib/lazy/make.hpp'

TRUSTED = ['IntrusivePtr (Release / Get / destructor = DecRef if non-null) is modelled by HANDLE_* helpers; the class itself is proved in unit intrusive_ptr',
           'Wait(future) returns only when the future is ready (C11)']
DROPPED = ['handles are structs with one pointer `_core`; `std::exchange(_core, nullptr)` into a local IntrusivePtr gets its destructor (DecRef) inserted before the return by recipe rule',
           'the reference-count value a SharedCore sees (GetRef) is a stub result; exclusivity of ref == 2 / ref == 1 is the counting lemma of C06 (promise_refs sheet)']
ASSUMPTIONS = []
# real-code drivers that exercise what this unit proves (thorough tier: sanity run on the tree under check)
DRIVERS = [('task_return.cpp', ['all'], 'default')]

COMMON = r'''
#include "vf.h"
typedef struct Core Core;
typedef struct Res { unsigned char state; unsigned long tag; unsigned char moved_from; } Res;
struct Core { Core* next; uintptr_t _callback; void* _executor; Res _result; };
typedef struct Handle { Core* _core; } Handle;
typedef void* Transfer;
#define TAG_STOP 0xDEADUL
enum { RS_Value = 0, RS_Exception = 1, RS_Error = 2, RS_Empty = 3 };
struct Ghost {
  unsigned long clock;
  unsigned stores; unsigned long t_store; unsigned char store_state; unsigned long store_tag;
  unsigned set_results; unsigned long t_set_result; Transfer sr_ret;
  unsigned loops; Core* loop_prev; Transfer loop_curr;
  unsigned decrefs; Core* decref_of; unsigned long t_decref;
  unsigned call_inlines; Core* ci_on; Core* ci_cb;
  unsigned submits; void* submit_to; Core* submit_job;
  unsigned store_cbs; Core* sc_on; Core* sc_cb;
  unsigned starts; Core* start_head; void* start_exec; unsigned char start_has_exec;
  unsigned waits;
  unsigned heres; Core* here_on; Core* here_caller;
  unsigned moves, copies; unsigned long t_move;
} g;
static void ghost_reset(void) {
  g.clock = 1; g.stores = g.set_results = g.loops = g.decrefs = g.call_inlines = g.submits = g.store_cbs = g.starts = g.waits = g.heres = g.moves = g.copies = 0;
  g.t_store = g.t_set_result = g.t_decref = g.t_move = 0;
}
Core g_drop_core;
#define MakeDrop() (&g_drop_core)
void Store(Core* c, unsigned char state, unsigned long tag)
__CPROVER_requires(c != 0 && g.stores == 0 && g.set_results == 0)
__CPROVER_assigns(g.stores, g.t_store, g.clock, g.store_state, g.store_tag)
__CPROVER_ensures(g.stores == 1 && g.store_state == state && g.store_tag == tag && g.t_store == OLD(g.clock) && g.clock == OLD(g.clock) + 1);
Transfer SetResult(Core* c)
__CPROVER_requires(c != 0 && g.set_results == 0 && g.stores == 1)           /* C01 producer: the Result is stored before it is published */
__CPROVER_assigns(g.set_results, g.t_set_result, g.clock)
__CPROVER_ensures(g.set_results == 1 && g.t_set_result == OLD(g.clock) && g.clock == OLD(g.clock) + 1 && RET == g.sr_ret);
void Loop(Core* prev, Transfer curr) __CPROVER_requires(g.loops == 0) __CPROVER_assigns(g.loops, g.loop_prev, g.loop_curr) __CPROVER_ensures(g.loops == 1 && g.loop_prev == prev && g.loop_curr == curr);
void DecRef(Core* c) __CPROVER_requires(c != 0 && g.decrefs == 0) __CPROVER_assigns(g.decrefs, g.decref_of, g.t_decref, g.clock)
  __CPROVER_ensures(g.decrefs == 1 && g.decref_of == c && g.t_decref == OLD(g.clock) && g.clock == OLD(g.clock) + 1);
static inline Core* HANDLE_RELEASE(Handle* h) { Core* c = h->_core; h->_core = 0; return c; }
#define HANDLE_GET(h) ((h)->_core)
'''


def rw(name, **kw):
    pre = [(r'_core\.Release\(\)', 'HANDLE_RELEASE(self)', 0), (r'_core\.Get\(\)', 'HANDLE_GET(self)', 0),
           (r'detail::', '', 0), (r'std::move\(\*this\)\.', 'this->', 0)] + list(kw.pop('pre', []))
    kw.setdefault('refs', ['e', 'callback', 'caller'])
    return Rewriter(name, pre=pre, **kw)


def jobs(ctx):
    repo = ctx.repo
    props = ['C01', 'C03', 'C06', 'C12', 'C05', 'C20']
    out = []

    def job(name, b, src, enforce, replace, canaries=1, expect=(r'postcondition',), entry='harness', hpre=()):
        bl = b if isinstance(b, list) else [b]
        # a new private helper the body was refactored into (same file) is extracted with the unit's rules and verified inline (vf.cxx2c.auto_helpers)
        try:
            from vf.cxx2c import auto_helpers
            declared = set(re.findall(r'^\s*(?:static\s+|inline\s+)*(?:unsigned\s+|const\s+)*(?!(?:return|else|case|goto)\b)\w+[\s\*]+(\w+)\s*\(', src, flags=re.M)) | set(re.findall(r'#define\s+(\w+)\(', src))
            defs, hb = auto_helpers(repo, bl[0].file, None, src, declared, lambda hn, ht, refs: rw(hn, refs=['e', 'callback', 'caller'] + refs, omethods=['CallInline', 'DecRef', 'Here', 'StoreCallback', 'Submit'], pre=[(a_, b_, 0) for a_, b_, _ in hpre]).rewrite(ht),
                                    ctype=lambda t: 'Core*' if re.sub(r'<.*>', '', t).split('::')[-1].rstrip('*&') in ('auto', 'Core', 'BaseCore', 'InlineCore', 'UniqueCore', 'SharedCore', 'ResultCore') and t[-1:] in '*&' else 'Res' if re.match(r'^Result<[^<>]*>$', t) else None)
            if defs:
                m_sig = re.search(r'^[^\n;]*\b%s\s*\([^\n;{]*\)\s*$' % re.escape(enforce), src, flags=re.M)
                if m_sig:
                    src = src[:m_sig.start()] + defs.replace('static Core* ', 'static Core* ').replace('(void)', '(Handle* self)') + src[m_sig.start():]
                    for hbody in hb:
                        src = re.sub(r'(?<![\w.>])%s\(\s*\)' % re.escape(hbody.name), hbody.name + '(self)', src)
                    bl = bl + hb
        except ExtractionBreak:
            pass
        out.append(Job('handles/' + name, props, src, entry, enforce=enforce, replace=replace, funcs=bl, canaries=canaries,
                       expect=list(expect), meta={'fn': name}))

    # ---- detail::Start x2 -----------------------------------------------------------------------------------------
    b1 = find_body(repo, F_TIMPL, r'void\s+Start\s*\(\s*BaseCore\s*\*\s*head\s*,\s*IExecutor\s*&\s*e\s*\)', 'detail::Start(head, e)')
    b2 = find_body(repo, F_TIMPL, r'void\s+Start\s*\(\s*BaseCore\s*\*\s*head\s*\)', 'detail::Start(head)')
    stubs = '''Core* g_head;
Core* MoveToCaller(Core* h) __CPROVER_requires(h != 0) __CPROVER_assigns() __CPROVER_ensures(RET == g_head && RET != 0);
void Submit(void* e, Core* job) __CPROVER_requires(e != 0 && g.submits == 0) __CPROVER_assigns(g.submits, g.submit_to, g.submit_job) __CPROVER_ensures(g.submits == 1 && g.submit_to == e && g.submit_job == job);
'''
    c = rw('Start(head,e)', omethods=['Submit']).rewrite(b1.text)
    src = COMMON + stubs + '''void Start(Core* head, void* e)
__CPROVER_requires(__CPROVER_is_fresh(g_head, sizeof(Core)) && head != 0 && e != 0 && g.submits == 0)
__CPROVER_assigns(g.submits, g.submit_to, g.submit_job, g_head->_executor)
/* C12/C05: starting a Task on e: the head of the chain (and only it) is submitted exactly once, to e, which becomes the executor inherited along the chain */
__CPROVER_ensures(g.submits == 1 && g.submit_job == g_head && g.submit_to == e && g_head->_executor == e)
{''' + c + '''}
void harness(void) { ghost_reset(); Core* h; void* e; Start(h, e); VF_CANARY("end"); }
'''
    job('Start.on', b1, src, 'Start', ['MoveToCaller', 'Submit'])
    c = rw('Start(head)', omethods=['Submit']).rewrite(b2.text)
    src = COMMON + stubs + '''void Start(Core* head)
__CPROVER_requires(__CPROVER_is_fresh(g_head, sizeof(Core)) && head != 0 && g_head->_executor != 0 && g.submits == 0)
__CPROVER_assigns(g.submits, g.submit_to, g.submit_job)
/* C12: the head is submitted exactly once, to its own executor */
__CPROVER_ensures(g.submits == 1 && g.submit_job == g_head && g.submit_to == g_head->_executor)
{''' + c + '''}
void harness(void) { ghost_reset(); Core* h; Start(h); VF_CANARY("end"); }
'''
    job('Start', b2, src, 'Start', ['MoveToCaller', 'Submit'])

    # ---- Promise::Set / ~Promise ------------------------------------------------------------------------------------
    b = find_body(repo, F_PROM, r'void\s+Set\s*\(\s*Args\s*&&\s*\.\.\.\s*args\s*\)\s*&&', 'Promise::Set')
    # the value is constructed from user arguments inside Store: that construction may THROW (Set is not noexcept); the exception leaves Set at that point (recipe: `if (g_threw) return;` after the call)
    pre = [(r'sizeof\.\.\.\(Args\)\s*==\s*0', 'NO_ARGS', 0), (r'(\b_?core)->Store\(\s*std::in_place\s*\)\s*;', r'Store(PCORE(\1), RS_Value, 0);', 0),
           (r'(\b_?core)->Store\(\s*std::forward<Args>\(args\)\.\.\.\s*\)\s*;', r'{ StoreT(PCORE(\1), a_state, a_tag); if (g_threw) return; }', 0),
           (r'core->template\s+SetResult<false>\(\)', 'SetResult(core)', 0), (r'YACLIB_ASSERT\(Valid\(\)\)', 'REPO_ASSERT(self->_core != 0)', 0)]
    c = rw('Promise::Set', pre=pre).rewrite(b.text)
    for noargs in (0, 1):
        src = COMMON + '#define NO_ARGS %d\n' % noargs + '''unsigned char g_threw;
#define PCORE(x) (x)
/* Store of a value built from user arguments: either it is stored, or the construction throws and nothing was stored */
void StoreT(Core* c, unsigned char state, unsigned long tag)
__CPROVER_requires(c != 0 && g.stores == 0 && g.set_results == 0)
__CPROVER_assigns(g.stores, g.t_store, g.clock, g.store_state, g.store_tag, g_threw)
__CPROVER_ensures(g_threw <= 1 && (g_threw ? (g.stores == 0 && g.clock == OLD(g.clock)) : (g.stores == 1 && g.store_state == state && g.store_tag == tag && g.t_store == OLD(g.clock) && g.clock == OLD(g.clock) + 1)));
void Set(Handle* self, unsigned char a_state, unsigned long a_tag)
__CPROVER_requires(__CPROVER_is_fresh(self, sizeof(*self)) && self->_core != 0 && g.stores == 0 && g.set_results == 0 && g.loops == 0 && !g_threw)
__CPROVER_assigns(self->_core, g.stores, g.t_store, g.clock, g.store_state, g.store_tag, g.set_results, g.t_set_result, g.loops, g.loop_prev, g.loop_curr, g_threw)
/* post Promise::Set (C01): Store(args) precedes SetResult, each exactly once; whatever SetResult hands back (the attached continuation) is driven by Loop with the
   fulfilled core as caller; the promise is left invalid */
__CPROVER_ensures(!g_threw ==> (g.stores == 1 && g.set_results == 1 && g.t_store < g.t_set_result && self->_core == 0))
/* ... and if constructing the value throws, nothing was published and the Promise STILL OWNS its core (it stays valid: its destructor delivers StopError, or Set can be retried) - no completion is lost */
__CPROVER_ensures(g_threw ==> (g.stores == 0 && g.set_results == 0 && g.loops == 0 && self->_core == OLD(self->_core)))
__CPROVER_ensures(!g_threw ==> (NO_ARGS ? (g.store_state == RS_Value) : (g.store_state == a_state && g.store_tag == a_tag)))
__CPROVER_ensures(!g_threw ==> (g.loops == 1 && g.loop_prev == OLD(self->_core) && g.loop_curr == g.sr_ret))
{''' + c + '''}
void harness(void) { ghost_reset(); g_threw = 0; Handle* p; Set(p, nondet_uint(), nondet_ulong()); if (g_threw) VF_CANARY("construction threw"); else VF_CANARY("fulfilled"); }
'''
        job('Promise.Set.noargs%d' % noargs, b, src, 'Set', ['Store', 'StoreT', 'SetResult', 'Loop'], canaries=1 if noargs else 2)
    b = find_body(repo, F_PROM, r'~Promise\s*\(\s*\)\s*noexcept', 'Promise::~Promise')
    c = rw('~Promise', pre=[(r'Valid\(\)', '(self->_core != 0)', 0), (r'this->Set\(\s*StopTag\{\}\s*\)', 'Set(self, RS_Error, TAG_STOP)', 0)]).rewrite(b.text)
    src = COMMON + '''unsigned g_sets; unsigned char g_set_state; unsigned long g_set_tag;
void Set(Handle* self, unsigned char s, unsigned long t) __CPROVER_requires(self->_core != 0) __CPROVER_assigns(g_sets, g_set_state, g_set_tag, self->_core)
  __CPROVER_ensures(g_sets == OLD(g_sets) + 1 && g_set_state == s && g_set_tag == t && self->_core == 0);
void Dtor(Handle* self)
__CPROVER_requires(__CPROVER_is_fresh(self, sizeof(*self)) && g_sets == 0)
__CPROVER_assigns(g_sets, g_set_state, g_set_tag, self->_core)
/* a Promise dropped unset fulfils its Future with StopError - exactly once, and only if it was not used (C01) */
__CPROVER_ensures(OLD(self->_core) != 0 ? (g_sets == 1 && g_set_state == RS_Error && g_set_tag == TAG_STOP) : g_sets == 0)
__CPROVER_ensures(self->_core == 0)
{''' + c + '''}
void harness(void) { ghost_reset(); Handle* p; g_sets = 0; Dtor(p); if (g_sets) VF_CANARY("dropped unset"); else VF_CANARY("was used"); }
'''
    job('Promise.Dtor', b, src, 'Dtor', ['Set'], canaries=2)

    # ---- SharedPromise::Set / ~SharedPromise (same producer contract on the shared word; the walk over the callback stack is unit base_core) --------------------
    F_SP = 'include/yaclib/async/shared_promise.hpp'
    WSP = r'class\s+SharedPromise\s+final\s*\{'
    b = find_body(repo, F_SP, r'void\s+Set\s*\(\s*Args\s*&&\s*\.\.\.\s*args\s*\)\s*&&', 'SharedPromise::Set', within=WSP)
    pre = [(r'sizeof\.\.\.\(Args\)\s*==\s*0', 'NO_ARGS', 0), (r'_core->Store\(\s*std::in_place\s*\)', 'Store(self->_core, RS_Value, 0)', 0),
           (r'_core->Store\(\s*std::forward<Args>\(args\)\.\.\.\s*\)', 'Store(self->_core, a_state, a_tag)', 0), (r'std::ignore\s*=', '(void)', 0), (r'auto\s+released\s*=', 'Core* released =', 0),
           (r'released->template\s+SetResult<false>\(\)', 'SetResult(released)', 0), (r'YACLIB_ASSERT\(Valid\(\)\)', 'REPO_ASSERT(self->_core != 0)', 0)]
    c = rw('SharedPromise::Set', pre=pre).rewrite(b.text)
    for noargs in (0, 1):
        src = COMMON + '#define NO_ARGS %d\n' % noargs + '''void Set(Handle* self, unsigned char a_state, unsigned long a_tag)
__CPROVER_requires(__CPROVER_is_fresh(self, sizeof(*self)) && self->_core != 0 && g.stores == 0 && g.set_results == 0 && g.decrefs == 0)
__CPROVER_assigns(self->_core, g.stores, g.t_store, g.clock, g.store_state, g.store_tag, g.set_results, g.t_set_result)
/* C06 producer: Store(args) precedes the publication, each exactly once; the promise's reference travels into SetResult (released there after the callback walk), the handle is left invalid without a DecRef of its own */
__CPROVER_ensures(g.stores == 1 && g.set_results == 1 && g.t_store < g.t_set_result && self->_core == 0 && g.decrefs == 0)
__CPROVER_ensures(NO_ARGS ? (g.store_state == RS_Value) : (g.store_state == a_state && g.store_tag == a_tag))
{''' + c + '''}
void harness(void) { ghost_reset(); Handle* p; Set(p, nondet_uint(), nondet_ulong()); VF_CANARY("end"); }
'''
        job('SharedPromise.Set.noargs%d' % noargs, b, src, 'Set', ['Store', 'SetResult'])
    b = find_body(repo, F_SP, r'~SharedPromise\s*\(\s*\)', 'SharedPromise::~SharedPromise', within=WSP)
    c = rw('~SharedPromise', pre=[(r'Valid\(\)', '(self->_core != 0)', 0), (r'this->Set\(\s*StopTag\{\}\s*\)', 'Set(self, RS_Error, TAG_STOP)', 0)]).rewrite(b.text)
    src = COMMON + '''unsigned g_sets; unsigned char g_set_state; unsigned long g_set_tag;
void Set(Handle* self, unsigned char s, unsigned long t) __CPROVER_requires(self->_core != 0) __CPROVER_assigns(g_sets, g_set_state, g_set_tag, self->_core)
  __CPROVER_ensures(g_sets == OLD(g_sets) + 1 && g_set_state == s && g_set_tag == t && self->_core == 0);
void Dtor(Handle* self)
__CPROVER_requires(__CPROVER_is_fresh(self, sizeof(*self)) && g_sets == 0)
__CPROVER_assigns(g_sets, g_set_state, g_set_tag, self->_core)
/* a SharedPromise dropped unset fulfils every SharedFuture with StopError - exactly once, and only if it was not used */
__CPROVER_ensures(OLD(self->_core) != 0 ? (g_sets == 1 && g_set_state == RS_Error && g_set_tag == TAG_STOP) : g_sets == 0)
__CPROVER_ensures(self->_core == 0)
{''' + c + '''}
void harness(void) { ghost_reset(); Handle* p; g_sets = 0; Dtor(p); if (g_sets) VF_CANARY("dropped unset"); else VF_CANARY("was used"); }
'''
    job('SharedPromise.Dtor', b, src, 'Dtor', ['Set'], canaries=2)
    # ---- Share / Split: a fresh contract connected to the source; the returned handle is the contract's future ---------------------------------------------
    for rel, nm, sig, shared_out in (('include/yaclib/async/share.hpp', 'Share.future', r'Future<V,\s*E>\s+Share\s*\(\s*const\s+SharedFutureBase<V,\s*E>\s*&\s*future\s*\)', 0),
                                     ('include/yaclib/async/share.hpp', 'Share.future.on', r'FutureOn<V,\s*E>\s+Share\s*\(\s*const\s+SharedFutureBase<V,\s*E>\s*&\s*future\s*,\s*IExecutor\s*&\s*executor\s*\)', 0),
                                     ('include/yaclib/async/share.hpp', 'Share.promise', r'Future<V,\s*E>\s+Share\s*\(\s*SharedPromise<V,\s*E>\s*&\s*promise\s*\)', 0),
                                     ('include/yaclib/async/share.hpp', 'Share.promise.on', r'FutureOn<V,\s*E>\s+Share\s*\(\s*SharedPromise<V,\s*E>\s*&\s*promise\s*,\s*IExecutor\s*&\s*executor\s*\)', 0),
                                     ('include/yaclib/async/split.hpp', 'Split.future', r'SharedFuture<V,\s*E>\s+Split\s*\(\s*FutureBase<V,\s*E>\s*&&\s*future\s*\)', 1)):
        b = find_body(repo, rel, sig, nm)
        pre = [(r'static_assert\([^;]*\);', '', 0), (r'auto\s*\[\s*f\s*,\s*p\s*\]\s*=\s*Make(?:Shared)?Contract<V,\s*E>\(\)\s*;', 'Handle f, p; MAKE_CONTRACT(&f, &p, (void*)0);', 0),
               (r'auto\s*\[\s*f\s*,\s*p\s*\]\s*=\s*Make(?:Shared)?ContractOn<V,\s*E>\(\s*executor\s*\)\s*;', 'Handle f, p; MAKE_CONTRACT(&f, &p, executor);', 0),
               (r'Connect\(\s*(?:std::move\(future\)|future|promise)\s*,\s*std::move\(p\)\s*\)\s*;', 'CONNECT(src, &p);', 0), (r'return\s+std::move\(f\)\s*;', 'return f._core;', 0),
               (r'promise\.Valid\(\)', '(src->_core != 0)', 0)]
        c = rw(nm, pre=pre, refs=[]).rewrite(b.text)
        src = COMMON + '''Core g_fresh; unsigned g_makes, g_connects; void* g_made_on; Handle* g_conn_src; Core* g_conn_p;
void MAKE_CONTRACT(Handle* f, Handle* p, void* e) __CPROVER_requires(g_makes == 0) __CPROVER_assigns(g_makes, g_made_on, f->_core, p->_core) __CPROVER_ensures(g_makes == 1 && g_made_on == e && f->_core == &g_fresh && p->_core == &g_fresh);
void CONNECT(Handle* s, Handle* p) __CPROVER_requires(s->_core != 0 && p->_core != 0 && g_connects == 0) __CPROVER_assigns(g_connects, g_conn_src, g_conn_p, p->_core) __CPROVER_ensures(g_connects == 1 && g_conn_src == s && g_conn_p == OLD(p->_core) && p->_core == 0);
Core* F(Handle* src, void* executor)
__CPROVER_requires(__CPROVER_is_fresh(src, sizeof(*src)) && src->_core != 0 && g_makes == 0 && g_connects == 0)
__CPROVER_assigns(g_makes, g_made_on, g_connects, g_conn_src, g_conn_p)
/* one fresh contract (on the named executor, if any), its promise connected exactly once to the source (unit connect: attached or fulfilled at once), its future handed out; the source keeps what it had */
__CPROVER_ensures(g_makes == 1 && g_connects == 1 && g_conn_src == src && g_conn_p == &g_fresh && RET == &g_fresh && g_made_on == (''' + ('executor' if nm.endswith('.on') else '(void*)0') + '''))
{''' + c + '''}
void harness(void) { ghost_reset(); g_makes = g_connects = 0; Handle* s; void* e; F(s, e); VF_CANARY("end"); }
'''
        job(nm, b, src, 'F', ['MAKE_CONTRACT', 'CONNECT'])

    # ---- FutureBase: ~FutureBase, Detach, Get&&, Get const& ---------------------------------------------------------
    ci_stub = '''/* CallInline drops whatever the callback's Here hands back: only a terminal callback (the Drop core) may be given to it */
void CallInline(Core* c, Core* cb) __CPROVER_requires(c != 0 && cb == &g_drop_core && g.call_inlines == 0) __CPROVER_assigns(g.call_inlines, g.ci_on, g.ci_cb) __CPROVER_ensures(g.call_inlines == 1 && g.ci_on == c && g.ci_cb == cb);
'''
    b = find_body(repo, F_FUT, r'void\s+Detach\s*\(\s*\)\s*&&\s*noexcept', 'FutureBase::Detach')
    c = rw('Future::Detach', omethods=['CallInline']).rewrite(b.text)
    src = COMMON + ci_stub + '''void Detach(Handle* self)
__CPROVER_requires(__CPROVER_is_fresh(self, sizeof(*self)) && self->_core != 0 && g.call_inlines == 0)
__CPROVER_assigns(self->_core, g.call_inlines, g.ci_on, g.ci_cb)
/* dropping a Future: the Drop continuation is attached (it only releases the core once the Result is there): nothing else runs, the handle is invalid */
__CPROVER_ensures(g.call_inlines == 1 && g.ci_on == OLD(self->_core) && g.ci_cb == &g_drop_core && self->_core == 0)
{''' + c + '''}
void harness(void) { ghost_reset(); Handle* f; Detach(f); VF_CANARY("end"); }
'''
    job('Future.Detach', b, src, 'Detach', ['CallInline'])
    b = find_body(repo, F_FUT, r'~FutureBase\s*\(\s*\)\s*noexcept', 'FutureBase::~FutureBase')
    c = rw('~FutureBase', pre=[(r'Valid\(\)', '(self->_core != 0)', 0), (r'this->Detach\(\)', 'Detach(self)', 0)]).rewrite(b.text)
    src = COMMON + '''unsigned g_detaches;
void Detach(Handle* self) __CPROVER_requires(self->_core != 0) __CPROVER_assigns(g_detaches, self->_core) __CPROVER_ensures(g_detaches == OLD(g_detaches) + 1 && self->_core == 0);
void Dtor(Handle* self)
__CPROVER_requires(__CPROVER_is_fresh(self, sizeof(*self)) && g_detaches == 0)
__CPROVER_assigns(g_detaches, self->_core)
__CPROVER_ensures(g_detaches == (OLD(self->_core) != 0 ? 1 : 0) && self->_core == 0)       /* released exactly once iff still owned (C03) */
{''' + c + '''}
void harness(void) { ghost_reset(); Handle* f; g_detaches = 0; Dtor(f); if (g_detaches) VF_CANARY("dropped"); else VF_CANARY("moved from"); }
'''
    job('Future.Dtor', b, src, 'Dtor', ['Detach'], canaries=2)
    b = find_body(repo, F_FUT, r'Result<V,\s*E>\s+Get\s*\(\s*\)\s*&&\s*noexcept', 'FutureBase::Get&&')
    pre = [(r'Wait\(\s*\*this\s*\)\s*;', 'WaitReady(self);', 0), (r'auto\s+core\s*=\s*std::exchange\(\s*_core\s*,\s*nullptr\s*\)\s*;', 'Core* core = HANDLE_RELEASE(self);', 0),
           (r'return\s+std::move\(\s*core->Get\(\)\s*\)\s*;', '{ Res vf_r = MOVE_RESULT(core); DecRef(core); /* ~IntrusivePtr */ return vf_r; }', 0),
           (r'return\s+std::move\(\s*_core->Get\(\)\s*\)\s*;', '{ Res vf_r = MOVE_RESULT(self->_core); return vf_r; }', 0)]
    c = rw('Future::Get&&', pre=pre).rewrite(b.text)
    src = COMMON + '''unsigned char g_ready;
void WaitReady(Handle* f) __CPROVER_requires(f->_core != 0) __CPROVER_assigns(g.waits, g_ready) __CPROVER_ensures(g.waits == OLD(g.waits) + 1 && g_ready == 1);
static inline Res MOVE_RESULT(Core* c) { __CPROVER_assert(g_ready, "C01: the Result is read only once it can be read"); __CPROVER_assert(g.decrefs == 0, "C03: no access after release");
  Res r = c->_result; c->_result.moved_from = 1; g.moves++; return r; }
Res Get(Handle* self)
__CPROVER_requires(__CPROVER_is_fresh(self, sizeof(*self)) && __CPROVER_is_fresh(self->_core, sizeof(Core)) && g.waits == 0 && g.decrefs == 0 && g.moves == 0 && !g_ready)
__CPROVER_assigns(self->_core, g.waits, g_ready, g.moves, g.decrefs, g.decref_of, g.t_decref, g.clock, OLD_CORE_RESULT)
/* post Get()&&: waits, then returns exactly the stored Result (state and payload), the core is released once afterwards, the handle is invalid */
__CPROVER_ensures(g.waits == 1 && RET.state == OLD(self->_core->_result.state) && RET.tag == OLD(self->_core->_result.tag))
__CPROVER_ensures(g.decrefs == 1 && g.decref_of == OLD(self->_core) && self->_core == 0 && g.moves == 1)
{''' + c + '''}
void harness(void) { ghost_reset(); Handle* f; g_ready = 0; Get(f); VF_CANARY("end"); }
'''
    src = src.replace('OLD_CORE_RESULT', 'self->_core->_result.moved_from')
    job('Future.Get.rvalue', b, src, 'Get', ['WaitReady', 'DecRef'])
    b = find_body(repo, F_FUT, r'const\s+Result<V,\s*E>\s*\*\s*Get\s*\(\s*\)\s*const\s*&\s*noexcept', 'FutureBase::Get const&')
    c = rw('Future::Get const&', pre=[(r'Ready\(\)', 'Ready(self)', 0), (r'&_core->Get\(\)', '(&self->_core->_result)', 0)]).rewrite(b.text)
    src = COMMON + '''unsigned char g_is_ready;
int Ready(Handle* f) __CPROVER_assigns() __CPROVER_ensures(RET == g_is_ready && g_is_ready <= 1);
Res* GetConst(Handle* self)
__CPROVER_requires(__CPROVER_is_fresh(self, sizeof(*self)) && __CPROVER_is_fresh(self->_core, sizeof(Core)))
__CPROVER_assigns()
/* Get() const&: a pointer to the stored Result iff Ready(), never a pointer to storage that is not constructed yet */
__CPROVER_ensures(g_is_ready ? RET == &self->_core->_result : RET == 0)
{''' + c + '''}
void harness(void) { ghost_reset(); Handle* f; Res* r = GetConst(f); if (r) VF_CANARY("ready"); else VF_CANARY("not ready"); }
'''
    job('Future.Get.const', b, src, 'GetConst', ['Ready'], canaries=2)

    # ---- Future: Valid, Ready, Touch x2 -----------------------------------------------------------------------------------
    def future_small():
        b = find_body(repo, F_FUT, r'bool\s+Valid\s*\(\s*\)\s*const\s*&\s*noexcept', 'FutureBase::Valid')
        c = rw('Future::Valid').rewrite(b.text)
        src = COMMON + 'int Valid(Handle* self)\n__CPROVER_requires(__CPROVER_is_fresh(self, sizeof(*self)))\n__CPROVER_assigns()\n/* a Future is valid exactly while it owns a core */\n__CPROVER_ensures(RET == (self->_core != 0))\n{' + c + \
            '}\nvoid harness(void) { ghost_reset(); Handle* f; if (Valid(f)) VF_CANARY("valid"); else VF_CANARY("invalid"); }\n'
        job('Future.Valid', b, src, 'Valid', [], canaries=2)
        b = find_body(repo, F_FUT, r'bool\s+Ready\s*\(\s*\)\s*const\s*&\s*noexcept', 'FutureBase::Ready')
        c = rw('Future::Ready', pre=[(r'_core->Empty\(\)', 'CoreEmpty(self->_core)', 1), (r'(?<![\w.>])Valid\(\)', '(self->_core != 0)', 0)]).rewrite(b.text)
        src = COMMON + '''unsigned char g_has_result;
/* BaseCore::Empty (unit base_core, after finding F04): true exactly while no Result has been published */
int CoreEmpty(Core* c) __CPROVER_requires(c != 0) __CPROVER_assigns() __CPROVER_ensures(RET == !g_has_result && g_has_result <= 1);
int Ready(Handle* self)
__CPROVER_requires(__CPROVER_is_fresh(self, sizeof(*self)) && self->_core != 0)
__CPROVER_assigns()
/* C01: Ready() is true exactly when the Result has been published (never because a continuation or waiter is registered) */
__CPROVER_ensures(RET == g_has_result)
{''' + c + '''}
void harness(void) { ghost_reset(); Handle* f; if (Ready(f)) VF_CANARY("ready"); else VF_CANARY("pending"); }
'''
        job('Future.Ready', b, src, 'Ready', ['CoreEmpty'], canaries=2)
        b = find_body(repo, F_FUT, r'const\s+Result<V,\s*E>\s*&\s*Touch\s*\(\s*\)\s*const\s*&\s*noexcept', 'FutureBase::Touch const&')
        c = rw('Future::Touch const&', pre=[(r'return\s+_core->Get\(\)\s*;', 'return &self->_core->_result;', 1), (r'(?<![\w.>])Ready\(\)', 'g_is_ready', 0)]).rewrite(b.text)
        src = COMMON + '''unsigned char g_is_ready;
Res* TouchConst(Handle* self)
/* precondition of Touch: the future is Ready (asserted by the library in debug builds) */
__CPROVER_requires(__CPROVER_is_fresh(self, sizeof(*self)) && __CPROVER_is_fresh(self->_core, sizeof(Core)) && g_is_ready == 1)
__CPROVER_assigns()
/* Touch() const&: a reference to the stored Result itself; nothing is moved, released or invalidated */
__CPROVER_ensures(RET == &self->_core->_result && self->_core == OLD(self->_core) && g.decrefs == 0 && g.moves == 0)
{''' + c + '''}
void harness(void) { ghost_reset(); g_is_ready = 1; Handle* f; TouchConst(f); VF_CANARY("end"); }
'''
        job('Future.Touch.const', b, src, 'TouchConst', [])
        b = find_body(repo, F_FUT, r'Result<V,\s*E>\s+Touch\s*\(\s*\)\s*&&\s*noexcept', 'FutureBase::Touch&&')
        pre = [(r'(?<![\w.>])Ready\(\)', 'g_ready', 0), (r'auto\s+core\s*=\s*std::exchange\(\s*_core\s*,\s*nullptr\s*\)\s*;', 'Core* core = HANDLE_RELEASE(self);', 0),
               (r'return\s+std::move\(\s*core->Get\(\)\s*\)\s*;', '{ Res vf_r = MOVE_RESULT(core); DecRef(core); /* ~IntrusivePtr */ return vf_r; }', 0),
           (r'return\s+std::move\(\s*_core->Get\(\)\s*\)\s*;', '{ Res vf_r = MOVE_RESULT(self->_core); return vf_r; }', 0)]
        c = rw('Future::Touch&&', pre=pre).rewrite(b.text)
        src = COMMON + '''unsigned char g_ready;
static inline Res MOVE_RESULT(Core* c) { __CPROVER_assert(g_ready, "C01: the Result is read only once it can be read"); __CPROVER_assert(g.decrefs == 0, "C03: no access after release");
  Res r = c->_result; c->_result.moved_from = 1; g.moves++; return r; }
Res Touch(Handle* self)
__CPROVER_requires(__CPROVER_is_fresh(self, sizeof(*self)) && __CPROVER_is_fresh(self->_core, sizeof(Core)) && g.waits == 0 && g.decrefs == 0 && g.moves == 0 && g_ready == 1)
__CPROVER_assigns(self->_core, g.moves, g.decrefs, g.decref_of, g.t_decref, g.clock, self->_core->_result.moved_from)
/* Touch()&& on a ready future: exactly the stored Result (state and payload) without waiting, the core is released once afterwards, the handle is invalid */
__CPROVER_ensures(g.waits == 0 && RET.state == OLD(self->_core->_result.state) && RET.tag == OLD(self->_core->_result.tag))
__CPROVER_ensures(g.decrefs == 1 && g.decref_of == OLD(self->_core) && self->_core == 0 && g.moves == 1)
{''' + c + '''}
void harness(void) { ghost_reset(); Handle* f; g_ready = 1; Touch(f); VF_CANARY("end"); }
'''
        job('Future.Touch.rvalue', b, src, 'Touch', ['DecRef'])
    try:
        future_small()
    except ExtractionBreak as e:
        ctx.breaks.append(str(e))

    # ---- Task: ~Task, Cancel, Detach x2, ToFuture x2 ------------------------------------------------------------------
    start_stubs = '''void StoreCallback(Core* c, Core* cb) __CPROVER_requires(c != 0 && g.starts == 0) __CPROVER_assigns(g.store_cbs, g.sc_on, g.sc_cb) __CPROVER_ensures(g.store_cbs == OLD(g.store_cbs) + 1 && g.sc_on == c && g.sc_cb == cb);
void Start1(Core* c) __CPROVER_requires(c != 0 && g.starts == 0) __CPROVER_assigns(g.starts, g.start_head, g.start_has_exec) __CPROVER_ensures(g.starts == 1 && g.start_head == c && g.start_has_exec == 0);
void Start2(Core* c, void* e) __CPROVER_requires(c != 0 && e != 0 && g.starts == 0) __CPROVER_assigns(g.starts, g.start_head, g.start_exec, g.start_has_exec) __CPROVER_ensures(g.starts == 1 && g.start_head == c && g.start_exec == e && g.start_has_exec == 1);
#define START_SEL(a, b, N, ...) N
#define Start(...) START_SEL(__VA_ARGS__, Start2, Start1)(__VA_ARGS__)
'''
    for nm, sig, has_e in (('Task.Detach', r'void\s+Detach\s*\(\s*\)\s*&&\s*noexcept', 0), ('Task.Detach.on', r'void\s+Detach\s*\(\s*IExecutor\s*&\s*e\s*\)\s*&&\s*noexcept', 1)):
        b = find_body(repo, F_TASK, sig, 'Task::' + nm)
        c = rw(nm, omethods=['StoreCallback'], pre=[(r'YACLIB_ASSERT\(Valid\(\)\)', 'REPO_ASSERT(self->_core != 0)', 0)]).rewrite(b.text)
        src = COMMON + start_stubs + '''void F(Handle* self, void* e)
__CPROVER_requires(__CPROVER_is_fresh(self, sizeof(*self)) && self->_core != 0 && e != 0 && g.starts == 0 && g.store_cbs == 0)
__CPROVER_assigns(self->_core, g.store_cbs, g.sc_on, g.sc_cb, g.starts, g.start_head, g.start_exec, g.start_has_exec)
/* Task::Detach: the last step gets the Drop continuation first, then the chain is started exactly once (on e if given); the handle is invalid */
__CPROVER_ensures(g.store_cbs == 1 && g.sc_on == OLD(self->_core) && g.sc_cb == &g_drop_core && g.starts == 1 && g.start_head == OLD(self->_core) && self->_core == 0)
__CPROVER_ensures(HAS_E ? (g.start_has_exec && g.start_exec == e) : !g.start_has_exec)
{''' + c + '''}
void harness(void) { ghost_reset(); Handle* t; void* e; F(t, e); VF_CANARY("end"); }
'''
        job(nm, b, src.replace('HAS_E', str(has_e)), 'F', ['StoreCallback', 'Start1', 'Start2'])
    for nm, sig, has_e in (('Task.ToFuture', r'Future<V,\s*E>\s+ToFuture\s*\(\s*\)\s*&&\s*noexcept', 0), ('Task.ToFuture.on', r'FutureOn<V,\s*E>\s+ToFuture\s*\(\s*IExecutor\s*&\s*e\s*\)\s*&&\s*noexcept', 1)):
        b = find_body(repo, F_TASK, sig, 'Task::' + nm)
        c = rw(nm, pre=[(r'YACLIB_ASSERT\(Valid\(\)\)', 'REPO_ASSERT(self->_core != 0)', 0), (r'return\s*\{\s*std::move\(\s*_core\s*\)\s*\}\s*;', 'return HANDLE_RELEASE(self);', 0)]).rewrite(b.text)
        src = COMMON + start_stubs + '''Core* F(Handle* self, void* e)
__CPROVER_requires(__CPROVER_is_fresh(self, sizeof(*self)) && self->_core != 0 && e != 0 && g.starts == 0)
__CPROVER_assigns(self->_core, g.starts, g.start_head, g.start_exec, g.start_has_exec)
/* Task::ToFuture: the chain is started exactly once and the same core is handed out as a Future (the Task handle is invalid) */
__CPROVER_ensures(g.starts == 1 && g.start_head == OLD(self->_core) && RET == OLD(self->_core) && self->_core == 0 && g.store_cbs == 0)
__CPROVER_ensures(HAS_E ? (g.start_has_exec && g.start_exec == e) : !g.start_has_exec)
{''' + c + '''}
void harness(void) { ghost_reset(); Handle* t; void* e; F(t, e); VF_CANARY("end"); }
'''
        job(nm, b, src.replace('HAS_E', str(has_e)), 'F', ['Start1', 'Start2'])
    b = find_body(repo, F_TASK, r'void\s+Cancel\s*\(\s*\)\s*&&\s*noexcept', 'Task::Cancel')
    c = rw('Task::Cancel', pre=[(r'this->Detach\(\s*MakeInline\(\s*StopTag\{\}\s*\)\s*\)', 'DetachOn(self, MakeInlineStopped())', 0)]).rewrite(b.text)
    src = COMMON + '''void* g_stopped_inline; unsigned g_detaches; void* g_detach_exec;
#define MakeInlineStopped() g_stopped_inline
void DetachOn(Handle* self, void* e) __CPROVER_requires(self->_core != 0) __CPROVER_assigns(g_detaches, g_detach_exec, self->_core) __CPROVER_ensures(g_detaches == OLD(g_detaches) + 1 && g_detach_exec == e && self->_core == 0);
void Cancel(Handle* self)
__CPROVER_requires(__CPROVER_is_fresh(self, sizeof(*self)) && self->_core != 0 && g_detaches == 0)
__CPROVER_assigns(g_detaches, g_detach_exec, self->_core)
/* C12: cancelling = detaching onto the always-dropping inline executor: the head is Dropped, Error(Stop) flows down the chain (C05 Drop, C02 routing: no value callback runs),
   every functor is destroyed by its step (C03) */
__CPROVER_ensures(g_detaches == 1 && g_detach_exec == g_stopped_inline && self->_core == 0)
{''' + c + '''}
void harness(void) { ghost_reset(); Handle* t; g_detaches = 0; Cancel(t); VF_CANARY("end"); }
'''
    job('Task.Cancel', b, src, 'Cancel', ['DetachOn'])
    b = find_body(repo, F_TASK, r'~Task\s*\(\s*\)\s*noexcept', 'Task::~Task')
    c = rw('~Task', pre=[(r'Valid\(\)', '(self->_core != 0)', 0), (r'this->Cancel\(\)', 'Cancel(self)', 0)]).rewrite(b.text)
    src = COMMON + '''unsigned g_cancels;
void Cancel(Handle* self) __CPROVER_requires(self->_core != 0) __CPROVER_assigns(g_cancels, self->_core) __CPROVER_ensures(g_cancels == OLD(g_cancels) + 1 && self->_core == 0);
void Dtor(Handle* self)
__CPROVER_requires(__CPROVER_is_fresh(self, sizeof(*self)) && g_cancels == 0)
__CPROVER_assigns(g_cancels, self->_core)
__CPROVER_ensures(g_cancels == (OLD(self->_core) != 0 ? 1 : 0) && self->_core == 0)     /* a Task that was started / moved from owns nothing */
{''' + c + '''}
void harness(void) { ghost_reset(); Handle* t; g_cancels = 0; Dtor(t); if (g_cancels) VF_CANARY("never started"); else VF_CANARY("moved from"); }
'''
    job('Task.Dtor', b, src, 'Dtor', ['Cancel'], canaries=2)

    # ---- UniqueCore::CallInline / Retire, SharedCore::Retire, ResultCore::Impl --------------------------------------------
    b = find_body(repo, F_UC, r'void\s+CallInline\s*\(\s*InlineCore\s*&\s*callback\s*\)\s*noexcept', 'UniqueCore::CallInline')
    c = Rewriter('CallInline', refs=['callback'], methods=['SetCallback'], omethods=['Here']).rewrite(b.text)
    src = COMMON + '''unsigned g_attached; unsigned char g_attach_ok;
int SetCallback(Core* self, Core* cb) __CPROVER_assigns(g_attached) __CPROVER_ensures(g_attached == OLD(g_attached) + 1 && RET == g_attach_ok && g_attach_ok <= 1);
Core* Here(Core* cb, Core* caller) __CPROVER_requires(g.heres == 0 && !g_attach_ok) __CPROVER_assigns(g.heres, g.here_on, g.here_caller) __CPROVER_ensures(g.heres == 1 && g.here_on == cb && g.here_caller == caller && RET == 0);
void CallInline(Core* self, Core* callback)
__CPROVER_requires(__CPROVER_is_fresh(self, sizeof(*self)) && __CPROVER_is_fresh(callback, sizeof(*callback)) && g_attached == 0 && g.heres == 0)
__CPROVER_assigns(g_attached, g.heres, g.here_on, g.here_caller)
/* CallInline (a last callback: Drop, wait event): attached if the Result is not there yet, otherwise run right here, once, with this core as caller (C01 exactly once) */
__CPROVER_ensures(g_attached == 1 && g.heres == (g_attach_ok ? 0 : 1) && (g.heres ==> (g.here_on == callback && g.here_caller == self)))
{''' + c + '''}
void harness(void) { ghost_reset(); Core* a; Core* b; g_attached = 0; CallInline(a, b); if (g.heres) VF_CANARY("ran here"); else VF_CANARY("attached"); }
'''
    job('UniqueCore.CallInline', b, src, 'CallInline', ['SetCallback', 'Here'], canaries=2)
    retire_prelude = '''unsigned long g_ref;
unsigned long GetRef(Core* c) __CPROVER_assigns() __CPROVER_ensures(RET == g_ref && g_ref >= 1);
static inline Res take(Core* c, int move) { __CPROVER_assert(g.decrefs == 0, "C03,C06,C09: the value is read before this holder drops its reference (afterwards another holder may be the last one and move it out)"); Res r = c->_result;
  if (move) { g.moves++; g.t_move = g.clock++; c->_result.moved_from = 1; } else g.copies++; return r; }
#define MOVE_GET(c) take(c, 1)
#define CONST_GET(c) take(c, 0)
'''
    b = find_body(repo, F_UC, r'Result<V,\s*E>\s+Retire\s*\(\s*\)\s*final', 'UniqueCore::Retire')
    pre = [(r'std::is_move_constructible_v<Result<V,\s*E>>', 'MOVE_CTOR', 0), (r'auto\s+result\s*=\s*std::move\(\s*this->Get\(\)\s*\)\s*;', 'Res result = MOVE_GET(self);', 0),
           (r'this->DecRef\(\)', 'DecRef(self)', 0), (r'YACLIB_PURE_VIRTUAL\(\)\s*;', 'PURE_VIRTUAL();', 0), (r'return\s*\{\s*\}\s*;', 'return empty_res();', 0)]
    c = Rewriter('UniqueCore::Retire', pre=pre).rewrite(b.text)
    src = COMMON + retire_prelude + '''#define MOVE_CTOR 1
static inline Res empty_res(void) { Res r; r.state = RS_Empty; r.tag = 0; r.moved_from = 0; return r; }
#define PURE_VIRTUAL() __CPROVER_assert(0, "pure virtual: unreachable")
Res Retire(Core* self)
__CPROVER_requires(__CPROVER_is_fresh(self, sizeof(*self)) && g.decrefs == 0 && g.moves == 0)
__CPROVER_assigns(g.moves, g.t_move, g.clock, g.decrefs, g.decref_of, g.t_decref, self->_result.moved_from)
/* a combinator input (Managed policy): the Result is moved out, then the core is released exactly once (C09 / C03) */
__CPROVER_ensures(RET.state == OLD(self->_result.state) && RET.tag == OLD(self->_result.tag) && g.moves == 1 && g.decrefs == 1 && g.decref_of == self && g.t_move < g.t_decref)
{''' + c + '''}
void harness(void) { ghost_reset(); Core* a; Retire(a); VF_CANARY("end"); }
'''
    job('UniqueCore.Retire', b, src, 'Retire', ['DecRef'])
    b = find_body(repo, F_SC, r'Result<V,\s*E>\s+Retire\s*\(\s*\)\s*final', 'SharedCore::Retire')
    pre = [(r'this->GetRef\(\)', 'GetRef(self)', 0), (r'std::move\(\s*this->Get\(\)\s*\)', 'MOVE_GET(self)', 0), (r'std::as_const\(\s*this->Get\(\)\s*\)', 'CONST_GET(self)', 0),
           (r'\bauto\s+result\s*=', 'Res result =', 0), (r'this->DecRef\(\)', 'DecRef(self)', 0)]
    c = Rewriter('SharedCore::Retire', pre=pre).rewrite(b.text)
    src = COMMON + retire_prelude + '''Res Retire(Core* self)
__CPROVER_requires(__CPROVER_is_fresh(self, sizeof(*self)) && g.decrefs == 0 && g.moves == 0 && g.copies == 0)
__CPROVER_assigns(g.moves, g.copies, g.t_move, g.clock, g.decrefs, g.decref_of, g.t_decref, self->_result.moved_from)
/* C06: moving out is allowed only for the provably last observer (the caller holds the only reference); everybody else copies */
__CPROVER_ensures(RET.state == OLD(self->_result.state) && RET.tag == OLD(self->_result.tag) && g.decrefs == 1 && g.decref_of == self)
__CPROVER_ensures(g.moves == (g_ref == 1 ? 1 : 0) && g.copies == (g_ref == 1 ? 0 : 1))
{''' + c + '''}
void harness(void) { ghost_reset(); Core* a; Retire(a); if (g.moves) VF_CANARY("last observer moves"); else VF_CANARY("copies"); }
'''
    job('SharedCore.Retire', b, src, 'Retire', ['GetRef', 'DecRef'], canaries=2)
    # ---- SharedFutureBase: Get && / Touch && (move only as the provably last holder), Get const& / Touch const& (never move), Detach ----------------------------
    F_SF = 'include/yaclib/async/shared_future.hpp'
    WS = r'class\s+SharedFutureBase\s*\{'
    sf_pre = [(r'Valid\(\)', '(self->_core != 0)', 0), (r'\bReady\(\)', 'READY(self)', 0), (r'Wait\(\s*\*this\s*\)\s*;', 'WaitReady(self);', 0), (r'_core->GetRef\(\)', 'GetRef(self->_core)', 0),
              (r'return\s+std::move\(\s*_core->Get\(\)\s*\)\s*;', 'return MOVE_GET(self->_core);', 0), (r'return\s+_core->Get\(\)\s*;', 'return CONST_GET(self->_core);', 0), (r'_core\s*=\s*nullptr\s*;', 'HANDLE_ASSIGN_NULL(self);', 0)]
    sf_common = COMMON + retire_prelude + '''unsigned char g_ready;
void WaitReady(Handle* f) __CPROVER_requires(f->_core != 0) __CPROVER_assigns(g.waits, g_ready) __CPROVER_ensures(g.waits == OLD(g.waits) + 1 && g_ready == 1);
int READY(Handle* f) __CPROVER_assigns() __CPROVER_ensures(RET == g_ready);
static inline Res take_ready(Core* c, int move) { __CPROVER_assert(g_ready, "C06: the Result is read only once it is there"); return take(c, move); }
#undef MOVE_GET
#undef CONST_GET
#define MOVE_GET(c) take_ready(c, 1)
#define CONST_GET(c) take_ready(c, 0)
/* IntrusivePtr::operator=(nullptr): gives back the one reference the handle stands for (unit intrusive_ptr) */
static inline void HANDLE_ASSIGN_NULL(Handle* h) { if (h->_core != 0) DecRef(h->_core); h->_core = 0; }
'''
    for nm, sig, waits, rv in (('Get.rvalue', r'Result<V,\s*E>\s+Get\s*\(\s*\)\s*&&\s*noexcept', 1, 1), ('Touch.rvalue', r'Result<V,\s*E>\s+Touch\s*\(\s*\)\s*&&\s*noexcept', 0, 1),
                               ('Get.const', r'const\s+Result<V,\s*E>\s*&\s*Get\s*\(\s*\)\s*const\s*&\s*noexcept', 1, 0), ('Touch.const', r'const\s+Result<V,\s*E>\s*&\s*Touch\s*\(\s*\)\s*const\s*&\s*noexcept', 0, 0)):
        b = find_body(repo, F_SF, sig, 'SharedFutureBase::' + nm, within=WS)
        c = rw('SharedFuture::' + nm, pre=sf_pre).rewrite(b.text)
        src = sf_common + '''Res F(Handle* self)
__CPROVER_requires(__CPROVER_is_fresh(self, sizeof(*self)) && __CPROVER_is_fresh(self->_core, sizeof(Core)) && g.waits == 0 && g.decrefs == 0 && g.moves == 0 && g.copies == 0 && (%d ? !g_ready : g_ready))
__CPROVER_assigns(g.waits, g_ready, g.moves, g.copies, g.t_move, g.clock, self->_core->_result.moved_from)
/* C06: a SharedFuture's value is read only after it is there (Get waits first), through a const reference unless this rvalue holder is provably the only reference left (GetRef() == 1): only then it may be moved out;
   the handle keeps its reference (its destructor gives it back) */
__CPROVER_ensures(RET.state == OLD(self->_core->_result.state) && RET.tag == OLD(self->_core->_result.tag) && g.waits == %d && self->_core == OLD(self->_core) && g.decrefs == 0)
__CPROVER_ensures(%s)
{''' % (waits, waits, '(g.moves == (g_ref == 1 ? 1 : 0) && g.copies == (g_ref == 1 ? 0 : 1))' if rv else '(g.moves == 0 && g.copies == 1)') + c + '''}
void harness(void) { ghost_reset(); Handle* f; F(f); if (g.moves) VF_CANARY("last holder moves"); else VF_CANARY("reads"); }
'''
        job('SharedFuture.' + nm, b, src, 'F', ['WaitReady', 'READY', 'GetRef'], canaries=2 if rv else 1, hpre=sf_pre)
    b = find_body(repo, F_SF, r'void\s+Detach\s*\(\s*\)\s*&&\s*noexcept', 'SharedFutureBase::Detach', within=WS)
    c = rw('SharedFuture::Detach', pre=sf_pre).rewrite(b.text)
    src = sf_common + '''void F(Handle* self)
__CPROVER_requires(__CPROVER_is_fresh(self, sizeof(*self)) && g.decrefs == 0)
__CPROVER_assigns(self->_core, g.decrefs, g.decref_of, g.t_decref, g.clock)
/* dropping one copy of a SharedFuture gives back exactly its own reference; the shared state lives on for the other holders */
__CPROVER_ensures(self->_core == 0 && g.decrefs == (OLD(self->_core) != 0 ? 1 : 0) && (OLD(self->_core) != 0 ==> g.decref_of == OLD(self->_core)))
{''' + c + '''}
void harness(void) { ghost_reset(); Handle* f; F(f); VF_CANARY("end"); }
'''
    job('SharedFuture.Detach', b, src, 'F', ['DecRef'])
    b = find_body(repo, F_RC, r'auto\s+Impl\s*\(\s*InlineCore\s*&\s*caller\s*\)\s*noexcept', 'ResultCore::Impl')
    pre = [(r'std::is_copy_constructible_v<Result<V,\s*E>>', 'COPY_CTOR', 0), (r'std::is_move_constructible_v<Result<V,\s*E>>', 'MOVE_CTOR', 0),
           (r'ResultCore<V,\s*E>::Store\(\s*std::move\(\s*DownCast<ResultCore<V,\s*E>>\(caller\)\.Get\(\)\s*\)\s*\)\s*;', 'StoreRes(self, MOVE_GET(caller));', 0),
           (r'ResultCore<V,\s*E>::Store\(\s*DownCast<ResultCore<V,\s*E>>\(caller\)\.Get\(\)\s*\)\s*;', 'StoreRes(self, CONST_GET(caller));', 0),
           (r'BaseCore::SetResultImpl<SymmetricTransfer,\s*Shared>\(\)', 'SetResult(self)', 0), (r'caller\.GetRef\(\)', 'GetRef(caller)', 0), (r'caller\.DecRef\(\)', 'DecRef(caller)', 0),
           (r'YACLIB_PURE_VIRTUAL\(\)\s*;', 'PURE_VIRTUAL();', 0), (r'Noop<SymmetricTransfer>\(\)', '((Transfer)0)', 0)]
    c = Rewriter('ResultCore::Impl', pre=pre, refs=['caller']).rewrite(b.text)
    for copyable in (1, 0):
        src = COMMON + retire_prelude + '''#define COPY_CTOR %d
#define MOVE_CTOR 1
#define PURE_VIRTUAL() __CPROVER_assert(0, "pure virtual: unreachable")
static inline void StoreRes(Core* self, Res r) { Store(self, r.state, r.tag); }
Transfer Impl(Core* self, Core* caller)
__CPROVER_requires(__CPROVER_is_fresh(self, sizeof(*self)) && __CPROVER_is_fresh(caller, sizeof(*caller)) && g.stores == 0 && g.set_results == 0 && g.decrefs == 0 && g.moves == 0 && g.copies == 0)
__CPROVER_requires(COPY_CTOR ? 1 : g_ref == 1)                   /* move-only values come from unique cores only */
__CPROVER_assigns(g.stores, g.t_store, g.clock, g.store_state, g.store_tag, g.set_results, g.t_set_result, g.moves, g.copies, g.t_move, g.decrefs, g.decref_of, g.t_decref, caller->_result.moved_from)
/* a connected core (Connect, unwrapping target) completes with exactly its caller's Result and publishes it */
__CPROVER_ensures(g.stores == 1 && g.store_state == OLD(caller->_result.state) && g.store_tag == OLD(caller->_result.tag) && g.set_results == 1 && RET == g.sr_ret)
/* C06 reference thresholds: ref >= 3 (shared state still observed, or not the last callback) copies and leaves the caller alone; ref == 2 (last callback, no SharedFuture left)
   moves but does not release; ref == 1 (unique caller) moves and releases it exactly once */
__CPROVER_ensures(g.moves == (g_ref <= 2 ? 1 : 0) && g.copies == (g_ref <= 2 ? 0 : 1) && g.decrefs == (g_ref == 1 ? 1 : 0))
__CPROVER_ensures(g.decrefs ==> (g.decref_of == caller && g.t_move < g.t_decref && g.t_store < g.t_decref))
{''' % copyable + c + '''}
void harness(void) { ghost_reset(); Core* a; Core* b; Impl(a, b); if (g_ref == 1) VF_CANARY("unique caller"); else if (g_ref == 2) VF_CANARY("last shared observer"); else VF_CANARY("shared copy"); }
'''
        job('ResultCore.Impl.copyable%d' % copyable, b, src, 'Impl', ['GetRef', 'DecRef', 'Store', 'SetResult'], canaries=3 if copyable else 1)
    # ---- Drop core ------------------------------------------------------------------------------------------------------------
    b = find_body(repo, F_DROP, r'auto\s+Impl\s*\(\s*InlineCore\s*&\s*caller\s*\)\s*noexcept', 'Drop::Impl')
    c = Rewriter('Drop::Impl', refs=['caller'], omethods=['DecRef'], tcalls=['Noop']).rewrite(b.text)
    src = COMMON + '''#define SymmetricTransfer 0
#define Noop_T(s) ((Transfer)0)
Transfer Impl(Core* self, Core* caller)
__CPROVER_requires(caller != 0 && g.decrefs == 0)
__CPROVER_assigns(g.decrefs, g.decref_of, g.t_decref, g.clock)
/* the Drop continuation (Future dropped / detached): releases the completed core exactly once and runs nothing (C01 "nothing runs if the Future was dropped", C03) */
__CPROVER_ensures(g.decrefs == 1 && g.decref_of == caller && RET == (Transfer)0)
{''' + c + '''}
void harness(void) { ghost_reset(); Core* a; Core* b; Impl(a, b); VF_CANARY("end"); }
'''
    job('Drop.Impl', b, src, 'Impl', ['DecRef'])
    # ---- PromiseCore::Drop, ReadyCore ---------------------------------------------------------------------------------------------
    b = find_body(repo, F_PC, r'void\s+Drop\s*\(\s*\)\s*noexcept\s+final', 'PromiseCore::Drop')
    pre = [(r'this->_func\.storage\.~Storage\(\)', 'FUNCTOR_DTOR(self)', 0), (r'this->Store\(\s*StopTag\{\}\s*\)', 'Store(self, RS_Error, TAG_STOP)', 0),
           (r'this->template\s+SetResult<false>\(\)', 'SetResult(self)', 0),
           # a local Promise owning this core (RAII): its destructor runs at the end of the body - an unfulfilled promise stores StopError and drives the continuation (contract of ~Promise / Promise::Set above)
           (r'PromiseT\s+(\w+)\s*\{\s*CorePtrT\s*\{\s*NoRefTag\{\}\s*,\s*this\s*\}\s*\}\s*;', r'int vf_local_promise = 1;', 0)]
    c = Rewriter('PromiseCore::Drop', pre=pre).rewrite(b.text)
    if 'vf_local_promise' in c:
        c += '\n  if (vf_local_promise) { Store(self, RS_Error, TAG_STOP); Loop(self, SetResult(self)); }   /* ~Promise of the local promise */\n'
    src = COMMON + '''unsigned g_func_dtors;
void FUNCTOR_DTOR(Core* s) __CPROVER_requires(g_func_dtors == 0) __CPROVER_assigns(g_func_dtors) __CPROVER_ensures(g_func_dtors == 1);
void Drop(Core* self)
__CPROVER_requires(__CPROVER_is_fresh(self, sizeof(*self)) && g_func_dtors == 0 && g.stores == 0 && g.set_results == 0 && g.loops == 0)
__CPROVER_assigns(g_func_dtors, g.stores, g.t_store, g.clock, g.store_state, g.store_tag, g.set_results, g.t_set_result, g.loops, g.loop_prev, g.loop_curr)
/* a contract step refused by its executor: the functor is destroyed (never invoked), the Future completes with StopError, the rest of the chain still runs (C05, C03) */
__CPROVER_ensures(g_func_dtors == 1 && g.stores == 1 && g.store_state == RS_Error && g.store_tag == TAG_STOP && g.set_results == 1 && g.loops == 1 && g.loop_prev == self && g.loop_curr == g.sr_ret)
{''' + c + '''}
void harness(void) { ghost_reset(); g_func_dtors = 0; Core* a; Drop(a); VF_CANARY("end"); }
'''
    job('PromiseCore.Drop', b, src, 'Drop', ['FUNCTOR_DTOR', 'Store', 'SetResult', 'Loop'])
    # PromiseCore as the head of a lazy chain: Here / Next start it (like detail::Start) until Call ran, afterwards they forward a connected future's Result
    b_h = find_body(repo, F_PC, r'InlineCore\s*\*\s*Here\s*\(\s*InlineCore\s*&\s*caller\s*\)\s*noexcept\s+final', 'PromiseCore::Here')
    b_n = find_body(repo, F_PC, r'coroutine_handle<>\s+Next\s*\(\s*InlineCore\s*&\s*caller\s*\)\s*noexcept\s+final', 'PromiseCore::Next')
    b_c = find_body(repo, F_PC, r'void\s+Call\s*\(\s*\)\s*noexcept\s+final', 'PromiseCore::Call')
    hp = [(r'this->_executor->Submit\(\s*\*this\s*\)', 'Submit(self->_executor, self)', 1), (r'Base::(Here|Next)\(caller\)', r'BASE_HERE(self, caller)', 1), (r'Noop<true>\(\)', '((Transfer)0)', 0)]
    stubs_h = '''Transfer g_base_ret;
void Submit(void* e, Core* job) __CPROVER_requires(e != 0 && g.submits == 0) __CPROVER_assigns(g.submits, g.submit_to, g.submit_job) __CPROVER_ensures(g.submits == 1 && g.submit_to == e && g.submit_job == job);
Transfer BASE_HERE(Core* self, Core* caller) __CPROVER_requires(g.heres == 0) __CPROVER_assigns(g.heres, g.here_on, g.here_caller) __CPROVER_ensures(g.heres == 1 && g.here_on == self && g.here_caller == caller && RET == g_base_ret);
'''
    for nm, b in (('Here', b_h), ('Next', b_n)):
        c = Rewriter('PromiseCore::' + nm, pre=hp, refs=['caller']).rewrite(b.text)
        src = COMMON.replace('void* _executor; Res _result; };', 'void* _executor; Res _result; struct { Core* caller; unsigned char unwrapping; } _self; };') + stubs_h + '''Transfer HereF(Core* self, Core* caller)
__CPROVER_requires(__CPROVER_is_fresh(self, sizeof(*self)) && self->_executor != 0 && self->_self.unwrapping <= 1 && g.submits == 0 && g.heres == 0)
__CPROVER_assigns(g.submits, g.submit_to, g.submit_job, g.heres, g.here_on, g.here_caller)
/* C12 / C02 / C13: a LazyContract head that has not run yet is STARTED when it is reached through Here / Next (its caller is its continuation - a step that returned this Task, or a coroutine
   awaiting it): exactly one Submit of itself on its own executor, as detail::Start does, and nothing is read from the caller */
__CPROVER_ensures(OLD(self->_self.unwrapping) == 0 ==> (g.submits == 1 && g.submit_job == self && g.submit_to == self->_executor && g.heres == 0 && RET == (Transfer)0))
/* once Call ran, the only way to be reached is as the callback of a connected future: forward its Result (UniqueCore / SharedCore Here) */
__CPROVER_ensures(OLD(self->_self.unwrapping) != 0 ==> (g.submits == 0 && g.heres == 1 && g.here_on == self && g.here_caller == caller && RET == g_base_ret))
{''' + c + '''}
void harness(void) { ghost_reset(); Core* a; Core* b; HereF(a, b); if (g.submits) VF_CANARY("started"); else VF_CANARY("forwarded"); }
'''
        job('PromiseCore.' + nm, b, src, 'HereF', ['Submit', 'BASE_HERE'], canaries=2)
    cp = [(r'PromiseT\s+promise\s*\{\s*CorePtrT\s*\{\s*NoRefTag\{\}\s*,\s*this\s*\}\s*\}\s*;', 'Core* promise = self;', 1), (r'\btry\s*\{', '{', 1), (r'static_assert\([^;]*\);', '', 0),
          (r'auto\s+func\s*=\s*std::move\(\s*this->_func\.storage\s*\)\s*;', 'FUNC_MOVE(self);', 1), (r'this->_func\.storage\.~Storage\(\)', 'FUNCTOR_DTOR(self)', 1),
          (r'std::forward<Invoke>\(func\)\(\s*std::move\(promise\)\s*\)', 'FUNC_INVOKE(self)', 1), (r'\}\s*catch\s*\(\s*\.\.\.\s*\)\s*\{', '} if (g_threw) {', 1),
          (r'promise\.Valid\(\)', 'PROMISE_VALID(promise)', 1), (r'std::move\(promise\)\.Set\(\s*std::current_exception\(\)\s*\)', 'PROMISE_SET_EXC(promise)', 1)]
    c = Rewriter('PromiseCore::Call', pre=cp).rewrite(b_c.text)
    src = COMMON.replace('void* _executor; Res _result; };', 'void* _executor; Res _result; struct { Core* caller; unsigned char unwrapping; } _self; };') + '''unsigned g_func_moves, g_func_dtors, g_invokes, g_set_excs; unsigned char g_threw, g_valid;
void FUNC_MOVE(Core* s) __CPROVER_requires(g_func_moves == 0 && g_func_dtors == 0) __CPROVER_assigns(g_func_moves) __CPROVER_ensures(g_func_moves == 1);
void FUNCTOR_DTOR(Core* s) __CPROVER_requires(g_func_dtors == 0 && g_func_moves == 1) __CPROVER_assigns(g_func_dtors) __CPROVER_ensures(g_func_dtors == 1);
/* the user functor receives the Promise: from here on the promise may be connected to another future, so the core must already be marked as started, and the storage it was moved from must be gone
   (the promise may be fulfilled - and the core freed - before the functor returns) */
void FUNC_INVOKE(Core* s) __CPROVER_requires(g_invokes == 0 && g_func_moves == 1 && g_func_dtors == 1 && s->_self.unwrapping == 1) __CPROVER_assigns(g_invokes, g_threw, g_valid)
  __CPROVER_ensures(g_invokes == 1 && g_threw <= 1 && g_valid <= 1);
int PROMISE_VALID(Core* p) __CPROVER_assigns() __CPROVER_ensures(RET == g_valid);
void PROMISE_SET_EXC(Core* p) __CPROVER_requires(g_valid && g_threw && g_set_excs == 0) __CPROVER_assigns(g_set_excs) __CPROVER_ensures(g_set_excs == 1);
void CallF(Core* self)
__CPROVER_requires(__CPROVER_is_fresh(self, sizeof(*self)) && self->_self.unwrapping == 0 && g_func_moves == 0 && g_func_dtors == 0 && g_invokes == 0 && g_set_excs == 0)
__CPROVER_assigns(self->_self.unwrapping, g_func_moves, g_func_dtors, g_invokes, g_threw, g_valid, g_set_excs)
/* Contract step: the functor is moved out, its storage destroyed and it is invoked exactly once with the promise; an exception it throws becomes the Result iff the promise was not consumed (C02 / C03) */
__CPROVER_ensures(self->_self.unwrapping == 1 && g_func_moves == 1 && g_func_dtors == 1 && g_invokes == 1 && g_set_excs == ((g_threw && g_valid) ? 1 : 0))
{ g_threw = 0; ''' + c + '''}
void harness(void) { ghost_reset(); g_func_moves = g_func_dtors = g_invokes = g_set_excs = 0; Core* a; CallF(a); if (g_set_excs) VF_CANARY("exception stored"); else VF_CANARY("normal"); }
'''
    job('PromiseCore.Call', b_c, src, 'CallF', ['FUNC_MOVE', 'FUNCTOR_DTOR', 'FUNC_INVOKE', 'PROMISE_VALID', 'PROMISE_SET_EXC'], canaries=2)
    within = r'class\s+ReadyCore\s*:'
    b_call = find_body(repo, F_MAKE, r'void\s+Call\s*\(\s*\)\s*noexcept\s+final', 'ReadyCore::Call', within=within)
    b_drop = find_body(repo, F_MAKE, r'void\s+Drop\s*\(\s*\)\s*noexcept\s+final', 'ReadyCore::Drop', within=within)
    b_here = find_body(repo, F_MAKE, r'InlineCore\s*\*\s*Here\s*\(\s*InlineCore\s*&[^)]*\)\s*noexcept\s+final', 'ReadyCore::Here', within=within)
    pre = [(r'this->template\s+SetResult<false>\(\)', 'SetResult(self)', 0), (r'this->_result\.~Result<V,\s*E>\(\)', 'RESULT_DTOR(self)', 0),
           (r'this->Store\(\s*StopTag\{\}\s*\)', 'Store(self, RS_Error, TAG_STOP)', 0)]
    cc = Rewriter('ReadyCore::Call', pre=pre).rewrite(b_call.text)
    cd = Rewriter('ReadyCore::Drop', pre=pre, methods=['Call']).rewrite(b_drop.text)
    ch = Rewriter('ReadyCore::Here', pre=pre).rewrite(b_here.text)
    src = COMMON + '''unsigned g_res_dtors, g_calls;
void RESULT_DTOR(Core* s) __CPROVER_requires(g_res_dtors == 0 && g.stores == 1) __CPROVER_assigns(g_res_dtors, g.stores) __CPROVER_ensures(g_res_dtors == 1 && g.stores == 0);
void Call(Core* self)
__CPROVER_requires(self != 0 && g.stores == 1 && g.set_results == 0 && g.loops == 0)          /* MakeTask stored its value at construction */
__CPROVER_assigns(g.set_results, g.t_set_result, g.clock, g.loops, g.loop_prev, g.loop_curr, g_calls)
/* starting a ready Task just publishes the stored Result and drives the chain */
__CPROVER_ensures(g.set_results == 1 && g.loops == 1 && g.loop_prev == self && g.loop_curr == g.sr_ret)
{''' + cc + ''' g_calls++; }
Transfer Here(Core* self, Core* caller)
__CPROVER_requires(self != 0 && g.stores == 1 && g.set_results == 0)
__CPROVER_assigns(g.set_results, g.t_set_result, g.clock)
/* a ready Task may also be started through Here: same publication, the successor is handed to the caller's Loop */
__CPROVER_ensures(g.set_results == 1 && RET == g.sr_ret)
{''' + ch + '''}
void DropF(Core* self)
__CPROVER_requires(self != 0 && g.stores == 1 && g.set_results == 0 && g.loops == 0 && g_res_dtors == 0 && g_calls == 0)
__CPROVER_assigns(g_res_dtors, g.stores, g.t_store, g.clock, g.store_state, g.store_tag, g.set_results, g.t_set_result, g.loops, g.loop_prev, g.loop_curr, g_calls)
/* a cancelled ready Task: its value is destroyed exactly once and replaced by StopError before it is published (C12: no value callback will run) */
__CPROVER_ensures(g_res_dtors == 1 && g.stores == 1 && g.store_state == RS_Error && g.store_tag == TAG_STOP && g.set_results == 1)
{''' + cd + '''}
void h_call(void) { ghost_reset(); g.stores = 1; g_calls = 0; Core* a; Call(a); VF_CANARY("end"); }
void h_here(void) { ghost_reset(); g.stores = 1; Core* a; Core* b; Here(a, b); VF_CANARY("end"); }
void h_drop(void) { ghost_reset(); g.stores = 1; g_res_dtors = 0; g_calls = 0; Core* a; DropF(a); VF_CANARY("end"); }
'''
    job('ReadyCore.Call', b_call, src, 'Call', ['SetResult', 'Loop'], entry='h_call')
    job('ReadyCore.Here', b_here, src, 'Here', ['SetResult'], entry='h_here')
    job('ReadyCore.Drop', b_drop, src.replace('          /* MakeTask stored its value at construction */', ''), 'DropF', ['RESULT_DTOR', 'Store', 'Call'], entry='h_drop')
    if getattr(ctx, 'prop', None) == 'C05':
        out = [j for j in out if re.search(r'Start|Task\.|ReadyCore|PromiseCore|Drop', j.name)]      # where a lazy chain starts and what a refused step does
    if getattr(ctx, 'prop', None) == 'C02':
        out = [j for j in out if re.search(r'PromiseCore|ReadyCore|ResultCore\.Impl|Drop\.Impl|UniqueCore|SharedCore', j.name)]      # the step kinds a pipeline is made of besides Core<>
    return out


def replay(ctx, res, failed, rec):
    from vf.replay import run_driver
    if 'PromiseCore' in res.job.name or 'Start' in res.job.name or 'ReadyCore' in res.job.name or 'Task' in res.job.name:
        return run_driver(ctx, 'task_return.cpp', ['all'], timeout=60)
    return None, 'no sequential witness driver for this obligation'
