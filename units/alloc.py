"""Allocation effects (C20, method H): effect skeletons of the functions that create pipeline steps / combinators / waits.

The skeleton extractor keeps the control structure of the real body (blocks, if / else with non-deterministic conditions, loops, returns,
immediately-invoked lambdas) and replaces every statement by its allocation effect: each `new`, MakeUnique<>, MakeShared<>, MakeCore<>,
MakeUniqueJob, vector reserve / resize / push_back / construction with a size is one VF_ALLOC(); everything else is dropped.  The contract
then states the number of allocations on every path; loops carry the invariant "no allocation inside".
"""
import re

from vf.extract import ExtractionBreak, find_body, match_brace
from vf.runner import Job

TRUSTED = ['each listed allocation construct allocates exactly one block (MakeUnique / MakeShared / MakeCore are themselves under contract: one `new`); std::vector reserve / resize / sized construction allocate once, push_back within reserved capacity does not (counted as allocating when no reserve is visible)']
DROPPED = ['everything that is not control structure or an allocation construct (effect abstraction); conditions become non-deterministic, so every syntactic path is covered',
           'callee effects are taken from the callee\'s own allocation contract (table CALLEE_ALLOCS), calls to functions not in the table and not known allocation-free are an extraction break']
ASSUMPTIONS = ['user functors and payload constructors are outside the count (the property counts the library\'s own blocks)']
# real-code drivers that exercise what this unit proves (thorough tier: sanity run on the tree under check)
DRIVERS = [('alloc_count.cpp', [], 'default')]

ALLOC_PAT = re.compile(r'\bnew\b|\bMakeUnique\s*<|\bMakeShared\s*<|\bMakeCore\s*<|\bMakeUniqueJob\s*\(|\.reserve\s*\(|\.resize\s*\(|\.push_back\s*\(|\.emplace_back\s*\(|std::make_(?:unique|shared)\s*<')
# calls whose allocation effect is known from their own contract (proved in this unit or in unit core / when)
CALLEE_ALLOCS = {'MakeContract': 1, 'MakeContractOn': 1, 'MakeSharedContract': 1, 'MakeSharedContractOn': 1, 'detail::SetCallback': 1, 'SetCallback': 1,
                 'detail::Run': 1, 'detail::RunShared': 1, 'detail::Schedule': 1, 'WaitCore': 0, 'WaitRange': 0, 'WaitIterator': 0, 'Wait': 0}
CALLEE_PAT = re.compile(r'(?<![\w:.>])(' + '|'.join(sorted((re.escape(k) for k in CALLEE_ALLOCS), key=len, reverse=True)) + r')\s*(?:<(?:[^<>;]|<[^<>;]*>)*>)?\s*\(')


def skeleton(name, text):
    """effect skeleton of a function body (text without the outer braces)"""
    out = []
    i, n = 0, len(text)
    depth = 0
    do_stack = []

    def effects(seg):
        e = []
        for m in ALLOC_PAT.finditer(seg):
            e.append('VF_ALLOC();')
        for m in CALLEE_PAT.finditer(seg):
            e.append('VF_ALLOC_N(%d);' % CALLEE_ALLOCS[m.group(1)])
        return ' '.join(e)
    while i < n:
        m = re.compile(r'\b(if|else|for|while|do|return|switch)\b|[{};]').search(text, i)
        if not m:
            out.append(effects(text[i:]))
            break
        seg = text[i:m.start()]
        tok = m.group(0)
        if tok in ('{', '}'):
            # a brace-initialiser inside an expression (T{...}) is not a block: it is preceded by an identifier, '>' or ')'... blocks follow ')' of a control header, 'else', 'do', ';', '{', '}' or a lambda introducer
            prev = text[:m.start()].rstrip()
            is_block = tok == '}' or prev.endswith((';', '{', '}', 'else', 'do', 'try')) or prev == '' or re.search(r'\)\s*(?:mutable\s*)?(?:noexcept\s*)?(?:->\s*[\w:<>&*\s]+)?$', prev) is not None or re.search(r'\]\s*$', prev) is not None
            if tok == '{' and not is_block:
                close = match_brace(text, m.start())
                out.append(effects(seg + text[m.start():close + 1]))
                i = close + 1
                continue
            out.append(effects(seg))
            out.append(tok)
            depth += 1 if tok == '{' else -1
            i = m.end()
        elif tok == ';':
            out.append(effects(seg))
            i = m.end()
        elif tok == 'while' and do_stack and do_stack[-1] == depth and [x for x in out if x.strip()][-1] == '}':
            # the tail of a do-while
            do_stack.pop()
            op = text.index('(', m.end())
            close = match_brace(text, op)
            out.append('while (nondet_bool());')
            i = text.index(';', close) + 1
        elif tok in ('if', 'while', 'switch', 'for'):
            out.append(effects(seg))
            j = m.end()
            mm = re.match(r'\s*(?:constexpr\s*)?\(', text[j:])
            if not mm:
                raise ExtractionBreak('%s: cannot parse the header of `%s`' % (name, tok))
            op = j + mm.end() - 1
            close = match_brace(text, op)
            hdr = effects(text[op:close + 1])
            if tok == 'if':
                out.append('%s if (nondet_bool())' % hdr)
            elif tok == 'switch':
                raise ExtractionBreak('%s: switch is outside the skeleton vocabulary' % name)
            else:
                out.append('%s while (nondet_bool()) VF_LOOP_INV' % hdr)
            i = close + 1
        elif tok == 'else':
            out.append(effects(seg))
            out.append('else')
            i = m.end()
        elif tok == 'do':
            out.append(effects(seg))
            out.append('do VF_LOOP_INV')
            do_stack.append(depth)
            i = m.end()
        elif tok == 'return':
            j = text.index(';', m.end())
            # the returned expression may contain an immediately-invoked lambda or allocation constructs
            out.append(effects(seg))
            out.append('{ %s return; }' % effects(text[m.end():j]))
            i = j + 1
    sk = '\n'.join(x for x in out if x.strip())
    # returns inside immediately-invoked lambdas only leave the lambda: such lambdas are recognised by `}()` and their returns demoted
    return sk


def demote_lambda_returns(name, text):
    """`[&] { ... return X; ... }()` : the returns inside leave the lambda only; rewrite them to plain effect statements first"""
    pat = re.compile(r'\[[&=\w\s,]*\]\s*(?:\([^)]*\)\s*)?(?:mutable\s*)?(?:noexcept\s*)?\{')
    pos = 0
    while True:
        m = pat.search(text, pos)
        if not m:
            return text
        ob = m.end() - 1
        cb = match_brace(text, ob)
        inner = re.sub(r'\breturn\b', 'VF_LAMBDA_RESULT =', text[ob + 1:cb])
        text = text[:ob + 1] + inner + text[cb:]
        pos = ob + 1


TABLE = [
    # (job name, file, signature regex, within, expected allocations expression)
    ('MakeUnique', 'include/yaclib/util/helper.hpp', r'auto\s+MakeUnique\s*\(\s*Args\s*&&\s*\.\.\.\s*args\s*\)', None, '1'),
    ('MakeShared', 'include/yaclib/util/helper.hpp', r'auto\s+MakeShared\s*\(\s*std::size_t\s+n\s*,\s*Args\s*&&\s*\.\.\.\s*args\s*\)', None, '1'),
    ('MakeCore', 'include/yaclib/algo/detail/core.hpp', r'auto\s*\*\s*MakeCore\s*\(\s*Func\s*&&\s*f\s*\)', None, '1'),
    ('detail.SetCallback', 'include/yaclib/algo/detail/core.hpp', r'auto\s+SetCallback\s*\(\s*FromCorePtr\s*&&\s*core\s*,', None, '1'),
    ('MakeContract', 'include/yaclib/async/contract.hpp', r'Contract<V,\s*E>\s+MakeContract\s*\(\s*\)', None, '1'),
    ('MakeContractOn', 'include/yaclib/async/contract.hpp', r'ContractOn<V,\s*E>\s+MakeContractOn\s*\(', None, '1'),
    ('MakeFuture', 'include/yaclib/async/make.hpp', r'auto\s+MakeFuture\s*\(\s*Args\s*&&\s*\.\.\.\s*args\s*\)', None, '1'),
    ('MakeTask', 'include/yaclib/lazy/make.hpp', r'auto\s+MakeTask\s*\(\s*Args\s*&&\s*\.\.\.\s*args\s*\)', None, '1'),
    ('detail.Run', 'include/yaclib/async/run.hpp', r'auto\s+Run\s*\(\s*IExecutor\s*&\s*e\s*,\s*Func\s*&&\s*f\s*\)', r'namespace\s+detail', '1'),
    ('detail.RunShared', 'include/yaclib/async/run.hpp', r'auto\s+RunShared\s*\(\s*IExecutor\s*&\s*e\s*,\s*Func\s*&&\s*f\s*\)', r'namespace\s+detail', '1'),
    ('detail.Schedule', 'include/yaclib/lazy/schedule.hpp', r'auto\s+Schedule\s*\(\s*IExecutor\s*&\s*e\s*,\s*Func\s*&&\s*f\s*\)', r'namespace\s+detail', '1'),
    ('MakeUniqueJob', 'include/yaclib/exe/detail/unique_job.hpp', r'Job\s*\*\s*MakeUniqueJob\s*\(\s*Func\s*&&\s*f\s*\)', None, '1'),
    ('Future.Then', 'include/yaclib/async/future.hpp', r'auto\s+Then\s*\(\s*IExecutor\s*&\s*e\s*,\s*Func\s*&&\s*f\s*\)\s*&&', r'class\s+FutureBase\s*\{', '1'),
    ('Future.ThenInline', 'include/yaclib/async/future.hpp', r'auto\s+ThenInline\s*\(\s*Func\s*&&\s*f\s*\)\s*&&', r'class\s+Future\s+final', '1'),
    ('Future.DetachInline', 'include/yaclib/async/future.hpp', r'void\s+DetachInline\s*\(\s*Func\s*&&\s*f\s*\)\s*&&', r'class\s+FutureBase\s*\{', '1'),
    ('Future.Detach', 'include/yaclib/async/future.hpp', r'void\s+Detach\s*\(\s*\)\s*&&\s*noexcept', r'class\s+FutureBase\s*\{', '0'),
    ('Future.Get', 'include/yaclib/async/future.hpp', r'Result<V,\s*E>\s+Get\s*\(\s*\)\s*&&\s*noexcept', r'class\s+FutureBase\s*\{', '0'),
    ('Task.ThenInline', 'include/yaclib/lazy/task.hpp', r'auto\s+ThenInline\s*\(\s*Func\s*&&\s*f\s*\)\s*&&', None, '1'),
    ('Strand.Submit', 'src/exe/strand.cpp', r'void\s+Strand::Submit\s*\(', None, '0'),
    ('WaitRange', 'include/yaclib/async/detail/wait_impl.hpp', r'bool\s+WaitRange\s*\(', None, '0'),
    ('WaitCore', 'include/yaclib/async/detail/wait_impl.hpp', r'bool\s+WaitCore\s*\(', None, '0'),
    ('WaitIterator.plain', 'include/yaclib/async/detail/wait_impl.hpp', r'bool\s+WaitIterator\s*\(', None, '0'),
    ('WaitIterator.shared', 'include/yaclib/async/detail/wait_impl.hpp', r'bool\s+WaitIterator\s*\(', None, 'VF_ANY_OF_0_1'),
    ('When.dynamic', 'include/yaclib/async/when/when.hpp', r'auto\s+When\s*\(\s*Iterator\s+begin\s*,\s*std::size_t\s+count\s*\)', None, 'VF_ANY_OF_0_2'),
    ('When.static', 'include/yaclib/async/when/when.hpp', r'auto\s+When\s*\(\s*Futures\s*\.\.\.\s*futures\s*\)', None, 'VF_ANY_OF_0_2'),
    ('DynamicCombinator.Set', 'include/yaclib/async/when/when.hpp', r'void\s+Set\s*\(\s*Iterator\s+begin\s*,\s*std::size_t\s+count\s*\)', r'struct\s+DynamicCombinator\s*:', '0'),
    ('SingleCombinator.Set', 'include/yaclib/async/when/when.hpp', r'void\s+Set\s*\(\s*Iterator\s+begin\s*,\s*std::size_t\s+count\s*\)', r'struct\s+SingleCombinator\s*:', '0'),
    ('All.None.Dtor', 'include/yaclib/async/when/all.hpp', r'~All\s*\(\s*\)', r'struct\s+All<FailPolicy::None,', 'VF_RESERVED_LOOP'),
    ('All.FirstFail.Dtor', 'include/yaclib/async/when/all.hpp', r'~All\s*\(\s*\)', r'struct\s+All<FailPolicy::FirstFail,', 'VF_RESERVED_LOOP_0_1'),
]


def jobs(ctx):
    repo = ctx.repo
    props = ['C20']
    out = []
    for entry in TABLE:
        try:
            out += one(ctx, props, *entry)
        except ExtractionBreak as e:
            getattr(ctx, 'breaks', []).append(str(e))      # this function is undecided; the others are still checked
    return out


def one(ctx, props, nm, f, sig, within, expect):
    repo = ctx.repo
    out = []
    if True:
        b = find_body(repo, f, sig, nm, within=within)
        t = re.sub(r'"(?:[^"\\]|\\.)*"', '""', b.text)      # keywords inside string literals are not structure
        if nm.startswith('WaitIterator.'):
            # which event type a range of futures gets is a compile-time selection: configuration, pinned textually (a changed selection is undecided, not silently accepted);
            # DynamicSharedEvent owns a vector of helper callbacks (one allocation in its constructor, shared_event.hpp), the plain MultiEvent owns nothing
            from vf.cxx2c import drop_pinned
            t = re.sub(r'static_assert\((?:[^()]|\((?:[^()]|\([^()]*\))*\))*\)\s*;', '', t)
            t = drop_pinned('WaitIterator', t, ['static constexpr bool kShared = std::is_same_v<decltype(it->GetHandle()), SharedHandle>;',
                                                'using CoreEvent = MultiEvent<Event, AtomicCounter, CallCallback>;',
                                                'using FinalEvent = std::conditional_t<kShared, DynamicSharedEvent<CoreEvent>, CoreEvent>;'])
            t, n_ev = re.subn(r'FinalEvent\s+event\s*\{[^{};]*\}\s*;', 'vf_helpers.resize(count);' if nm.endswith('.shared') else ';', t)
            if n_ev != 1:
                raise ExtractionBreak('WaitIterator: the event construction `FinalEvent event{...};` was not found exactly once')
        t = demote_lambda_returns(nm, t)
        sk = skeleton(nm, t)
        if expect == 'VF_ANY_OF_0_1':
            post = '(vf_allocs == 0 || vf_allocs == 1)      /* a range of SharedFutures: the fast paths allocate nothing, otherwise exactly the helper-callback vector: a constant number of blocks */'
        elif expect == 'VF_ANY_OF_0_2':
            post = '(vf_allocs == 0 || vf_allocs == 2)      /* empty input: nothing; otherwise the contract and the combinator: a constant, independent of the number of inputs */'
        elif expect == 'VF_RESERVED_LOOP_0_1':
            post = '(vf_allocs == 0 || vf_allocs == 1)      /* all inputs succeeded: one reserve, the loop appends within the reserved capacity; a failure was published: nothing */'
            if re.search(r'\.reserve\s*\(', t):
                sk = re.sub(r'while \(nondet_bool\(\)\) VF_LOOP_INV\s*\{\s*VF_ALLOC\(\);', 'while (nondet_bool()) VF_LOOP_INV {', sk)
        elif expect == 'VF_RESERVED_LOOP':
            post = '(vf_allocs == 1)      /* one reserve; the loop appends within the reserved capacity */'
            # push_back after a visible reserve does not allocate
            if re.search(r'\.reserve\s*\(', t):
                sk = re.sub(r'while \(nondet_bool\(\)\) VF_LOOP_INV\s*\{\s*VF_ALLOC\(\);', 'while (nondet_bool()) VF_LOOP_INV {', sk)
        else:
            post = '(vf_allocs == %s)' % expect
        src = '''#include "vf.h"
unsigned long vf_allocs; unsigned long vf_entry;
#define VF_ALLOC() (vf_allocs++)
#define VF_ALLOC_N(k) (vf_allocs += (k))
/* C20: a loop over inputs / steps performs no allocation: independent of the number of inputs */
#define VF_LOOP_INV __CPROVER_assigns(vf_allocs) __CPROVER_loop_invariant(vf_allocs == vf_at_loop)
unsigned long vf_at_loop;
void F(void)
__CPROVER_requires(vf_allocs == 0)
__CPROVER_assigns(vf_allocs, vf_at_loop)
__CPROVER_ensures%s
{
''' % post
        # every loop needs its own snapshot: insert before each loop
        sk = sk.replace('while (nondet_bool()) VF_LOOP_INV', 'vf_at_loop = vf_allocs; while (nondet_bool()) VF_LOOP_INV').replace('do VF_LOOP_INV', 'vf_at_loop = vf_allocs; do VF_LOOP_INV')
        src += sk + '\n}\nvoid harness(void) { vf_allocs = 0; F(); VF_CANARY("end"); }\n'
        has_loop = 'VF_LOOP_INV' in sk
        out.append(Job('alloc/' + nm, props, src, 'harness', enforce='F', loop_contracts=has_loop, funcs=[b], expect=[r'postcondition'], meta={'fn': nm, 'expect': expect}))
    return out


def replay(ctx, res, failed, rec):
    """R1: the real library with a counting global operator new (per step, per combinator for two input counts, waits)"""
    from vf.replay import run_driver
    return run_driver(ctx, 'alloc_count.cpp', timeout=60)
