"""Callback word of BaseCore (src/algo/base_core.cpp, base_core.hpp, inline_core.hpp, drop_core.cpp).

Serves C01 (unique protocol, DESIGN A.1), C06 (shared protocol, A.2), C03 (ownership clauses),
C04 (order discipline, method F), C11 (ResetImpl) and C16 (attach side of the event callbacks).
Method B: rely/guarantee contracts at atomic-operation granularity with ghost state.
"""
import re

from vf.cxx2c import Rewriter, attach_loop_contracts
from vf.extract import find_body
from vf.runner import Job

F_CPP = 'src/algo/base_core.cpp'
F_HPP = 'include/yaclib/algo/detail/base_core.hpp'
F_INL = 'include/yaclib/algo/detail/inline_core.hpp'
F_DROP = 'src/algo/drop_core.cpp'

TRUSTED = ['interface contract of InlineCore::Here / Next (V_Here, V_Next): every real override is proved against it in its own job (units core, result_core, ...)',
           'IRef::DecRef/IncRef reference accounting (ghost counter), proved for AtomicCounter in unit counters']
DROPPED = ['InlineCore, BaseCore and the concrete cores are one C struct `Core` with the fields next, _callback, _executor (multiple inheritance flattened; no pointer adjustment is involved for these classes)',
           'intrusive list of shared callbacks is presented as a ghost pool: node k is pool[k], `->next` of a registered node is read through NODE_NEXT (live-node check); the pool is a heap object of symbolic size (1..2^40 nodes), the walk is closed by a loop invariant (no unwinding)']
ASSUMPTIONS = ['threading contract: one thread per Future / Promise object at a time (the consumer role and the producer role are each sequential)',
               'code is oblivious to node addresses other than through ->next and comparison with kEmpty/kResult']
# real-code drivers that exercise what this unit proves (thorough tier: sanity run on the tree under check)
DRIVERS = [('ready_witness.cpp', [], 'default')]

COMMON = r'''
#include "vf.h"
typedef struct Core Core;
typedef Core InlineCore;
typedef Core BaseCore;
struct Core { Core* next; uintptr_t _callback; void* _executor; };
#define kEmpty ((uintptr_t)0)
#define kResult (~(uintptr_t)0)
typedef void* Transfer;
#define NOOP_HANDLE ((void*)0)
#define RG_WORD uintptr_t
'''

# ------------------------------------------------------------------------------------------------------
# Unique protocol (A.1)
UNIQUE = COMMON + r'''
enum { ROLE_CONS, ROLE_PROD };
struct Ghost {
  int role;
  uintptr_t cb;        /* identity of the continuation the consumer offers */
  unsigned char stored;        /* the Result was placement-constructed (producer, before SetResult) */
  unsigned char prod_done;     /* the producer's exchange to kResult happened */
  unsigned char attached;      /* the consumer's continuation is (or was, when taken) in the word */
  unsigned char prod_took;     /* the producer's exchange found the continuation: producer owns the run token */
} g;
/* C04 (method F): does the caller read the Result after this function reports "already fulfilled"?  (no for ResetImpl) */
#ifndef READS_RESULT_AFTER
#define READS_RESULT_AFTER 1
#endif

static void ghost_havoc(void) {
  g.role = nondet_int(); g.cb = nondet_ulong(); g.stored = nondet_bool(); g.prod_done = nondet_bool();
  g.attached = nondet_bool(); g.prod_took = nondet_bool();
}
#define INV(W) ( g.cb != kEmpty && g.cb != kResult && g.stored <= 1 && g.prod_done <= 1 && g.attached <= 1 && g.prod_took <= 1                         \
   && ((W) == kEmpty || (W) == g.cb || (W) == kResult)                      \
   && (((W) == kResult) == g.prod_done)                                     \
   && (!g.prod_done || g.stored)                                            \
   && ((W) != g.cb || g.attached)                                           \
   && ((W) != kEmpty || !g.attached)                                        \
   && ((W) != kResult || (g.attached == g.prod_took))                       \
   && (g.prod_done || !g.prod_took) )

/* closed-form relies (proved closed under composition and to contain the other role's guarantee by the lemma jobs) */
static inline void rg_env(RG_WORD* p) {
  if (g.role == ROLE_CONS) {
    /* rely of the consumer = producer steps: nothing, or Store, or Store+exchange */
    if (!g.prod_done && nondet_bool()) {
      g.stored = 1;
      if (nondet_bool()) {
        g.prod_took = (*p == g.cb);
        *p = kResult;
        g.prod_done = 1;
      }
    }
  } else {
    /* rely of the producer = any alternation of attach / reset while the word is not kResult */
    if (!g.prod_done) {
      if (nondet_bool()) {
        uintptr_t c = nondet_ulong();
        __CPROVER_assume(c != kEmpty && c != kResult);
        g.cb = c;
        *p = c;
        g.attached = 1;
      } else if (nondet_bool()) {
        *p = kEmpty;
        g.attached = 0;
      }
    }
  }
  __CPROVER_assert(INV(*p), "rely preserves the protocol invariant (A.1)");
}
static inline void rg_read(RG_WORD* p, RG_WORD v, int mo) {
  if (g.role == ROLE_CONS && v == kResult && READS_RESULT_AFTER)
    __CPROVER_assert(MO_ACQ(mo), "C04: MO take: the consumer that observes kResult reads the Result next, needs acquire");
}
static inline void rg_write(RG_WORD* p, RG_WORD o, RG_WORD n, int mo, int kind) {
  if (g.role == ROLE_CONS) {
    _Bool attach = (o == kEmpty && n == g.cb);
    _Bool reset = (o == g.cb && n == kEmpty && g.attached);
    __CPROVER_assert(attach || reset, "G_cons: the consumer only attaches into the empty word or removes its own continuation");
    if (attach) {
      __CPROVER_assert(MO_REL(mo), "C04: MO give: attaching publishes the continuation object, needs release");
      g.attached = 1;
    } else {
      g.attached = 0;
    }
  } else {
    __CPROVER_assert(n == kResult && o != kResult && !g.prod_done, "G_prod: exactly one transition to kResult");
    __CPROVER_assert(g.stored, "G_prod: the Result is stored before it is published");
    __CPROVER_assert(MO_REL(mo), "C04: MO give: publishing the Result needs release");
    g.prod_done = 1;
    g.prod_took = (o != kEmpty);
    if (g.prod_took) __CPROVER_assert(MO_ACQ(mo), "C04: MO take: the exchange that takes the continuation object needs acquire");
  }
  __CPROVER_assert(INV(*p), "own step preserves the protocol invariant (A.1)");
}
#include "rg_atomic.h"

/* interface of the continuation (dynamic dispatch): */
Transfer V_Next(InlineCore* callback, InlineCore* caller);
#define Step_T(ST, caller, callback) ((ST) ? V_Next(callback, caller) : (Transfer)(callback))
#define Noop_T(ST) ((Transfer)NOOP_HANDLE)
'''

# ------------------------------------------------------------------------------------------------------
def rw_base(name, **kw):
    kw.setdefault('methods', ['DecRef'])
    return Rewriter(name, atomics=['_callback'], refs=['callback', 'caller'], tcalls=['Step', 'Noop', 'SetCallbackImpl'], **kw)


def _harness(decls, call, canaries):
    return 'void harness(void) {\n  ghost_havoc();\n%s\n  %s\n%s}\n' % (decls, call, canaries)


def unique_jobs(ctx, props):
    repo = ctx.repo
    out = []
    b_set = find_body(repo, F_CPP, r'bool\s+BaseCore::SetCallbackImpl\s*\(', 'BaseCore::SetCallbackImpl')
    b_reset = find_body(repo, F_CPP, r'bool\s+BaseCore::ResetImpl\s*\(', 'BaseCore::ResetImpl')
    b_inl = find_body(repo, F_CPP, r'Transfer<SymmetricTransfer>\s+BaseCore::SetInlineImpl\s*\(', 'BaseCore::SetInlineImpl')
    b_res = find_body(repo, F_CPP, r'Transfer<SymmetricTransfer>\s+BaseCore::SetResultImpl\s*\(', 'BaseCore::SetResultImpl')
    b_empty = find_body(repo, F_HPP, r'bool\s+Empty\s*\(\s*\)\s*const', 'BaseCore::Empty')
    b_store = find_body(repo, F_HPP, r'void\s+StoreCallbackImpl\s*\(', 'BaseCore::StoreCallbackImpl')

    FRESH2 = '__CPROVER_requires(__CPROVER_is_fresh(self, sizeof(*self)) && __CPROVER_is_fresh(callback, sizeof(*callback)))'
    GH = 'g'
    # --- SetCallbackImpl<false> (consumer) --------------------------------------------------------
    c_set = rw_base('SetCallbackImpl', must={'atomic': 2}).rewrite(b_set.text)
    c_set = attach_loop_contracts('SetCallbackImpl', c_set, [None])  # the do-while belongs to the Shared branch (dead here)
    contract_set = '''int SetCallbackImpl(BaseCore* self, InlineCore* callback)
%s
__CPROVER_requires(g.role == ROLE_CONS && INV(self->_callback) && !g.attached && g.cb == (uintptr_t)callback)
__CPROVER_assigns(self->_callback, callback->next, g)
__CPROVER_ensures(INV(self->_callback))
/* post SetCallbackImpl: true <=> attached; false => result present (C01) */
__CPROVER_ensures((RET == 0 || RET == 1) && RET == g.attached)
__CPROVER_ensures(!RET ==> (g.prod_done && g.stored && self->_callback == kResult && !g.prod_took))
__CPROVER_ensures(RET ==> (self->_callback == g.cb || g.prod_took))
__CPROVER_ensures(g.cb == OLD(g.cb))
''' % FRESH2
    harness = _harness('  BaseCore* self; InlineCore* callback;', 'int r = SetCallbackImpl(self, callback);',
                       '  if (r) VF_CANARY("attached"); else VF_CANARY("already fulfilled");\n')
    for st in (0,):
        src = UNIQUE + '#define Shared 0\n#define SetCallbackImpl_T(SH, cb) SetCallbackImpl(self, cb)\n' + contract_set + '{' + c_set + '}\n' + harness
        # C04 obligations are tagged in the text; untagged ones serve C01 (and C11/C16 which reuse the attach path)
        out.append(Job('base_core/unique/SetCallbackImpl', props, src,
                       'harness', enforce='SetCallbackImpl', loop_contracts=False, funcs=[b_set], canaries=2,
                       expect=[r'postcondition', r'G_cons'], unwind=1, meta={'fn': 'SetCallbackImpl', 'shared': 0}))
    # --- ResetImpl (consumer) ---------------------------------------------------------------------
    c_reset = rw_base('ResetImpl', must={'atomic': 2}).rewrite(b_reset.text)
    contract_reset = '''int ResetImpl(BaseCore* self)
__CPROVER_requires(__CPROVER_is_fresh(self, sizeof(*self)))
__CPROVER_requires(g.role == ROLE_CONS && INV(self->_callback) && g.attached)
__CPROVER_assigns(self->_callback, g)
__CPROVER_ensures(INV(self->_callback))
/* G_cons: reset only removes the own continuation; true <=> removed, word is kEmpty again (C11: later Get/Then start fresh) */
__CPROVER_ensures(RET == 0 || RET == 1)
__CPROVER_ensures(RET ==> (!g.attached && !g.prod_took && (self->_callback == kEmpty || g.prod_done)))
/* false => the producer already took the continuation and will run it exactly once */
__CPROVER_ensures(!RET ==> (g.prod_done && g.prod_took && g.attached))
__CPROVER_ensures(g.cb == OLD(g.cb))
'''
    harness = _harness('  BaseCore* self;', 'int r = ResetImpl(self);', '  if (r) VF_CANARY("reset"); else VF_CANARY("too late");\n')
    out.append(Job('base_core/unique/ResetImpl', props, '#define READS_RESULT_AFTER 0\n' + UNIQUE + contract_reset + '{' + c_reset + '}\n' + harness, 'harness',
                   enforce='ResetImpl', funcs=[b_reset], canaries=2, expect=[r'postcondition', r'G_cons'], meta={'fn': 'ResetImpl'}))
    # --- SetResultImpl<ST,false> (producer) -------------------------------------------------------
    c_res = rw_base('SetResultImpl', must={'atomic': 1}, methods=['DecRef']).rewrite(b_res.text)
    c_res = attach_loop_contracts('SetResultImpl', c_res, [None])   # the walk belongs to the Shared branch (dead here)
    contract_res = '''Transfer SetResultImpl(BaseCore* self)
__CPROVER_requires(__CPROVER_is_fresh(self, sizeof(*self)))
__CPROVER_requires(g.role == ROLE_PROD && INV(self->_callback) && g.stored && !g.prod_done)
__CPROVER_assigns(self->_callback, g)
__CPROVER_ensures(INV(self->_callback) && g.prod_done && self->_callback == kResult)
/* post SetResultImpl: returns the continuation iff the old word held it (C01: the producer owns the run token iff attached) */
__CPROVER_ensures(g.prod_took == g.attached)
__CPROVER_ensures(ST ? 1 : (RET == (g.prod_took ? (Transfer)g.cb : (Transfer)0)))
__CPROVER_ensures(ST ? (g.prod_took ? g_next_calls == 1 && g_next_cb == g.cb : g_next_calls == 0) : 1)
'''
    stubs = '''
int g_next_calls; uintptr_t g_next_cb;
Transfer V_Next(InlineCore* callback, InlineCore* caller) { g_next_calls++; g_next_cb = (uintptr_t)callback; return (Transfer)callback; }
void DecRef(BaseCore* self);
void Loop(BaseCore* self, InlineCore* head);
'''
    harness = _harness('  BaseCore* self; g_next_calls = 0;', 'Transfer r = SetResultImpl(self);',
                       '  if (g.prod_took) VF_CANARY("took continuation"); else VF_CANARY("nobody attached");\n')
    for st in (0, 1):
        src = (UNIQUE + '#define Shared 0\n#define SymmetricTransfer %d\n#define ST %d\n' % (st, st) + stubs + contract_res.replace(', g)', ', g, g_next_calls, g_next_cb)') + '{' + c_res + '}\n' + harness)
        out.append(Job('base_core/unique/SetResultImpl.st%d' % st, props, src, 'harness', enforce='SetResultImpl', funcs=[b_res],
                       canaries=2, expect=[r'postcondition', r'G_prod'], unwind=1, meta={'fn': 'SetResultImpl', 'shared': 0, 'st': st}))
    # --- SetInlineImpl<ST,false> (consumer), modular: SetCallbackImpl replaced by its contract ----
    c_inl = rw_base('SetInlineImpl', must={'tcall': 3}).rewrite(b_inl.text)
    contract_inl = '''Transfer SetInlineImpl(BaseCore* self, InlineCore* callback)
%s
__CPROVER_requires(g.role == ROLE_CONS && INV(self->_callback) && !g.attached && g.cb == (uintptr_t)callback)
__CPROVER_assigns(self->_callback, callback->next, g, g_next_calls, g_next_cb)
__CPROVER_ensures(INV(self->_callback))
/* post SetInlineImpl: the consumer keeps the run token (gets the continuation back) iff attaching failed; then the result is readable */
__CPROVER_ensures(ST ? 1 : ((RET == (Transfer)callback) == !g.attached && (RET == (Transfer)0) == g.attached))
__CPROVER_ensures(ST ? (g.attached ? g_next_calls == 0 : (g_next_calls == 1 && g_next_cb == g.cb)) : 1)
__CPROVER_ensures(!g.attached ==> (g.prod_done && g.stored && !g.prod_took))
''' % FRESH2
    harness = _harness('  BaseCore* self; InlineCore* callback; g_next_calls = 0;', 'Transfer r = SetInlineImpl(self, callback);',
                       '  if (g.attached) VF_CANARY("attached"); else VF_CANARY("run by consumer");\n')
    for st in (0, 1):
        src = (UNIQUE + '#define Shared 0\n#define SymmetricTransfer %d\n#define ST %d\n#define SetCallbackImpl_T(SH, cb) SetCallbackImpl(self, cb)\n' % (st, st)
               + 'int g_next_calls; uintptr_t g_next_cb;\nTransfer V_Next(InlineCore* callback, InlineCore* caller) { g_next_calls++; g_next_cb = (uintptr_t)callback; return (Transfer)callback; }\n'
               + contract_set + ';\n' + contract_inl + '{' + c_inl + '}\n' + harness)
        out.append(Job('base_core/unique/SetInlineImpl.st%d' % st, props, src, 'harness', enforce='SetInlineImpl', replace=['SetCallbackImpl'],
                       funcs=[b_inl], canaries=2, expect=[r'postcondition'], meta={'fn': 'SetInlineImpl', 'shared': 0, 'st': st}))
    # --- Empty() / Ready ---------------------------------------------------------------------------
    c_empty = rw_base('Empty', must={'atomic': 1}).rewrite(b_empty.text)
    contract_empty = '''int Empty(BaseCore* self)
__CPROVER_requires(__CPROVER_is_fresh(self, sizeof(*self)))
__CPROVER_requires(g.role == ROLE_CONS && INV(self->_callback) && ATTACHED_PRE)
__CPROVER_assigns(self->_callback, g)
__CPROVER_ensures(INV(self->_callback))
/* Ready() == !Empty(): "Ready() becomes true only once that Result can be read" */
__CPROVER_ensures(!RET ==> (g.prod_done && g.stored))
/* a fulfilled future is never reported not-ready once the fulfilment happened-before the call: not claimed (racy by nature) */
'''
    harness = _harness('  BaseCore* self;', 'int r = Empty(self);', '  if (r) VF_CANARY("not ready"); else VF_CANARY("ready");\n')
    # C01: the handle is valid only while the consumer has nothing attached (a Future with a continuation is moved-from)
    out.append(Job('base_core/unique/Empty.detached', props, UNIQUE + '#define ATTACHED_PRE (!g.attached)\n' + contract_empty + '{' + c_empty + '}\n' + harness,
                   'harness', enforce='Empty', funcs=[b_empty], canaries=2, expect=[r'postcondition'], meta={'fn': 'Empty', 'attached': 0}))
    # --- StoreCallbackImpl: only on a core nobody else can see yet (lazy / detach construction) ---
    c_store = rw_base('StoreCallbackImpl', must={'atomic': 1}).rewrite(b_store.text)
    src = COMMON + '''
_Bool g_private;   /* the core is still private to the constructing thread */
static inline void rg_env(RG_WORD* p) { }
static inline void rg_read(RG_WORD* p, RG_WORD v, int mo) { }
static inline void rg_write(RG_WORD* p, RG_WORD o, RG_WORD n, int mo, int kind) {
  __CPROVER_assert(g_private, "plain (relaxed) store of the callback only while the core is private");
}
#include "rg_atomic.h"
void StoreCallbackImpl(BaseCore* self, InlineCore* callback)
__CPROVER_requires(__CPROVER_is_fresh(self, sizeof(*self)) && __CPROVER_is_fresh(callback, sizeof(*callback)) && g_private)
__CPROVER_assigns(self->_callback)
__CPROVER_ensures(self->_callback == (uintptr_t)callback)
{''' + c_store + '''}
void harness(void) { BaseCore* self; InlineCore* callback; g_private = nondet_bool(); StoreCallbackImpl(self, callback); VF_CANARY("end"); }
'''
    out.append(Job('base_core/StoreCallbackImpl', props, src, 'harness', enforce='StoreCallbackImpl', funcs=[b_store], expect=[r'postcondition'], meta={'fn': 'StoreCallbackImpl'}))
    return out


# ------------------------------------------------------------------------------------------------------
# lemma jobs of method B for the unique protocol: rely ⊇ other role's guarantee, relies closed, Inv stable, exactly-once
def unique_lemmas(props):
    src = UNIQUE + r'''
struct Ghost any_ghost(void) { ghost_havoc(); return g; }
/* the guarantees as relations over (W,g) -> (W',g'), exactly the transitions rg_write accepts */
static _Bool G_cons(uintptr_t W, struct Ghost a, uintptr_t W2, struct Ghost b) {
  _Bool same = a.role == b.role && a.cb == b.cb && a.stored == b.stored && a.prod_done == b.prod_done && a.prod_took == b.prod_took;
  _Bool attach = W == kEmpty && W2 == a.cb && b.attached == 1;
  _Bool reset = W == a.cb && a.attached && W2 == kEmpty && b.attached == 0;
  return same && (attach || reset);
}
static _Bool G_prod(uintptr_t W, struct Ghost a, uintptr_t W2, struct Ghost b) {
  return a.cb == b.cb && a.attached == b.attached && a.stored && b.stored && !a.prod_done && b.prod_done && W != kResult && W2 == kResult
         && b.prod_took == (W != kEmpty);
}
void lemma_inv_stable(void) {
  uintptr_t W = nondet_ulong(), W2 = nondet_ulong();
  struct Ghost a = any_ghost(), b = any_ghost();
  g = a; __CPROVER_assume(INV(W));
  __CPROVER_assume(G_cons(W, a, W2, b) || G_prod(W, a, W2, b));
  g = b;
  __CPROVER_assert(INV(W2), "lemma: Inv(A.1) is stable under G_cons and G_prod");
  VF_CANARY("lemma reachable");
}
/* the closed-form rely used for the consumer contains G_prod, the one used for the producer contains G_cons* */
void lemma_rely_contains(void) {
  uintptr_t W = nondet_ulong(), W2 = nondet_ulong();
  struct Ghost a = any_ghost(), b = any_ghost();
  g = a; __CPROVER_assume(INV(W));
  if (nondet_bool()) {
    __CPROVER_assume(G_prod(W, a, W2, b));
    /* consumer's rely: prod_done flips, stored set, word kResult, took == (W == cb) */
    __CPROVER_assert(!a.prod_done && b.stored && W2 == kResult && b.prod_done && b.prod_took == (W == a.cb) && b.attached == a.attached && b.cb == a.cb,
                     "lemma: every G_prod step is a step of the consumer's rely");
  } else {
    __CPROVER_assume(G_cons(W, a, W2, b));
    __CPROVER_assert(!a.prod_done && !b.prod_done && (W2 == kEmpty ? !b.attached : (W2 == b.cb && b.attached)) && b.stored == a.stored,
                     "lemma: every G_cons step is a step of the producer's rely");
  }
  VF_CANARY("lemma reachable");
}
/* exactly-once (C01): at quiescence - producer done, consumer has offered its continuation through SetInlineImpl -
   exactly one of the two parties holds the run token */
void lemma_exactly_once(void) {
  uintptr_t W = nondet_ulong();
  struct Ghost a = any_ghost();
  g = a; __CPROVER_assume(INV(W));
  _Bool cons_run = nondet_bool();
  __CPROVER_assume(g.prod_done);
  __CPROVER_assume(cons_run == !g.attached);     /* post SetInlineImpl */
  __CPROVER_assert(cons_run + g.prod_took == 1, "lemma exactly-once: run tokens handed out == 1");
  VF_CANARY("lemma reachable");
}
'''
    out = []
    for l in ('lemma_inv_stable', 'lemma_rely_contains', 'lemma_exactly_once'):
        out.append(Job('base_core/unique/' + l, props, src, l, kind='lemma', expect=[r'lemma'], meta={'fn': l}))
    return out


# ------------------------------------------------------------------------------------------------------
# Shared protocol (A.2): callback stack of a SharedCore
SHARED = COMMON + r"""
#include <stdlib.h>
unsigned long POOL_MAX;       /* symbolic, 1 .. 2^40 */
Core* pool;                   /* ghost pool: the registered callbacks, pool[0] = newest = list head; allocated with symbolic size */
#define POOL_INIT() do { POOL_MAX = nondet_ulong(); __CPROVER_assume(POOL_MAX >= 1 && POOL_MAX <= (1UL << 40)); \
                         pool = malloc(sizeof(Core) * POOL_MAX); __CPROVER_assume(pool != 0); } while (0)
enum { ROLE_PUSH, ROLE_FULFIL };
struct Ghost {
  int role;
  uintptr_t me;                /* pusher: identity of the node it offers */
  unsigned char stored, fulfilled, linked;
  unsigned long n;             /* number of registered callbacks (length of the list in the word) */
  unsigned long dead;          /* fulfiller: callbacks already run (prefix of the private list) */
  unsigned long decrefs;       /* fulfiller: promise references dropped so far */
  unsigned long last_call_decrefs;
} g;
static void ghost_havoc(void) {
  g.role = nondet_int(); g.me = nondet_ulong(); g.stored = nondet_bool(); g.fulfilled = nondet_bool(); g.linked = nondet_bool();
  g.n = nondet_ulong(); g.dead = nondet_ulong(); g.decrefs = nondet_ulong(); g.last_call_decrefs = nondet_ulong();
}
Core* g_me_node;               /* bound by assignment in the prologue of the function under proof (CBMC dereferences by value set) */
#define HEAD_OF(n) ((n) ? (uintptr_t)&pool[0] : kEmpty)
#define INV(W) ( g.stored <= 1 && g.fulfilled <= 1 && g.linked <= 1 && g.n <= POOL_MAX                  \
   && (((W) == kResult) == g.fulfilled) && (!g.fulfilled || g.stored) && g.me != kEmpty && g.me != kResult )
#ifndef READS_RESULT_AFTER
#define READS_RESULT_AFTER 1
#endif
static inline void rg_env(RG_WORD* p) {
  if (g.fulfilled) return;               /* after kResult nobody changes the word (pushers fail, one fulfiller) */
  if (g.role == ROLE_PUSH) {
    /* rely of a pusher: other pushers push (word becomes another node), or the fulfiller stores and exchanges */
    if (nondet_bool()) {
      uintptr_t w = nondet_ulong();
      __CPROVER_assume(w != kResult && w != kEmpty && (w != g.me || g.linked));
      *p = w;
    } else if (nondet_bool()) {
      g.stored = 1;
      if (nondet_bool()) { *p = kResult; g.fulfilled = 1; }
    }
  } else {
    /* rely of the fulfiller: pushers register more callbacks (the list only grows, by its head) */
    unsigned long n2 = nondet_ulong();
    __CPROVER_assume(n2 >= g.n && n2 <= POOL_MAX);
    g.n = n2;
    *p = HEAD_OF(g.n);
  }
  __CPROVER_assert(INV(*p), "rely preserves the protocol invariant (A.2)");
}
static inline void rg_read(RG_WORD* p, RG_WORD v, int mo) {
  if (g.role == ROLE_PUSH && v == kResult && READS_RESULT_AFTER)
    __CPROVER_assert(MO_ACQ(mo), "C04: MO take: an observer that sees kResult reads the value next, needs acquire");
}
static inline void rg_write(RG_WORD* p, RG_WORD o, RG_WORD n, int mo, int kind) {
  if (g.role == ROLE_PUSH) {
    __CPROVER_assert(o != kResult, "G_push: never over kResult");
    __CPROVER_assert(n == g.me && !g.linked, "G_push: pushes its own fresh node, once");
    __CPROVER_assert(g_me_node->next == (Core*)o, "G_push: the node is linked to the head it replaced");
    __CPROVER_assert(MO_REL(mo), "C04: MO give: registering publishes the callback object, needs release");
    g.linked = 1;
  } else {
    __CPROVER_assert(n == kResult && o != kResult && !g.fulfilled, "G_fulfil: exactly one transition to kResult");
    __CPROVER_assert(g.stored, "G_fulfil: the value is stored before it is published");
    __CPROVER_assert(MO_REL(mo), "C04: MO give: publishing the value needs release");
    __CPROVER_assert(MO_ACQ(mo), "C04: MO take: the exchange takes the registered callback objects, needs acquire");
    g.fulfilled = 1;
  }
  __CPROVER_assert(INV(*p), "own step preserves the protocol invariant (A.2)");
}
#include "rg_atomic.h"
/* `x->next` of a registered callback: only while the node is live (registered, not yet run) */
static inline Core* node_next(Core* x) {
  __CPROVER_assert(__CPROVER_same_object(x, pool) && (unsigned long)(x - pool) < g.n, "read of ->next of a registered callback");
  unsigned long k = (unsigned long)(x - pool);
  __CPROVER_assert(k >= g.dead, "C03,C06: no access to a callback after it was run (->next is read before the callback runs)");
  return k + 1 < g.n ? &pool[k + 1] : (Core*)0;
}
#define NODE_NEXT(x) node_next(x)
Transfer V_Next(InlineCore* callback, InlineCore* caller);
#define Step_T(ST, caller, callback) ((ST) ? V_Next(callback, caller) : (Transfer)(callback))
#define Noop_T(ST) ((Transfer)NOOP_HANDLE)
"""


def shared_jobs(ctx, props):
    repo = ctx.repo
    out = []
    b_set = find_body(repo, F_CPP, r'bool\s+BaseCore::SetCallbackImpl\s*\(', 'BaseCore::SetCallbackImpl')
    b_inl = find_body(repo, F_CPP, r'Transfer<SymmetricTransfer>\s+BaseCore::SetInlineImpl\s*\(', 'BaseCore::SetInlineImpl')
    b_res = find_body(repo, F_CPP, r'Transfer<SymmetricTransfer>\s+BaseCore::SetResultImpl\s*\(', 'BaseCore::SetResultImpl')
    b_empty = find_body(repo, F_HPP, r'bool\s+Empty\s*\(\s*\)\s*const', 'BaseCore::Empty')
    b_loop = find_body(repo, F_INL, r'void\s+Loop\s*\(\s*InlineCore\s*\*\s*prev', 'detail::Loop')
    FRESH2 = '__CPROVER_requires(__CPROVER_is_fresh(self, sizeof(*self)) && __CPROVER_is_fresh(callback, sizeof(*callback)))'
    # --- SetCallbackImpl<true>: push loop --------------------------------------------------------
    c_set = rw_base('SetCallbackImpl', must={'atomic': 2}).rewrite(b_set.text)
    inv = ('__CPROVER_assigns(next, callback->next, self->_callback, g)\n'
           '__CPROVER_loop_invariant(INV(self->_callback) && !g.linked && g.me == (uintptr_t)callback && g.role == ROLE_PUSH)\n'
           '__CPROVER_loop_invariant(next == kResult ==> g.fulfilled)')
    c_set = attach_loop_contracts('SetCallbackImpl', c_set, [inv])
    contract_set = """int SetCallbackImpl(BaseCore* self, InlineCore* callback)
%s
__CPROVER_requires(g.role == ROLE_PUSH && INV(self->_callback) && !g.linked && g.me == (uintptr_t)callback)
__CPROVER_assigns(self->_callback, callback->next, g)
__CPROVER_ensures(INV(self->_callback) && (RET == 0 || RET == 1))
/* post push: true <=> registered (linked before all-done), false => the value is present (C06) */
__CPROVER_ensures(RET == g.linked)
__CPROVER_ensures(!RET ==> (g.fulfilled && g.stored && self->_callback == kResult))
__CPROVER_ensures(g.me == OLD(g.me))
""" % FRESH2
    harness = ('void harness(void) {\n  ghost_havoc();\n  BaseCore* self; InlineCore* callback;\n  int r = SetCallbackImpl(self, callback);\n'
               '  if (r) VF_CANARY("registered"); else VF_CANARY("already fulfilled");\n}\n')
    src = SHARED + '#define Shared 1\n#define SetCallbackImpl_T(SH, cb) SetCallbackImpl(self, cb)\n' + contract_set.replace('callback->next, g)', 'callback->next, g, g_me_node)') + '{ g_me_node = callback; /* ghost prologue */' + c_set + '}\n' + harness
    out.append(Job('base_core/shared/SetCallbackImpl', props, src, 'harness', enforce='SetCallbackImpl', loop_contracts=True, funcs=[b_set],
                   canaries=2, expect=[r'postcondition', r'G_push', r'loop_invariant_step|invariant after step'], meta={'fn': 'SetCallbackImpl', 'shared': 1}))
    # --- SetInlineImpl<ST,true> ---------------------------------------------------------------------
    c_inl = rw_base('SetInlineImpl', must={'tcall': 3}).rewrite(b_inl.text)
    contract_inl = """Transfer SetInlineImpl(BaseCore* self, InlineCore* callback)
%s
__CPROVER_requires(g.role == ROLE_PUSH && INV(self->_callback) && !g.linked && g.me == (uintptr_t)callback)
__CPROVER_assigns(self->_callback, callback->next, g, g_next_calls, g_next_cb)
__CPROVER_ensures(INV(self->_callback))
/* the observer runs its callback itself iff registering failed, and then the value is present (fires once, only after the value is set) */
__CPROVER_ensures(ST ? 1 : ((RET == (Transfer)callback) == !g.linked && (RET == (Transfer)0) == g.linked))
__CPROVER_ensures(ST ? (g.linked ? g_next_calls == 0 : (g_next_calls == 1 && g_next_cb == g.me)) : 1)
__CPROVER_ensures(!g.linked ==> (g.fulfilled && g.stored))
""" % FRESH2
    harness = ('void harness(void) {\n  ghost_havoc();\n  BaseCore* self; InlineCore* callback; g_next_calls = 0;\n  Transfer r = SetInlineImpl(self, callback);\n'
               '  if (g.linked) VF_CANARY("registered"); else VF_CANARY("run by observer");\n}\n')
    for st in (0, 1):
        src = (SHARED + '#define Shared 1\n#define SymmetricTransfer %d\n#define ST %d\n#define SetCallbackImpl_T(SH, cb) SetCallbackImpl(self, cb)\n' % (st, st)
               + 'int g_next_calls; uintptr_t g_next_cb;\nTransfer V_Next(InlineCore* callback, InlineCore* caller) { g_next_calls++; g_next_cb = (uintptr_t)callback; return (Transfer)callback; }\n'
               + contract_set + ';\n' + contract_inl + '{' + c_inl + '}\n' + harness)
        out.append(Job('base_core/shared/SetInlineImpl.st%d' % st, props, src, 'harness', enforce='SetInlineImpl', replace=['SetCallbackImpl'],
                       funcs=[b_inl], canaries=2, expect=[r'postcondition'], meta={'fn': 'SetInlineImpl', 'shared': 1, 'st': st}))
    # --- SetResultImpl<ST,true>: exchange + walk ---------------------------------------------------
    rw = rw_base('SetResultImpl', must={'atomic': 1}, post=[(r'(\b\w+)->next\b(?!\s*=[^=])', r'NODE_NEXT(\1)', 1)])
    c_res = rw.rewrite(b_res.text)
    inv = ('__CPROVER_assigns(head, g.dead, g.last_call_decrefs)\n'
           '__CPROVER_loop_invariant(g.fulfilled && g.stored && g.dead < g.n && g.n <= POOL_MAX && head == &pool[g.dead] && g.decrefs == 0 && self->_callback == kResult)')
    c_res = attach_loop_contracts('SetResultImpl', c_res, [inv])
    stubs = """
/* running one registered callback (and whatever it returns): detail::Loop, proved against V_Here in its own job */
void Loop(BaseCore* self, InlineCore* head)
__CPROVER_requires(g.fulfilled && g.stored)                 /* C06: fires only after the value is set */
__CPROVER_requires(g.dead < g.n && head == &pool[g.dead])   /* C06: each registered callback exactly once, in list order */
__CPROVER_assigns(g.dead, g.last_call_decrefs)
__CPROVER_ensures(g.dead == OLD(g.dead) + 1 && g.last_call_decrefs == g.decrefs);
void DecRef(BaseCore* self)
__CPROVER_requires(g.decrefs < 3)                            /* C03: exactly three promise references */
__CPROVER_assigns(g.decrefs)
__CPROVER_ensures(g.decrefs == OLD(g.decrefs) + 1);
"""
    contract_res = """Transfer SetResultImpl(BaseCore* self)
__CPROVER_requires(__CPROVER_is_fresh(self, sizeof(*self)))
__CPROVER_requires(g.role == ROLE_FULFIL && INV(self->_callback) && g.stored && !g.fulfilled && g.dead == 0 && g.decrefs == 0)
__CPROVER_requires(self->_callback == HEAD_OF(g.n))
__CPROVER_assigns(self->_callback, g)
__CPROVER_ensures(INV(self->_callback) && g.fulfilled && self->_callback == kResult)
/* fulfil: every registered callback's Here called exactly once, in list order, each after the value is stored (C06) */
__CPROVER_ensures(g.dead == g.n)
/* C03: exactly three promise references dropped on every path, one of them before the last callback */
__CPROVER_ensures(g.decrefs == 3)
__CPROVER_ensures(g.n > 0 ==> g.last_call_decrefs == 1)
__CPROVER_ensures(RET == (Transfer)0)
"""
    harness = ('void harness(void) {\n  ghost_havoc();\n  POOL_INIT();\n  BaseCore* self;\n  Transfer r = SetResultImpl(self);\n'
               '  if (g.n == 0) VF_CANARY("no callbacks"); else if (g.n == 1) VF_CANARY("one callback"); else VF_CANARY("many callbacks");\n}\n')
    for st in (0, 1):
        src = SHARED + '#define Shared 1\n#define SymmetricTransfer %d\n#define ST %d\n' % (st, st) + stubs + contract_res + '{' + c_res + '}\n' + harness
        out.append(Job('base_core/shared/SetResultImpl.st%d' % st, props, src, 'harness', enforce='SetResultImpl', replace=['Loop', 'DecRef'],
                       loop_contracts=True, funcs=[b_res], canaries=3,
                       expect=[r'postcondition', r'G_fulfil', r'invariant after step|loop_invariant_step', r'no access to a callback after'],
                       meta={'fn': 'SetResultImpl', 'shared': 1, 'st': st}, timeout=300))
    # --- Empty() on a shared core: other copies may have registered callbacks ----------------------
    c_empty = rw_base('Empty', must={'atomic': 1}).rewrite(b_empty.text)
    contract_empty = """int Empty(BaseCore* self)
__CPROVER_requires(__CPROVER_is_fresh(self, sizeof(*self)))
__CPROVER_requires(g.role == ROLE_PUSH && INV(self->_callback))
__CPROVER_assigns(self->_callback, g)
__CPROVER_ensures(INV(self->_callback))
/* Ready() == !Empty(): Ready()==true implies the value can be read (C06) / attached futures are not Ready before they complete (C16) */
__CPROVER_ensures(!RET ==> (g.fulfilled && g.stored))
"""
    harness = 'void harness(void) {\n  ghost_havoc();\n  BaseCore* self;\n  int r = Empty(self);\n  if (r) VF_CANARY("not ready"); else VF_CANARY("ready");\n}\n'
    out.append(Job('base_core/shared/Empty.registered', props, SHARED + contract_empty + '{' + c_empty + '}\n' + harness, 'harness', enforce='Empty',
                   funcs=[b_empty], canaries=2, expect=[r'postcondition'], meta={'fn': 'Empty', 'shared': 1}))
    # --- detail::Loop against the Here interface -------------------------------------------------------
    c_loop = Rewriter('Loop', omethods=['Here']).rewrite(b_loop.text)
    inv = ('__CPROVER_assigns(prev, curr, g_tok_core, g_tok_caller, g_here_calls)\n'
           '__CPROVER_loop_invariant((curr != 0 ==> (g_tok_core == curr && g_tok_caller == prev)) && (curr == 0 ==> g_tok_core == 0))')
    c_loop = attach_loop_contracts('Loop', c_loop, [inv])
    src = COMMON + """
/* run token: "core g_tok_core must be invoked exactly once, with caller g_tok_caller" */
Core* g_tok_core; Core* g_tok_caller; unsigned long g_here_calls;
InlineCore* Here(InlineCore* self, InlineCore* caller)
__CPROVER_requires(self != 0 && g_tok_core == self && g_tok_caller == caller)   /* Here is called once per token, with the caller that produced it */
__CPROVER_assigns(g_tok_core, g_tok_caller, g_here_calls)
__CPROVER_ensures(RET == 0 ? g_tok_core == 0 : (g_tok_core == RET && g_tok_caller == self));
void Loop(InlineCore* prev, InlineCore* curr)
__CPROVER_requires((curr != 0 ==> (g_tok_core == curr && g_tok_caller == prev)) && (curr == 0 ==> g_tok_core == 0))
__CPROVER_assigns(g_tok_core, g_tok_caller, g_here_calls)
__CPROVER_ensures(g_tok_core == 0)      /* every run token handed to Loop, and every one produced on the way, was used */
{""" + c_loop + """}
void harness(void) { Core* p; Core* c; g_tok_core = (Core*)nondet_ulong(); g_tok_caller = (Core*)nondet_ulong(); Loop(p, c); VF_CANARY("end"); }
"""
    out.append(Job('base_core/Loop', props, src, 'harness', enforce='Loop', replace=['Here'], loop_contracts=True, funcs=[b_loop],
                   expect=[r'postcondition', r'invariant after step|loop_invariant_step', r'precondition'], meta={'fn': 'Loop'}))
    # --- Step / Noop ----------------------------------------------------------------------------------
    b_step = find_body(repo, F_INL, r'auto\s+Step\s*\(', 'detail::Step')
    b_noop = find_body(repo, F_INL, r'auto\s+Noop\s*\(', 'detail::Noop')
    for st in (0, 1):
        c_step = Rewriter('Step', refs=['callback', 'caller'], omethods=['Next']).rewrite(b_step.text)
        c_noop = Rewriter('Noop', pre=[(r'yaclib_std::coroutine_handle<>\{yaclib_std::noop_coroutine\(\)\}', 'NOOP_CORO', 1)]).rewrite(b_noop.text)
        src = COMMON + """
#define YACLIB_SYMMETRIC_TRANSFER %d
#define SymmetricTransfer %d
#define NOOP_CORO ((Transfer)&g_noop)
char g_noop; unsigned g_next_calls; Core* g_next_self; Core* g_next_caller;
Transfer Next(InlineCore* self, InlineCore* caller)
__CPROVER_assigns(g_next_calls, g_next_self, g_next_caller)
__CPROVER_ensures(g_next_calls == OLD(g_next_calls) + 1 && g_next_self == self && g_next_caller == caller && RET == (Transfer)self);
Transfer Step(InlineCore* caller, InlineCore* callback)
__CPROVER_requires(callback != 0 && g_next_calls == 0)
__CPROVER_assigns(g_next_calls, g_next_self, g_next_caller)
/* Step hands the run token of `callback` on: either returns it to the Loop or (symmetric transfer) invokes Next(caller) once */
__CPROVER_ensures(SymmetricTransfer ? (g_next_calls == 1 && g_next_self == callback && g_next_caller == caller) : (RET == (Transfer)callback && g_next_calls == 0))
{%s}
Transfer Noop(void)
__CPROVER_assigns()
__CPROVER_ensures(SymmetricTransfer ? RET == NOOP_CORO : RET == (Transfer)0)
{%s}
void h_step(void) { Core* a; Core* b; g_next_calls = 0; Step(a, b); VF_CANARY("end"); }
void h_noop(void) { Noop(); VF_CANARY("end"); }
""" % (st, st, c_step, c_noop)
        out.append(Job('base_core/Step.st%d' % st, props, src, 'h_step', enforce='Step', replace=['Next'] if st else [], funcs=[b_step], expect=[r'postcondition'], meta={'fn': 'Step', 'st': st}))
        out.append(Job('base_core/Noop.st%d' % st, props, src, 'h_noop', enforce='Noop', funcs=[b_noop], expect=[r'postcondition'], meta={'fn': 'Noop', 'st': st}))
    return out


def replay(ctx, res, failed, rec):
    from vf.replay import run_driver
    fn = res.job.meta.get('fn')
    if fn == 'Empty':
        return run_driver(ctx, 'ready_witness.cpp')
    return None, ('the counterexample is an interleaving of the %s with environment steps allowed by the rely (see counterexample / '
                  'verifier_output); no scripted-schedule driver exists for this obligation' % fn)


def jobs(ctx):
    out = []
    if ctx.prop in ('C01', 'C04', 'C11', 'C16', 'C03', 'C13'):
        props = ['C01', 'C04', 'C11', 'C16', 'C03', 'C13']
        out += unique_jobs(ctx, props) + unique_lemmas(props)
    if ctx.prop in ('C06', 'C04', 'C03', 'C16', 'C01', 'C13'):
        out += shared_jobs(ctx, ['C06', 'C04', 'C03', 'C16', 'C01', 'C13'])
    return out
