"""detail::Spinlock<T> (include/yaclib/util/detail/spinlock.hpp):  C15 (the coroutine SharedMutex serialises its slow paths with it), C04 (orders).

Unit shared_mutex treats LOCK / UNLOCK of the spinlock as a monitor (mutual exclusion assumed).  Here that assumption is discharged: rely/guarantee on the state word with a ghost
holder flag.  Invariant: word == 1 <=> somebody holds the lock.  lock() returns only after ITS exchange read 0 (it is then the only holder); the environment of a holder never
clears the word; unlock() is the holder's single store of 0.  C04: the acquiring exchange carries acquire, the releasing store release.
"""
from vf.cxx2c import Rewriter, attach_loop_contracts
from vf.extract import find_body
from vf.runner import Job

F = 'include/yaclib/util/detail/spinlock.hpp'
TRUSTED = []
DROPPED = ['the inner `do { } while (load != 0)` back-off loop has an empty body; both loops get loop contracts (partial correctness: termination of a spin loop depends on the holder and is not claimed)']
ASSUMPTIONS = ['sequentially consistent atomics in the rely/guarantee proof (the orders themselves are the C04-tagged obligations)']

COMMON = r'''
#include "vf.h"
#define RG_WORD unsigned long
#define RG_NO_ARITH
struct Ghost { unsigned char held_by_me, held_by_other; unsigned acquisitions, releases; } g;
typedef struct Spinlock { unsigned long _state; } Spinlock;
#define INV(W) ( ((W) == 0 || (W) == 1) && g.held_by_me <= 1 && g.held_by_other <= 1 && g.held_by_me + g.held_by_other <= 1 && (((W) == 1) == (g.held_by_me || g.held_by_other)) )
/* rely: other threads lock (0 -> 1, only when free) and unlock (1 -> 0, only their own holding): while I hold, nothing changes */
static inline void rg_env(RG_WORD* p) {
  if (!g.held_by_me && nondet_bool()) { unsigned char o = nondet_bool(); g.held_by_other = o; *p = o; }
  __CPROVER_assert(INV(*p), "rely preserves the spinlock invariant");
}
static inline void rg_read(RG_WORD* p, RG_WORD v, int mo) { }
static inline void rg_write(RG_WORD* p, RG_WORD o, RG_WORD n, int mo, int kind) {
  if (kind == RG_XCHG) {
    __CPROVER_assert(n == 1 && !g.held_by_me, "G_lock: the only write of lock() is exchange(1) by a thread that does not hold the lock");
    __CPROVER_assert(MO_ACQ(mo), "C04: MO take: acquiring the spinlock takes everything the previous holder did, needs acquire");
    if (o == 0) { g.held_by_me = 1; g.acquisitions++; }        /* linearisation point of a successful lock() */
  } else {
    __CPROVER_assert(kind == RG_STORE && n == 0 && g.held_by_me && o == 1, "G_unlock: the only write of unlock() is store(0) by the holder");
    __CPROVER_assert(MO_REL(mo), "C04: MO give: releasing the spinlock publishes the critical section, needs release");
    g.held_by_me = 0; g.releases++;
  }
  __CPROVER_assert(INV(*p), "C15: own step preserves the spinlock invariant (at most one holder, word == 1 iff held)");
}
#include "rg_atomic.h"
'''


def jobs(ctx):
    repo = ctx.repo
    props = ['C15', 'C04']
    out = []
    b_lock = find_body(repo, F, r'void\s+lock\s*\(\s*\)\s*noexcept', 'Spinlock::lock', within=r'class\s+Spinlock')
    b_unlock = find_body(repo, F, r'void\s+unlock\s*\(\s*\)\s*noexcept', 'Spinlock::unlock', within=r'class\s+Spinlock')
    c = Rewriter('Spinlock::lock', atomics=['_state']).rewrite(b_lock.text)
    outer = ('__CPROVER_assigns(self->_state, g)\n__CPROVER_loop_invariant(INV(self->_state) && !g.held_by_me && g.acquisitions == 0 && g.releases == 0)')
    inner = ('__CPROVER_assigns(self->_state, g)\n__CPROVER_loop_invariant(INV(self->_state) && !g.held_by_me && g.acquisitions == 0 && g.releases == 0)')
    from vf.extract import ExtractionBreak
    for n in (2, 1, 0, 3):          # the same invariant for however many loops the body has (the contract, not the loop count, decides)
        try:
            c = attach_loop_contracts('Spinlock::lock', c, [outer] * n) if n else c
            break
        except ExtractionBreak:
            if n == 3:
                raise
    src = COMMON + '''void lock(Spinlock* self)
__CPROVER_requires(__CPROVER_is_fresh(self, sizeof(*self)) && INV(self->_state) && !g.held_by_me && g.acquisitions == 0 && g.releases == 0)
__CPROVER_assigns(self->_state, g)
/* C15: lock() returns only as the holder - its own exchange found the lock free - and nobody else holds it then */
__CPROVER_ensures(g.held_by_me && !g.held_by_other && g.acquisitions == 1 && g.releases == 0 && INV(self->_state) && self->_state == 1)
{''' + c + '''}
void harness(void) { Spinlock* s; g.held_by_me = 0; g.held_by_other = nondet_bool(); g.acquisitions = g.releases = 0; lock(s); VF_CANARY("acquired"); }
'''
    out.append(Job('spinlock/lock', props, src, 'harness', enforce='lock', loop_contracts=True, funcs=[b_lock], canaries=1,
                   expect=[r'postcondition', r'invariant after step|loop_invariant_step', r'G_lock', r'MO take'], meta={'fn': 'lock'}))
    c = Rewriter('Spinlock::unlock', atomics=['_state']).rewrite(b_unlock.text)
    src = COMMON + '''void unlock(Spinlock* self)
__CPROVER_requires(__CPROVER_is_fresh(self, sizeof(*self)) && INV(self->_state) && g.held_by_me && g.acquisitions == 0 && g.releases == 0)
__CPROVER_assigns(self->_state, g)
/* C15: unlock() gives the lock up exactly once and takes nothing */
__CPROVER_ensures(!g.held_by_me && g.releases == 1 && g.acquisitions == 0)
{''' + c + '''}
void harness(void) { Spinlock* s; g.held_by_me = 1; g.held_by_other = 0; g.acquisitions = g.releases = 0; unlock(s); VF_CANARY("released"); }
'''
    out.append(Job('spinlock/unlock', props, src, 'harness', enforce='unlock', funcs=[b_unlock], canaries=1, expect=[r'postcondition', r'G_unlock', r'MO give'], meta={'fn': 'unlock'}))
    return out


def replay(ctx, res, failed, rec):
    return None, 'no sequential witness driver for this obligation'
