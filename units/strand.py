"""Strand (src/exe/strand.cpp): C07, and the Strand parts of C05 / C04 / C20.

Method B (R/G on the strand word, DESIGN A.3) + method I (ghost pool with reversal frontier) for the
unbounded proofs, plus a bounded real-memory check of the in-place reversal (order, none lost) for N <= 6 / 10.
"""
import re

from vf.cxx2c import Rewriter, attach_loop_contracts
from vf.extract import find_body
from vf.runner import Job

F = 'src/exe/strand.cpp'

TRUSTED = ['interface contracts of Job::Call / Job::Drop (V_Call, V_Drop) and IExecutor::Submit of the underlying executor (V_Submit); each real implementation is proved against them in units executors / thread_pool',
           'IRef::IncRef / DecRef of the strand object (ghost counter)']
DROPPED = ['Strand : private Job, public IExecutor - the two base sub-objects are one C struct; Mark() is the address of the object (the Node base)',
           'unbounded jobs: `->next` reads / writes of inbox nodes go through NODE_NEXT / NODE_SET_NEXT over a ghost pool with a reversal frontier; a link write that is not the next reversal step is a SHAPE guard (undecided, exit 2), the bounded job with real memory decides such code']
ASSUMPTIONS = ['the underlying executor finishes the strand job by exactly one of Call or Drop (C05 interface contract), so exactly one role instance runs a batch']
# real-code drivers that exercise what this unit proves (thorough tier: sanity run on the tree under check)
DRIVERS = [('strand_seq.cpp', [], 'asan')]

COMMON = r'''
#include "vf.h"
#include <stdlib.h>
typedef struct Node Node;
typedef Node Job;
struct Node { Node* next; };
typedef struct Strand { Node node; void* _executor; Node* _jobs; } Strand;
#define Mark(s) ((Node*)(s))
#define RG_WORD Node*
#define RG_NO_ARITH 1
'''

PROTO = COMMON + r'''
unsigned long POOL_MAX; Node* pool;   /* ghost pool: inbox / private batch, pool[0] = newest */
#define POOL_INIT() do { POOL_MAX = nondet_ulong(); __CPROVER_assume(POOL_MAX >= 1 && POOL_MAX <= (1UL << 40)); \
                         pool = malloc(sizeof(Node) * POOL_MAX); __CPROVER_assume(pool != 0); } while (0)
enum { ROLE_SUBMIT, ROLE_RUN, ROLE_DROP };
enum { B_NONE, B_CLAIMED, B_SUBMITTED, B_RUNNING };
struct Ghost {
  int role;
  int batch;                 /* the strand's own job in the underlying executor */
  Strand* self;              /* identity only (never dereferenced: CBMC dereferences by value set, not by assumed equalities) */
  void* exec;                /* identity of the underlying executor */
  Node* me;                  /* submitter: the job it submits (identity only) */
  unsigned char pushed;      /* submitter: own job is in the inbox (or already taken by a runner) */
  unsigned char claimed_by_me;
  unsigned long n;           /* runner: length of the inbox list in the word (0 = nullptr) */
  unsigned long taken;       /* runner: length of the private batch taken by the exchange */
  unsigned long rev;         /* runner: reversal frontier */
  unsigned long called;      /* runner / dropper: jobs finished so far */
  unsigned char has_batch;   /* runner: the exchange happened */
  unsigned long increfs, decrefs, submits;
} g;
static void ghost_havoc(void) {
  g.role = nondet_int(); g.batch = nondet_int(); g.pushed = nondet_bool(); g.claimed_by_me = nondet_bool();
  g.n = nondet_ulong(); g.taken = nondet_ulong(); g.rev = nondet_ulong(); g.called = nondet_ulong(); g.has_batch = nondet_bool();
  g.increfs = g.decrefs = g.submits = 0;
}
#define MARK ((Node*)g.self)
Node* g_me_node;             /* bound by assignment in the prologue of Submit */
/* A.3: W == Mark <=> no batch outstanding; a claimed / submitted batch implies a non-empty inbox */
#define INV(W) ( g.batch >= B_NONE && g.batch <= B_RUNNING && g.pushed <= 1 && g.claimed_by_me <= 1 && g.has_batch <= 1 \
   && (((W) == MARK) == (g.batch == B_NONE))                                                                            \
   && ((g.batch == B_CLAIMED || g.batch == B_SUBMITTED) ==> ((W) != MARK && (W) != 0)) )
#define INBOX_WORD(n) ((n) ? &pool[0] : (Node*)0)

static inline void rg_env(RG_WORD* p) {
  if (g.role == ROLE_SUBMIT) {
    /* rely of a submitter: anything the other submitters, the runner and the dropper may do, i.e. any state with Inv
       in which my own claim (if I made one and have not submitted yet) is still mine */
    if (nondet_bool()) {
      Node* w = (Node*)nondet_ulong(); int b = nondet_int();
      if (g.claimed_by_me && g.batch == B_CLAIMED) { b = B_CLAIMED; __CPROVER_assume(w != MARK && w != 0); }
      else __CPROVER_assume(b != B_CLAIMED || 1);
      __CPROVER_assume(g.pushed || w != g.me);
      *p = w; g.batch = b;
      __CPROVER_assume(INV(*p));
    }
  } else {
    /* rely of the runner / dropper (holder of the single batch token): submitters push only, the word never becomes Mark */
    unsigned long n2 = nondet_ulong();
    __CPROVER_assume(n2 >= g.n && n2 <= POOL_MAX);
    if (!(g.role == ROLE_DROP && g.has_batch)) { g.n = n2; *p = INBOX_WORD(g.n); }
  }
  __CPROVER_assert(INV(*p), "rely preserves the strand invariant (A.3)");
}
static inline void rg_read(RG_WORD* p, RG_WORD v, int mo) { }
static inline void rg_write(RG_WORD* p, RG_WORD o, RG_WORD n, int mo, int kind) {
  if (g.role == ROLE_SUBMIT) {
    __CPROVER_assert(kind == RG_CAS && n == g.me && !g.pushed, "G_submit: a submitter pushes its own job, once, by CAS");
    __CPROVER_assert(g_me_node->next == (o == MARK ? (Node*)0 : o), "G_submit: next = old inbox (nullptr over Mark)");
    __CPROVER_assert(MO_REL(mo), "C04: MO give: pushing publishes the job object, needs release");
    if (o == MARK) {
      __CPROVER_assert(MO_ACQ(mo), "C04: MO take: replacing Mark continues the happens-before chain of the previous batch, needs acquire");
      g.batch = B_CLAIMED; g.claimed_by_me = 1;
    }
    g.pushed = 1;
  } else if (g.role == ROLE_RUN) {
    if (!g.has_batch) {
      __CPROVER_assert(kind == RG_XCHG && n == 0 && o != MARK && o != 0, "G_run: takes the whole (non-empty) inbox with one exchange");
      __CPROVER_assert(MO_ACQ(mo), "C04: MO take: the exchange takes the submitted job objects, needs acquire");
      g.has_batch = 1; g.taken = g.n; g.n = 0; g.rev = 0; g.called = 0;
    } else {
      __CPROVER_assert(kind == RG_CAS && o == 0 && n == MARK, "G_run: the only other write is nullptr -> Mark");
      __CPROVER_assert(g.called == g.taken, "G_run: releases the strand only after the whole batch ran");
      __CPROVER_assert(MO_REL(mo), "C04: MO give: returning to Mark publishes the batch's effects to the next batch, needs release");
      g.batch = B_NONE;
    }
  } else {
    __CPROVER_assert(kind == RG_XCHG && n == MARK && o != MARK && o != 0 && !g.has_batch, "G_drop: one exchange to Mark taking a non-empty inbox");
    __CPROVER_assert(MO_ACQ(mo), "C04: MO take: the exchange takes the submitted job objects, needs acquire");
    __CPROVER_assert(MO_REL(mo), "C04: MO give: returning to Mark needs release");
    g.has_batch = 1; g.taken = g.n; g.n = 0; g.called = 0; g.batch = B_NONE;
  }
  __CPROVER_assert(INV(*p), "own step preserves the strand invariant (A.3)");
}
#include "rg_atomic.h"

/* inbox / batch nodes: pool index k = reverse push order (k = taken-1 is the oldest job) */
static inline unsigned long node_idx(Node* x) {
  __CPROVER_assert(x != 0 && __CPROVER_same_object(x, pool) && (unsigned long)(x - pool) < g.taken, "access to a node of the taken batch");
  return (unsigned long)(x - pool);
}
static inline Node* node_next(Node* x) {
  unsigned long k = node_idx(x);
  if (g.role == ROLE_RUN) {
    __CPROVER_assert(k + g.called < g.taken, "C03,C07: no access to a job after it was called");
    if (k < g.rev) return k > 0 ? &pool[k - 1] : (Node*)0;      /* already reversed: points to the newer neighbour */
    return k + 1 < g.taken ? &pool[k + 1] : (Node*)0;
  }
  __CPROVER_assert(k >= g.called, "C03,C07: no access to a job after it was dropped");
  return k + 1 < g.taken ? &pool[k + 1] : (Node*)0;
}
static inline void node_set_next(Node* x, Node* v) {
  unsigned long k = node_idx(x);
  __CPROVER_assert(g.role == ROLE_RUN && k == g.rev && v == (k > 0 ? &pool[k - 1] : (Node*)0), "SHAPE: a link write is exactly the next step of the in-place reversal");
  g.rev = k + 1;
}
#define NODE_NEXT(x) node_next(x)
#define NODE_SET_NEXT(x, v) node_set_next(x, v)

/* interface contracts */
void Call(Job* job)
__CPROVER_requires(g.role == ROLE_RUN && g.has_batch && g.rev == g.taken && g.called < g.taken)
__CPROVER_requires(job == &pool[g.taken - 1 - g.called])     /* C07: oldest first = submission order; each job exactly once */
__CPROVER_requires(g.batch == B_RUNNING)                      /* C07: only the single batch runner calls jobs: never two at a time */
__CPROVER_assigns(g.called)
__CPROVER_ensures(g.called == OLD(g.called) + 1);
void Drop(Job* job)
__CPROVER_requires(g.role == ROLE_DROP && g.has_batch && g.called < g.taken && job == &pool[g.called])
__CPROVER_assigns(g.called)
__CPROVER_ensures(g.called == OLD(g.called) + 1);
void IncRef(Job* s) __CPROVER_requires((Strand*)s == g.self) __CPROVER_assigns(g.increfs) __CPROVER_ensures(g.increfs == OLD(g.increfs) + 1);
void DecRef(Job* s) __CPROVER_requires((Strand*)s == g.self) __CPROVER_assigns(g.decrefs) __CPROVER_ensures(g.decrefs == OLD(g.decrefs) + 1);
/* IExecutor::Alive of the underlying executor: whatever it answers may be stale as soon as it returns (and a stopped executor still owes every accepted job a Drop) */
int Alive(void* executor) __CPROVER_assigns() __CPROVER_ensures(RET == 0 || RET == 1);
/* the underlying executor: accepts the strand's own job (it will later Call or Drop it exactly once) */
void Submit(void* executor, Strand* job)
__CPROVER_requires(executor == g.exec && job == g.self)
__CPROVER_requires(g.batch == B_CLAIMED || g.batch == B_RUNNING)   /* C07: one batch token: only its holder may (re)submit the strand; by Inv the word is not Mark */
__CPROVER_assigns(g.submits, g.batch)
__CPROVER_ensures(g.submits == OLD(g.submits) + 1 && g.batch == B_SUBMITTED);
'''


def rw(name, **kw):
    kw.setdefault('omethods', ['Call', 'Drop', 'IncRef', 'DecRef', 'Submit', 'Alive'])
    kw.setdefault('methods', ['Mark'])
    return Rewriter(name, atomics=['_jobs'], refs=['job'], types={'Job&': 'Job*', 'Node*': 'Node*', 'Job*': 'Job*'}, **kw)


NEXT_RULES = [(r'(\b\w+)->next\s*=(?!=)\s*([^;]+);', r'NODE_SET_NEXT(\1, \2);', 0),
              (r'(\b\w+)->next\b(?!\s*=[^=])', r'NODE_NEXT(\1)', 1)]


def jobs(ctx):
    repo = ctx.repo
    props = ['C07', 'C05', 'C04', 'C03', 'C20']
    out = []
    b_submit = find_body(repo, F, r'void\s+Strand::Submit\s*\(', 'Strand::Submit')
    b_call = find_body(repo, F, r'void\s+Strand::Call\s*\(', 'Strand::Call')
    b_drop = find_body(repo, F, r'void\s+Strand::Drop\s*\(', 'Strand::Drop')
    b_mark = find_body(repo, F, r'Node\s*\*\s*Strand::Mark\s*\(', 'Strand::Mark')
    b_alive = find_body(repo, F, r'bool\s+Strand::Alive\s*\(', 'Strand::Alive')

    # ---- Submit ------------------------------------------------------------------------------------
    c = rw('Strand::Submit', must={'atomic': 1}).rewrite(b_submit.text)
    inv = ('__CPROVER_assigns(expected, job->next, self->_jobs, g)\n'
           '__CPROVER_loop_invariant(INV(self->_jobs) && !g.pushed && !g.claimed_by_me && g.role == ROLE_SUBMIT && g.me == job && g.self == self && g.exec == self->_executor '
           '&& g.increfs == 0 && g.submits == 0 && g.decrefs == 0)')
    c = attach_loop_contracts('Strand::Submit', c, [inv])
    contract = '''void Strand_Submit(Strand* self, Job* job)
__CPROVER_requires(__CPROVER_is_fresh(self, sizeof(*self)) && __CPROVER_is_fresh(job, sizeof(*job)))
__CPROVER_requires(g.role == ROLE_SUBMIT && g.self == self && g.exec == self->_executor && g.me == job && !g.pushed && !g.claimed_by_me && INV(self->_jobs))
__CPROVER_requires(g.increfs == 0 && g.decrefs == 0 && g.submits == 0)
__CPROVER_assigns(self->_jobs, job->next, g, g_me_node)
__CPROVER_ensures(INV(self->_jobs))
/* post Submit: the job is in the inbox; the strand is scheduled iff this push replaced Mark, with exactly one IncRef (C07: none lost, one batch) */
__CPROVER_ensures(g.pushed)
__CPROVER_ensures(g.claimed_by_me ? (g.increfs == 1 && g.submits == 1) : (g.increfs == 0 && g.submits == 0))
__CPROVER_ensures(g.decrefs == 0)
'''
    harness = 'void harness(void) {\n  ghost_havoc();\n  Strand* self; Job* job;\n  Strand_Submit(self, job);\n  if (g.claimed_by_me) VF_CANARY("scheduled the strand"); else VF_CANARY("joined a batch");\n}\n'
    out.append(Job('strand/Submit', props, PROTO + contract + '{ g_me_node = job; /* ghost prologue */' + c + '}\n' + harness, 'harness', enforce='Strand_Submit',
                   replace=['IncRef', 'Submit'], loop_contracts=True, funcs=[b_submit], canaries=2,
                   expect=[r'postcondition', r'G_submit', r'invariant after step|loop_invariant_step'], meta={'fn': 'Submit'}))

    # ---- Call ----------------------------------------------------------------------------------------
    c = rw('Strand::Call', must={'atomic': 1}, post=NEXT_RULES).rewrite(b_call.text)
    inv1 = ('__CPROVER_assigns(node, prev, g.rev)\n'
            '__CPROVER_loop_invariant(g.has_batch && g.taken >= 1 && g.taken <= POOL_MAX && g.rev < g.taken && node == &pool[g.rev] '
            '&& prev == (g.rev > 0 ? &pool[g.rev - 1] : (Node*)0) && g.called == 0 && g.batch == B_RUNNING && g.role == ROLE_RUN)')
    inv2 = ('__CPROVER_assigns(prev, g.called)\n'
            '__CPROVER_loop_invariant(g.has_batch && g.taken >= 1 && g.taken <= POOL_MAX && g.rev == g.taken && g.called < g.taken '
            '&& prev == &pool[g.taken - 1 - g.called] && g.batch == B_RUNNING && g.role == ROLE_RUN)')
    c = attach_loop_contracts('Strand::Call', c, [inv1, inv2])
    contract = '''void Strand_Call(Strand* self)
__CPROVER_requires(__CPROVER_is_fresh(self, sizeof(*self)))
__CPROVER_requires(g.role == ROLE_RUN && g.self == self && g.exec == self->_executor && g.batch == B_RUNNING && !g.has_batch && g.n >= 1 && g.n <= POOL_MAX)
__CPROVER_requires(self->_jobs == INBOX_WORD(g.n) && g.increfs == 0 && g.decrefs == 0 && g.submits == 0)
__CPROVER_assigns(self->_jobs, g)
__CPROVER_ensures(INV(self->_jobs))
/* Call: every taken job Called exactly once (oldest first); at the end either released (nullptr -> Mark, DecRef, no resubmit) or resubmitted with a non-Mark word */
__CPROVER_ensures(g.has_batch && g.taken >= 1 && g.called == g.taken)
__CPROVER_ensures((g.batch == B_NONE && g.decrefs == 1 && g.submits == 0 && self->_jobs == MARK) || (g.batch == B_SUBMITTED && g.decrefs == 0 && g.submits == 1 && self->_jobs != MARK))
__CPROVER_ensures(g.increfs == 0)
'''
    harness = ('void harness(void) {\n  ghost_havoc(); POOL_INIT();\n  Strand* self;\n  Strand_Call(self);\n'
               '  if (g.batch == B_NONE) VF_CANARY("released"); else VF_CANARY("resubmitted");\n  if (g.taken > 1) VF_CANARY("several jobs");\n}\n')
    out.append(Job('strand/Call', props, PROTO + contract + '{' + c + '}\n' + harness, 'harness', enforce='Strand_Call',
                   replace=['Call', 'DecRef', 'Submit', 'Alive'], loop_contracts=True, funcs=[b_call], canaries=3, timeout=300,
                   expect=[r'postcondition', r'G_run', r'invariant after step|loop_invariant_step', r'SHAPE'], meta={'fn': 'Call'}))

    # ---- Drop ----------------------------------------------------------------------------------------
    c = rw('Strand::Drop', must={'atomic': 1}, post=NEXT_RULES).rewrite(b_drop.text)
    inv = ('__CPROVER_assigns(node, g.called)\n'
           '__CPROVER_loop_invariant(g.has_batch && g.taken >= 1 && g.taken <= POOL_MAX && g.called < g.taken && node == &pool[g.called] && g.role == ROLE_DROP)')
    c = attach_loop_contracts('Strand::Drop', c, [inv])
    contract = '''void Strand_Drop(Strand* self)
__CPROVER_requires(__CPROVER_is_fresh(self, sizeof(*self)))
__CPROVER_requires(g.role == ROLE_DROP && g.self == self && g.batch == B_RUNNING && !g.has_batch && g.n >= 1 && g.n <= POOL_MAX)
__CPROVER_requires(self->_jobs == INBOX_WORD(g.n) && g.increfs == 0 && g.decrefs == 0 && g.submits == 0)
__CPROVER_assigns(self->_jobs, g)
__CPROVER_ensures(INV(self->_jobs))
/* Drop: every inbox job Dropped exactly once, word := Mark, DecRef, nothing resubmitted */
__CPROVER_ensures(g.has_batch && g.called == g.taken && g.taken >= 1)
__CPROVER_ensures(g.batch == B_NONE && g.decrefs == 1 && g.submits == 0 && g.increfs == 0)
'''
    harness = 'void harness(void) {\n  ghost_havoc(); POOL_INIT();\n  Strand* self;\n  Strand_Drop(self);\n  if (g.taken > 1) VF_CANARY("several jobs"); else VF_CANARY("one job");\n}\n'
    out.append(Job('strand/Drop', props, PROTO + contract + '{' + c + '}\n' + harness, 'harness', enforce='Strand_Drop',
                   replace=['Drop', 'DecRef'], loop_contracts=True, funcs=[b_drop], canaries=2, timeout=300,
                   expect=[r'postcondition', r'G_drop', r'invariant after step|loop_invariant_step'], meta={'fn': 'Drop'}))

    # ---- Mark / Alive ---------------------------------------------------------------------------------
    c_mark = Rewriter('Strand::Mark', types={'Node*': 'Node*'}).rewrite(b_mark.text)
    c_alive = Rewriter('Strand::Alive', omethods=['Alive']).rewrite(b_alive.text)
    src = COMMON.replace('#define Mark(s) ((Node*)(s))', '') + '''
int g_alive_calls; void* g_alive_of; int g_alive_ret;
int Alive(void* e) __CPROVER_assigns(g_alive_calls, g_alive_of, g_alive_ret) __CPROVER_ensures(g_alive_calls == OLD(g_alive_calls) + 1 && g_alive_of == e && RET == g_alive_ret && (RET == 0 || RET == 1));
Node* Strand_Mark(Strand* self)
__CPROVER_requires(__CPROVER_is_fresh(self, sizeof(*self)))
__CPROVER_assigns()
__CPROVER_ensures(RET == (Node*)self)       /* the sentinel is the strand's own address: never a job */
{''' + c_mark + '''}
int Strand_Alive(Strand* self)
__CPROVER_requires(__CPROVER_is_fresh(self, sizeof(*self)) && g_alive_calls == 0)
__CPROVER_assigns(g_alive_calls, g_alive_of, g_alive_ret)
/* a strand is alive exactly when its underlying executor is (C05: Drop only when the executor refuses work) */
__CPROVER_ensures(g_alive_calls == 1 && g_alive_of == self->_executor && RET == g_alive_ret)
{''' + c_alive + '''}
void h_mark(void) { Strand* s; Strand_Mark(s); VF_CANARY("end"); }
void h_alive(void) { Strand* s; g_alive_calls = 0; Strand_Alive(s); VF_CANARY("end"); }
'''
    out.append(Job('strand/Mark', props, src, 'h_mark', enforce='Strand_Mark', funcs=[b_mark], expect=[r'postcondition'], meta={'fn': 'Mark'}))
    out.append(Job('strand/Alive', props, src, 'h_alive', enforce='Strand_Alive', replace=['Alive'], funcs=[b_alive], expect=[r'postcondition'], meta={'fn': 'Alive'}))

    # ---- lemmas over the abstract strand state ---------------------------------------------------------
    lem = COMMON + r'''
enum { W_MARK, W_NULL, W_LIST };
enum { B_NONE, B_CLAIMED, B_SUBMITTED, B_RUNNING };
#define AINV(w, b) ((w) >= W_MARK && (w) <= W_LIST && (b) >= B_NONE && (b) <= B_RUNNING && (((w) == W_MARK) == ((b) == B_NONE)) && (((b) == B_CLAIMED || (b) == B_SUBMITTED) ==> (w) == W_LIST))
/* abstract guarantees: submit push, claim, strand submitted to the executor, executor starts the batch, runner takes / releases / resubmits, drop */
static int step(int w, int b, int w2, int b2) {
  int push = (w != W_MARK && w2 == W_LIST && b2 == b);
  int claim = (w == W_MARK && w2 == W_LIST && b2 == B_CLAIMED);
  int submitted = (b == B_CLAIMED && b2 == B_SUBMITTED && w2 == w);
  int start = (b == B_SUBMITTED && b2 == B_RUNNING && w2 == w);
  int take = (b == B_RUNNING && w == W_LIST && w2 == W_NULL && b2 == b);
  int release = (b == B_RUNNING && w == W_NULL && w2 == W_MARK && b2 == B_NONE);
  int resubmit = (b == B_RUNNING && w == W_LIST && w2 == w && b2 == B_SUBMITTED);
  int drop = (b == B_RUNNING && w == W_LIST && w2 == W_MARK && b2 == B_NONE);
  return push || claim || submitted || start || take || release || resubmit || drop;
}
void lemma_inv(void) {
  int w = nondet_int(), b = nondet_int(), w2 = nondet_int(), b2 = nondet_int();
  __CPROVER_assume(AINV(w, b) && step(w, b, w2, b2));
  __CPROVER_assert(AINV(w2, b2), "lemma: strand invariant (A.3) stable under every guarantee");
  /* none lost: a pushed job is in the inbox (W_LIST); the inbox is non-empty only while a batch token exists, whose holder takes the whole inbox */
  __CPROVER_assert(w2 == W_LIST ==> b2 != B_NONE, "lemma none-lost: a non-empty inbox always has an outstanding batch");
  /* one batch at a time: the batch token is a single enum value - a second claim needs W_MARK, i.e. no batch */
  __CPROVER_assert((w == W_MARK && w2 == W_LIST) ==> b == B_NONE, "lemma one-batch: the strand is only scheduled when no batch is outstanding");
  VF_CANARY("lemma reachable");
}
'''
    out.append(Job('strand/lemma_inv', props, lem, 'lemma_inv', kind='lemma', expect=[r'lemma'], meta={'fn': 'lemma'}))

    # ---- bounded: real memory, concrete-shaped symbolic list, order and none-lost through the reversal -----
    n = 6 if ctx.tier == 'quick' else 10
    cb = rw('Strand::Call', must={'atomic': 1}).rewrite(b_call.text)
    bounded = COMMON + r'''
#define N %d
static inline void rg_env(RG_WORD* p) { }
static inline void rg_read(RG_WORD* p, RG_WORD v, int mo) { }
static inline void rg_write(RG_WORD* p, RG_WORD o, RG_WORD n, int mo, int kind) { }
#include "rg_atomic.h"
Node jobs_[N]; unsigned long n_taken; unsigned long n_called; unsigned decrefs, submits;
void Call(Job* job) {
  /* job submitted k-th (k = 0 oldest) sits at jobs_[n_taken-1-k]: calls must come oldest first, each once */
  __CPROVER_assert(job == &jobs_[n_taken - 1 - n_called], "C07 (bounded): jobs run in submission order, none lost, none twice");
  n_called++;
}
void DecRef(Job* s) { decrefs++; }
void Submit(void* e, Strand* s) { submits++; }
void Strand_Call(Strand* self) {%s}
void harness(void) {
  Strand s; n_taken = nondet_ulong(); __CPROVER_assume(n_taken >= 1 && n_taken <= N);
  for (unsigned long k = 0; k < N; k++) jobs_[k].next = (k + 1 < n_taken) ? &jobs_[k + 1] : (Node*)0;   /* LIFO inbox: newest first */
  s._jobs = &jobs_[0]; n_called = 0; decrefs = submits = 0;
  Strand_Call(&s);
  __CPROVER_assert(n_called == n_taken, "C07 (bounded): every taken job was called");
  __CPROVER_assert(decrefs + submits == 1, "C07 (bounded): released xor resubmitted");
  VF_CANARY("end");
}
''' % (n, cb)
    out.append(Job('strand/Call.bounded', props, bounded, 'harness', kind='bounded', unwind=n + 1, funcs=[b_call],
                   expect=[r'bounded'], meta={'fn': 'Call', 'bound': n}))
    return out


def replay(ctx, res, failed, rec):
    """R1: every sequential schedule of submit / run-one-batch / stop over the REAL Strand (ASan+UBSan build)"""
    from vf.replay import run_driver
    return run_driver(ctx, 'strand_seq.cpp', sanitize=True, timeout=120)
