"""Core<Ret,Arg,E,Func,Type,kAsync> (include/yaclib/algo/detail/core.hpp), ResultCore::Impl, UniqueCore / SharedCore helpers,
PromiseCore, Drop core, Promise::Set:  C02 (routing / recovery / unwrapping), C12 (lazy), C05 (where steps run), C03 (ownership and
order of release), C01/C06 (consumer / producer ends), C20 (allocation effect of MakeCore / SetCallback).

Method A: every function is proved against a spec written from the property text, one job per *configuration* of the
compile-time predicates (signature class of the functor x return kind x core type bits), which are macros here.
"""
import itertools
import re

from vf.cxx2c import Rewriter, attach_loop_contracts
from vf.extract import ExtractionBreak, find_body, match_brace
from vf.runner import Job

F = 'include/yaclib/algo/detail/core.hpp'
F_RC = 'include/yaclib/algo/detail/result_core.hpp'
F_UC = 'include/yaclib/algo/detail/unique_core.hpp'
F_SC = 'include/yaclib/algo/detail/shared_core.hpp'
F_PC = 'include/yaclib/algo/detail/promise_core.hpp'
F_DROP = 'src/algo/drop_core.cpp'
F_PROM = 'include/yaclib/async/promise.hpp'

TRUSTED = ['the user functor is arbitrary code: it may throw, returns an arbitrary payload, does not touch library state (FUNCTOR_CALL stub)',
           'BaseCore::SetResultImpl / SetInlineImpl / SetCallbackImpl contracts (proved in unit base_core), IExecutor::Submit interface contract (proved per executor)',
           'the compiler maps a given callable to the signature class assumed by the configuration (is_invocable_v, Return<>, MakeCore type computation are not proved)']
DROPPED = ['Result<V,E> / forwarded payloads are (kind, state, tag) triples; `std::forward<Result>(r).Value()` etc. are the projection macros RES_VALUE / RES_EXC / RES_ERR / RES_ALT / RES_WHOLE',
           'C++ exceptions exist only at FUNCTOR_CALL: the stub sets g.exc; after every call of a may-throw function the recipe inserts `if (g.exc) return` and the function-try-block handler of CallImpl becomes the code at L_catch',
           'the union {Result _result; Callback _self} is two fields plus a ghost discriminator: reading _self after Store is an obligation failure',
           'the lambda async_done of Core::Impl is inlined textually at its call sites']
ASSUMPTIONS = ['payload constructors / moves do not throw (the code itself declares the functions noexcept)']
# real-code drivers that exercise what this unit proves (thorough tier: sanity run on the tree under check)
DRIVERS = [('pipeline.cpp', [], 'default'), ('task_return.cpp', ['all'], 'default')]

COMMON = r'''
#include "vf.h"
typedef struct Core Core;
typedef Core InlineCore; typedef Core BaseCore; typedef Core ResultCore;
enum { RS_Value = 0, RS_Exception = 1, RS_Error = 2, RS_Empty = 3 };
enum { K_UNIT, K_VALUE, K_EXC, K_ERROR, K_RESULT, K_ASYNC, K_NOTHING };
typedef struct Val { unsigned char kind; unsigned char state; unsigned long tag; Core* core; } Val;
typedef struct Callback { Core* caller; char unwrapping; } Callback;
struct Core { Core* next; uintptr_t _callback; void* _executor; Val _result; Callback _self; };
typedef void* Transfer;
#define kEmpty ((uintptr_t)0)
#define kResult (~(uintptr_t)0)
#define TAG_STOP 0xDEADUL        /* the payload of StopError: a fixed tag */
enum { AsyncType_None = 0, AsyncType_Unique = 1, AsyncType_Shared = 2 };

/* ---- configuration: the compile-time predicates of one instantiation of Core<...> ---- */
#ifndef CFG_RUN
#define CFG_RUN 0
#endif
#ifndef CFG_DETACH
#define CFG_DETACH 0
#endif
#ifndef CFG_FROM_SHARED
#define CFG_FROM_SHARED 0
#endif
#ifndef CFG_CALL
#define CFG_CALL 0
#endif
#ifndef CFG_ASYNC
#define CFG_ASYNC 0
#endif
#ifndef CFG_TASK
#define CFG_TASK 0
#endif
#ifndef CFG_CLASS
#define CFG_CLASS 1
#endif
#ifndef CFG_RETVOID
#define CFG_RETVOID 0
#endif
#ifndef CFG_ARGVOID
#define CFG_ARGVOID 0
#endif
#ifndef CFG_RETRESULT
#define CFG_RETRESULT 0
#endif
#ifndef ST
#define ST 0
#endif
#define SymmetricTransfer ST
#define kAsync CFG_ASYNC
#define IsRun(T) CFG_RUN
#define IsDetach(T) CFG_DETACH
#define IsFromUnique(T) (!CFG_FROM_SHARED)
#define IsFromShared(T) CFG_FROM_SHARED
#define IsCall(T) CFG_CALL
/* CoreType predicates that the configuration of a job does not fix are FREE: an arbitrary (but fixed) truth value, so a contract must hold whatever the other flags of the type are
   and code that consults the wrong flag is decided instead of being an extraction break */
unsigned char g_free_to_shared, g_free_lazy;
#ifndef IsToShared
#define IsToShared(T) (g_free_to_shared & 1)
#endif
#ifndef IsToUnique
#define IsToUnique(T) (!(g_free_to_shared & 1))
#endif
#ifndef IsLazy
#define IsLazy(T) (g_free_lazy & 1)
#endif
#define IS_TASK CFG_TASK
/* signature class as Tag() orders it: 1 Result, 2 value, 3 error, 4 exception_ptr, 5 nothing (Unit / no argument) */
#define INV_RESULT (CFG_CLASS == 1)
#define INV_ARG (CFG_CLASS == 2)
#define INV_ERR (CFG_CLASS == 3)
#define INV_EXC (CFG_CLASS == 4)
#define INV_UNIT (CFG_CLASS == 5)
#define INV_NONE CFG_ARGVOID
#define ARG_VOID (CFG_CLASS == 5)

struct Ghost {
  unsigned long clock;                         /* orders the effects below */
  unsigned func_calls; unsigned char func_arg_kind; unsigned char func_arg_state; unsigned long func_arg_tag;
  unsigned char exc; unsigned long exc_tag;    /* a C++ exception is in flight (only FUNCTOR_CALL raises) */
  unsigned long ret_tag; unsigned char ret_state; Core* ret_core;   /* what the functor returned */
  unsigned func_dtors; unsigned long t_dtor;
  unsigned stores; unsigned long t_store; unsigned char union_is_result;
  unsigned caller_decrefs; unsigned long t_decref; Core* decref_of;
  unsigned caller_increfs;
  unsigned set_results; unsigned long t_set_result;
  unsigned submits; void* submit_to;
  unsigned set_inlines; Core* set_inline_on; unsigned store_callbacks; unsigned steps; Core* step_to; unsigned starts; Core* start_of;
  unsigned dones;
} g;
static void ghost_reset(void) {
  g.clock = 1; g.func_calls = 0; g.exc = 0; g.func_dtors = 0; g.stores = 0; g.union_is_result = 0; g.caller_decrefs = 0; g.caller_increfs = 0;
  g.set_results = 0; g.submits = 0; g.set_inlines = 0; g.store_callbacks = 0; g.steps = 0; g.starts = 0; g.start_of = 0; g.dones = 0; g.t_store = g.t_decref = g.t_dtor = g.t_set_result = 0;
  g.exc_tag = nondet_ulong(); g.ret_tag = nondet_ulong(); g.ret_state = nondet_uint(); g.decref_of = 0; g.set_inline_on = 0; g.step_to = 0; g.submit_to = 0;
}
/* projections of a Result argument `r` (a Val of kind K_RESULT) */
static inline Val mkval(unsigned char kind, unsigned char state, unsigned long tag) { Val v; v.kind = kind; v.state = state; v.tag = tag; v.core = 0; return v; }
#define RES_STATE(r) ((r).state)
#define RES_VALUE(r) (__CPROVER_assert((r).state == RS_Value, "C02: .Value() only on a Result holding a value (std::get would throw in noexcept)"), mkval(K_VALUE, RS_Value, (r).tag))
#define RES_EXC(r) (__CPROVER_assert((r).state == RS_Exception, "C02: .Exception() only on a Result holding an exception"), mkval(K_EXC, RS_Exception, (r).tag))
#define RES_ERR(r) (__CPROVER_assert((r).state == RS_Error, "C02: .Error() only on a Result holding an error"), mkval(K_ERROR, RS_Error, (r).tag))
#define RES_ALT(r, st) (__CPROVER_assert((r).state == (st), "C02: std::get<T> of the alternative actually held"), mkval((st) == RS_Exception ? K_EXC : K_ERROR, (st), (r).tag))
#define RES_WHOLE(r) mkval(K_RESULT, (r).state, (r).tag)
#define RES_EMPTY() mkval(K_RESULT, RS_Empty, 0)
#define RES_UNIT() mkval(K_RESULT, RS_Value, 0)
#define RES_STOP() mkval(K_RESULT, RS_Error, TAG_STOP)
#define VAL_UNIT() mkval(K_UNIT, RS_Value, 0)
#define VAL_STOP() mkval(K_ERROR, RS_Error, TAG_STOP)
#define CUR_EXC() mkval(K_EXC, RS_Exception, g.exc_tag)
#define T_IS_UNIT(v) ((v).kind == K_UNIT)
/* what a Store of v leaves in the result storage */
#define STORED_STATE(v) ((v).kind == K_RESULT ? (v).state : (v).kind == K_EXC ? RS_Exception : (v).kind == K_ERROR ? RS_Error : RS_Value)
'''


PINNED_ALIASES = ['using T = std::conditional_t<kIsException, std::exception_ptr, E>;',
                  'using Arg = typename remove_cvref_t<FromCorePtr>::Value::Value;', 'using E = typename remove_cvref_t<FromCorePtr>::Value::Error;',
                  'using ResultCoreT = typename std::remove_reference_t<decltype(*callback)>::Base;',
                  'using AsyncRet = result_value_t<typename detail::Return<Arg, E, Func&&>::Type>;', 'using Ret0 = result_value_t<async_value_t<task_value_t<AsyncRet>>>;',
                  'using Ret = std::conditional_t<std::is_same_v<Ret0, Unit>, void, Ret0>;', 'using Core = detail::Core<Ret, Arg, E, Func&&, CoreT, kAsync>;']


def strip_static(t):
    """static_asserts cannot change behaviour; type aliases are configuration and may only be dropped when their text is the pinned one (vf.cxx2c.drop_pinned)"""
    from vf.cxx2c import _ws
    t = re.sub(r'static_assert\s*\((?:[^()]|\((?:[^()]|\([^()]*\))*\))*\)\s*;', '', t)
    for lit in PINNED_ALIASES:
        t = re.sub(_ws(lit), '', t)
    rest = re.findall(r'\busing\s+\w+\s*=[^;]*;', t)
    if rest:
        raise ExtractionBreak('core.hpp: type alias not pinned by the recipe (changed configuration cannot be decided by contracts): ' + ' '.join(rest[0].split())[:160])
    return t


TRAITS = [
    (r'std::is_same_v<T,\s*Unit>', 'T_IS_UNIT(r)', 0),
    (r'is_invocable_v<Invoke,\s*Result<Arg,\s*E>>', 'INV_RESULT', 0),
    (r'is_invocable_v<Invoke,\s*Arg>', 'INV_ARG', 0),
    (r'std::is_void_v<Arg>', 'ARG_VOID', 0),
    (r'is_invocable_v<Invoke,\s*Unit>', 'INV_UNIT', 0),
    (r'is_invocable_v<Invoke,\s*std::exception_ptr>', 'INV_EXC', 0),
    (r'is_invocable_v<Invoke,\s*E>', 'INV_ERR', 0),
    (r'is_invocable_v<Invoke>', 'INV_NONE', 0),
    (r'is_task_v<decltype\(async\)>', 'IS_TASK', 0),
    (r'std::is_void_v<invoke_t<Invoke,\s*std::conditional_t<kArgVoid,\s*void,\s*T>>>', 'CFG_RETVOID', 0),
    (r'AsyncType::(\w+)', r'AsyncType_\1', 0),
    (r'ResultState::(\w+)', r'RS_\1', 0),
    (r'\bconstexpr\s+auto\b', 'const int', 0),
    (r'\bconstexpr\s+bool\b', 'const int', 0),
]
VALUES = [
    (r'std::forward<Result>\(r\)\.Value\(\)', 'RES_VALUE(r)', 0),
    (r'std::forward<Result>\(r\)\.Exception\(\)', 'RES_EXC(r)', 0),
    (r'std::forward<Result>\(r\)\.Error\(\)', 'RES_ERR(r)', 0),
    # std::get<T> with `using T = std::conditional_t<kIsException, std::exception_ptr, E>`: the alternative asked for is fixed by the callback's signature, not by a local the code may or may not keep
    (r'std::get<T>\(\s*std::forward<Result>\(r\)\.Internal\(\)\s*\)', 'RES_ALT(r, (kIsException ? RS_Exception : RS_Error))', 0),
    # taking the predecessor's Result directly instead of through MoveOrConst<cond>(): a move is a move whatever the configuration, a plain / as_const read is a const read
    (r'std::move\(\s*core\.Get\(\)\s*\)', 'MoveOrConst(core, 1)', 0),
    (r'std::as_const\(\s*core\.Get\(\)\s*\)', 'MoveOrConst(core, 0)', 0),
    (r'(?<![\w.>(])core\.Get\(\)', 'MoveOrConst(core, 0)', 0),
    (r'std::move\(r\)', 'RES_WHOLE(r)', 0),
    (r'r\.State\(\)', 'RES_STATE(r)', 0),
    (r'Result<Arg,\s*E>\{\s*Unit\{\}\s*\}', 'RES_UNIT()', 0),
    (r'Result<Arg,\s*E>\{\s*StopTag\{\}\s*\}', 'RES_STOP()', 0),
    (r'(?:yaclib::)?Result<Ret,\s*E>\{\s*\}', 'RES_EMPTY()', 0),
    (r'\bUnit\{\}', 'VAL_UNIT()', 0),
    (r'\bStopTag\{\}', 'VAL_STOP()', 0),
    (r'std::current_exception\(\)', 'CUR_EXC()', 0),
    (r'std::forward<T>\((\w+)\)', r'\1', 0),
    (r'std::forward<Invoke>\(this->_func\.storage\)\(\s*\)', 'FUNCTOR_CALL0(self)', 0),
    (r'std::forward<Invoke>\(this->_func\.storage\)\(\s*(\w+)\s*\)', r'FUNCTOR_CALL(self, \1)', 0),
    (r'this->_func\.storage\.~Storage\(\)', 'FUNCTOR_DTOR(self)', 0),
    (r'this->_self\.caller\s*=(?!=)', 'SELF_CALLER_LV(self) =', 0),
    (r'this->_self\.caller', 'SELF_CALLER(self)', 0),
    (r'this->_self\.unwrapping\s*=(?!=)', 'SELF_UNWRAP_LV(self) =', 0),
    (r'this->_self\.unwrapping', 'SELF_UNWRAP(self)', 0),
    (r'async\.GetCore\(\)\.Release\(\)', 'ASYNC_CORE(async)', 0),
    (r'\*\s*MoveToCaller\(', 'MoveToCaller(', 0),
    (r'this->template\s+', 'this->', 0),
    (r'core\.template\s+', 'core.', 0),
    (r'core->template\s+', 'core->', 0),
]


def inline_lambda(name, text, lam):
    """auto NAME = [&] { BODY };  ...  return NAME();   ->   { BODY }"""
    m = re.search(r'auto\s+' + lam + r'\s*=\s*\[&\]\s*\{', text)
    if not m:
        raise ExtractionBreak('%s: lambda %s not found' % (name, lam))
    ob = m.end() - 1
    cb = match_brace(text, ob)
    body = text[ob + 1:cb]
    end = text.index(';', cb)
    text = text[:m.start()] + text[end + 1:]
    text, n = re.subn(r'return\s+' + lam + r'\s*\(\s*\)\s*;', lambda _m: '{' + body + '}', text)
    if n == 0:
        raise ExtractionBreak('%s: lambda %s is never called' % (name, lam))
    return text


def rw(name, **kw):
    pre = TRAITS + VALUES + list(kw.pop('pre', []))
    kw.setdefault('refs', ['caller', 'core', 'callback'])
    kw.setdefault('tcalls', ['CallImpl', 'Done', 'CallResolveState', 'CallResolveAsync', 'Step', 'Noop', 'SetResult', 'SetInline', 'MoveOrConst', 'TransferExecutorTo', 'SetCallbackImpl', 'SetResultImpl', 'Impl'])
    kw.setdefault('methods', ['CallResolveVoid'])
    kw.setdefault('omethods', ['DecRef', 'IncRef', 'Submit', 'StoreCallback', 'GetRef', 'Here', 'Store'])
    casts = {'ResultCore<Arg, E>': 'Core*', 'ResultCore<Ret, E>': 'Core*', 'BaseCore': 'Core*', 'ResultCore<V, E>': 'Core*'}
    return Rewriter(name, pre=pre, casts=casts, types={'BaseCore*': 'Core*', 'InlineCore*': 'Core*'}, **kw)



FUNCS = {
    'Core::Call': r'void\s+Call\s*\(\s*\)\s*noexcept\s+final',
    'Core::Drop': r'void\s+Drop\s*\(\s*\)\s*noexcept\s+final',
    'Core::Impl': r'auto\s+Impl\s*\(\s*\[\[maybe_unused\]\]\s*InlineCore\s*&\s*caller\s*\)',
    'Core::CallImpl': r'auto\s+CallImpl\s*\(\s*T\s*&&\s*r\s*\)',
    'Core::Done': r'auto\s+Done\s*\(\s*T\s*&&\s*value\s*\)',
    'Core::CallResolveState': r'auto\s+CallResolveState\s*\(\s*Result\s*&&\s*r\s*\)',
    'Core::CallResolveAsync': r'auto\s+CallResolveAsync\s*\(\s*T\s*&&\s*value\s*\)',
    'Core::CallResolveVoid': r'auto\s+CallResolveVoid\s*\(\s*T\s*&&\s*value\s*\)',
}

# ---- stubs and contracts shared by the Core jobs -------------------------------------------------------------
STUBS = r"""
#define G_EFFECTS g.clock, g.func_calls, g.func_arg_kind, g.func_arg_state, g.func_arg_tag, g.exc, g.func_dtors, g.t_dtor, g.stores, g.t_store, g.union_is_result, g.caller_decrefs, g.t_decref, g.decref_of, g.set_results, g.t_set_result, g.set_inlines, g.set_inline_on, g.store_callbacks, g.steps, g.step_to, g.starts, g.start_of
/* reads / writes of the union member _self: only while the union still holds the Callback (before Store) */
static inline Core* self_caller(Core* s) { __CPROVER_assert(!g.union_is_result, "C03: _self.caller is read before the Result is stored over it (union)"); return s->_self.caller; }
#define SELF_CALLER(s) self_caller(s)
#define SELF_CALLER_LV(s) (s)->_self.caller
#define SELF_UNWRAP(s) ((s)->_self.unwrapping)
#define SELF_UNWRAP_LV(s) (s)->_self.unwrapping
#define Done_SEL(a, b, c, N, ...) N
#define Done_T(...) Done_SEL(__VA_ARGS__, Done3, Done2)(__VA_ARGS__)
#define Done2(st, v) Done(self, 0, v)
#define Done3(st, as, v) Done(self, as, v)
#define CallImpl_T(st, v) CallImpl(self, v)
#define CallResolveAsync_T(st, v) CallResolveAsync(self, v)
#define CallResolveState_T(st, v) CallResolveState(self, v)
#define SetResult_T(st, s) SetResult(s)
#define SetInline_T(st, c, cb) SetInline(c, cb)
#define Step_T(st, caller, cb) Step(caller, cb)
#define Noop_T(st) ((Transfer)0)
#define MoveOrConst_T(cond, c) MoveOrConst(c, cond)
#define TransferExecutorTo_T(sh, from, to) TransferExecutorTo(from, to, sh)
#define ASYNC_CORE(a) ((a).core)
#define EXC_RETURN ((Transfer)0)
static inline Val exc_val(void) { Val v; v.kind = K_NOTHING; v.state = RS_Empty; v.tag = 0; v.core = 0; return v; }

/* the user functor */
Val FUNCTOR_CALL(Core* self, Val arg)
__CPROVER_requires(g.func_dtors == 0)                         /* C03: the functor is invoked only while its storage is alive */
__CPROVER_requires(g.func_calls == 0 && !g.exc)               /* every step runs at most once */
__CPROVER_assigns(g.func_calls, g.func_arg_kind, g.func_arg_state, g.func_arg_tag, g.exc)
__CPROVER_ensures(g.func_calls == 1 && g.func_arg_kind == arg.kind && g.func_arg_state == arg.state && g.func_arg_tag == arg.tag && g.exc <= 1)
__CPROVER_ensures(!g.exc ==> (RET.tag == g.ret_tag && RET.core == g.ret_core
    && RET.kind == (CFG_ASYNC ? K_ASYNC : CFG_RETRESULT ? K_RESULT : CFG_RETVOID ? K_UNIT : K_VALUE)
    && RET.state == (CFG_RETRESULT ? g.ret_state : RS_Value)));
static inline Val nothing_val(void) { Val v; v.kind = K_NOTHING; v.state = RS_Value; v.tag = 0; v.core = 0; return v; }
#define FUNCTOR_CALL0(s) FUNCTOR_CALL(s, nothing_val())
void FUNCTOR_DTOR(Core* self)
__CPROVER_requires(g.func_dtors == 0)                         /* C03: functor storage destroyed exactly once */
__CPROVER_assigns(g.func_dtors, g.t_dtor, g.clock)
__CPROVER_ensures(g.func_dtors == 1 && g.t_dtor == OLD(g.clock) && g.clock == OLD(g.clock) + 1);
void Store(Core* self, Val v)
__CPROVER_requires(g.stores == 0 && v.kind != K_NOTHING && v.kind != K_ASYNC)      /* the Result is constructed exactly once */
__CPROVER_assigns(g.stores, g.t_store, g.clock, g.union_is_result, self->_result)
__CPROVER_ensures(g.stores == 1 && g.union_is_result == 1 && g.t_store == OLD(g.clock) && g.clock == OLD(g.clock) + 1
    && self->_result.state == STORED_STATE(v) && self->_result.tag == v.tag);
void DecRef(Core* c)
__CPROVER_requires(c != 0 && g.caller_decrefs == 0)
__CPROVER_assigns(g.caller_decrefs, g.t_decref, g.clock, g.decref_of)
__CPROVER_ensures(g.caller_decrefs == 1 && g.decref_of == c && g.t_decref == OLD(g.clock) && g.clock == OLD(g.clock) + 1);
void IncRef(Core* c) __CPROVER_requires(c != 0) __CPROVER_assigns(g.caller_increfs) __CPROVER_ensures(g.caller_increfs == OLD(g.caller_increfs) + 1);
Core* g_next_step;
Transfer SetResult(Core* self)
__CPROVER_requires(g.stores == 1 && g.set_results == 0)       /* C01 producer contract: Store precedes SetResult, once */
__CPROVER_assigns(g.set_results, g.t_set_result, g.clock)
__CPROVER_ensures(g.set_results == 1 && g.t_set_result == OLD(g.clock) && g.clock == OLD(g.clock) + 1 && RET == (Transfer)g_next_step);
unsigned g_mv_calls; int g_mv_cond; Core* g_mv_core;      /* how a Result was taken out of a core: moved (cond) or read through a const reference */
Val MoveOrConst(Core* c, int cond) __CPROVER_requires(c != 0) __CPROVER_assigns(g_mv_calls, g_mv_cond, g_mv_core)
__CPROVER_ensures(RET.kind == K_RESULT && RET.state == c->_result.state && RET.tag == c->_result.tag && g_mv_calls == OLD(g_mv_calls) + 1 && g_mv_cond == cond && g_mv_core == c);
"""

CONTRACT_VOID = r"""Val CallResolveVoid(Core* self, Val value)
__CPROVER_requires(__CPROVER_is_fresh(self, sizeof(*self)) && g.func_calls == 0 && !g.exc && g.func_dtors == 0)
__CPROVER_assigns(g.func_calls, g.func_arg_kind, g.func_arg_state, g.func_arg_tag, g.exc)
/* the functor is invoked exactly once, with `value` (or with nothing when it takes no argument) */
__CPROVER_ensures(g.func_calls == 1 && g.exc <= 1)
__CPROVER_ensures(CFG_ARGVOID ? g.func_arg_kind == K_NOTHING : (g.func_arg_kind == value.kind && g.func_arg_state == value.state && g.func_arg_tag == value.tag))
/* void callbacks yield Unit, everything else is passed on as returned */
__CPROVER_ensures(!g.exc ==> (RET.tag == (CFG_RETVOID ? 0 : g.ret_tag) && RET.core == (CFG_RETVOID ? (Core*)0 : g.ret_core)
    && RET.kind == (CFG_RETVOID ? K_UNIT : CFG_ASYNC ? K_ASYNC : CFG_RETRESULT ? K_RESULT : K_VALUE)
    && RET.state == ((CFG_RETRESULT && !CFG_RETVOID) ? g.ret_state : RS_Value)))
"""

CONTRACT_DONE = r"""Transfer Done(Core* self, int Async, Val value)
__CPROVER_requires(__CPROVER_is_fresh(self, sizeof(*self)))
__CPROVER_requires(g.stores == 0 && g.set_results == 0 && g.caller_decrefs == 0 && !g.union_is_result && value.kind != K_NOTHING && value.kind != K_ASYNC)
__CPROVER_requires(Async ? 1 : g.func_dtors == 0)
__CPROVER_requires(((!CFG_RUN && (!CFG_FROM_SHARED || CFG_CALL || CFG_ASYNC)) || Async) ==> self->_self.caller != 0)
__CPROVER_assigns(g.stores, g.t_store, g.clock, g.union_is_result, self->_result, g.caller_decrefs, g.t_decref, g.decref_of, g.func_dtors, g.t_dtor, g.set_results, g.t_set_result)
/* Done stores `value` as the step's Result (a Result as is, a plain value as Value, an exception / error as that failure) and publishes it */
__CPROVER_ensures(g.stores == 1 && g.union_is_result == 1 && self->_result.state == STORED_STATE(value) && self->_result.tag == value.tag)
__CPROVER_ensures(g.set_results == 1 && RET == (Transfer)g_next_step)
/* C03: the predecessor is released exactly once iff this step owns a reference to it; the functor is destroyed exactly once unless it already was (Async) */
__CPROVER_ensures(g.caller_decrefs == (((!CFG_RUN && (!CFG_FROM_SHARED || CFG_CALL || CFG_ASYNC)) || Async) ? 1 : 0))
__CPROVER_ensures(g.caller_decrefs ==> g.decref_of == OLD(self->_self.caller))
__CPROVER_ensures(g.func_dtors == OLD(g.func_dtors) + (Async ? 0 : 1))
/* C03 order: save caller -> store -> release caller / destroy functor -> publish */
__CPROVER_ensures((g.caller_decrefs ==> g.t_store < g.t_decref) && (!Async ==> g.t_store < g.t_dtor) && g.t_decref < g.t_set_result && g.t_dtor < g.t_set_result && g.t_store < g.t_set_result)
"""

# what the functor returns, as stored by Done
RET_STATE = '(CFG_RETRESULT && !CFG_RETVOID ? g.ret_state : RS_Value)'
RET_TAG = '(CFG_RETVOID ? 0 : g.ret_tag)'

CONTRACT_ASYNC = r"""Transfer CallResolveAsync(Core* self, Val value)
__CPROVER_requires(__CPROVER_is_fresh(self, sizeof(*self)) && g.func_calls == 0 && !g.exc && g.func_dtors == 0)
__CPROVER_requires(g.stores == 0 && g.set_results == 0 && g.caller_decrefs == 0 && !g.union_is_result && g.set_inlines == 0 && g.store_callbacks == 0 && g.steps == 0 && g.starts == 0)
__CPROVER_requires(CFG_RUN ? 1 : self->_self.caller != 0)
__CPROVER_requires(CFG_ASYNC ? (g.ret_core != 0) : 1)
__CPROVER_assigns(G_EFFECTS, self->_result, self->_self)
__CPROVER_ensures(g.exc <= 1 && g.union_is_result == (g.stores != 0))
__CPROVER_ensures((g.exc || !CFG_ASYNC || !g.func_calls) ==> (self->_self.caller == OLD(self->_self.caller) && self->_self.unwrapping == OLD(self->_self.unwrapping)))
/* the functor runs exactly once with `value` */
__CPROVER_ensures(g.func_calls == 1 && (CFG_ARGVOID ? g.func_arg_kind == K_NOTHING : (g.func_arg_kind == value.kind && g.func_arg_state == value.state && g.func_arg_tag == value.tag)))
/* a throw leaves everything to the handler */
__CPROVER_ensures(g.exc ==> (g.stores == 0 && g.set_results == 0 && g.func_dtors == 0 && g.caller_decrefs == 0 && g.set_inlines == 0 && g.steps == 0 && g.starts == 0))
/* synchronous result: stored (Result as is, plain value as Value, void as Unit) and published */
__CPROVER_ensures((!g.exc && !CFG_ASYNC) ==> (g.stores == 1 && g.set_results == 1 && self->_result.state == RETSTATE && self->_result.tag == RETTAG && g.func_dtors == 1
    && g.caller_decrefs == ((!CFG_RUN && (!CFG_FROM_SHARED || CFG_CALL)) ? 1 : 0)))
/* returned Future / SharedFuture / Task: the step registers itself on the inner state, marks itself unwrapping, releases its predecessor, destroys the functor once, stores nothing yet */
__CPROVER_ensures((!g.exc && CFG_ASYNC) ==> (g.stores == 0 && g.set_results == 0 && g.func_dtors == 1 && self->_self.caller == g.ret_core
    && g.caller_decrefs == (CFG_RUN ? 0 : 1) && (CFG_RUN || (self->_self.unwrapping == 1 && g.decref_of == OLD(self->_self.caller)))))
__CPROVER_ensures((!g.exc && CFG_ASYNC && !CFG_TASK) ==> (g.set_inlines == 1 && g.set_inline_on == g.ret_core && g.store_callbacks == 0 && g.steps == 0 && g.starts == 0))
/* an inner Task is started: its head receives this step as the continuation and the run token goes to the head */
__CPROVER_ensures((!g.exc && CFG_ASYNC && CFG_TASK) ==> (g.set_inlines == 0 && g.store_callbacks == 1
    && ((g.steps == 1 && g.starts == 0 && g.step_to == g_task_head) || (g.steps == 0 && g.starts == 1 && g.start_of == g.ret_core))))
""".replace('RETSTATE', RET_STATE).replace('RETTAG', RET_TAG)

ASYNC_STUBS = r"""
Core* g_task_head;
Transfer SetInline(Core* inner, Core* callback)
__CPROVER_requires(inner != 0 && g.set_inlines == 0 && g.func_dtors == 1)
__CPROVER_assigns(g.set_inlines, g.set_inline_on)
__CPROVER_ensures(g.set_inlines == 1 && g.set_inline_on == inner);
void StoreCallback(Core* inner, Core* callback) __CPROVER_requires(inner != 0) __CPROVER_assigns(g.store_callbacks) __CPROVER_ensures(g.store_callbacks == OLD(g.store_callbacks) + 1);
Core* MoveToCaller(Core* head) __CPROVER_requires(head != 0) __CPROVER_assigns() __CPROVER_ensures(RET == g_task_head && RET != 0);
/* the Task the functor returned may be of any kind: every head type starts when reached through Here(caller) / Next(caller) with caller == its continuation
   (ReadyCore::Here, PromiseCore::Here in unit handles, Core<Run>::Impl below, PromiseType::Here in unit coro) */
Transfer Step(Core* caller, Core* callback)
__CPROVER_requires(callback != 0 && g.store_callbacks == 1)     /* the head may only be started after it knows its continuation */
__CPROVER_assigns(g.steps, g.step_to) __CPROVER_ensures(g.steps == OLD(g.steps) + 1 && g.step_to == callback);
/* detail::Start(core): MoveToCaller + one Submit of the head on its executor (proved in unit handles) - valid for every kind of head */
void Start(Core* core)
__CPROVER_requires(core != 0 && g.store_callbacks == 1 && g.starts == 0)
__CPROVER_assigns(g.starts, g.start_of) __CPROVER_ensures(g.starts == 1 && g.start_of == core);
"""

# the routing spec written from the property text (C02)
ROUTE = r"""
/* route(class, input state): 1 = invoke */
#define ROUTE_INVOKE(st) (CFG_CLASS == 1 ? 1 : (CFG_CLASS == 2 || CFG_CLASS == 5) ? (st) == RS_Value : CFG_CLASS == 3 ? (st) == RS_Error : (st) == RS_Exception)
/* the argument the functor must see */
#define ROUTE_ARG_OK(in) (CFG_ARGVOID ? g.func_arg_kind == K_NOTHING :                                          \
   (CFG_CLASS == 1 ? (g.func_arg_kind == K_RESULT && g.func_arg_state == (in).state && g.func_arg_tag == (in).tag) \
    : (g.func_arg_kind == (CFG_CLASS == 3 ? K_ERROR : CFG_CLASS == 4 ? K_EXC : K_VALUE) && g.func_arg_tag == (in).tag)))
"""

CONTRACT_STATE = r"""Transfer CallResolveState(Core* self, Val r)
__CPROVER_requires(__CPROVER_is_fresh(self, sizeof(*self)) && g.func_calls == 0 && !g.exc && g.func_dtors == 0 && r.kind == K_RESULT && r.state <= RS_Empty)
__CPROVER_requires(g.stores == 0 && g.set_results == 0 && g.caller_decrefs == 0 && !g.union_is_result && g.set_inlines == 0 && g.store_callbacks == 0 && g.steps == 0 && g.starts == 0)
__CPROVER_requires(CFG_RUN ? 1 : self->_self.caller != 0)
__CPROVER_requires(CFG_ASYNC ? (g.ret_core != 0) : 1)
__CPROVER_assigns(G_EFFECTS, self->_result, self->_self)
__CPROVER_ensures(g.exc <= 1 && g.union_is_result == (g.stores != 0))
__CPROVER_ensures((g.exc || !CFG_ASYNC || !g.func_calls) ==> (self->_self.caller == OLD(self->_self.caller) && self->_self.unwrapping == OLD(self->_self.unwrapping)))
/* C02 routing: the functor runs iff the input is the kind it takes, with that value / error / exception */
__CPROVER_ensures(g.func_calls == (ROUTE_INVOKE(r.state) ? 1 : 0))
__CPROVER_ensures(g.func_calls ==> ROUTE_ARG_OK(r))
/* otherwise the input Result passes through unchanged and is published */
__CPROVER_ensures(!g.func_calls ==> (!g.exc && g.stores == 1 && g.set_results == 1 && self->_result.state == r.state && (r.state == RS_Empty || self->_result.tag == r.tag) && g.func_dtors == 1))
__CPROVER_ensures((g.func_calls && !g.exc && !CFG_ASYNC) ==> (g.stores == 1 && g.set_results == 1 && self->_result.state == RETSTATE && self->_result.tag == RETTAG && g.func_dtors == 1))
__CPROVER_ensures(g.exc ==> (g.stores == 0 && g.set_results == 0 && g.func_dtors == 0 && g.caller_decrefs == 0))
__CPROVER_ensures((g.func_calls && !g.exc && CFG_ASYNC) ==> (g.stores == 0 && g.set_results == 0 && g.func_dtors == 1 && self->_self.caller == g.ret_core && (g.set_inlines + g.steps + g.starts == 1)))
""".replace('RETSTATE', RET_STATE).replace('RETTAG', RET_TAG)

CONTRACT_IMPL = r"""Transfer CallImpl(Core* self, Val r)
__CPROVER_requires(__CPROVER_is_fresh(self, sizeof(*self)) && g.func_calls == 0 && !g.exc && g.func_dtors == 0)
__CPROVER_requires((r.kind == K_RESULT && r.state <= RS_Empty) || (r.kind == K_UNIT && CFG_RUN && CFG_ARGVOID))
__CPROVER_requires(g.stores == 0 && g.set_results == 0 && g.caller_decrefs == 0 && !g.union_is_result && g.set_inlines == 0 && g.store_callbacks == 0 && g.steps == 0 && g.starts == 0)
__CPROVER_requires(CFG_RUN ? 1 : self->_self.caller != 0)
__CPROVER_requires(CFG_ASYNC ? (g.ret_core != 0) : 1)
__CPROVER_assigns(G_EFFECTS, self->_result, self->_self)
__CPROVER_ensures(g.exc <= 1 && g.union_is_result == (g.stores != 0))
__CPROVER_ensures((g.exc || !CFG_ASYNC || !g.func_calls) ==> (self->_self.caller == OLD(self->_self.caller) && self->_self.unwrapping == OLD(self->_self.unwrapping)))
/* post CallImpl (C02): FUNCTOR_CALL executed iff route says invoke, with that argument */
__CPROVER_ensures(g.func_calls == ((r.kind == K_UNIT || ROUTE_INVOKE(r.state)) ? 1 : 0))
__CPROVER_ensures((g.func_calls && r.kind == K_RESULT) ==> ROUTE_ARG_OK(r))
__CPROVER_ensures(!g.exc)                                                       /* nothing escapes a step */
/* pass-through stores the input Result unchanged (state, tag) */
__CPROVER_ensures(!g.func_calls ==> (g.stores == 1 && g.set_results == 1 && self->_result.state == r.state && (r.state == RS_Empty || self->_result.tag == r.tag)))
/* a throw from the functor stores Exception with the thrown tag and still publishes */
__CPROVER_ensures((g.func_calls && g_threw) ==> (g.stores == 1 && g.set_results == 1 && self->_result.state == RS_Exception && self->_result.tag == g.exc_tag))
/* a normal return: Result as is, plain value as Value, void as Unit - or, for a returned Future / SharedFuture / Task, registration on the inner state */
__CPROVER_ensures((g.func_calls && !g_threw && !CFG_ASYNC) ==> (g.stores == 1 && g.set_results == 1 && self->_result.state == RETSTATE && self->_result.tag == RETTAG))
__CPROVER_ensures((g.func_calls && !g_threw && CFG_ASYNC) ==> (g.stores == 0 && g.set_results == 0 && self->_self.caller == g.ret_core && (g.set_inlines + g.steps + g.starts == 1)))
/* C03: on every path the functor storage is destroyed exactly once */
__CPROVER_ensures(g.func_dtors == 1)
""".replace('RETSTATE', RET_STATE).replace('RETTAG', RET_TAG)


def cfg_defs(cfg):
    return ''.join('#define %s %s\n' % (k, v) for k, v in cfg.items())


def configs(tier):
    """(class, argvoid, retvoid, retresult, async, task) x (run, from_shared, call)"""
    out = []
    classes = [(1, 0), (2, 0), (3, 0), (4, 0), (5, 0), (5, 1)]
    rets = [dict(CFG_RETVOID=0, CFG_RETRESULT=0, CFG_ASYNC=0, CFG_TASK=0), dict(CFG_RETVOID=1, CFG_RETRESULT=0, CFG_ASYNC=0, CFG_TASK=0),
            dict(CFG_RETVOID=0, CFG_RETRESULT=1, CFG_ASYNC=0, CFG_TASK=0), dict(CFG_RETVOID=0, CFG_RETRESULT=0, CFG_ASYNC=1, CFG_TASK=0),
            dict(CFG_RETVOID=0, CFG_RETRESULT=0, CFG_ASYNC=2, CFG_TASK=0), dict(CFG_RETVOID=0, CFG_RETRESULT=0, CFG_ASYNC=1, CFG_TASK=1)]
    kinds = [dict(CFG_RUN=0, CFG_FROM_SHARED=0, CFG_CALL=0), dict(CFG_RUN=0, CFG_FROM_SHARED=0, CFG_CALL=1),
             dict(CFG_RUN=0, CFG_FROM_SHARED=1, CFG_CALL=0), dict(CFG_RUN=0, CFG_FROM_SHARED=1, CFG_CALL=1), dict(CFG_RUN=1, CFG_FROM_SHARED=0, CFG_CALL=1)]
    for (cl, av), r, k in itertools.product(classes, rets, kinds):
        if k['CFG_RUN'] and cl not in (1, 5):
            continue          # a first step receives nothing: it takes Result<void> or nothing
        c = dict(CFG_CLASS=cl, CFG_ARGVOID=av)
        c.update(r)
        c.update(k)
        out.append(c)
    if tier == 'quick':
        out = [c for c in out if not c['CFG_RETVOID'] and c['CFG_ASYNC'] != 2]
        # every class x every return kind for the plain ThenInline core, every core kind for class 2 and the Run core
        out = [c for c in out if (not c['CFG_RUN'] and not c['CFG_FROM_SHARED'] and not c['CFG_CALL']) or (c['CFG_CLASS'] == 2 and c['CFG_RETVOID'] == 0 and c['CFG_TASK'] == 0)
               or (c['CFG_RUN'] and c['CFG_CLASS'] == 5 and c['CFG_ARGVOID'] == 1 and c['CFG_RETRESULT'] == 0)]
    return out


def cfg_name(c):
    return 'c%d%s.%s%s.%s' % (c['CFG_CLASS'], 'n' if c['CFG_ARGVOID'] else '',
                              'void' if c['CFG_RETVOID'] else 'res' if c['CFG_RETRESULT'] else {0: 'val', 1: 'fut', 2: 'shfut'}[c['CFG_ASYNC']] if not c['CFG_TASK'] else 'task',
                              '', 'run' if c['CFG_RUN'] else ('sh' if c['CFG_FROM_SHARED'] else 'un') + ('call' if c['CFG_CALL'] else 'inl'))


def insert_exc_checks(c, top=False):
    """C++ exception propagation made explicit: after a call of a may-throw function the enclosing function returns at once"""
    c = re.sub(r'(__auto_type\s+\w+\s*=\s*CallResolveVoid\([^;]*\);)', r'\1 if (g.exc) return EXC_RETURN;', c)
    c = re.sub(r'return\s+Done_T\(\s*SymmetricTransfer\s*,\s*(CallResolveVoid\([^;]*\))\s*\)\s*;',
               r'{ Val vf_v = \1; if (g.exc) return EXC_RETURN; return Done_T(SymmetricTransfer, vf_v); }', c)
    c = re.sub(r'(?<!return )\b(FUNCTOR_CALL0?\([^;]*\);)', r'\1 if (g.exc) return exc_val();', c)
    return c


def core_jobs(ctx, props):
    repo = ctx.repo
    out = []
    B = {nm: find_body(repo, F, sig, nm) for nm, sig in FUNCS.items()}
    b_mtc = find_body(repo, F, r'BaseCore\s*\*\s*MoveToCaller\s*\(', 'MoveToCaller')
    C = {}
    for nm, b in B.items():
        t = strip_static(b.text)
        if nm == 'Core::Impl':
            t = inline_lambda(nm, t, 'async_done')
        C[nm] = rw(nm).rewrite(t)
    handler = rw('Core::CallImpl.handler').rewrite(B['Core::CallImpl'].handler or '')
    if not B['Core::CallImpl'].handler:
        raise ExtractionBreak('Core::CallImpl is no longer a function-try-block')
    base = COMMON + ROUTE
    cfgs = configs(ctx.tier)
    seen_void = set()
    seen_done = set()
    for cfg in cfgs:
        name = cfg_name(cfg)
        defs = cfg_defs(cfg)
        # --- CallResolveVoid: depends on (argvoid, retvoid, ret kind) only
        kv = (cfg['CFG_ARGVOID'], cfg['CFG_RETVOID'], cfg['CFG_RETRESULT'], cfg['CFG_ASYNC'])
        if kv not in seen_void:
            seen_void.add(kv)
            src = defs + base + STUBS + CONTRACT_VOID + '{' + insert_exc_checks(C['Core::CallResolveVoid']) + '}\n' + \
                'void harness(void) { ghost_reset(); Core* self; Val v; CallResolveVoid(self, v); if (g.exc) VF_CANARY("functor throws"); else VF_CANARY("functor returns"); }\n'
            out.append(Job('core/CallResolveVoid.a%dv%dr%das%d' % kv, props, src, 'harness', enforce='CallResolveVoid', replace=['FUNCTOR_CALL'], funcs=[B['Core::CallResolveVoid']],
                           canaries=2, expect=[r'postcondition'], meta={'fn': 'CallResolveVoid', 'cfg': cfg}))
        # --- Done: depends on (run, from_shared, call, async)
        kd = (cfg['CFG_RUN'], cfg['CFG_FROM_SHARED'], cfg['CFG_CALL'], cfg['CFG_ASYNC'])
        if kd not in seen_done:
            seen_done.add(kd)
            src = defs + base + STUBS + CONTRACT_DONE + '{' + C['Core::Done'] + '}\n' + \
                'void harness(void) { ghost_reset(); Core* self; Val v; int as = nondet_bool(); if (!as) __CPROVER_assume(1); Done(self, as, v); if (as) VF_CANARY("async done"); else VF_CANARY("plain done"); }\n'
            out.append(Job('core/Done.run%dsh%dcall%das%d' % kd, props, src, 'harness', enforce='Done', replace=['Store', 'DecRef', 'FUNCTOR_DTOR', 'SetResult'], funcs=[B['Core::Done']],
                           canaries=2, expect=[r'postcondition', r'_self.caller is read before'], meta={'fn': 'Done', 'cfg': cfg}))
        # --- CallResolveAsync
        src = defs + base + STUBS + ASYNC_STUBS + CONTRACT_VOID + ';\n' + CONTRACT_DONE + ';\n' + CONTRACT_ASYNC + '{' + insert_exc_checks(C['Core::CallResolveAsync']) + '}\n' + \
            'void harness(void) { ghost_reset(); Core* self; Val v; CallResolveAsync(self, v); if (g.exc) VF_CANARY("functor throws"); else VF_CANARY("functor returns"); }\n'
        out.append(Job('core/CallResolveAsync.' + name, props, src, 'harness', enforce='CallResolveAsync',
                       replace=['CallResolveVoid', 'Done', 'DecRef', 'FUNCTOR_DTOR', 'SetInline', 'StoreCallback', 'MoveToCaller', 'Step', 'Start'], funcs=[B['Core::CallResolveAsync']],
                       canaries=2, expect=[r'postcondition'], meta={'fn': 'CallResolveAsync', 'cfg': cfg}))
        if cfg['CFG_CLASS'] != 1 and not (cfg['CFG_RUN'] and cfg['CFG_ARGVOID']):
            # --- CallResolveState (never instantiated for the Result class / the Unit fast path)
            src = defs + base + STUBS + ASYNC_STUBS + CONTRACT_DONE + ';\n' + CONTRACT_ASYNC + ';\n' + CONTRACT_STATE + '{' + C['Core::CallResolveState'] + '}\n' + \
                'void harness(void) { ghost_reset(); Core* self; Val v; CallResolveState(self, v); if (g.func_calls) VF_CANARY("invoked"); else VF_CANARY("passed through"); }\n'
            out.append(Job('core/CallResolveState.' + name, props, src, 'harness', enforce='CallResolveState', replace=['Done', 'CallResolveAsync'], funcs=[B['Core::CallResolveState']],
                           canaries=2, expect=[r'postcondition'], meta={'fn': 'CallResolveState', 'cfg': cfg}))
        # --- CallImpl: function-try-block
        body = C['Core::CallImpl']
        body = re.sub(r'return\s+(CallResolve(?:Async|State)_T\([^;]*\))\s*;', r'{ Transfer vf_r = \1; if (g.exc) goto L_catch; return vf_r; }', body)
        body = body + '\n  L_catch: g.exc = 0; g_threw = 1; /* catch (...) */\n' + handler
        src = defs + base + 'unsigned char g_threw;\n' + STUBS + ASYNC_STUBS + CONTRACT_DONE + ';\n' + CONTRACT_ASYNC + ';\n' + CONTRACT_STATE + ';\n' + \
            CONTRACT_IMPL.replace('__CPROVER_assigns(G_EFFECTS, self->_result, self->_self)', '__CPROVER_assigns(G_EFFECTS, self->_result, self->_self, g_threw)') + '{' + body + '}\n' + \
            'void harness(void) { ghost_reset(); g_threw = 0; Core* self; Val v; CallImpl(self, v); if (g_threw) VF_CANARY("functor threw"); else if (g.func_calls) VF_CANARY("functor returned"); else VF_CANARY("passed through"); }\n'
        ncan = 2 if (cfg['CFG_CLASS'] == 1 or (cfg['CFG_RUN'] and cfg['CFG_ARGVOID'])) else 3
        out.append(Job('core/CallImpl.' + name, props, src, 'harness', enforce='CallImpl', replace=['Done', 'CallResolveAsync', 'CallResolveState'], funcs=[B['Core::CallImpl']],
                       canaries=ncan, expect=[r'postcondition'], meta={'fn': 'CallImpl', 'cfg': cfg}))
    return out



# ----------------------------------------------------------------------------------------------------------------
# Core::Impl / Call / Drop: where and with what a step runs (C05, C02, C12)
ENTRY_STUBS = r"""
unsigned g_ci_calls; Val g_ci_arg; unsigned g_loops; Core* g_loop_prev; Transfer g_loop_curr; Transfer g_ci_ret;
Transfer CallImpl(Core* self, Val r)
__CPROVER_requires(g_ci_calls == 0)
__CPROVER_assigns(g_ci_calls, g_ci_arg)
__CPROVER_ensures(g_ci_calls == 1 && g_ci_arg.kind == r.kind && g_ci_arg.state == r.state && g_ci_arg.tag == r.tag && RET == g_ci_ret);
void Loop(Core* prev, Transfer curr) __CPROVER_requires(g_loops == 0) __CPROVER_assigns(g_loops, g_loop_prev, g_loop_curr) __CPROVER_ensures(g_loops == 1 && g_loop_prev == prev && g_loop_curr == curr);
unsigned g_transfers; Core* g_tr_from; Core* g_tr_to; int g_tr_shared; void* g_exec_after_transfer;
void TransferExecutorTo(Core* from, Core* to, int shared)
__CPROVER_requires(from != 0 && to != 0)
__CPROVER_assigns(g_transfers, g_tr_from, g_tr_to, g_tr_shared, to->_executor)
__CPROVER_ensures(g_transfers == OLD(g_transfers) + 1 && g_tr_from == from && g_tr_to == to && g_tr_shared == shared && to->_executor == g_exec_after_transfer && g_exec_after_transfer != 0);
void Submit(void* executor, Core* job)
__CPROVER_requires(executor != 0 && g.submits == 0)
__CPROVER_assigns(g.submits, g.submit_to)
__CPROVER_ensures(g.submits == 1 && g.submit_to == executor);
Transfer Done(Core* self, int Async, Val value)
__CPROVER_requires(g.dones == 0)
__CPROVER_assigns(g.dones, g_done_async, g_done_val)
__CPROVER_ensures(g.dones == 1 && g_done_async == Async && g_done_val.kind == value.kind && g_done_val.state == value.state && g_done_val.tag == value.tag && RET == g_ci_ret);
int g_done_async; Val g_done_val;
"""


def entry_jobs(ctx, props):
    repo = ctx.repo
    out = []
    B = {nm: find_body(repo, F, FUNCS[nm], nm) for nm in ('Core::Call', 'Core::Drop', 'Core::Impl')}
    t = inline_lambda('Core::Impl', strip_static(B['Core::Impl'].text), 'async_done')
    c_impl = rw('Core::Impl').rewrite(t)
    c_call = rw('Core::Call').rewrite(strip_static(B['Core::Call'].text))
    c_drop = rw('Core::Drop').rewrite(strip_static(B['Core::Drop'].text))
    stubs = STUBS.replace('#define Done2(st, v) Done(self, 0, v)', '#define Done2(st, v) Done(self, 0, v)').replace('#define CallImpl_T(st, v) CallImpl(self, v)', '#define CallImpl_T(st, v) CallImpl(self, v)')
    # forward declarations used by the macros in STUBS must come first
    decl = 'int g_done_async; Val g_done_val;\n'
    entry_stubs = ENTRY_STUBS.replace('int g_done_async; Val g_done_val;\n', '')
    kinds = [dict(CFG_RUN=r, CFG_FROM_SHARED=sh, CFG_CALL=ca, CFG_ASYNC=a) for r in (0, 1) for sh in (0, 1) for ca in (0, 1) for a in (0, 1, 2)
             if not (r and sh) and not (r and not ca)]
    for k in kinds:
        cfg = dict(CFG_CLASS=5 if k['CFG_RUN'] else 2, CFG_ARGVOID=0)
        cfg.update(k)
        nm = 'run%dsh%dcall%das%d' % (k['CFG_RUN'], k['CFG_FROM_SHARED'], k['CFG_CALL'], k['CFG_ASYNC'])
        head = cfg_defs(cfg) + COMMON + decl + stubs + entry_stubs
        # ---- Impl
        contract = """Transfer Impl(Core* self, Core* caller)
__CPROVER_requires(__CPROVER_is_fresh(self, sizeof(*self)) && __CPROVER_is_fresh(caller, sizeof(*caller)))
__CPROVER_requires(g_ci_calls == 0 && g.dones == 0 && g.submits == 0 && g_transfers == 0 && g.caller_increfs == 0 && !g.union_is_result && self->_self.unwrapping <= 1)
__CPROVER_requires(CFG_RUN ? ((self->_self.caller == 0 && self->_executor != 0) || (CFG_ASYNC != 0 && self->_self.caller == caller)) : 1)
__CPROVER_requires((!CFG_RUN && CFG_ASYNC && self->_self.unwrapping) ? self->_self.caller == caller : 1)
__CPROVER_requires((!CFG_RUN && !(CFG_ASYNC && self->_self.unwrapping)) ? self->_self.caller == 0 : 1)
__CPROVER_requires(g_mv_calls == 0)
__CPROVER_assigns(g_ci_calls, g_ci_arg, g.dones, g_done_async, g_done_val, g.submits, g.submit_to, g_transfers, g_tr_from, g_tr_to, g_tr_shared, self->_executor, g.caller_increfs, self->_self.caller, g_mv_calls, g_mv_cond, g_mv_core)
/* C06 / C02: a Result is MOVED out of a core only when this step is its only reader: the awaited inner state of a Future / Task (never of a SharedFuture), a unique predecessor (never a shared one);
   everything else is read through a const reference, so later observers of the same SharedFuture still see the value */
__CPROVER_ensures(WAS_UNWRAP ==> (g_mv_calls == 1 && g_mv_core == caller && (g_mv_cond != 0) == (CFG_ASYNC != 2)))
__CPROVER_ensures((FIRST_VISIT && !CFG_CALL) ==> (g_mv_calls == 1 && g_mv_core == caller && (g_mv_cond != 0) == !CFG_FROM_SHARED))
__CPROVER_ensures((HEAD_START || (FIRST_VISIT && CFG_CALL)) ==> g_mv_calls == 0)
/* C12 / C02 / C13: a first step (Schedule / Run core) that has not run yet and is reached through Here / Next is the head of a lazy chain whose caller is its continuation (the step that returned
   this Task or the coroutine awaiting it): it is STARTED - exactly one Submit of itself on its own executor, as detail::Start does - and nothing is read from the caller */
__CPROVER_ensures(HEAD_START ==> (g.submits == 1 && g.submit_to == OLD(self->_executor) && g.dones == 0 && g_ci_calls == 0 && g_transfers == 0 && g.caller_increfs == 0 && self->_self.caller == 0 && RET == (Transfer)0))
/* second visit (the awaited inner Future / Task completed): lemma unwrap - the step completes with exactly the inner Result */
__CPROVER_ensures(WAS_UNWRAP ==> (g.dones == 1 && g_done_async == 1 && g_done_val.kind == K_RESULT && g_done_val.state == caller->_result.state && g_done_val.tag == caller->_result.tag
    && g.submits == 0 && g_ci_calls == 0 && g_transfers == 0))
/* first visit: remember the predecessor, inherit its executor unless one was given (C05) */
__CPROVER_ensures(FIRST_VISIT ==> (self->_self.caller == caller && g_transfers == 1 && g_tr_from == caller && g_tr_to == self && g_tr_shared == CFG_FROM_SHARED && g.dones == 0))
/* C06: a callback that can outlive every SharedFuture takes its own reference on the shared state */
__CPROVER_ensures(FIRST_VISIT ==> g.caller_increfs == ((CFG_FROM_SHARED && (CFG_CALL || CFG_ASYNC)) ? 1 : 0))
/* C05: Then(e, f): exactly one Submit on this step's executor and nothing runs here; ThenInline: zero Submits, the step runs now on the predecessor's Result */
__CPROVER_ensures((FIRST_VISIT && CFG_CALL) ==> (g.submits == 1 && g.submit_to == g_exec_after_transfer && g_ci_calls == 0 && RET == (Transfer)0))
__CPROVER_ensures((FIRST_VISIT && !CFG_CALL) ==> (g.submits == 0 && g_ci_calls == 1 && g_ci_arg.kind == K_RESULT && g_ci_arg.state == caller->_result.state && g_ci_arg.tag == caller->_result.tag && RET == g_ci_ret))
""".replace('WAS_UNWRAP', '((CFG_RUN && OLD(self->_self.caller) != 0) || (!CFG_RUN && CFG_ASYNC && OLD(self->_self.unwrapping) != 0))').replace('HEAD_START', '(CFG_RUN && OLD(self->_self.caller) == 0)').replace('FIRST_VISIT', '(!CFG_RUN && !(CFG_ASYNC && OLD(self->_self.unwrapping) != 0))')
        harness = 'void harness(void) { ghost_reset(); g_ci_calls = 0; g_transfers = 0; g_mv_calls = 0; Core* self; Core* caller; Impl(self, caller); if (g.dones) VF_CANARY("unwrapped"); else if (g.submits) VF_CANARY("submitted"); else VF_CANARY("ran inline"); }\n'
        ncan = 1 + (1 if k['CFG_ASYNC'] else 0)
        out.append(Job('core/Impl.' + nm, props, head + contract + '{ VF_ALIAS(self->_self.caller, caller); ' + c_impl + '}\n' + harness, 'harness', enforce='Impl',
                       replace=['CallImpl', 'Done', 'MoveOrConst', 'TransferExecutorTo', 'IncRef', 'Submit'], funcs=[B['Core::Impl']], canaries=ncan,
                       expect=[r'postcondition'], meta={'fn': 'Core::Impl', 'cfg': cfg}))
        # ---- Call / Drop (the job interface of a step)
        for av in ((0, 1) if k['CFG_RUN'] else (0,)):
            cfg2 = dict(cfg)
            cfg2['CFG_ARGVOID'] = av
            head2 = cfg_defs(cfg2) + COMMON + decl + stubs + entry_stubs
            contract = """void Call(Core* self)
__CPROVER_requires(__CPROVER_is_fresh(self, sizeof(*self)) && g_ci_calls == 0 && g_loops == 0 && self->_self.unwrapping == 0 && !g.union_is_result)
__CPROVER_requires(CFG_RUN ? self->_self.caller == 0 : (__CPROVER_is_fresh(self->_self.caller, sizeof(Core))))
__CPROVER_requires(g_mv_calls == 0)
__CPROVER_assigns(g_ci_calls, g_ci_arg, g_loops, g_loop_prev, g_loop_curr, g_mv_calls, g_mv_cond, g_mv_core)
/* ... taking its input by move only from a unique predecessor */
__CPROVER_ensures(CFG_RUN ? g_mv_calls == 0 : (g_mv_calls == 1 && g_mv_core == OLD(self->_self.caller) && (g_mv_cond != 0) == !CFG_FROM_SHARED))
/* Call: the step runs exactly once - a first step on nothing, a continuation on its predecessor's Result - and whatever it hands on is driven by Loop */
__CPROVER_ensures(g_ci_calls == 1 && g_loops == 1 && g_loop_prev == self && g_loop_curr == g_ci_ret)
__CPROVER_ensures(CFG_RUN ? (CFG_ARGVOID ? g_ci_arg.kind == K_UNIT : (g_ci_arg.kind == K_RESULT && g_ci_arg.state == RS_Value))
                          : (g_ci_arg.kind == K_RESULT && g_ci_arg.state == self->_self.caller->_result.state && g_ci_arg.tag == self->_self.caller->_result.tag))
"""
            harness = 'void harness(void) { ghost_reset(); g_ci_calls = 0; g_loops = 0; g_mv_calls = 0; Core* self; Call(self); VF_CANARY("end"); }\n'
            out.append(Job('core/Call.%s.a%d' % (nm, av), props, head2 + contract + '{' + c_call + '}\n' + harness, 'harness', enforce='Call', replace=['CallImpl', 'Loop', 'MoveOrConst'],
                           funcs=[B['Core::Call']], expect=[r'postcondition'], meta={'fn': 'Core::Call', 'cfg': cfg2}))
        contract = """void Drop(Core* self)
__CPROVER_requires(__CPROVER_is_fresh(self, sizeof(*self)) && g_ci_calls == 0 && g_loops == 0)
__CPROVER_assigns(g_ci_calls, g_ci_arg, g_loops, g_loop_prev, g_loop_curr)
/* Drop (the executor refused the job): behaves as Call with input Error(Stop) - the step sees StopError instead of its input (C05), value callbacks are then skipped by the routing (C02) */
__CPROVER_ensures(g_ci_calls == 1 && g_ci_arg.kind == K_RESULT && g_ci_arg.state == RS_Error && g_ci_arg.tag == TAG_STOP && g_loops == 1 && g_loop_prev == self && g_loop_curr == g_ci_ret)
"""
        harness = 'void harness(void) { ghost_reset(); g_ci_calls = 0; g_loops = 0; Core* self; Drop(self); VF_CANARY("end"); }\n'
        out.append(Job('core/Drop.' + nm, props, head + contract + '{' + c_drop + '}\n' + harness, 'harness', enforce='Drop', replace=['CallImpl', 'Loop'],
                       funcs=[B['Core::Drop']], expect=[r'postcondition'], meta={'fn': 'Core::Drop', 'cfg': cfg}))
    return out


# ----------------------------------------------------------------------------------------------------------------
def lazy_jobs(ctx, props):
    """MoveToCaller (unbounded chain, ghost pool), detail::SetCallback (eager / lazy / detach), MakeCore, TransferExecutorTo"""
    repo = ctx.repo
    out = []
    b_mtc = find_body(repo, F, r'BaseCore\s*\*\s*MoveToCaller\s*\(', 'MoveToCaller')
    c = rw('MoveToCaller', post=[(r'(\b\w+)->next\s*=(?!=)\s*([^;]+);', r'NODE_SET_NEXT(\1, \2);', 0), (r'(\b\w+)->next\b(?!\s*=[^=])', r'NODE_NEXT(\1)', 0)]).rewrite(b_mtc.text)
    inv = '__CPROVER_assigns(head, g_cleared)\n__CPROVER_loop_invariant(g_cleared < g_n && g_n <= POOL_MAX && head == &pool[g_cleared])'
    c = attach_loop_contracts('MoveToCaller', c, [inv])
    src = COMMON + r"""
#include <stdlib.h>
unsigned long POOL_MAX; Core* pool; unsigned long g_n, g_cleared;   /* the lazy chain: pool[0] = the Task's last step ... pool[n-1] = its head */
static inline Core* node_next(Core* x) {
  __CPROVER_assert(__CPROVER_same_object(x, pool) && (unsigned long)(x - pool) == g_cleared, "the walk only looks at the current step (earlier links are already cleared)");
  unsigned long k = (unsigned long)(x - pool);
  return k + 1 < g_n ? &pool[k + 1] : (Core*)0;
}
static inline void node_set_next(Core* x, Core* v) {
  __CPROVER_assert(__CPROVER_same_object(x, pool) && (unsigned long)(x - pool) == g_cleared && v == 0, "SHAPE: the only link write clears the link of the current step");
  g_cleared = g_cleared + 1;
}
#define NODE_NEXT(x) node_next(x)
#define NODE_SET_NEXT(x, v) node_set_next(x, v)
Core* MoveToCaller(Core* head)
__CPROVER_requires(g_n >= 1 && g_n <= POOL_MAX && g_cleared == 0 && head == &pool[0])
__CPROVER_assigns(g_cleared)
/* MoveToCaller: returns the head of the chain and clears every traversed link (so that `next` can be reused by executors), for any chain length */
__CPROVER_ensures(RET == &pool[g_n - 1] && g_cleared == g_n - 1)
{""" + c + """}
void harness(void) { POOL_MAX = nondet_ulong(); __CPROVER_assume(POOL_MAX >= 1 && POOL_MAX <= (1UL << 36)); pool = malloc(sizeof(Core) * POOL_MAX); __CPROVER_assume(pool != 0);
  g_n = nondet_ulong(); g_cleared = 0; __CPROVER_assume(g_n >= 1 && g_n <= POOL_MAX); MoveToCaller(&pool[0]); if (g_n > 1) VF_CANARY("long chain"); else VF_CANARY("single step"); }
"""
    out.append(Job('core/MoveToCaller', props, src, 'harness', enforce='MoveToCaller', loop_contracts=True, funcs=[b_mtc], canaries=2,
                   expect=[r'postcondition', r'invariant after step|loop_invariant_step'], meta={'fn': 'MoveToCaller'}))
    # ---- detail::SetCallback<CoreT, On>(core, executor, f)
    b_sc = find_body(repo, F, r'auto\s+SetCallback\s*\(\s*FromCorePtr\s*&&\s*core\s*,\s*IExecutor\s*\*\s*executor\s*,\s*Func\s*&&\s*f\s*\)', 'detail::SetCallback')
    t = strip_static(b_sc.text)
    from vf.cxx2c import drop_pinned
    t = drop_pinned('detail::SetCallback', t, ['static constexpr bool Unique = std::is_same_v<UniqueCorePtr<Arg, E>&, FromCorePtr>;',
                                               'static constexpr bool Shared = std::is_same_v<const SharedCorePtr<Arg, E>&, FromCorePtr>;',
                                               'static constexpr auto From = Unique ? CoreType::FromUnique : CoreType::FromShared;'])
    m = re.search(r'auto\s*\*\s*caller\s*=\s*\[&\]\s*\{', t)
    if not m:
        raise ExtractionBreak('detail::SetCallback: the immediately-invoked lambda computing `caller` was not found')
    ob = m.end() - 1
    cb = match_brace(t, ob)
    lam = re.sub(r'return\s+([^;]+);', r'caller = \1;', t[ob + 1:cb])
    rest = t[cb + 1:]
    mm = re.match(r'\s*\(\s*\)\s*;', rest)
    if not mm:
        raise ExtractionBreak('detail::SetCallback: lambda is not invoked immediately')
    t = t[:m.start()] + 'Core* caller = 0; {' + lam + '}' + rest[mm.end():]
    pre = [(r'MakeCore<CoreT\s*\|\s*From,\s*Arg,\s*E>\(\s*std::forward<Func>\(f\)\s*\)', 'MakeCore()', 1),
           (r'core\.Release\(\)', 'HANDLE_RELEASE(core)', 0), (r'core\.Get\(\)', 'HANDLE_GET(core)', 0),
           (r'return\s+(?:Task|FutureOn|Future)\s*\{\s*IntrusivePtr<ResultCoreT>\s*\{\s*NoRefTag\{\}\s*,\s*callback\s*\}\s*\}\s*;', 'return callback;', 0),
           (r'caller->template\s+SetInline<false>\(\s*\*callback\s*\)', 'SetInline(caller, callback)', 0),
           (r'MakeDrop\(\)', 'MakeDrop()', 0), (r'YACLIB_ASSERT\(core\)\s*;', 'REPO_ASSERT(HANDLE_GET(core) != 0);', 0)]
    c = Rewriter('detail::SetCallback', pre=pre, omethods=['StoreCallback'], refs=[], nomembers=['_executor']).rewrite(t)
    for lazy, detach, unique in ((0, 0, 1), (0, 0, 0), (0, 1, 1), (0, 1, 0), (1, 0, 1)):
        src = COMMON + """
#define IsLazy(T) %d
#undef IsDetach
#define IsDetach(T) %d
#define Unique %d
#define Shared (!Unique)
#define On 0
typedef struct Handle { Core* p; } Handle;
unsigned g_allocs, g_set_inlines, g_loops, g_store_cbs, g_releases; Core* g_si_on; Core* g_si_cb; Core* g_loop_prev; Transfer g_loop_curr; Transfer g_si_ret;
Core* g_sc_on0; Core* g_sc_on1; Core* g_sc_cb0; Core* g_sc_cb1; Core g_drop_core; Core g_new_obj; void* g_executor;
#define g_new (&g_new_obj)
Core* MakeCore(void) __CPROVER_requires(g_allocs == 0) __CPROVER_assigns(g_allocs, g_new_obj) __CPROVER_ensures(g_allocs == 1 && RET == &g_new_obj && g_new_obj.next == 0);
#define MakeDrop() (&g_drop_core)
static inline Core* HANDLE_RELEASE(Handle* h) { Core* c = h->p; h->p = 0; g_releases++; return c; }
#define HANDLE_GET(h) ((h)->p)
void StoreCallback(Core* on, Core* cb) __CPROVER_requires(g_store_cbs < 2) __CPROVER_assigns(g_store_cbs, g_sc_on0, g_sc_on1, g_sc_cb0, g_sc_cb1)
  __CPROVER_ensures(g_store_cbs == OLD(g_store_cbs) + 1)
  __CPROVER_ensures(OLD(g_store_cbs) == 0 ? (g_sc_on0 == on && g_sc_cb0 == cb && g_sc_on1 == OLD(g_sc_on1) && g_sc_cb1 == OLD(g_sc_cb1)) : (g_sc_on1 == on && g_sc_cb1 == cb && g_sc_on0 == OLD(g_sc_on0) && g_sc_cb0 == OLD(g_sc_cb0)));
#define LAST_SC_ON (g_store_cbs == 2 ? g_sc_on1 : g_sc_on0)
#define LAST_SC_CB (g_store_cbs == 2 ? g_sc_cb1 : g_sc_cb0)
Transfer SetInline(Core* on, Core* cb) __CPROVER_requires(g_set_inlines == 0 && cb->_executor == g_executor) __CPROVER_assigns(g_set_inlines, g_si_on, g_si_cb)
  __CPROVER_ensures(g_set_inlines == 1 && g_si_on == on && g_si_cb == cb && RET == g_si_ret);
void Loop(Core* prev, Transfer curr) __CPROVER_requires(g_loops == 0) __CPROVER_assigns(g_loops, g_loop_prev, g_loop_curr) __CPROVER_ensures(g_loops == 1 && g_loop_prev == prev && g_loop_curr == curr);
Core* SetCallback(Handle* core, void* executor, int f)
__CPROVER_requires(__CPROVER_is_fresh(core, sizeof(*core)) && __CPROVER_is_fresh(core->p, sizeof(Core)) && g_allocs == 0 && g_set_inlines == 0 && g_loops == 0 && g_store_cbs == 0 && g_releases == 0 && g_executor == executor)
__CPROVER_assigns(core->p, g_allocs, g_new_obj, g_set_inlines, g_si_on, g_si_cb, g_loops, g_loop_prev, g_loop_curr, g_store_cbs, g_sc_on0, g_sc_on1, g_sc_cb0, g_sc_cb1, g_releases)
/* C20: exactly one allocation per Then* / Detach* step */
__CPROVER_ensures(g_allocs == 1)
/* C05: the new step remembers the executor it was given (nullptr = inherit along the chain) */
__CPROVER_ensures(g_new->_executor == executor)
/* a unique future is consumed by attaching, a shared one is left to its owner */
__CPROVER_ensures(Unique ? (core->p == 0 && g_releases == 1) : (core->p == OLD(core->p) && g_releases == 0))
/* eager: the continuation is offered to the predecessor exactly once and whatever comes back is driven (C01); lazy (C12): nothing is offered, nothing runs -
   the new step is only linked behind its predecessor and recorded as the predecessor's continuation */
__CPROVER_ensures(IsLazy(0) ? (g_set_inlines == 0 && g_loops == 0 && g_new->next == OLD(core->p) && LAST_SC_ON == OLD(core->p) && LAST_SC_CB == g_new)
                            : (g_set_inlines == 1 && g_si_on == OLD(core->p) && g_si_cb == g_new && g_loops == 1 && g_loop_prev == OLD(core->p) && g_loop_curr == g_si_ret))
/* Detach: the step's own continuation is the Drop core (its result is released as soon as it exists) */
__CPROVER_ensures(g_store_cbs == (IsLazy(0) ? 1 : 0) + (IsDetach(0) ? 1 : 0))
__CPROVER_ensures(IsDetach(0) ==> (g_sc_on0 == g_new && g_sc_cb0 == &g_drop_core))
__CPROVER_ensures(IsDetach(0) ? 1 : RET == g_new)
{""" % (lazy, detach, unique) + c + """
  return 0; }
void harness(void) { Handle* h; void* e; g_allocs = g_set_inlines = g_loops = g_store_cbs = g_releases = 0; g_executor = e; SetCallback(h, e, 0); VF_CANARY("end"); }
"""
        out.append(Job('core/SetCallback.lazy%d.detach%d.unique%d' % (lazy, detach, unique), props, src, 'harness', enforce='SetCallback',
                       replace=['MakeCore', 'StoreCallback', 'SetInline', 'Loop'], funcs=[b_sc], expect=[r'postcondition'], meta={'fn': 'detail::SetCallback', 'lazy': lazy, 'detach': detach, 'unique': unique}))
    # ---- MakeCore: one allocation with the right initial reference count
    b_mc = find_body(repo, F, r'auto\s*\*\s*MakeCore\s*\(\s*Func\s*&&\s*f\s*\)', 'detail::MakeCore')
    t = strip_static(b_mc.text)
    m = re.search(r'constexpr\s+AsyncType\s+kAsync\s*=\s*\[\]\s*\{', t)
    if m:
        cb = match_brace(t, m.end() - 1)
        e = t.index(';', cb)
        t = t[:m.start()] + t[e + 1:]
    pre = [(r'MakeShared<Core>\(\s*(?:detail::)?(\w+)\s*,\s*std::forward<Func>\(f\)\s*\)\.Release\(\)', r'G_ALLOC_SHARED(\1)', 1),
           (r'MakeUnique<Core>\(\s*std::forward<Func>\(f\)\s*\)\.Release\(\)', 'G_ALLOC_UNIQUE()', 1)]
    c = Rewriter('detail::MakeCore', pre=pre).rewrite(t)
    b_k4 = read_const(repo, F_SC, 'kSharedRefWithFuture')
    b_k3 = read_const(repo, F_SC, 'kSharedRefNoFuture')
    for shared in (0, 1):
        src = '#include "vf.h"\n#define IsToShared(T) %d\n#define CoreT 0\n#define kSharedRefWithFuture %s\n#define kSharedRefNoFuture %s\n' % (shared, b_k4, b_k3) + """
unsigned g_allocs; unsigned long g_refs;
void* G_ALLOC_SHARED(unsigned long n) __CPROVER_assigns(g_allocs, g_refs) __CPROVER_ensures(g_allocs == OLD(g_allocs) + 1 && g_refs == n && RET != 0);
void* G_ALLOC_UNIQUE(void) __CPROVER_assigns(g_allocs, g_refs) __CPROVER_ensures(g_allocs == OLD(g_allocs) + 1 && g_refs == 1 && RET != 0);
void* MakeCore(int f)
__CPROVER_requires(g_allocs == 0)
__CPROVER_assigns(g_allocs, g_refs)
/* C20 one allocation; C06 reference sheet: a shared step starts with 3 promise references + 1 for the SharedFuture handed out */
__CPROVER_ensures(g_allocs == 1 && g_refs == (IsToShared(0) ? 4 : 1) && RET != 0)
{""" + c + """}
void harness(void) { g_allocs = 0; MakeCore(0); VF_CANARY("end"); }
"""
        out.append(Job('core/MakeCore.shared%d' % shared, props, src, 'harness', enforce='MakeCore', replace=['G_ALLOC_SHARED', 'G_ALLOC_UNIQUE'], funcs=[b_mc], expect=[r'postcondition'], meta={'fn': 'MakeCore', 'shared': shared}))
    # ---- BaseCore::TransferExecutorTo<Shared>
    b_te = find_body(repo, 'include/yaclib/algo/detail/base_core.hpp', r'void\s+TransferExecutorTo\s*\(\s*BaseCore\s*&\s*callback\s*\)', 'BaseCore::TransferExecutorTo')
    c = Rewriter('TransferExecutorTo', refs=['callback'], pre=[(r'move_if<!Shared>\(\s*_executor\s*\)', 'MOVE_IF(!Shared, self->_executor)', 1)]).rewrite(b_te.text)
    for shared in (0, 1):
        src = COMMON + """
#define Shared %d
static inline void* move_if(int cond, void** p) { void* e = *p; if (cond) *p = 0; return e; }
#define MOVE_IF(c, x) move_if(c, &(x))
void TransferExecutorTo(Core* self, Core* callback)
__CPROVER_requires(__CPROVER_is_fresh(self, sizeof(*self)) && __CPROVER_is_fresh(callback, sizeof(*callback)) && self->_executor != 0)
__CPROVER_assigns(self->_executor, callback->_executor)
/* C05: the continuation keeps its own executor if it has one, else gets the caller's (moved out of a unique predecessor, copied from a shared one) */
__CPROVER_ensures(callback->_executor == (OLD(callback->_executor) != 0 ? OLD(callback->_executor) : OLD(self->_executor)))
__CPROVER_ensures((Shared || OLD(callback->_executor) != 0) ? self->_executor == OLD(self->_executor) : self->_executor == 0)
{""" % shared + c + """}
void harness(void) { Core* a; Core* b; TransferExecutorTo(a, b); VF_CANARY("end"); }
"""
        out.append(Job('core/TransferExecutorTo.shared%d' % shared, props, src, 'harness', enforce='TransferExecutorTo', funcs=[b_te], expect=[r'postcondition'], meta={'fn': 'TransferExecutorTo', 'shared': shared}))
    return out


def read_const(repo, rel, name):
    from vf.extract import read_source
    raw, txt = read_source(repo, rel)
    m = re.search(r'\b' + name + r'\s*=\s*(\d+)\s*;', txt)
    if not m:
        raise ExtractionBreak('%s: constant %s not found' % (rel, name))
    return m.group(1)


def jobs(ctx):
    props = ['C02', 'C03', 'C12', 'C05', 'C20', 'C06', 'C01']
    out = []
    if ctx.prop in ('C02', 'C12'):
        out += core_jobs(ctx, props)
    elif ctx.prop in ('C06', 'C05'):
        # how a step takes its input and its executor out of its predecessor: Call / Impl (C06: moved only out of a unique predecessor; C05: the inherited executor is copied out of a
        # shared predecessor, moved only out of a unique one)
        out += [j for j in core_jobs(ctx, props) if j.name.startswith('core/Call.') or j.name.startswith('core/Impl.')]
    elif ctx.prop == 'C03':
        # ownership layer only: Done (order of release) and CallImpl (functor destroyed exactly once on every path) for the value class
        out += [j for j in core_jobs(ctx, props) if j.name.startswith('core/Done.') or j.name.startswith('core/CallImpl.c2.') or j.name.startswith('core/CallResolveAsync.c2.')]
        out = [j for j in out if '.task.' not in j.name]      # the Task-head finding F06 belongs to C02 / C12
    out += entry_jobs(ctx, props) + lazy_jobs(ctx, props)
    return out


def replay(ctx, res, failed, rec):
    """real-code witnesses: the pipeline table (routing / return kinds / executors, C02) and the returned-Task cases (C12)"""
    from vf.replay import run_driver
    name = res.job.name
    logs = []
    bad_any = False
    drivers = ['task_return.cpp', 'pipeline.cpp'] if ('/Impl.run1' in name or '.task.' in name or 'MoveToCaller' in name or 'SetCallback' in name) else ['pipeline.cpp', 'task_return.cpp']
    for d in drivers:
        bad, log = run_driver(ctx, d, ['all'] if d == 'task_return.cpp' else [], timeout=60)
        logs.append(log)
        if bad is None:
            return None, log
        if bad:
            return True, '\n'.join(logs)
    return False, '\n'.join(logs)
