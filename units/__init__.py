"""Registry: which units serve which property, the level each property is claimed at, and the manifest texts."""
REGISTRY = {
    'C01': ['base_core'],
    'C06': ['base_core'],
    'C19': ['atomic'],
}
LEVEL = {'C04': 'other'}

TECHNIQUE = 'CBMC code contracts (goto-instrument --dfcc --enforce-contract / --replace-call-with-contract / --apply-loop-contracts) on function bodies extracted mechanically from /repo on every run'

CLAIMS = {
    'C01': {
        'text': 'Rely/guarantee contracts at atomic-operation granularity on the unique callback word: SetCallbackImpl<false>, ResetImpl, '
                'SetInlineImpl, SetResultImpl (both transfer modes), Empty/Ready, StoreCallbackImpl, Loop, Step, Noop are extracted from the '
                'current source and proved per function for every placement of the other role\'s steps (any interleaving under SC); lemma '
                'jobs prove the invariant stable, the relies closed, and exactly-once delivery of the run token at quiescence.',
        'note': 'Sequentially consistent atomics (orders are C04); one producer and one consumer role as the threading contract states; '
                'Here/Next overrides are interface contracts proved per override in other units; replay of interleavings on the real code is '
                'available only for the sequential witnesses.',
        'design': 'DESIGN.md 6 C01, 5.B, A.1',
    },
    'C06': {
        'text': 'Rely/guarantee contracts on the shared callback stack: push loop (SetCallbackImpl<true>, loop contract over the weak CAS), '
                'SetInlineImpl<.,true>, the fulfilment walk of SetResultImpl<.,true> over a ghost pool of symbolic length (every registered '
                'callback run exactly once, in order, after the value is stored; ->next read before the callback runs; three promise '
                'references dropped, one before the last callback), Empty/Ready.',
        'note': 'SC atomics; the callback list is a ghost pool (node k = pool[k], symbolic length up to 2^40) accessed through a live-node '
                'accessor; reference-count thresholds of ResultCore::Impl are in unit result_core when present.',
        'design': 'DESIGN.md 6 C06, 5.B, 5.I, A.2',
    },
    'C19': {
        'text': 'Every member function body of the FIBER atomic re-implementation and of the fault-injecting wrapper (both cv overloads) is '
                'extracted and proved, per function and for the full operand domain, against the std::atomic meaning of the operation written '
                'as a postcondition; the wrapper is proved against any implementation satisfying that same contract (std::atomic trusted, '
                'FIBER proved). Loop-free: a pass is a complete proof for single operations; sequences follow by induction.',
        'note': 'Trusted: cbmc, the token-level rewrite, std::atomic itself, IEEE +/- as uninterpreted functions shared by spec and code, signed '
                'overflow treated as wrap-around. quick = 6 representative T, thorough = all 14 T.',
        'design': 'DESIGN.md 6 C19, 5.A',
    },
}

NOT_APPLICABLE = {}
