"""Registry: which units serve which property, and the level each property is claimed at."""
REGISTRY = {
    'C19': ['atomic'],
    'C01': ['base_core'],
    'C06': ['base_core'],
}
LEVEL = {'C04': 'other'}
