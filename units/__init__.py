"""Registry: which units serve which property, and the level each property is claimed at."""
REGISTRY = {
    'C19': ['atomic'],
}
LEVEL = {'C04': 'other'}
