"""Registry: which units serve which property, the level each property is claimed at, and the manifest texts."""
REGISTRY = {
    'C01': ['base_core', 'handles', 'connect', 'result'],
    'C06': ['base_core', 'handles', 'connect', 'shared_contract', 'core', 'attach', 'coro'],
    'C02': ['core', 'result', 'entry', 'attach', 'handles'],
    'C03': ['base_core', 'handles', 'core', 'event', 'strand', 'when', 'intrusive_ptr', 'connect', 'ownership', 'entry', 'shared_contract', 'coro'],
    'C04': ['base_core', 'strand', 'event', 'coro_mutex', 'spinlock', 'shared_mutex'],
    'C05': ['thread_pool', 'strand', 'core', 'handles', 'ownership', 'entry', 'attach', 'coro'],
    'C07': ['strand'],
    'C08': ['thread_pool'],
    'C09': ['when'],
    'C10': ['any', 'when'],
    'C11': ['wait', 'event', 'base_core'],
    'C12': ['core', 'handles', 'entry', 'attach', 'coro'],
    'C13': ['coro', 'base_core', 'event'],
    'C14': ['coro_mutex', 'guards'],
    'C15': ['shared_mutex', 'coro_mutex', 'guards', 'spinlock'],
    'C16': ['event', 'base_core'],
    'C17': ['fault_sched', 'sleep_map', 'run_loop'],
    'C18': ['fiber_locks', 'sleep_map', 'tls', 'fault_sched', 'run_loop'],
    'C19': ['atomic'],
    'C20': ['alloc', 'coro'],
}
LEVEL = {'C04': 'other'}
# properties decided only by obligations explicitly tagged with them (the order discipline is asserted at every atomic operation)
TAG_ONLY = {'C04'}

TECHNIQUE = 'CBMC code contracts (goto-instrument --dfcc --enforce-contract / --replace-call-with-contract / --apply-loop-contracts) on function bodies extracted mechanically from /repo on every run'

CLAIMS = {
    'C01': {
        'text': 'Rely/guarantee contracts at atomic-operation granularity on the unique callback word: SetCallbackImpl<false>, ResetImpl, '
                'SetInlineImpl, SetResultImpl (both transfer modes), Empty/Ready, StoreCallbackImpl, Loop, Step, Noop are extracted from the '
                'current source and proved per function for every placement of the other role\'s steps (any interleaving under SC); lemma '
                'jobs prove the invariant stable, the relies closed, and exactly-once delivery of the run token at quiescence. '
                'Connect (unit connect, six overloads): exactly one of attached / fulfilled right now, decided by the attach attempt or an observation that the Result is there; CallInline only for terminal callbacks. '
                'Result<V, E> itself (unit result): State() names the alternative held (variant order and enumerator values extracted from the text), constructors select the alternative '
                'their initialiser names (StopTag => Error), accessors read exactly their alternative, Ok()/Get hands out the value or throws what the state says.',
        'note': 'Sequentially consistent atomics (orders are C04); one producer and one consumer role as the threading contract states; '
                'Here/Next overrides are interface contracts proved per override in other units; replay of interleavings on the real code is '
                'available only for the sequential witnesses.',
        'design': 'DESIGN.md 6 C01, 5.B, A.1',
    },
    'C06': {
        'text': 'Rely/guarantee contracts on the shared callback stack: push loop (SetCallbackImpl<true>, loop contract over the weak CAS), '
                'SetInlineImpl<.,true>, the fulfilment walk of SetResultImpl<.,true> over a ghost pool of symbolic length (every registered '
                'callback run exactly once, in order, after the value is stored; ->next read before the callback runs; three promise '
                'references dropped, one before the last callback), Empty/Ready. '
                'Unit connect (Connect with SharedFuture / SharedPromise), and in unit handles: SharedFutureBase Get / Touch (moved only by the provably last rvalue holder, GetRef() == 1; const forms never move), Detach, SharedPromise Set / destructor, Share x4, Split; Core::Impl / Call record move vs const read (a step never moves the value out of a SharedFuture). '
                'Unit shared_contract: MakeSharedContract / MakeSharedContractOn / MakeSharedPromise - the core is born with exactly the references that are given back later (three by the fulfilment walk, one per future; both constants extracted), the handles adopt them, the local pointer is emptied.',
        'note': 'SC atomics; the callback list is a ghost pool (node k = pool[k], symbolic length up to 2^40) accessed through a live-node '
                'accessor; reference-count thresholds of ResultCore::Impl are in unit result_core when present.',
        'design': 'DESIGN.md 6 C06, 5.B, 5.I, A.2',
    },
    'C20': {
        'text': 'Allocation-effect contracts on effect skeletons extracted from the real bodies (control structure kept, every statement replaced by its allocation '
                'effect): exactly one block for MakeUnique / MakeShared / MakeCore / MakeUniqueJob / MakeContract(On) / MakeFuture / MakeTask / detail::Run / '
                'RunShared / Schedule / detail::SetCallback / Then / ThenInline / DetachInline; zero for Future::Detach, Future::Get, Strand::Submit, WaitRange, '
                'WaitCore and the registration loops of the combinators (loop invariant: no allocation inside, i.e. independent of the number of inputs); When: '
                '0 or 2; All<None> destructor: one reserve and an allocation-free append loop.',
        'note': 'Effect abstraction: conditions are non-deterministic (every syntactic path), callee effects come from the callee\'s own contract; std::vector '
                'allocation behaviour is a stated model; user functors / payload constructors are outside. Replay: counting global operator new on the real library.',
        'design': 'DESIGN.md 6 C20, 5.H',
    },
    'C02': {
        'text': 'Every function of Core<...> is extracted and proved against a routing spec written from the property text, one job per '
                'configuration of the compile-time predicates (signature class x return kind x Run/Then/ThenInline x unique/shared source): '
                'CallResolveVoid (functor invoked exactly once with the right argument), CallResolveState (invoke iff the input is the kind '
                'the callback takes, else pass-through unchanged), CallResolveAsync (plain / Result / void stored as is; Future, SharedFuture, '
                'Task: registration on the inner state, Task head started), CallImpl with its function-try-block (throw => Exception with the '
                'thrown payload), Done (store, release, destroy, publish, in that order), Impl second visit (lemma unwrap: the step completes '
                'with exactly the inner Result), Call, Drop (= Call on Error(Stop)), MoveToCaller, detail::SetCallback, MakeCore. '
                'Result<V, E> (unit result): state <-> held alternative, constructors, accessors, Ok()/Get - what the (kind, state, tag) abstraction of the other jobs stands on. '
                'Unit attach: the 17 public attach wrappers (Then / ThenInline / Detach / DetachInline / Subscribe / SubscribeInline of Future, FutureOn, SharedFuture, SharedFutureOn, Task): exactly the CoreType flags and executor argument of their attachment mode (Call = a job of an executor, Detach, Lazy; &e / inherited / inline).',
        'note': 'Payloads are opaque (kind, state, tag) triples; exceptions exist only at the functor call; the mapping from C++ callables to '
                'signature classes (is_invocable_v, Return<>, MakeCore type computation) is configuration input, not proved; step order is the '
                'Loop / Here token discipline of C01. quick = 4 return kinds, thorough = the full product.',
        'design': 'DESIGN.md 6 C02, 5.A',
    },
    'C03': {
        'text': 'Ownership layer of the other units (ghost tokens / counters, method E): Done (save caller, store, release caller exactly once iff owned, destroy the '
                'functor exactly once unless Async, publish - in that order; the union member _self is not read after Store), CallImpl (functor storage destroyed '
                'exactly once on every path: return, throw, pass-through), CallResolveAsync (release of the predecessor, functor destroyed once), '
                'SetResultImpl<Shared> (exactly three promise references, one before the last callback, ->next read before the callback runs), '
                'AtomicCounter::Sub (Delete iff the decrement reached zero), TimedWaiter two-owner release, Retire (move then release once), ResultCore::Impl '
                'thresholds, Drop core, Promise / Future / Task destructors (release exactly once iff still owned), strand / event walks (no access after '
                'Call / Drop), WhenAll destructors (every input retired or released exactly once), UniqueJob via the executor contracts. '
                'Unit intrusive_ptr: every constructor, assignment, Release, Swap, Reset and the destructor of IntrusivePtr<T> (one handle == one reference; copies take one, moves and NoRefTag transfer, the destructor gives one back iff non-null, assignment takes the new reference before giving back the old one). '
                'Unit ownership: Helper::IncRef/DecRef/GetRef (exactly one unit), OneCounter (single owner: Sub destroys once), DefaultDeleter, MakeUnique / MakeShared (initial count, adopted without IncRef), UniqueJob.',
        'note': 'Per-function release-exactly-once and no-use-after-release; quiescent leak-freedom of a whole pipeline is the induction over these per-object '
                'contracts (meta-argument, stated, not machine-checked); destructors of user functors / payloads and the coroutine frame are outside.',
        'design': 'DESIGN.md 6 C03, 5.E',
    },
    'C04': {
        'text': 'Ownership-transfer order discipline (method F) asserted at every atomic operation of the rely/guarantee units: a step whose ghost update '
                'gives away plain data (Result, continuation object, job objects, waiter objects, the reference that keeps an object alive) must carry '
                'release, a step that takes it must carry acquire (or be followed by an acquire fence before returning true, AtomicCounter::SubEqual in both '
                'TSAN variants); covered words: callback word unique and shared (SetCallbackImpl, SetResultImpl, ResetImpl, Empty), strand word (Submit, Call, '
                'Drop), OneShotEvent head (TryAdd, SetImpl, Ready), reference / wait counter, detail::Spinlock (lock acquire / unlock release), the coroutine SharedMutex words '
                '(the step that makes a coroutine a holder carries acquire, the step that gives a hold up - and every payment of a first writer\'s debt - carries release).',
        'note': 'A sufficient discipline on the modelled hand-offs, not an exploration of weak-memory executions (level other): trusted meta-theorem that '
                'owner-only access plus release->acquire ownership transfer is data-race free. coroutine Mutex sender word (lock acquire / unlock release / enqueue release / take-over acquire). Not under the discipline: WhenAny/WhenAll state words (argued '
                'to move no plain data), FairThreadPool and MutexEvent (mutex-protected: monitor proofs of C08/C11), '
                'WaitGroup::Count, Injector.',
        'design': 'DESIGN.md 6 C04, 5.F',
    },
    'C05': {
        'text': 'Executor contracts proved per implementation: Inline<Stopped>::Submit (Call xor Drop, Drop iff the stopped instance), '
                'ManualExecutor::Submit/Drain (loop contract: every queued job Called exactly once), Strand (Submit/Call/Drop, see C07), '
                'FairThreadPool (Submit/Loop/Stop/SoftStop/HardStop under a monitor invariant: accepted iff not stopped at the deciding step, '
                'else Dropped exactly once outside the lock), against one Call-xor-Drop interface contract with a ghost per-job fate. '
                'Unit ownership: yaclib::Submit(executor, f) (one job made from f, handed over exactly once), UniqueJob::Call (functor once, then frees itself) / Drop (frees itself, functor never run), SafeCall::Call (an exception does not escape).',
        'note': 'Pipeline side: Core::Impl submits exactly once to the step\'s executor iff IsCall and never for ThenInline, TransferExecutorTo '
                '(keep own executor else inherit: moved from unique, copied from shared), detail::SetCallback stores the given executor, Core::Drop = '
                'Call on Error(Stop); OnAwaiter is in unit coro when registered; "runs inside e" for third-party executors is the interface contract, trusted.',
        'design': 'DESIGN.md 6 C05, 5.A-C',
    },
    'C07': {
        'text': 'Rely/guarantee contracts on the strand word (Mark / nullptr / list) with a single ghost batch token: Submit (push by weak CAS, '
                'loop contract; schedules the strand iff it replaced Mark, with one IncRef), Call (takes the inbox with one exchange, in-place '
                'reversal and run loop closed by loop invariants over a ghost pool of symbolic length with reversal frontier, every taken job '
                'Called exactly once oldest-first, released xor resubmitted), Drop, Mark, Alive; lemma: invariant stable, non-empty inbox always '
                'has an outstanding batch, the strand is scheduled only when no batch is outstanding.',
        'note': 'SC atomics (orders: C04). Order through the in-place reversal is additionally checked on real memory, bounded (N<=6 quick, 10 '
                'thorough, labelled bounded, not counted as discharged). "Without blocking a thread of the underlying executor": only that '
                'Submit/Call/Drop contain no blocking primitive. Replay: every sequential schedule of submit/run/stop on the real Strand (ASan).',
        'design': 'DESIGN.md 6 C07, 5.B, 5.I, A.3',
    },
    'C08': {
        'text': 'Monitor-invariant proof of FairThreadPool (assume on lock, assert on unlock / wait; RAII locks expanded mechanically): '
                'Submit, Loop (nested loops closed by invariants), Stop, Stop(lock&&), SoftStop, HardStop, Alive, WasStop/WantStop/NoJobs with '
                'ghost accounting queued/running vs the packed counter; every popped job Called exactly once outside the lock; a worker returns '
                'only after seeing stopped and an empty queue and blocks only while not stopped and nothing is queued; the intrusive List '
                'functions are proved against an abstract sequence view (ghost pool, symbolic length).',
        'note': 'std::mutex/condition_variable/thread trusted; Wait()=join not under contract; single-worker FIFO is the List FIFO, checked '
                'bounded on real memory (N<=6/10). Assumes fewer than 2^61 jobs counted at once.',
        'design': 'DESIGN.md 6 C08, 5.C, A.6',
    },
    'C09': {
        'text': 'Strategies and combinator machinery under contract: FirstFail Consume of Join / All / AllTuple (R/G on _done with ghost election: the '
                'first failure is Set once with its own error / exception, values and later failures have no effect, tuple slot i is filled from input i), '
                'all destructors (output completed exactly once overall; All: loops over a symbolic number of inputs closed by invariants - every input '
                'retired or released exactly once in index order, aggregate element k from input k, one reserve), Register, the Consume / ConsumeImpl '
                'dispatch for every ConsumePolicy x CorePolicy, CombinatorCallback::Impl (consume under own index, then drop one combinator reference), '
                'the dynamic registration loops of DynamicCombinator / SingleCombinator (unbounded count), when::When (empty input => invalid future, '
                'no allocation; else two allocations and one reference per input).',
        'note': 'Pack expansion of the static form is assumed to call SetCore<i> once per i; std::vector is a stub; inputs complete exactly once (C01) and '
                'their Results are not Empty; SC atomics. Replay: sequential witnesses on the real library.',
        'design': 'DESIGN.md 6 C09, 5.B, 5.E',
    },
    'C10': {
        'text': 'Rely/guarantee contracts on the three per-policy state words of when::Any (None: _done flag; FirstFail: empty/error/value; '
                'LastFail: 2*count countdown with value bit) with a ghost `elected` set inside the winning atomic step: each Consume is proved '
                'to call Promise::Set exactly when it was elected, carrying its own outcome; LastFail: a failure is elected only as the last '
                'input with no value arrived, a value iff it is the first value; FirstFail: first value at once, else the failure that won '
                'empty->error is saved and published by the destructor; initial state from the constructor text satisfies the invariant.  The combinator plumbing '
                'WhenAny shares with WhenAll (unit when: When entry functions with the translated combinator selection, registration loops / SetCore, callback '
                'Impl / Here / Next, Consume dispatch per ConsumePolicy x CorePolicy) is checked under this property too.',
        'note': 'SC atomics; inputs are consumed exactly once each (plumbing jobs of unit when) is the rely; Promise::Set is the C01 producer contract; '
                'release of inputs (Retire) is C09.',
        'design': 'DESIGN.md 6 C10, 5.B, A.5',
    },
    'C11': {
        'text': 'Counter accounting of detail::WaitRange with the futures\' completions as environment steps at every interaction with the event: '
                'returns true only when every holder of the event callback has signalled and nothing was reset; returns false only after the timed '
                'wait timed out and at least one callback was removed; at every return no future still holds the waiter\'s stack event; a blocking '
                'wait is entered only while somebody has still to signal; plus the registration lambdas (unique: event callback, shared: own helper '
                'callback k), WaitIterator fast paths and event sizing, the iterator range loop (unbounded count), WaitCore sizing, ResetImpl / '
                'SetCallbackImpl (unit base_core), MutexEvent Wait/Set/Reset under a monitor invariant, AtomicCounter::SubEqual (unit event).',
        'note': 'The generic `range` lambdas are abstracted by a contract in WaitRange and proved separately as far as they are extractable; virtual time '
                'is the boolean "deadline passed"; std::condition_variable timed waits are trusted; SC atomics.',
        'design': 'DESIGN.md 6 C11, A.7',
    },
    'C12': {
        'text': 'Lazy branch of detail::SetCallback proved to have no effect (zero SetInline / Loop / Submit / functor calls; only links the new '
                'step behind its predecessor and records it as the predecessor\'s continuation), MoveToCaller over a chain of symbolic length '
                '(returns the head, clears every traversed link), the Task branch of CallResolveAsync (head receives the continuation, then is '
                'started through Step), Core::Call / Drop / Impl shared with the eager pipeline (so C02 applies once started). '
                'Unit entry: detail::Schedule builds the head (one core from the functor, executor retained once and stored without a second retain, handle adopts) and does NOT submit it; '
                'detail::Run / RunShared are the same plus exactly one Submit after the core is completely set up.',
        'note': 'Task::Cancel/Detach/ToFuture/Get and Start are in unit handles when registered; "same Result as the eager twin" is the lemma '
                'that a started chain runs the C02-verified functions.',
        'design': 'DESIGN.md 6 C12',
    },
    'C13': {
        'text': 'Resume-token contracts on every awaiter and on the coroutine promise type, extracted from include/yaclib/coro: AwaitEvent::Impl (Sticky x transfer mode: the suspended coroutine is resumed / '
                'submitted by exactly the decrement that reaches zero), MultiAwaitAwaiter ready / suspend (continuation recorded before the awaiter gives up its unit; suspends <=> somebody else will reach zero), '
                'SetCallbacksDynamic (loop contract, any count: counter == still-pending + 1), AwaitSingleAwaiter unique / shared (ready, suspend = attach, resume = value or rethrow, shared never moved), AwaitAwaiter '
                'inline / sticky (+ Call: Submit on the coroutine\'s own executor), OnAwaiter, AwaitOnEvent::Impl, AwaitOnAwaiter, MultiAwaitOnAwaiter (executor set, exactly one Submit to the named executor, now or '
                'by the last completer), Yield, CurrentAwaiter, TransferAwaiter / TransferSingleAwaiter (continuation stored, then the head of the Task started exactly once), PromiseType Call / Drop (StopError stored '
                'and published) / Impl / Here / unhandled_exception / return_value, PromiseTypeDeleter::Delete (frame destroyed by the last reference, once), final-suspend Destroy::await_suspend in all three transfer configurations.',
        'note': 'The compiler-generated coroutine machinery is axiomatised (resumes immediately iff await_ready or await_suspend returned false; destroy() runs the live locals\' destructors once); the two-party attach / '
                'complete race is the C01 / C06 word contract (unit base_core), "exactly one decrement reaches zero" the C16 counter lemma; SetCallbacksStatic (fold expression) and get_return_object / initial_suspend '
                'are not extractable. Replay: the real coroutine layer in a CORO build of the tree under check (replay/coro_await.cpp: all completion orders, executors, stopped executor, 4-thread race).',
        'design': 'DESIGN.md 6 C13',
    },
    'C14': {
        'text': 'R/G contracts on the coroutine Mutex sender word plus the holder-owned receiver list, for FIFO x Batching x SymmetricTransfer: TryLockAwait / TryLock '
                '(succeed only when free), AwaitLock (loop contract over both weak CAS branches: returns false <=> acquired, true <=> enqueued with the node linked), '
                'TryUnlockAwait (releases only if the receiver list is empty and no new waiter is in the word at the release CAS, otherwise keeps the mutex and knows a '
                'waiter exists), GetHead (takes over all new waiters with one exchange; FIFO reversal closed by a loop invariant over a ghost pool with reversal '
                'frontier), UnlockHereAwait / UnlockHere / AwaitUnlock / AwaitUnlockOn (every unlock releases xor grants exactly one parked waiter by Submit or '
                'transfer; the unlocking coroutine is resubmitted exactly once where asked), BatchingPossible, UnlockAwaiter::await_ready, LockAwaiter.',
        'note': 'SC atomics (orders: C04, asserted in the same jobs); liveness (holders release, executors accept work, a granted coroutine is resumed once) is the '
                'property\'s own assumption: only the safety shadow "a parked waiter makes the release fail, every unlock grants or releases" is proved; FIFO order through '
                'the reversal additionally bounded on real memory (N<=6/10). Guard classes (unit guards): GuardState bit bookkeeping, Guard<M, Shared> destructor / TryLock / UnlockHere (an owning guard releases exactly once, in its own mode), sticky awaiters (executor remembered iff parked; unlock goes home through AwaitUnlockOn).',
        'design': 'DESIGN.md 6 C14, 5.B, A.4',
    },
    'C15': {
        'text': 'Counting-permission rely/guarantee proof of SharedMutexImpl<FIFO, *> at atomic-operation granularity over the packed 32+32 state word, readers_wait and the spinlock-protected fields, with logical (ghost) '
                'counters for holders, registered / paying / queued readers, first and queued writers, pass credits and FIFO priority. One invariant (10 named clauses) contains the exclusion clauses (at most one writer; '
                'no reader holds, pays or has a credit while a writer holds) and the "nobody is forgotten" shadows (parked readers / writers are behind a holder, a first writer or an unlock in progress; the first writer\'s '
                'debt equals exactly the readers still to release; credits == registered readers when no writer is registered). Every function - TryLockSharedAwait, TryLockAwait, TryLock, TryLockShared (loop contract), '
                'AwaitLockShared, AwaitLock, UnlockHereShared, UnlockHere, SlowUnlock, PassReaders, RunWriter, RunReaders (loop contract), Run - is proved, under arbitrary interference at each of its atomic operations and '
                'lock acquisitions, to re-establish the invariant after every own step, to decrement a counter only by a token it owns, and to meet its postcondition (Try* succeed only when compatible; each unlock '
                'releases, or grants exactly the next writer / all queued readers / pass credits as the property prescribes, each granted coroutine submitted exactly once); the writers queue is a ghost pool of symbolic '
                'length; lemma: the member initialisers establish the invariant. LockAwaiter<Base, Shared> ready / suspend (unit coro_mutex). '
                'detail::Spinlock lock / unlock (unit spinlock): rely/guarantee on the state word, at most one holder - the monitor assumption of the slow paths is discharged.',
        'note': 'SC atomics (C04 orders are not claimed for this class); fewer than 2^30 simultaneous readers / writers; the readers container is an abstract count (ReadersFIFO only selects the resume order); the token '
                'meta-argument (other threads\' tokens are stable because every decrement is asserted to consume an own token) is a paper step; liveness itself is the property\'s premise - only the safety shadow is proved; '
                'guard classes are in unit guards (an owning SharedGuard / UniqueGuard releases exactly once, in its own mode). Replay: the real SharedMutex in a CORO build of the tree under check (replay/shared_mutex.cpp: overlap counters, Try* checks, lost-wake-up watchdog, 4 option pairs).',
        'design': 'DESIGN.md 6 C15',
    },
    'C16': {
        'text': 'R/G contracts on the OneShotEvent head (TryAdd push loop; SetImpl exchange + walk over a ghost pool: every registered job '
                'called exactly once, next read before the call), Ready/Wait/TimedWait (returns / true only after all-done observed or own '
                'waiter released; two-owner TimedWaiter freed by the last owner), Set/Call/Reset, Waiter::Call, TimedWaiter::Call; '
                'AtomicCounter Add/Sub/SubEqual (Delete/Set by exactly the decrement that reaches zero; lemma: unique), SetDeleter, '
                'WaitGroup::InsertRange accounting and its per-future lambda, CallCallback/DropCallback::Impl; plus the attach path of C01.',
        'note': 'SC atomics; documented usage rules (Add only while non-zero, Reset at quiescence) are preconditions; the coroutine awaiters '
                'of the event are in unit coro when registered; the variadic / iterator `range` lambdas are abstracted by a contract.',
        'design': 'DESIGN.md 6 C16, 5.B, 5.E',
    },
    'C17': {
        'text': 'Relational (2-run) contracts by self-composition: GetRandNumber, Injector::Reset / NeedInject / MaybeInject, ShouldFailAtomicWeak, the position choice '
                'of PollRandomElementFromList and TickTime are each run on two copies of the declared decision state S (seed, engine position, random count, injector '
                'count / pause, the configuration values, virtual time) with clocks, random_device, addresses and thread ids independent, and must take the same '
                'decision and reach the same S. Functional contracts: engine invariant (random count == draws since seeding), SetSeed re-creates position 0, '
                'GetRandCount, the restore lemma ForwardToRandCount (loop invariant, any n), Get/SetState, ShouldFailAtomicWeak, TickTime, AdvanceTime. '
                'Unit run_loop: Scheduler::RunLoop (loop invariant: every resumption is exactly one wake-up pass, one seeded pick, one tick, in this order; ends only with nobody runnable and nobody asleep), GetNext (one seeded draw), Schedule (no re-entry), RescheduleCurrent (queued before suspended).',
        'note': 'mt19937_64 is an opaque deterministic stream (uninterpreted function of seed and position), % is an uninterpreted function with its bound; std::map '
                'ordering and context switching trusted; BiList::GetElement is checked bounded on real memory (N<=6/9); RunLoop / WakeUpNeeded / Sleep (std::map) '
                'are not under contract. Replay: FIBER build of the tree under check.',
        'design': 'DESIGN.md 6 C17, 5.G',
    },
    'C18': {
        'text': 'Holder-count contracts with interference only at the fiber suspension points (FiberQueue::Wait both forms, Suspend, InjectFault), where the '
                'environment performs any sequence of complete lock operations of other fibers: Mutex lock/try_lock/unlock, TimedMutex, RecursiveMutex '
                '(lock, try_lock, unlock, LockHelper), RecursiveTimedMutex, SharedMutex (lock, try_lock, lock_shared, try_lock_shared, unlock, unlock_shared, '
                'both helpers), SharedTimedMutex: on return the fiber is the only holder in the requested mode, try / timed success really holds the lock, '
                'failure only because it was incompatible or the deadline passed, unlock frees and notifies a queue somebody is parked on; FiberQueue Wait / timed Wait / NotifyOne / NotifyAll (loop invariant: every parked fiber scheduled exactly once) / ScheduleAndRemove, ConditionVariable notify_one / notify_all, '
                'ConditionVariable::WaitImpl, Thread::join (returns only after Completed), thread-local proxy keyed by the current fiber; unit run_loop: the scheduler loop (with nothing runnable the clock jumps to the earliest sleeper so that a timed wait ends; a completed fiber is freed only when its thread object let go); unit tls: every thread-local pointer '
                'variable gets a key no other variable has whatever the pointee types (constructors of ThreadLocalPtrProxy; the scope of the key counter is read from the text). '
                'Unit sleep_map: the scheduler\'s sleep map (Sleep, SleepPreemptive, WakeUpNeeded; std::map abstracted for one arbitrary key, ordered iteration never skips it): a passed deadline does not block, a sleeper is in the bucket of exactly its wake-up time, the clock wakes exactly the buckets whose time has come (all sleepers, once), a bucket is erased only when nobody sleeps in it, end() is never dereferenced (finding F14, fixed).',
        'note': 'Cooperative scheduling (no preemption between suspension points) is the model; context switching, the scheduler loop and std containers are '
                'trusted; counters do not wrap. Replay: the real lock types in a FIBER build of the tree under check, 12 seeds of the stock scheduler.',
        'design': 'DESIGN.md 6 C18, 5.D, A.8',
    },
    'C19': {
        'text': 'Every member function body of the FIBER atomic re-implementation and of the fault-injecting wrapper (both cv overloads) is '
                'extracted and proved, per function and for the full operand domain, against the std::atomic meaning of the operation written '
                'as a postcondition; the wrapper is proved against any implementation satisfying that same contract (std::atomic trusted, '
                'FIBER proved). Loop-free: a pass is a complete proof for single operations; sequences follow by induction.',
        'note': 'Trusted: cbmc, the token-level rewrite, std::atomic itself, IEEE +/- as uninterpreted functions shared by spec and code, signed '
                'overflow treated as wrap-around. quick = 6 representative T, thorough = all 14 T.',
        'design': 'DESIGN.md 6 C19, 5.A',
    },
}

NOT_APPLICABLE = {}
