"""ThreadLocalPtrProxy<Type> (include/yaclib/fault/detail/fiber/thread_local_proxy.hpp):  C18 "thread-local pointers are per fiber".

Unit fiber_locks proves that GetImpl / Set use the table of the fiber that runs now, under the key the proxy carries.  What makes that *a thread-local variable* is the key: every
variable declared with YACLIB_THREAD_LOCAL_PTR must get a key that no other variable has, whatever its pointee type, because the per-fiber table is keyed by the number alone.  Here
the constructors are put under contract: a constructing form takes a key that differs from every key handed out before (for ANY pointee type), the move forms keep the key (the
moved-to handle is the same variable).  The scope of the key counter is part of the extracted text: a static data member of the class template is one counter PER instantiation
(C++ [temp.static]), a namespace-scope / non-template variable is one counter - the translation follows where the declaration stands.
"""
import re

from vf.cxx2c import Rewriter
from vf.extract import Body, ExtractionBreak, match_brace, read_source
from vf.runner import Job

F = 'include/yaclib/fault/detail/fiber/thread_local_proxy.hpp'
TRUSTED = ['the per-fiber table (std::unordered_map in FiberBase::GetTLS / SetTLS) maps equal keys to the same slot and different keys to different slots',
           'GetImpl / Set / SetDefault: proved in unit fiber_locks (TLS.Get / TLS.Set); here stubs that record the key they were given']
DROPPED = ['where the key counter `sNextFreeIndex` is declared decides how it is translated: inside `template <typename Type> class ThreadLocalPtrProxy` it is one object per '
           'instantiation (modelled as an array indexed by a symbolic pointee-type tag), outside any template it is one object',
           'member-initialiser lists `: _i(EXPR)` are translated to `self->_i = EXPR;` as the first statement of the body',
           'the comparison / dereference operators of the proxy (all of the form lhs.Get() OP rhs.Get()) are not under contract']
ASSUMPTIONS = ['fewer than 2^63 thread-local pointer variables are ever constructed (the key counter does not wrap)',
               'thread-local proxies are constructed by one OS thread at a time (the fiber backend runs on one thread; the counter is a plain integer)']
DRIVERS = [('tls_keys.cpp', [], 'fiber')]


def _counter_scope(text):
    """'template' if the declaration of sNextFreeIndex stands inside the class template, 'global' if it stands outside any template class"""
    ms = list(re.finditer(r'(?:inline\s+)?(?:static\s+)?(?:inline\s+)?std::uint64_t\s+sNextFreeIndex\s*=\s*0\s*;', text))
    if len(ms) != 1:
        raise ExtractionBreak('ThreadLocalPtrProxy: declaration of the key counter `std::uint64_t sNextFreeIndex = 0;` matched %d times' % len(ms))
    pos = ms[0].start()
    cm = list(re.finditer(r'template\s*<typename\s+Type>\s*class\s+ThreadLocalPtrProxy\s+final\s*\{', text))
    if len(cm) != 1:
        raise ExtractionBreak('ThreadLocalPtrProxy: class head matched %d times' % len(cm))
    o = cm[0].end() - 1
    c = match_brace(text, o)
    if o < pos < c:
        return 'template', ms[0], (o, c)
    # outside: must not be inside another template (class or variable template)
    before = text[:pos]
    depth = before.count('{') - before.count('}')
    line = ' '.join(text[max(0, text.rfind(';', 0, pos), text.rfind('}', 0, pos), text.rfind('{', 0, pos)) + 1:ms[0].end()].split())
    if 'template' in line:
        raise ExtractionBreak('ThreadLocalPtrProxy: the key counter is a variable template: ' + line)
    if depth > 1:       # namespace { ... } is depth 1
        # inside some class: accept only a non-template class
        k = before.rfind('{')
        head = ' '.join(before[max(0, before.rfind(';', 0, k), before.rfind('}', 0, k)) + 1:k].split())
        if 'template' in head or not re.search(r'\b(struct|class)\b', head):
            raise ExtractionBreak('ThreadLocalPtrProxy: cannot tell the scope of the key counter (enclosing: %s)' % head[:80])
    return 'global', ms[0], (o, c)


def jobs(ctx):
    repo = ctx.repo
    props = ['C18']
    out = []
    text = read_source(repo, F)[1]
    scope, decl, (co, cc) = _counter_scope(text)
    cls = text[co:cc + 1]
    if scope == 'template':
        counter = ('/* extracted: `sNextFreeIndex` is a static data member of the class template => one counter per pointee type (C++ [temp.static]) */\n'
                   'unsigned long sNextFreeIndex_of[2];\n#define COUNTER(t) sNextFreeIndex_of[(t) & 1]\n')
    else:
        counter = ('/* extracted: `sNextFreeIndex` is declared outside the class template => one counter for every pointee type */\n'
                   'unsigned long sNextFreeIndex_one;\n#define COUNTER(t) sNextFreeIndex_one\n')
    COMMON = '#include "vf.h"\n' + counter + r'''
typedef struct Proxy { unsigned long _i; } Proxy;
unsigned char TYPE;                 /* pointee-type tag of the proxy under construction (Type) */
#define sNextFreeIndex COUNTER(TYPE)
/* ghost: any one variable constructed earlier: its pointee type and its key */
unsigned char g_t0; unsigned long g_k0;
/* invariant of the key allocation: a key handed out by the counter of type t is below that counter */
#define INV_EARLIER (g_k0 < COUNTER(g_t0))
unsigned g_setdefaults, g_getimpls; unsigned long g_sd_key, g_gi_key; void* g_sd_val; void* g_gi_val;
void SetDefault(void* v, unsigned long i) __CPROVER_assigns(g_setdefaults, g_sd_key, g_sd_val) __CPROVER_ensures(g_setdefaults == OLD(g_setdefaults) + 1 && g_sd_key == i && g_sd_val == v);
void* GetImpl(unsigned long i) __CPROVER_assigns(g_getimpls, g_gi_key) __CPROVER_ensures(g_getimpls == OLD(g_getimpls) + 1 && g_gi_key == i && RET == g_gi_val);
'''
    REQ = ('__CPROVER_requires(__CPROVER_is_fresh(self, sizeof(*self)) && TYPE <= 1 && g_t0 <= 1 && INV_EARLIER && COUNTER(TYPE) < (1UL << 63) && g_setdefaults == 0 && g_getimpls == 0)\n')
    FRESH_KEY = ('/* C18: a newly declared thread-local pointer variable gets a key that no variable constructed before has - whatever the pointee types - and the allocation invariant is kept */\n'
                 '__CPROVER_ensures(self->_i != g_k0 && INV_EARLIER && self->_i < COUNTER(TYPE))\n')
    HARN = 'void harness(void) { Proxy* p; %s F(p%s); if (g_t0 == TYPE) VF_CANARY("earlier variable of the same pointee type"); else VF_CANARY("earlier variable of another pointee type"); }\n'

    def ctor(name, sig):
        """(init expression, body text, Body record) of the unique constructor matching sig (up to the closing parenthesis of the parameter list)"""
        ms = list(re.finditer(sig + r'\s*noexcept\s*:\s*_i\(', cls))
        if len(ms) != 1:
            raise ExtractionBreak('%s: constructor with an `_i(...)` initialiser matched %d times' % (name, len(ms)))
        o = ms[0].end() - 1
        c = match_brace(cls, o)
        init = cls[o + 1:c]
        mb = re.match(r'\s*\{', cls[c + 1:])
        if not mb:
            raise ExtractionBreak('%s: no body after the initialiser' % name)
        bo = c + 1 + mb.end() - 1
        bc = match_brace(cls, bo)
        line0 = text.count('\n', 0, co + ms[0].start()) + 1
        line1 = text.count('\n', 0, co + bc) + 1
        return init, cls[bo + 1:bc], Body(F, 'ThreadLocalPtrProxy::' + name, cls[ms[0].start():bc + 1], line0, line1, sig=' '.join(cls[ms[0].start():o].split()))

    pre = [(r'other\._i\b', 'other->_i', 0)]

    def job(name, b, src, replace, canaries=2):
        out.append(Job('tls/' + name, props, src, 'harness', enforce='F', replace=replace, funcs=[b], canaries=canaries, expect=[r'postcondition'], meta={'fn': name}))

    def guarded(fn):
        try:
            fn()
        except ExtractionBreak as e:
            ctx.breaks.append(str(e))

    def c_default():
        init, body, b = ctor('ThreadLocalPtrProxy()', r'ThreadLocalPtrProxy\(\s*\)')
        c = Rewriter(b.name, pre=pre).rewrite('_i = ' + init + ';' + body)
        job('ctor.default', b, COMMON + 'void F(Proxy* self)\n' + REQ + '__CPROVER_assigns(self->_i, COUNTER(TYPE))\n' + FRESH_KEY + '__CPROVER_ensures(g_setdefaults == 0)\n{' + c + '}\n' + HARN % ('', ''), [])

    def c_value():
        init, body, b = ctor('ThreadLocalPtrProxy(Type*)', r'ThreadLocalPtrProxy\(\s*Type\s*\*\s*value\s*\)')
        c = Rewriter(b.name, pre=pre).rewrite('_i = ' + init + ';' + body)
        job('ctor.value', b, COMMON + 'void F(Proxy* self, void* value)\n' + REQ + '__CPROVER_assigns(self->_i, COUNTER(TYPE), g_setdefaults, g_sd_key, g_sd_val)\n' + FRESH_KEY +
            '/* the initial value is recorded as the default of THIS variable\'s key (every fiber starts from it) */\n'
            '__CPROVER_ensures(value != 0 ? (g_setdefaults == 1 && g_sd_key == self->_i && g_sd_val == value) : g_setdefaults == 0)\n{' + c + '}\n' + HARN % ('void* v;', ', v'), ['SetDefault'])

    def c_copy(name, sig, jn):
        init, body, b = ctor(name, sig)
        c = Rewriter(b.name, pre=pre, refs=['other']).rewrite('_i = ' + init + ';' + body)
        job(jn, b, COMMON + 'void F(Proxy* self, Proxy* other)\n' + REQ.replace('&& TYPE <= 1', '&& __CPROVER_is_fresh(other, sizeof(*other)) && TYPE <= 1') +
            '__CPROVER_assigns(self->_i, COUNTER(TYPE), g_setdefaults, g_sd_key, g_sd_val, g_getimpls, g_gi_key)\n' + FRESH_KEY +
            '/* a copy is a NEW variable: own key, whose default is the value the source holds now; the source keeps its key */\n'
            '__CPROVER_ensures(g_getimpls == 1 && g_gi_key == other->_i && g_setdefaults == 1 && g_sd_key == self->_i && g_sd_val == g_gi_val && other->_i == OLD(other->_i))\n{' + c + '}\n' +
            HARN % ('Proxy* o;', ', o'), ['SetDefault', 'GetImpl'])

    def c_move(name, sig, jn):
        init, body, b = ctor(name, sig)
        c = Rewriter(b.name, pre=pre, refs=['other']).rewrite('_i = ' + init + ';' + body)
        job(jn, b, COMMON + 'void F(Proxy* self, Proxy* other)\n' + REQ.replace('&& TYPE <= 1', '&& __CPROVER_is_fresh(other, sizeof(*other)) && TYPE <= 1') +
            '__CPROVER_assigns(self->_i)\n/* a move hands the variable over: same key, no key consumed */\n__CPROVER_ensures(self->_i == other->_i && INV_EARLIER && g_setdefaults == 0)\n{' + c + '}\n' +
            'void harness(void) { Proxy* p; Proxy* o; F(p, o); VF_CANARY("end"); }\n', [], canaries=1)

    guarded(c_default)
    guarded(c_value)
    guarded(lambda: c_copy('ThreadLocalPtrProxy(const ThreadLocalPtrProxy&)', r'ThreadLocalPtrProxy\(\s*const\s+ThreadLocalPtrProxy\s*&\s*other\s*\)', 'ctor.copy'))
    guarded(lambda: c_copy('ThreadLocalPtrProxy(const ThreadLocalPtrProxy<U>&)', r'ThreadLocalPtrProxy\(\s*const\s+ThreadLocalPtrProxy<U>\s*&\s*other\s*\)', 'ctor.copy_convert'))
    guarded(lambda: c_move('ThreadLocalPtrProxy(ThreadLocalPtrProxy&&)', r'ThreadLocalPtrProxy\(\s*ThreadLocalPtrProxy\s*&&\s*other\s*\)', 'ctor.move'))
    guarded(lambda: c_move('ThreadLocalPtrProxy(ThreadLocalPtrProxy<U>&&)', r'ThreadLocalPtrProxy\(\s*ThreadLocalPtrProxy<U>\s*&&\s*other\s*\)', 'ctor.move_convert'))
    return out


def replay(ctx, res, failed, rec):
    from vf.replay import run_fiber_driver
    return run_fiber_driver(ctx, 'tls_keys.cpp', timeout=60)
