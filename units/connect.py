"""Connect (include/yaclib/async/connect.hpp): a Future / SharedFuture forwarded into a Promise / SharedPromise, a promise subsumed by a SharedPromise.   C01, C06 (+ C03).

Connect is one more consumer kind of the hand-off word: the promise's core is attached as the continuation of the source, or - if the source already has its Result - the promise
is fulfilled with it right now. Exactly one of the two, decided by the attach attempt itself (or by an observation that the Result is there), and nothing may be attached through an
operation that is only valid for terminal callbacks.
"""
import re

from vf.cxx2c import Rewriter
from vf.extract import ExtractionBreak, find_body
from vf.runner import Job

F = 'include/yaclib/async/connect.hpp'

TRUSTED = ['UniqueCore / SharedCore::SetCallback (unit base_core: succeeds iff the Result is not there yet), Promise::Set / SharedPromise::Set (unit handles), Touch (reads a present Result)',
           'UniqueCore::CallInline is only valid for a terminal callback (one whose Here returns no successor): precondition carried by the stub']
DROPPED = ['handles are structs with one pointer `_core`; `x.GetCore()` is that field, `.Release()` clears it without DecRef']
ASSUMPTIONS = ['a SharedPromise passed as `primary` is still unfulfilled (it is an lvalue that can only be consumed by Set &&)']

COMMON = r'''
#include "vf.h"
typedef struct Core Core; struct Core { Core* next; unsigned long tag; };
typedef struct Handle { Core* _core; } Handle;
struct Ghost {
  unsigned attaches; Core* attach_on; Core* attach_cb; unsigned char attach_ok;       /* SetCallback attempts */
  unsigned char known_ready;                                                            /* the source's Result is known to be there (failed attach / Ready() returned true) */
  unsigned sets; Core* set_on; unsigned long set_tag; unsigned char set_moved;          /* promise fulfilled here */
  unsigned touches; unsigned char touch_moved;
  unsigned call_inlines;
} g;
Core g_drop_core;
static void ghost_reset(void) { g.attaches = g.sets = g.touches = g.call_inlines = 0; g.known_ready = 0; g.attach_ok = nondet_bool(); }
int SetCallback(Core* on, Core* cb) __CPROVER_requires(on != 0 && cb != 0 && g.attaches == 0) __CPROVER_assigns(g.attaches, g.attach_on, g.attach_cb, g.known_ready)
  __CPROVER_ensures(g.attaches == 1 && g.attach_on == on && g.attach_cb == cb && RET == g.attach_ok && g.attach_ok <= 1 && g.known_ready == (OLD(g.known_ready) || !g.attach_ok));
int READY(Handle* f) __CPROVER_requires(f->_core != 0) __CPROVER_assigns(g.known_ready) __CPROVER_ensures((RET == 0 || RET == 1) && (RET ==> g.known_ready) && (!RET ==> g.known_ready == OLD(g.known_ready)));
/* Touch: reads (const&) or moves (&&, which also invalidates the Future) the Result that must be there */
unsigned long TOUCH_MOVE(Handle* f) __CPROVER_requires(f->_core != 0 && g.known_ready && g.touches == 0 && g.attaches <= 1 && !(g.attaches == 1 && g.attach_ok)) __CPROVER_assigns(g.touches, g.touch_moved, f->_core)
  __CPROVER_ensures(g.touches == 1 && g.touch_moved == 1 && f->_core == 0 && RET == OLD(f->_core->tag));
unsigned long TOUCH_COPY(Handle* f) __CPROVER_requires(f->_core != 0 && g.known_ready && g.touches == 0) __CPROVER_assigns(g.touches, g.touch_moved)
  __CPROVER_ensures(g.touches == 1 && g.touch_moved == 0 && RET == f->_core->tag);
void PROMISE_SET(Handle* p, unsigned long v) __CPROVER_requires(p->_core != 0 && g.sets == 0 && g.touches == 1) __CPROVER_assigns(g.sets, g.set_on, g.set_tag, p->_core)
  __CPROVER_ensures(g.sets == 1 && g.set_on == OLD(p->_core) && g.set_tag == v && p->_core == 0);
/* C01: CallInline drops whatever Here hands back: only a terminal callback (Drop core, wait event) may be given to it */
void CallInline(Core* on, Core* cb) __CPROVER_requires(on != 0 && cb == &g_drop_core) __CPROVER_assigns(g.call_inlines) __CPROVER_ensures(g.call_inlines == OLD(g.call_inlines) + 1);
static inline Core* HANDLE_RELEASE(Handle* h) { Core* c = h->_core; h->_core = 0; return c; }
'''

PRE = [(r'static_assert\([^;]*\);', '', 0),
       (r'f\.GetCore\(\)->SetCallback\(\s*\*p\.GetCore\(\)\.Get\(\)\s*\)', 'SetCallback(f->_core, p->_core)', 0),
       (r'primary\.GetCore\(\)->SetCallback\(\s*\*subsumed_core\s*\)', 'SetCallback(primary->_core, subsumed_core)', 0),
       (r'auto\s+subsumed_core\s*=\s*subsumed\.GetCore\(\)\.Release\(\)\s*;', 'Core* subsumed_core = HANDLE_RELEASE(subsumed);', 0),
       (r'std::ignore\s*=', '(void)', 0),
       (r'\b([fp])\.GetCore\(\)\.Release\(\)->CallInline\(\s*\*([fp])\.GetCore\(\)\.Release\(\)\s*\)', r'CallInline(HANDLE_RELEASE(\1), HANDLE_RELEASE(\2))', 0),
       (r'\b([fp])\.GetCore\(\)\.Release\(\)\s*;', r'HANDLE_RELEASE(\1);', 0),
       (r'std::move\(p\)\.Set\(\s*std::move\(f\)\.Touch\(\)\s*\)', 'PROMISE_SET(p, TOUCH_MOVE(f))', 0), (r'std::move\(p\)\.Set\(\s*f\.Touch\(\)\s*\)', 'PROMISE_SET(p, TOUCH_COPY(f))', 0),
       (r'\b(f|p|primary|subsumed)\.Valid\(\)', r'(\1->_core != 0)', 0), (r'\bf\.Ready\(\)', 'READY(f)', 0),
       (r'f\.GetCore\(\)\s*!=\s*p\.GetCore\(\)', '(f->_core != p->_core)', 0)]

OVERLOADS = [
    ('Future.Promise', r'void\s+Connect\s*\(\s*FutureBase<V,\s*E>\s*&&\s*f\s*,\s*Promise<V,\s*E>\s*&&\s*p\s*\)', 1, 1),
    ('SharedFuture.Promise', r'void\s+Connect\s*\(\s*const\s+SharedFutureBase<V,\s*E>\s*&\s*f\s*,\s*Promise<V,\s*E>\s*&&\s*p\s*\)', 0, 1),
    ('Future.SharedPromise', r'void\s+Connect\s*\(\s*FutureBase<V,\s*E>\s*&&\s*f\s*,\s*SharedPromise<V,\s*E>\s*&&\s*p\s*\)', 1, 1),
    ('SharedFuture.SharedPromise', r'void\s+Connect\s*\(\s*const\s+SharedFutureBase<V,\s*E>\s*&\s*f\s*,\s*SharedPromise<V,\s*E>\s*&&\s*p\s*\)', 0, 1),
]
SUBSUME = [
    ('SharedPromise.Promise', r'void\s+Connect\s*\(\s*SharedPromise<V,\s*E>\s*&\s*primary\s*,\s*Promise<V,\s*E>\s*&&\s*subsumed\s*\)'),
    ('SharedPromise.SharedPromise', r'void\s+Connect\s*\(\s*SharedPromise<V,\s*E>\s*&\s*primary\s*,\s*SharedPromise<V,\s*E>\s*&&\s*subsumed\s*\)'),
]


def jobs(ctx):
    repo = ctx.repo
    props = ['C01', 'C06', 'C03']
    out = []
    for name, sig, unique_src, _ in OVERLOADS:
        b = find_body(repo, F, sig, 'Connect(' + name + ')')
        c = Rewriter('Connect.' + name, pre=PRE, refs=[]).rewrite(b.text)
        src = COMMON + '#define UNIQUE_SRC %d\n' % unique_src + '''void Connect(Handle* f, Handle* p)
__CPROVER_requires(__CPROVER_is_fresh(f, sizeof(*f)) && __CPROVER_is_fresh(p, sizeof(*p)) && __CPROVER_is_fresh(f->_core, sizeof(Core)) && __CPROVER_is_fresh(p->_core, sizeof(Core)))
__CPROVER_requires(g.attaches == 0 && g.sets == 0 && g.touches == 0 && g.call_inlines == 0 && !g.known_ready)
__CPROVER_assigns(g, f->_core, p->_core)
/* C01 / C06: exactly one of
     - the promise's core became the continuation of the source (one successful attach): the source's completion will fulfil the promise through Here - both handles let go of their cores
       without a DecRef for a unique source (the link owns them now); a SharedFuture source keeps its own reference;
     - the source's Result was already there: the promise is fulfilled with it right now, exactly once (moved from a unique source, copied from a shared one);
   and never both, never neither: no completion is lost and none is delivered twice */
__CPROVER_ensures((g.attaches == 1 && g.attach_ok) ? (g.sets == 0 && g.touches == 0 && g.attach_on == OLD(f->_core) && g.attach_cb == OLD(p->_core) && p->_core == 0 && (UNIQUE_SRC ? f->_core == 0 : f->_core == OLD(f->_core)))
                                                    : (g.sets == 1 && g.set_on == OLD(p->_core) && g.set_tag == OLD(f->_core->tag) && g.touch_moved == UNIQUE_SRC && p->_core == 0))
__CPROVER_ensures(g.call_inlines == 0 && g.attaches <= 1)
{''' + c + '''}
void harness(void) { ghost_reset(); Handle* f; Handle* p; Connect(f, p); if (g.sets) VF_CANARY("already there: fulfilled now"); else VF_CANARY("attached"); }
'''
        out.append(Job('connect/' + name, props, src, 'harness', enforce='Connect', replace=['SetCallback', 'READY', 'TOUCH_MOVE', 'TOUCH_COPY', 'PROMISE_SET', 'CallInline'], funcs=[b], canaries=2,
                       expect=[r'postcondition'], meta={'fn': 'Connect(' + name + ')'}))
    for name, sig in SUBSUME:
        b = find_body(repo, F, sig, 'Connect(' + name + ')')
        c = Rewriter('Connect.' + name, pre=PRE, refs=[]).rewrite(b.text)
        src = COMMON + '''void Connect(Handle* primary, Handle* subsumed)
__CPROVER_requires(__CPROVER_is_fresh(primary, sizeof(*primary)) && __CPROVER_is_fresh(subsumed, sizeof(*subsumed)) && __CPROVER_is_fresh(primary->_core, sizeof(Core)) && __CPROVER_is_fresh(subsumed->_core, sizeof(Core)))
__CPROVER_requires(g.attaches == 0 && g.sets == 0 && g.touches == 0 && g.call_inlines == 0 && !g.known_ready && g.attach_ok == 1)     /* the primary promise is still unfulfilled */
__CPROVER_assigns(g, primary->_core, subsumed->_core)
/* the subsumed promise's core is attached (once) to the primary shared state and will be fulfilled together with it; the primary stays usable, the subsumed handle is consumed */
__CPROVER_ensures(g.attaches == 1 && g.attach_on == primary->_core && g.attach_cb == OLD(subsumed->_core) && subsumed->_core == 0 && primary->_core == OLD(primary->_core) && g.sets == 0 && g.call_inlines == 0)
{''' + c + '''}
void harness(void) { ghost_reset(); Handle* a; Handle* b; Connect(a, b); VF_CANARY("end"); }
'''
        out.append(Job('connect/' + name, props, src, 'harness', enforce='Connect', replace=['SetCallback', 'CallInline'], funcs=[b], expect=[r'postcondition'], meta={'fn': 'Connect(' + name + ')'}))
    return out
