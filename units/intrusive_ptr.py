"""IntrusivePtr<T> (include/yaclib/util/detail/intrusive_ptr_impl.hpp):  C03.

The reference-owning handle every other unit trusts: each non-null IntrusivePtr stands for exactly one reference. Constructors from a raw pointer / copies take one (IncRef),
moves and Release / NoRefTag forms transfer without touching the count, the destructor gives one back (DecRef) iff non-null, assignment takes the new reference BEFORE it gives
back the old one (self-assignment and aliasing safe).
"""
import re

from vf.cxx2c import Rewriter
from vf.extract import ExtractionBreak, find_body, find_body_after
from vf.runner import Job

F = 'include/yaclib/util/detail/intrusive_ptr_impl.hpp'
TRUSTED = ['IncRef / DecRef of the pointee (counter contracts, unit event)']
DROPPED = ['member-initialiser lists are pinned by the extraction pattern and re-stated as the first statement of the C body',
           '`IntrusivePtr{x}.Swap(*this);` (a temporary that lives until the end of the full expression) is expanded to construct; Swap; destruct',
           'converting (IntrusivePtr<U>) overloads have the same bodies as the same-type ones and are pinned textually']
ASSUMPTIONS = []

COMMON = r'''
#include "vf.h"
typedef struct Obj { int dummy; } Obj;
typedef struct Ptr { Obj* _ptr; } Ptr;
unsigned g_incs, g_decs; Obj* g_inc_of; Obj* g_dec_of; unsigned long g_clock, g_t_inc, g_t_dec;
static void ghost_reset(void) { g_incs = g_decs = 0; g_clock = 1; g_t_inc = g_t_dec = 0; }
void IncRef(Obj* o) __CPROVER_requires(o != 0) __CPROVER_assigns(g_incs, g_inc_of, g_t_inc, g_clock) __CPROVER_ensures(g_incs == OLD(g_incs) + 1 && g_inc_of == o && g_t_inc == OLD(g_clock) && g_clock == OLD(g_clock) + 1);
void DecRef(Obj* o) __CPROVER_requires(o != 0) __CPROVER_assigns(g_decs, g_dec_of, g_t_dec, g_clock) __CPROVER_ensures(g_decs == OLD(g_decs) + 1 && g_dec_of == o && g_t_dec == OLD(g_clock) && g_clock == OLD(g_clock) + 1);
'''
T = r'template\s*<typename\s+T>\s*'
Q = r'IntrusivePtr<T>::'


def jobs(ctx):
    repo = ctx.repo
    props = ['C03']
    out = []
    pre = [(r'_ptr->IncRef\(\)', 'IncRef(self->_ptr)', 0), (r'_ptr->DecRef\(\)', 'DecRef(self->_ptr)', 0), (r'other\._ptr\b', 'other->_ptr', 0),
           (r'IntrusivePtr\{\s*other\s*\}\.Swap\(\s*\*this\s*\)\s*;', '{ Ptr vf_tmp; CtorRaw(&vf_tmp, other); Swap(&vf_tmp, self); Dtor(&vf_tmp); }', 0),
           (r'IntrusivePtr\{\s*std::move\(\s*other\s*\)\s*\}\.Swap\(\s*\*this\s*\)\s*;', '{ Ptr vf_tmp; CtorMove(&vf_tmp, other); Swap(&vf_tmp, self); Dtor(&vf_tmp); }', 0),
           (r'return\s+\*this\s*;', 'return;', 0), (r'return\s+operator=\(\s*other->_ptr\s*\)\s*;', '{ AssignRaw(self, other->_ptr); return; }', 0), (r'\bSwap\(\s*other\s*\)\s*;', 'Swap(self, other);', 0)]

    def rw(name, text):
        return Rewriter('IntrusivePtr::' + name, pre=pre).rewrite(text)

    b_raw = find_body_after(repo, F, T + Q + r'IntrusivePtr\(\s*T\s*\*\s*other\s*\)\s*noexcept\s*:\s*_ptr\{\s*other\s*\}\s*\{', 'IntrusivePtr(T*)')
    b_mv = find_body_after(repo, F, T + Q + r'IntrusivePtr\(\s*IntrusivePtr\s*&&\s*other\s*\)\s*noexcept\s*:\s*_ptr\{\s*other\._ptr\s*\}\s*\{', 'IntrusivePtr(IntrusivePtr&&)')
    b_cp = find_body_after(repo, F, T + Q + r'IntrusivePtr\(\s*const\s+IntrusivePtr\s*&\s*other\s*\)\s*noexcept\s*:\s*IntrusivePtr\{\s*other\._ptr\s*\}\s*\{', 'IntrusivePtr(const IntrusivePtr&)')
    b_nr = find_body_after(repo, F, T + Q + r'IntrusivePtr\(\s*NoRefTag\s*,\s*T\s*\*\s*other\s*\)\s*noexcept\s*:\s*_ptr\{\s*other\s*\}\s*\{', 'IntrusivePtr(NoRefTag, T*)')
    b_d = find_body(repo, F, T + Q + r'~IntrusivePtr\(\s*\)\s*noexcept', '~IntrusivePtr')
    b_rel = find_body(repo, F, T + r'T\s*\*\s*' + Q + r'Release\(\s*\)\s*noexcept', 'IntrusivePtr::Release')
    b_sw = find_body(repo, F, T + r'void\s+' + Q + r'Swap\(\s*IntrusivePtr\s*&\s*other\s*\)\s*noexcept', 'IntrusivePtr::Swap')
    b_rs = find_body(repo, F, T + r'void\s+' + Q + r'Reset\(\s*NoRefTag\s*,\s*T\s*\*\s*other\s*\)\s*noexcept', 'IntrusivePtr::Reset')
    b_ar = find_body(repo, F, T + r'IntrusivePtr<T>\s*&\s*' + Q + r'operator=\(\s*T\s*\*\s*other\s*\)\s*noexcept', 'IntrusivePtr::operator=(T*)')
    b_am = find_body(repo, F, T + r'IntrusivePtr<T>\s*&\s*' + Q + r'operator=\(\s*IntrusivePtr\s*&&\s*other\s*\)\s*noexcept', 'IntrusivePtr::operator=(IntrusivePtr&&)')
    b_ac = find_body(repo, F, T + r'IntrusivePtr<T>\s*&\s*' + Q + r'operator=\(\s*const\s+IntrusivePtr\s*&\s*other\s*\)\s*noexcept', 'IntrusivePtr::operator=(const IntrusivePtr&)')
    # the converting overloads must be textually the same operations
    txt_needed = [r'IntrusivePtr\(\s*IntrusivePtr<U>\s*&&\s*other\s*\)\s*noexcept\s*:\s*_ptr\{\s*other\._ptr\s*\}\s*\{\s*other\._ptr\s*=\s*nullptr\s*;\s*\}',
                  r'IntrusivePtr\(\s*const\s+IntrusivePtr<U>\s*&\s*other\s*\)\s*noexcept\s*:\s*IntrusivePtr\{\s*other\._ptr\s*\}\s*\{\s*\}']
    from vf.extract import read_source
    whole = read_source(repo, F)[1]
    for pat in txt_needed:
        if not re.search(pat, whole):
            raise ExtractionBreak('IntrusivePtr: converting constructor no longer has the pinned shape: ' + pat[:60])
    FR = '__CPROVER_is_fresh(self, sizeof(*self))'
    src = COMMON + '''void CtorRaw(Ptr* self, Obj* other) __CPROVER_requires(''' + FR + ''') __CPROVER_assigns(self->_ptr, g_incs, g_inc_of, g_t_inc, g_clock)
/* C03: a handle made from a raw pointer takes exactly one reference, none for null */
__CPROVER_ensures(self->_ptr == other && g_incs == OLD(g_incs) + (other != 0 ? 1 : 0) && (other != 0 ==> g_inc_of == other) && g_decs == OLD(g_decs))
{ self->_ptr = other; ''' + rw('IntrusivePtr(T*)', b_raw.text) + '''}
void CtorMove(Ptr* self, Ptr* other) __CPROVER_requires(''' + FR + ''' && __CPROVER_is_fresh(other, sizeof(*other))) __CPROVER_assigns(self->_ptr, other->_ptr)
/* a move transfers the reference: the count is untouched, the source is empty (its destructor gives nothing back) */
__CPROVER_ensures(self->_ptr == OLD(other->_ptr) && other->_ptr == 0)
{ self->_ptr = other->_ptr; ''' + rw('IntrusivePtr(IntrusivePtr&&)', b_mv.text) + '''}
void CtorNoRef(Ptr* self, Obj* other) __CPROVER_requires(''' + FR + ''') __CPROVER_assigns(self->_ptr)
/* NoRefTag: adopts a reference that already exists (count untouched) */
__CPROVER_ensures(self->_ptr == other)
{ self->_ptr = other; ''' + rw('IntrusivePtr(NoRefTag)', b_nr.text) + '''}
void CtorRawS(Ptr* self, Obj* other) __CPROVER_assigns(self->_ptr, g_incs, g_inc_of, g_t_inc, g_clock) __CPROVER_ensures(self->_ptr == other && g_incs == OLD(g_incs) + (other != 0 ? 1 : 0) && (other != 0 ==> g_inc_of == other));
void CtorCopy(Ptr* self, Ptr* other) __CPROVER_requires(''' + FR + ''' && __CPROVER_is_fresh(other, sizeof(*other))) __CPROVER_assigns(self->_ptr, g_incs, g_inc_of, g_t_inc, g_clock)
/* a copy takes its own reference (delegating constructor IntrusivePtr{other._ptr}) */
__CPROVER_ensures(self->_ptr == other->_ptr && g_incs == OLD(g_incs) + (other->_ptr != 0 ? 1 : 0) && other->_ptr == OLD(other->_ptr))
{ CtorRawS(self, other->_ptr); ''' + rw('IntrusivePtr(const IntrusivePtr&)', b_cp.text) + '''}
void Dtor(Ptr* self) __CPROVER_requires(''' + FR + ''') __CPROVER_assigns(g_decs, g_dec_of, g_t_dec, g_clock)
/* C03: the destructor gives back exactly the one reference the handle stands for, nothing for an empty handle */
__CPROVER_ensures(g_decs == OLD(g_decs) + (self->_ptr != 0 ? 1 : 0) && (self->_ptr != 0 ==> g_dec_of == self->_ptr) && g_incs == OLD(g_incs))
{''' + rw('~IntrusivePtr', b_d.text) + '''}
Obj* Release(Ptr* self) __CPROVER_requires(''' + FR + ''') __CPROVER_assigns(self->_ptr)
/* Release hands the reference to the caller: count untouched, the handle is empty afterwards */
__CPROVER_ensures(RET == OLD(self->_ptr) && self->_ptr == 0)
{''' + rw('Release', b_rel.text) + '''}
void Swap(Ptr* self, Ptr* other) __CPROVER_requires(''' + FR + ''' && __CPROVER_is_fresh(other, sizeof(*other))) __CPROVER_assigns(self->_ptr, other->_ptr)
__CPROVER_ensures(self->_ptr == OLD(other->_ptr) && other->_ptr == OLD(self->_ptr))
{''' + rw('Swap', b_sw.text) + '''}
void ResetNoRef(Ptr* self, Obj* other) __CPROVER_requires(''' + FR + ''') __CPROVER_assigns(self->_ptr)
__CPROVER_ensures(self->_ptr == other)
{''' + rw('Reset', b_rs.text) + '''}
void h1(void) { ghost_reset(); Ptr* p; Obj* o; CtorRaw(p, o); if (o) VF_CANARY("took one"); else VF_CANARY("null"); }
void h2(void) { ghost_reset(); Ptr* p; Ptr* q; CtorMove(p, q); VF_CANARY("end"); }
void h3(void) { ghost_reset(); Ptr* p; Obj* o; CtorNoRef(p, o); VF_CANARY("end"); }
void h4(void) { ghost_reset(); Ptr* p; Ptr* q; CtorCopy(p, q); VF_CANARY("end"); }
void h5(void) { ghost_reset(); Ptr* p; Dtor(p); if (g_decs) VF_CANARY("gave one back"); else VF_CANARY("empty"); }
void h6(void) { ghost_reset(); Ptr* p; Release(p); VF_CANARY("end"); }
void h7(void) { ghost_reset(); Ptr* p; Ptr* q; Swap(p, q); VF_CANARY("end"); }
void h8(void) { ghost_reset(); Ptr* p; Obj* o; ResetNoRef(p, o); VF_CANARY("end"); }
'''

    def job(name, b, enforce, entry, replace=(), canaries=1, source=None):
        out.append(Job('intrusive_ptr/' + name, props, source or src, entry, enforce=enforce, replace=list(replace), funcs=b if isinstance(b, list) else [b], canaries=canaries, expect=[r'postcondition'], meta={'fn': name}))
    job('ctor.raw', b_raw, 'CtorRaw', 'h1', ['IncRef'], canaries=2)
    job('ctor.move', b_mv, 'CtorMove', 'h2')
    job('ctor.noref', b_nr, 'CtorNoRef', 'h3')
    job('ctor.copy', b_cp, 'CtorCopy', 'h4', ['CtorRawS'])
    job('dtor', b_d, 'Dtor', 'h5', ['DecRef'], canaries=2)
    job('Release', b_rel, 'Release', 'h6')
    job('Swap', b_sw, 'Swap', 'h7')
    job('Reset.noref', b_rs, 'ResetNoRef', 'h8')
    # assignments: built from the pieces above (used through their contracts)
    STUBS = '''void CtorRaw(Ptr* self, Obj* other) __CPROVER_assigns(self->_ptr, g_incs, g_inc_of, g_t_inc, g_clock) __CPROVER_ensures(self->_ptr == other && g_incs == OLD(g_incs) + (other != 0 ? 1 : 0) && (other != 0 ==> (g_inc_of == other && g_t_inc == OLD(g_clock) && g_clock == OLD(g_clock) + 1)) && (other == 0 ==> g_clock == OLD(g_clock)));
void Dtor(Ptr* self) __CPROVER_assigns(g_decs, g_dec_of, g_t_dec, g_clock) __CPROVER_ensures(g_decs == OLD(g_decs) + (self->_ptr != 0 ? 1 : 0) && (self->_ptr != 0 ==> (g_dec_of == self->_ptr && g_t_dec == OLD(g_clock) && g_clock == OLD(g_clock) + 1)));
void Swap(Ptr* self, Ptr* other) __CPROVER_assigns(self->_ptr, other->_ptr) __CPROVER_ensures(self->_ptr == OLD(other->_ptr) && other->_ptr == OLD(self->_ptr));
void CtorMove(Ptr* self, Ptr* other) __CPROVER_assigns(self->_ptr, other->_ptr) __CPROVER_ensures(self->_ptr == OLD(other->_ptr) && other->_ptr == 0);
'''
    src2 = COMMON + STUBS + '''void AssignRaw(Ptr* self, Obj* other) __CPROVER_requires(''' + FR + ''') __CPROVER_assigns(self->_ptr, g_incs, g_inc_of, g_t_inc, g_decs, g_dec_of, g_t_dec, g_clock)
/* p = raw: afterwards p stands for one reference on `other`; the new reference is taken BEFORE the old one is given back (safe when both name the same object through different paths);
   assigning the pointer it already holds does nothing */
__CPROVER_ensures(self->_ptr == other)
__CPROVER_ensures(OLD(self->_ptr) == other ? (g_incs == OLD(g_incs) && g_decs == OLD(g_decs))
                                          : (g_incs == OLD(g_incs) + (other != 0 ? 1 : 0) && g_decs == OLD(g_decs) + (OLD(self->_ptr) != 0 ? 1 : 0) && (OLD(self->_ptr) != 0 ==> g_dec_of == OLD(self->_ptr))
                                             && ((other != 0 && OLD(self->_ptr) != 0) ==> g_t_inc < g_t_dec)))
{''' + rw('operator=(T*)', b_ar.text) + '''}
void AssignMove(Ptr* self, Ptr* other) __CPROVER_requires(''' + FR + ''' && __CPROVER_is_fresh(other, sizeof(*other))) __CPROVER_assigns(self->_ptr, other->_ptr)
/* p = std::move(q): the two handles trade their references (q's destructor gives back p's old one): counts untouched here */
__CPROVER_ensures(self->_ptr == OLD(other->_ptr) && other->_ptr == OLD(self->_ptr) && g_incs == OLD(g_incs) && g_decs == OLD(g_decs))
{''' + rw('operator=(IntrusivePtr&&)', b_am.text) + '''}
void AssignRawS(Ptr* self, Obj* other) __CPROVER_assigns(self->_ptr, g_incs, g_inc_of, g_t_inc, g_decs, g_dec_of, g_t_dec, g_clock) __CPROVER_ensures(self->_ptr == other);
#define AssignRaw_used AssignRawS
void AssignCopy(Ptr* self, Ptr* other) __CPROVER_requires(''' + FR + ''' && __CPROVER_is_fresh(other, sizeof(*other))) __CPROVER_assigns(self->_ptr, g_incs, g_inc_of, g_t_inc, g_decs, g_dec_of, g_t_dec, g_clock)
__CPROVER_ensures(self->_ptr == other->_ptr && other->_ptr == OLD(other->_ptr))
{''' + rw('operator=(const IntrusivePtr&)', b_ac.text).replace('AssignRaw(self', 'AssignRawS(self') + '''}
void h1(void) { ghost_reset(); Ptr* p; Obj* o; AssignRaw(p, o); if (g_incs && g_decs) VF_CANARY("replaced"); else VF_CANARY("other cases"); }
void h2(void) { ghost_reset(); Ptr* p; Ptr* q; AssignMove(p, q); VF_CANARY("end"); }
void h3(void) { ghost_reset(); Ptr* p; Ptr* q; AssignCopy(p, q); VF_CANARY("end"); }
'''
    job('assign.raw', b_ar, 'AssignRaw', 'h1', ['CtorRaw', 'Dtor', 'Swap', 'IncRef', 'DecRef'], canaries=2, source=src2)
    job('assign.move', b_am, 'AssignMove', 'h2', ['Swap', 'CtorMove', 'Dtor', 'CtorRaw', 'IncRef', 'DecRef'], source=src2)
    job('assign.copy', b_ac, 'AssignCopy', 'h3', ['AssignRawS'], source=src2)
    return out
