"""Coroutine guard classes (coro/detail/guard_state.hpp, coro/guard.hpp, coro/guard_sticky.hpp):  C14, C15.

The guards are bookkeeping around the mutex contracts of units coro_mutex / shared_mutex: a guard that owns releases exactly once (destructor, Unlock*, UnlockHere), in the
mode it was taken (exclusive / shared), and never releases what it does not own; the sticky awaiters record the coroutine's executor exactly when the lock was obtained by
suspension and bring the coroutine home on unlock.
"""
import re

from vf.cxx2c import Rewriter
from vf.extract import ExtractionBreak, find_body
from vf.runner import Job

F_GS = 'include/yaclib/coro/detail/guard_state.hpp'
F_G = 'include/yaclib/coro/guard.hpp'
F_ST = 'include/yaclib/coro/guard_sticky.hpp'

TRUSTED = ['the mutex operations called by the guards (units coro_mutex, shared_mutex)', 'mutex objects are at least 2-aligned (the guard keeps its ownership bit in bit 0 of the pointer)',
           'compiler axioms of C13 for the sticky awaiters']
DROPPED = ['`static_cast<M*>(XState())` is the pointer itself; `if constexpr (Shared)` is the configuration macro Shared']
ASSUMPTIONS = []

COMMON = r'''
#include "vf.h"
typedef struct Guard { uintptr_t _state; void* _executor; } Guard;
#define kMask (~(uintptr_t)1)
#define ALIGNED(p) ((((uintptr_t)(p)) & 1) == 0)
unsigned g_unlock_here, g_unlock_here_shared, g_try, g_try_shared; void* g_on; unsigned char g_try_ok;
static void ghost_reset(void) { g_unlock_here = g_unlock_here_shared = g_try = g_try_shared = 0; g_try_ok = nondet_bool(); }
'''


def jobs(ctx):
    repo = ctx.repo
    props = ['C14', 'C15']
    out = []
    W = r'class\s+GuardState\s*\{'

    def job(name, b, src, enforce, replace=(), canaries=1, entry='harness'):
        out.append(Job('guards/' + name, props, src, entry, enforce=enforce, replace=list(replace), funcs=b if isinstance(b, list) else [b], canaries=canaries, expect=[r'postcondition'], meta={'fn': name}))

    # ---- GuardState: pointer + ownership bit ------------------------------------------------------------------------------------------------------
    SIG = {'Ptr': r'void\s*\*\s*Ptr\s*\(\s*\)\s*const', 'Owns': r'bool\s+Owns\s*\(\s*\)\s*const\s*noexcept', 'LockState': r'void\s*\*\s*LockState\s*\(\s*\)\s*noexcept',
           'UnlockState': r'void\s*\*\s*UnlockState\s*\(\s*\)\s*noexcept', 'ReleaseState': r'void\s*\*\s*ReleaseState\s*\(\s*\)\s*noexcept'}
    B = {k: find_body(repo, F_GS, v, 'GuardState::' + k, within=W) for k, v in SIG.items()}
    pre = [(r'reinterpret_cast<void\s*\*>\(([^;]+)\)\s*;', r'(void*)(\1);', 0), (r'\b1U\b', '((uintptr_t)1)', 0)]
    C = {k: Rewriter('GuardState::' + k, pre=pre, methods=['Ptr', 'Owns']).rewrite(b.text) for k, b in B.items()}
    src = COMMON + '''void* Ptr(Guard* self) __CPROVER_requires(__CPROVER_is_fresh(self, sizeof(*self))) __CPROVER_assigns() __CPROVER_ensures(RET == (void*)(self->_state & kMask)) {%s}
int Owns(Guard* self) __CPROVER_requires(__CPROVER_is_fresh(self, sizeof(*self))) __CPROVER_assigns() __CPROVER_ensures(RET == ((self->_state & 1) != 0)) {%s}
void* PtrS(Guard* self) __CPROVER_assigns() __CPROVER_ensures(RET == (void*)(self->_state & kMask));
int OwnsS(Guard* self) __CPROVER_assigns() __CPROVER_ensures(RET == ((self->_state & 1) != 0));
void* LockState(Guard* self) __CPROVER_requires(__CPROVER_is_fresh(self, sizeof(*self))) __CPROVER_assigns(self->_state)
/* the guard now owns; the mutex it names is unchanged */
__CPROVER_ensures((self->_state & 1) == 1 && (self->_state & kMask) == (OLD(self->_state) & kMask) && RET == (void*)(self->_state & kMask)) {%s}
void* UnlockState(Guard* self) __CPROVER_requires(__CPROVER_is_fresh(self, sizeof(*self))) __CPROVER_assigns(self->_state)
__CPROVER_ensures((self->_state & 1) == 0 && (self->_state & kMask) == (OLD(self->_state) & kMask) && RET == (void*)(self->_state & kMask)) {%s}
void* ReleaseState(Guard* self) __CPROVER_requires(__CPROVER_is_fresh(self, sizeof(*self))) __CPROVER_assigns(self->_state)
/* Release: forgets the mutex without unlocking it and reports which one it was */
__CPROVER_ensures(self->_state == 0 && RET == (void*)(OLD(self->_state) & kMask)) {%s}
void h1(void) { Guard* g; Ptr(g); VF_CANARY("end"); } void h2(void) { Guard* g; Owns(g); VF_CANARY("end"); } void h3(void) { Guard* g; LockState(g); VF_CANARY("end"); }
void h4(void) { Guard* g; UnlockState(g); VF_CANARY("end"); } void h5(void) { Guard* g; ReleaseState(g); VF_CANARY("end"); }
''' % (C['Ptr'], C['Owns'], C['LockState'].replace('Ptr(self)', 'PtrS(self)').replace('Owns(self)', 'OwnsS(self)'), C['UnlockState'].replace('Ptr(self)', 'PtrS(self)').replace('Owns(self)', 'OwnsS(self)'),
       C['ReleaseState'].replace('Ptr(self)', 'PtrS(self)'))
    job('GuardState.Ptr', B['Ptr'], src, 'Ptr', entry='h1')
    job('GuardState.Owns', B['Owns'], src, 'Owns', entry='h2')
    job('GuardState.LockState', B['LockState'], src, 'LockState', ['PtrS', 'OwnsS'], entry='h3')
    job('GuardState.UnlockState', B['UnlockState'], src, 'UnlockState', ['PtrS', 'OwnsS'], entry='h4')
    job('GuardState.ReleaseState', B['ReleaseState'], src, 'ReleaseState', ['PtrS'], entry='h5')
    # move constructor: the source loses ownership, the target gets exactly the source's state (initialiser `_state{other._state}` + body)
    from vf.extract import Body, match_brace, read_source
    txt = read_source(repo, F_GS)[1]
    mm = re.search(r'GuardState\s*\(\s*GuardState\s*&&\s*other\s*\)\s*noexcept\s*:\s*_state\s*\{\s*other\._state\s*\}\s*\{', txt)
    if not mm:
        raise ExtractionBreak('GuardState(GuardState&&): move constructor with initialiser _state{other._state} not found')
    close = match_brace(txt, mm.end() - 1)
    b_mv = Body(F_GS, 'GuardState(GuardState&&)', txt[mm.end():close], txt.count('\n', 0, mm.start()) + 1, txt.count('\n', 0, close) + 1, sig=mm.group(0))
    c = Rewriter('GuardState(GuardState&&)', refs=['other']).rewrite(b_mv.text)
    src = COMMON + '''void MoveCtor(Guard* self, Guard* other) __CPROVER_requires(__CPROVER_is_fresh(self, sizeof(*self)) && __CPROVER_is_fresh(other, sizeof(*other))) __CPROVER_assigns(self->_state, other->_state)
/* moving a guard moves the ownership: afterwards at most one of the two owns (no double unlock), the mutex named is kept by both */
__CPROVER_ensures(self->_state == OLD(other->_state) && other->_state == (OLD(other->_state) & kMask))
{ self->_state = other->_state; /* member initialiser _state{other._state} (matched in the signature) */ ''' + c + '''}
void harness(void) { Guard* a; Guard* b; MoveCtor(a, b); VF_CANARY("end"); }
'''
    job('GuardState.move', b_mv, src, 'MoveCtor')
    # ---- Guard<M, Shared> ------------------------------------------------------------------------------------------------------------------------------
    WG = r'class\s+Guard\s*:\s*protected\s+detail::GuardState\s*\{'
    b_d = find_body(repo, F_G, r'~Guard\s*\(\s*\)\s*noexcept', 'Guard::~Guard', within=WG)
    b_t = find_body(repo, F_G, r'bool\s+TryLock\s*\(\s*\)\s*noexcept', 'Guard::TryLock', within=WG)
    b_u = find_body(repo, F_G, r'void\s+UnlockHere\s*\(\s*\)\s*noexcept', 'Guard::UnlockHere', within=WG)
    b_i = find_body(repo, F_G, r'static\s+bool\s+TryLockImpl\s*\(\s*M\s*&\s*m\s*\)', 'Guard::TryLockImpl', within=WG)
    gpre = [(r'auto\s*\*\s*m\s*=\s*static_cast<M\s*\*>\(\s*(LockState|UnlockState)\(\)\s*\)\s*;', r'void* m = \1(self);', 0), (r'if\s*\(\s*\*this\s*\)', 'if (OwnsLock(self))', 0), (r'(?<![\w.>:])Owns\(\s*\)', 'OwnsLock(self)', 0), (r'static_cast<bool>\(\s*\*this\s*\)', 'OwnsLock(self)', 0),
            (r'm->UnlockHereShared\(\)', 'M_UnlockHereShared(m)', 0), (r'm->UnlockHere\(\)', 'M_UnlockHere(m)', 0), (r'TryLockImpl\(\s*\*m\s*\)', 'TryLockImpl(m)', 0),
            (r'm\.TryLockShared\(\)', 'M_TryLockShared(m)', 0), (r'm\.TryLock\(\)', 'M_TryLock(m)', 0)]
    STUBS = '''void M_UnlockHere(void* m) __CPROVER_requires(m != 0) __CPROVER_assigns(g_unlock_here, g_on) __CPROVER_ensures(g_unlock_here == OLD(g_unlock_here) + 1 && g_on == m);
void M_UnlockHereShared(void* m) __CPROVER_requires(m != 0) __CPROVER_assigns(g_unlock_here_shared, g_on) __CPROVER_ensures(g_unlock_here_shared == OLD(g_unlock_here_shared) + 1 && g_on == m);
int M_TryLock(void* m) __CPROVER_requires(m != 0) __CPROVER_assigns(g_try, g_on) __CPROVER_ensures(g_try == OLD(g_try) + 1 && g_on == m && RET == g_try_ok && g_try_ok <= 1);
int M_TryLockShared(void* m) __CPROVER_requires(m != 0) __CPROVER_assigns(g_try_shared, g_on) __CPROVER_ensures(g_try_shared == OLD(g_try_shared) + 1 && g_on == m && RET == g_try_ok && g_try_ok <= 1);
void* LockState(Guard* self) __CPROVER_assigns(self->_state) __CPROVER_ensures((self->_state & 1) == 1 && (self->_state & kMask) == (OLD(self->_state) & kMask) && RET == (void*)(self->_state & kMask));
void* UnlockState(Guard* self) __CPROVER_assigns(self->_state) __CPROVER_ensures((self->_state & 1) == 0 && (self->_state & kMask) == (OLD(self->_state) & kMask) && RET == (void*)(self->_state & kMask));
int OwnsLock(Guard* self) __CPROVER_assigns() __CPROVER_ensures(RET == ((self->_state & 1) != 0));
'''
    for shared in (0, 1):
        cd = Rewriter('Guard::~Guard', pre=gpre, methods=['UnlockHere']).rewrite(b_d.text)
        ct = Rewriter('Guard::TryLock', pre=gpre, methods=['UnlockState']).rewrite(b_t.text)
        cu = Rewriter('Guard::UnlockHere', pre=gpre).rewrite(b_u.text)
        ci = Rewriter('Guard::TryLockImpl', pre=gpre, refs=[]).rewrite(b_i.text)
        MODE = 'g_unlock_here_shared' if shared else 'g_unlock_here'
        OTHER = 'g_unlock_here' if shared else 'g_unlock_here_shared'
        src = COMMON + '#define Shared %d\n' % shared + STUBS + '''int TryLockImpl(void* m) __CPROVER_requires(m != 0 && g_try == 0 && g_try_shared == 0) __CPROVER_assigns(g_try, g_try_shared, g_on)
/* the try form of the guard's own mode, once */
__CPROVER_ensures((Shared ? (g_try_shared == 1 && g_try == 0) : (g_try == 1 && g_try_shared == 0)) && g_on == m && RET == g_try_ok)
{''' + ci + '''}
void UnlockHere(Guard* self)
__CPROVER_requires(__CPROVER_is_fresh(self, sizeof(*self)) && (self->_state & kMask) != 0 && g_unlock_here == 0 && g_unlock_here_shared == 0)
__CPROVER_assigns(self->_state, g_unlock_here, g_unlock_here_shared, g_on)
/* the guard gives up ownership and releases its mutex exactly once, in the mode it was taken (a SharedGuard never releases exclusively and vice versa) */
__CPROVER_ensures((self->_state & 1) == 0 && ''' + MODE + ''' == 1 && ''' + OTHER + ''' == 0 && g_on == (void*)(self->_state & kMask))
{''' + cu + '''}
void UnlockHereS(Guard* self) __CPROVER_requires((self->_state & kMask) != 0 && (self->_state & 1) != 0 && g_unlock_here == 0 && g_unlock_here_shared == 0) __CPROVER_assigns(self->_state, g_unlock_here, g_unlock_here_shared, g_on)
  __CPROVER_ensures((self->_state & 1) == 0 && ''' + MODE + ''' == 1 && ''' + OTHER + ''' == 0);
void Dtor(Guard* self)
__CPROVER_requires(__CPROVER_is_fresh(self, sizeof(*self)) && ((self->_state & 1) ==> (self->_state & kMask) != 0) && g_unlock_here == 0 && g_unlock_here_shared == 0)
__CPROVER_assigns(self->_state, g_unlock_here, g_unlock_here_shared, g_on)
/* C14 / C15: a guard that owns releases exactly once when it dies; a guard that does not own (moved-from, released, failed try, already unlocked) releases nothing */
__CPROVER_ensures(''' + MODE + ''' == ((OLD(self->_state) & 1) ? 1 : 0) && ''' + OTHER + ''' == 0)
{''' + cd.replace('UnlockHere(self)', 'UnlockHereS(self)') + '''}
int TryLockImplS(void* m) __CPROVER_requires(m != 0 && g_try == 0 && g_try_shared == 0) __CPROVER_assigns(g_try, g_try_shared, g_on) __CPROVER_ensures(g_try + g_try_shared == 1 && g_on == m && RET == g_try_ok && g_try_ok <= 1);
int TryLock(Guard* self)
__CPROVER_requires(__CPROVER_is_fresh(self, sizeof(*self)) && (self->_state & kMask) != 0 && (self->_state & 1) == 0 && g_try == 0 && g_try_shared == 0)
__CPROVER_assigns(self->_state, g_try, g_try_shared, g_on)
/* the guard owns afterwards exactly if the try succeeded */
__CPROVER_ensures(RET == g_try_ok && ((self->_state & 1) != 0) == (RET != 0) && (self->_state & kMask) == (OLD(self->_state) & kMask) && g_try + g_try_shared == 1)
{''' + ct.replace('TryLockImpl(m)', 'TryLockImplS(m)') + '''}
void h1(void) { ghost_reset(); void* m; __CPROVER_assume(m != 0); TryLockImpl(m); VF_CANARY("end"); }
void h2(void) { ghost_reset(); Guard* g; UnlockHere(g); VF_CANARY("end"); }
void h3(void) { ghost_reset(); Guard* g; Dtor(g); if (g_unlock_here + g_unlock_here_shared) VF_CANARY("released"); else VF_CANARY("nothing to release"); }
void h4(void) { ghost_reset(); Guard* g; int r = TryLock(g); if (r) VF_CANARY("owns"); else VF_CANARY("does not own"); }
'''
        job('Guard.TryLockImpl.shared%d' % shared, b_i, src, 'TryLockImpl', ['M_TryLock', 'M_TryLockShared'], entry='h1')
        job('Guard.UnlockHere.shared%d' % shared, b_u, src, 'UnlockHere', ['UnlockState', 'M_UnlockHere', 'M_UnlockHereShared'], entry='h2')
        job('Guard.dtor.shared%d' % shared, b_d, src, 'Dtor', ['OwnsLock', 'UnlockHereS'], canaries=2, entry='h3')
        job('Guard.TryLock.shared%d' % shared, b_t, src, 'TryLock', ['LockState', 'UnlockState', 'TryLockImplS'], canaries=2, entry='h4')
    # ---- sticky awaiters ----------------------------------------------------------------------------------------------------------------------------------------
    WL = r'class\s+\[\[nodiscard\]\]\s+LockStickyAwaiter\s*\{'
    WU = r'class\s+\[\[nodiscard\]\]\s+UnlockStickyAwaiter\s*\{'
    b_lr = find_body(repo, F_ST, r'bool\s+await_ready\s*\(\s*\)\s*noexcept', 'LockStickyAwaiter::await_ready', within=WL)
    b_ls = find_body(repo, F_ST, r'bool\s+await_suspend\s*\(', 'LockStickyAwaiter::await_suspend', within=WL)
    b_ur = find_body(repo, F_ST, r'bool\s+await_ready\s*\(\s*\)\s*noexcept', 'UnlockStickyAwaiter::await_ready', within=WU)
    b_us = find_body(repo, F_ST, r'auto\s+await_suspend\s*\(', 'UnlockStickyAwaiter::await_suspend', within=WU)
    spre = [(r'auto\s*&\s*promise\s*=\s*handle\.promise\(\)\s*;', '', 0), (r'_executor\s*=\s*promise\._executor\.Get\(\)\s*;', '*self->_executor = promise->_executor;', 0),
            (r'_mutex\.TryLockAwait\(\)', 'TryLockAwait(self->_mutex)', 0), (r'_mutex\.AwaitLock\(\s*promise\s*\)', 'AwaitLock(self->_mutex, promise)', 0),
            (r'\b_executor\s*=\s*nullptr\s*;', '*self->_executor = NULL;', 0), (r'_mutex\.UnlockHere\(\)', 'M_UnlockHere(self->_mutex)', 0),
            (r'_mutex\.AwaitUnlockOn\(\s*handle\.promise\(\)\s*,\s*\*_executor\s*\)', 'AwaitUnlockOn(self->_mutex, promise, self->_e)', 0), (r'\b_executor\s*!=\s*nullptr', 'self->_e != NULL', 0)]
    SS = COMMON + '''typedef struct Core { void* _executor; } Core;
typedef struct LA { void* _mutex; void** _executor; } LA;      /* _executor is a reference to the guard's field */
typedef struct UA { void* _mutex; void* _e; } UA;
unsigned g_tla, g_al, g_auo; unsigned char g_ok, g_parked; void* g_auo_e; Core* g_auo_p; int g_auo_ret;
int TryLockAwait(void* m) __CPROVER_requires(m != 0 && g_tla == 0) __CPROVER_assigns(g_tla) __CPROVER_ensures(g_tla == 1 && RET == g_ok && g_ok <= 1);
int AwaitLock(void* m, Core* p) __CPROVER_requires(m != 0 && g_al == 0) __CPROVER_assigns(g_al) __CPROVER_ensures(g_al == 1 && RET == g_parked && g_parked <= 1);
void M_UnlockHere(void* m) __CPROVER_requires(m != 0) __CPROVER_assigns(g_unlock_here) __CPROVER_ensures(g_unlock_here == OLD(g_unlock_here) + 1);
int AwaitUnlockOn(void* m, Core* p, void* e) __CPROVER_requires(m != 0 && e != 0 && g_auo == 0) __CPROVER_assigns(g_auo, g_auo_e, g_auo_p) __CPROVER_ensures(g_auo == 1 && g_auo_e == e && g_auo_p == p && RET == g_auo_ret);
'''
    src = SS + '''int lock_ready(LA* self) __CPROVER_requires(__CPROVER_is_fresh(self, sizeof(*self)) && __CPROVER_is_fresh(self->_executor, sizeof(void*)) && self->_mutex != 0 && g_tla == 0) __CPROVER_assigns(*self->_executor, g_tla)
/* StickyGuard lock, fast path: acquired without suspending => no executor is remembered (the coroutine never left its executor) */
__CPROVER_ensures(*self->_executor == 0 && g_tla == 1 && RET == g_ok)
{''' + Rewriter('LockStickyAwaiter::await_ready', pre=spre).rewrite(b_lr.text) + '''}
int lock_suspend(LA* self, Core* promise)
__CPROVER_requires(__CPROVER_is_fresh(self, sizeof(*self)) && __CPROVER_is_fresh(self->_executor, sizeof(void*)) && __CPROVER_is_fresh(promise, sizeof(*promise)) && self->_mutex != 0 && promise->_executor != 0 && g_al == 0)
__CPROVER_assigns(*self->_executor, g_al)
/* slow path: the coroutine's executor is remembered exactly if the coroutine was parked (it will be resumed wherever the unlocker runs); written BEFORE AwaitLock publishes the node */
__CPROVER_ensures(g_al == 1 && RET == g_parked && *self->_executor == (g_parked ? promise->_executor : (void*)0))
{''' + Rewriter('LockStickyAwaiter::await_suspend', pre=spre).rewrite(b_ls.text) + '''}
int unlock_ready(UA* self) __CPROVER_requires(__CPROVER_is_fresh(self, sizeof(*self)) && self->_mutex != 0 && g_unlock_here == 0) __CPROVER_assigns(g_unlock_here)
/* StickyGuard unlock: no remembered executor => plain release, once; otherwise nothing yet (the release happens in await_suspend together with the way home) */
__CPROVER_ensures(RET == (self->_e == 0) && g_unlock_here == (self->_e == 0 ? 1 : 0))
{''' + Rewriter('UnlockStickyAwaiter::await_ready', pre=spre).rewrite(b_ur.text) + '''}
int unlock_suspend(UA* self, Core* promise) __CPROVER_requires(__CPROVER_is_fresh(self, sizeof(*self)) && self->_mutex != 0 && self->_e != 0 && g_auo == 0) __CPROVER_assigns(g_auo, g_auo_e, g_auo_p)
/* ... release + resubmission of this coroutine to the remembered executor, exactly once (AwaitUnlockOn is proved in unit coro_mutex) */
__CPROVER_ensures(g_auo == 1 && g_auo_e == self->_e && g_auo_p == promise && RET == g_auo_ret)
{''' + Rewriter('UnlockStickyAwaiter::await_suspend', pre=spre).rewrite(b_us.text) + '''}
void h1(void) { g_tla = 0; LA* a; lock_ready(a); VF_CANARY("end"); }
void h2(void) { g_al = 0; LA* a; Core* p; int r = lock_suspend(a, p); if (r) VF_CANARY("parked"); else VF_CANARY("acquired"); }
void h3(void) { g_unlock_here = 0; UA* a; int r = unlock_ready(a); if (r) VF_CANARY("released here"); else VF_CANARY("goes home"); }
void h4(void) { g_auo = 0; UA* a; Core* p; unlock_suspend(a, p); VF_CANARY("end"); }
'''
    job('LockStickyAwaiter.await_ready', b_lr, src, 'lock_ready', ['TryLockAwait'], entry='h1')
    job('LockStickyAwaiter.await_suspend', b_ls, src, 'lock_suspend', ['AwaitLock'], canaries=2, entry='h2')
    job('UnlockStickyAwaiter.await_ready', b_ur, src, 'unlock_ready', ['M_UnlockHere'], canaries=2, entry='h3')
    job('UnlockStickyAwaiter.await_suspend', b_us, src, 'unlock_suspend', ['AwaitUnlockOn'], entry='h4')
    return out
