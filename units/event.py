"""OneShotEvent / WaitGroup / AtomicCounter / MutexEvent / AtomicEvent:  C16, parts of C11, C03, C04.

R/G contracts on the event head (A.2 shape: 0 / list / kAllDone) + counter-to-zero contract + two-owner timed waiter
+ monitor invariant for MutexEvent.
"""
import re

from vf.cxx2c import Rewriter, attach_loop_contracts, expand_lock
from vf.extract import ExtractionBreak, find_body
from vf.runner import Job

F_EV = 'src/algo/one_shot_event.cpp'
F_EVH = 'include/yaclib/algo/one_shot_event.hpp'
F_CNT = 'include/yaclib/util/detail/atomic_counter.hpp'
F_WG = 'include/yaclib/algo/wait_group.hpp'
F_WE = 'include/yaclib/algo/detail/wait_event.hpp'
F_DEL = 'include/yaclib/util/detail/set_deleter.hpp'
F_ME = 'src/util/mutex_event.cpp'
F_AE = 'src/util/atomic_event.cpp'

TRUSTED = ['Job::Call of registered waiters (interface contract; Waiter::Call, TimedWaiter::Call, the coroutine awaiters are proved against it)',
           'std::condition_variable / mutex semantics for MutexEvent (wait releases and re-acquires, may wake spuriously; the predicate forms return the predicate evaluated under the mutex, false only after the deadline)']
DROPPED = ['the generic lambda `range` of WaitGroup::InsertRange is abstracted by a contract (returns how many of `count` futures took the callback)',
           'IntrusivePtr<TimedWaiter> local in TimedWait: its destructor is inserted as an explicit DecRef before each return (recipe rule)']
ASSUMPTIONS = ['documented rule: Add is only called while the count is non-zero; every Sub(n) is matched by earlier accounting (n <= count)',
               'Reset() is only called at quiescence (documented)']
# real-code drivers that exercise what this unit proves (thorough tier: sanity run on the tree under check)
DRIVERS = [('wait_group.cpp', [], 'default')]

COMMON = r'''
#include "vf.h"
#include <stdlib.h>
typedef struct Node Node;
typedef Node Job;
struct Node { Node* next; };
typedef struct OneShotEvent { uintptr_t _head; } OneShotEvent;
#define kEmpty ((uintptr_t)0)
#define kAllDone (~(uintptr_t)0)
#define RG_WORD uintptr_t
'''

EV = COMMON + r'''
unsigned long POOL_MAX; Node* pool;
#define POOL_INIT() do { POOL_MAX = nondet_ulong(); __CPROVER_assume(POOL_MAX >= 1 && POOL_MAX <= (1UL << 40)); \
                         pool = malloc(sizeof(Node) * POOL_MAX); __CPROVER_assume(pool != 0); } while (0)
enum { ROLE_ADD, ROLE_SET };
struct Ghost {
  int role;
  uintptr_t me;                 /* adder: identity of the job it registers */
  unsigned char done;           /* head == kAllDone: the count reached zero and Set ran its exchange */
  unsigned char linked;         /* adder: own job is registered */
  unsigned char saw_done;       /* adder: observed kAllDone */
  unsigned long n;              /* setter: registered jobs in the head */
  unsigned long taken, dead;    /* setter: private list length, jobs already called */
  unsigned char has_list;
  uintptr_t value;              /* setter: value being exchanged in (kAllDone for Set, kEmpty for Call) */
} g;
Node* g_me_node;                /* bound by assignment (prologue) */
static void ghost_havoc(void) {
  g.role = nondet_int(); g.me = nondet_ulong(); g.done = nondet_bool(); g.linked = nondet_bool(); g.saw_done = 0;
  g.n = nondet_ulong(); g.taken = 0; g.dead = 0; g.has_list = 0; g.value = nondet_ulong();
}
#define HEAD_OF(n) ((n) ? (uintptr_t)&pool[0] : kEmpty)
#define INV(W) (g.done <= 1 && g.linked <= 1 && g.n <= POOL_MAX && (((W) == kAllDone) == g.done) && g.me != kEmpty && g.me != kAllDone)
static inline void rg_env(RG_WORD* p) {
  if (g.role == ROLE_ADD) {
    if (g.done) return;                      /* once all-done the head never changes again (until Reset at quiescence) */
    if (nondet_bool()) {                     /* other adders push, or a Call() empties the list */
      uintptr_t w = nondet_ulong();
      __CPROVER_assume(w != kAllDone && (w != g.me || g.linked));
      *p = w;
    } else if (nondet_bool()) { *p = kAllDone; g.done = 1; }
  } else {
    if (g.has_list || g.done) return;
    unsigned long n2 = nondet_ulong();
    __CPROVER_assume(n2 >= g.n && n2 <= POOL_MAX);
    g.n = n2; *p = HEAD_OF(g.n);
  }
  __CPROVER_assert(INV(*p), "rely preserves the event invariant");
}
static inline void rg_read(RG_WORD* p, RG_WORD v, int mo) {
  if (g.role == ROLE_ADD && v == kAllDone) {
    __CPROVER_assert(MO_ACQ(mo), "C04: MO take: observing all-done makes everything before the last Done visible, needs acquire");
    g.saw_done = 1;
  }
}
static inline void rg_write(RG_WORD* p, RG_WORD o, RG_WORD n, int mo, int kind) {
  if (g.role == ROLE_ADD) {
    __CPROVER_assert(o != kAllDone, "G_add: never over all-done");
    __CPROVER_assert(n == g.me && !g.linked && g_me_node->next == (Node*)o, "G_add: pushes its own job, once, linked to the head it replaced");
    __CPROVER_assert(MO_REL(mo), "C04: MO give: registering publishes the waiter object, needs release");
    g.linked = 1;
  } else {
    __CPROVER_assert(kind == RG_XCHG && !g.has_list && n == g.value && o != kAllDone, "G_set: one exchange installing the new head value");
    __CPROVER_assert(MO_ACQ(mo), "C04: MO take: the exchange takes the registered waiter objects, needs acquire");
    __CPROVER_assert(MO_REL(mo), "C04: MO give: all-done publishes everything before the last Done, needs release");
    g.has_list = 1; g.taken = g.n; g.n = 0; g.dead = 0; g.done = (n == kAllDone);
  }
  __CPROVER_assert(INV(*p), "own step preserves the event invariant");
}
#include "rg_atomic.h"
static inline Node* node_next(Node* x) {
  __CPROVER_assert(__CPROVER_same_object(x, pool) && (unsigned long)(x - pool) < g.taken, "read of ->next of a registered waiter");
  unsigned long k = (unsigned long)(x - pool);
  __CPROVER_assert(k >= g.dead, "C03,C16: no access to a waiter after it was released (->next read before Call)");
  return k + 1 < g.taken ? &pool[k + 1] : (Node*)0;
}
#define NODE_NEXT(x) node_next(x)
void Call(Job* j)
__CPROVER_requires(g.has_list && g.dead < g.taken && j == &pool[g.dead])      /* every registered job exactly once, in list order */
__CPROVER_assigns(g.dead)
__CPROVER_ensures(g.dead == OLD(g.dead) + 1);
'''


def event_jobs(ctx, props):
    repo = ctx.repo
    out = []
    b_set = find_body(repo, F_EV, r'void\s+SetImpl\s*\(', 'SetImpl')
    b_try = find_body(repo, F_EV, r'bool\s+OneShotEvent::TryAdd\s*\(', 'OneShotEvent::TryAdd')
    b_ready = find_body(repo, F_EV, r'bool\s+OneShotEvent::Ready\s*\(', 'OneShotEvent::Ready')
    b_wait = find_body(repo, F_EV, r'void\s+OneShotEvent::Wait\s*\(', 'OneShotEvent::Wait')
    b_call = find_body(repo, F_EV, r'void\s+OneShotEvent::Call\s*\(', 'OneShotEvent::Call')
    b_sset = find_body(repo, F_EV, r'void\s+OneShotEvent::Set\s*\(', 'OneShotEvent::Set')
    b_reset = find_body(repo, F_EV, r'void\s+OneShotEvent::Reset\s*\(', 'OneShotEvent::Reset')
    b_tw = find_body(repo, F_EVH, r'bool\s+TimedWait\s*\(', 'OneShotEvent::TimedWait')
    b_wc = find_body(repo, F_EVH, r'void\s+Call\s*\(\s*\)\s*noexcept\s+final', 'Waiter::Call', within=r'struct\s+Waiter\s*:')
    b_twc = find_body(repo, F_EVH, r'void\s+Call\s*\(\s*\)\s*noexcept\s+final', 'TimedWaiter::Call', within=r'struct\s+TimedWaiter\s*:')

    # ---- SetImpl: exchange + walk ---------------------------------------------------------------------
    c = Rewriter('SetImpl', atomics=['word_ref'], omethods=['Call'], types={'Job*': 'Job*'},
                 pre=[(r'\bself\s*\.', 'word_ref.', 1)], post=[(r'(\b\w+)->next\b(?!\s*=[^=])', r'NODE_NEXT(\1)', 1)]).rewrite(b_set.text)
    inv = ('__CPROVER_assigns(job, g.dead)\n'
           '__CPROVER_loop_invariant(g.has_list && g.taken <= POOL_MAX && g.dead <= g.taken && job == (g.dead < g.taken ? &pool[g.dead] : (Node*)0))')
    c = attach_loop_contracts('SetImpl', c, [inv])
    contract = '''#define word_ref (*word)   /* the atomic is passed by reference */
void SetImpl(uintptr_t* word, uintptr_t value)
__CPROVER_requires(__CPROVER_is_fresh(word, sizeof(*word)))
__CPROVER_requires(g.role == ROLE_SET && INV(*word) && !g.done && !g.has_list && g.value == value && (value == kEmpty || value == kAllDone) && *word == HEAD_OF(g.n))
__CPROVER_assigns(*word, g)
/* Set: exchanges in the sentinel, calls every registered job exactly once, reading next before the call */
__CPROVER_ensures(g.has_list && g.dead == g.taken)
__CPROVER_ensures(value == kAllDone ==> (g.done && *word == kAllDone))
'''
    harness = ('void harness(void) {\n  ghost_havoc(); POOL_INIT();\n  uintptr_t* w; uintptr_t v = nondet_ulong();\n  SetImpl(w, v);\n'
               '  if (g.taken == 0) VF_CANARY("nobody registered"); else if (g.taken == 1) VF_CANARY("one waiter"); else VF_CANARY("many waiters");\n}\n')
    out.append(Job('event/SetImpl', props, EV + contract + '{' + c + '}\n' + harness, 'harness', enforce='SetImpl', replace=['Call'], loop_contracts=True,
                   funcs=[b_set], canaries=3, expect=[r'postcondition', r'G_set', r'invariant after step|loop_invariant_step', r'no access to a waiter'], meta={'fn': 'SetImpl'}))
    # ---- Set / Call: which sentinel ------------------------------------------------------------------------
    for nm, b, val in (('Set', b_sset, 'kAllDone'), ('Call', b_call, 'kEmpty')):
        cc = Rewriter('OneShotEvent::' + nm, pre=[(r'SetImpl\(\s*_head\s*,', 'SetImpl(&self->_head,', 0), (r'(?<![\w.>:])Call\(\s*\)', 'SetImpl(&self->_head, kEmpty)', 0),
                                                  (r'_head\.(?:store|exchange|compare_exchange_weak|compare_exchange_strong|fetch_\w+)\(', 'HEAD_DIRECT_WRITE(', 0),
                                                  (r'std::memory_order(?:_|::)\w+', '0', 0)], nomembers=['_head']).rewrite(b.text)
        src = COMMON + '''
uintptr_t* g_word; uintptr_t g_value; unsigned g_calls;
#define HEAD_DIRECT_WRITE(...) __CPROVER_assert(0, "C16: Set / Call change the head only through the single exchange of SetImpl (a separate write of the sentinel loses every waiter registered in between)")
void SetImpl(uintptr_t* word, uintptr_t value) __CPROVER_assigns(g_word, g_value, g_calls) __CPROVER_ensures(g_word == word && g_value == value && g_calls == OLD(g_calls) + 1);
void F(OneShotEvent* self)
__CPROVER_requires(__CPROVER_is_fresh(self, sizeof(*self)) && g_calls == 0)
__CPROVER_assigns(g_word, g_value, g_calls)
__CPROVER_ensures(g_calls == 1 && g_word == &self->_head && g_value == %s)
{%s}
void harness(void) { OneShotEvent* e; g_calls = 0; F(e); VF_CANARY("end"); }
''' % (val, cc)
        out.append(Job('event/OneShotEvent.' + nm, props, src, 'harness', enforce='F', replace=['SetImpl'], funcs=[b], expect=[r'postcondition'], meta={'fn': 'OneShotEvent::' + nm}))
    # ---- TryAdd ------------------------------------------------------------------------------------------------
    c = Rewriter('TryAdd', atomics=['_head'], refs=['job'], types={'Job*': 'Job*'}, pre=[(r'OneShotEvent::kAllDone', 'kAllDone', 0)]).rewrite(b_try.text)
    inv = ('__CPROVER_assigns(head, job->next, self->_head, g)\n'
           '__CPROVER_loop_invariant(INV(self->_head) && !g.linked && g.role == ROLE_ADD && g.me == (uintptr_t)job && node == (uintptr_t)job && (head == kAllDone ==> (g.done && g.saw_done)))')
    c = attach_loop_contracts('TryAdd', c, [inv])
    contract_try = '''int TryAdd(OneShotEvent* self, Job* job)
__CPROVER_requires(__CPROVER_is_fresh(self, sizeof(*self)) && __CPROVER_is_fresh(job, sizeof(*job)))
__CPROVER_requires(g.role == ROLE_ADD && INV(self->_head) && !g.linked && !g.saw_done && g.me == (uintptr_t)job)
__CPROVER_assigns(self->_head, job->next, g, g_me_node)
__CPROVER_ensures(INV(self->_head) && (RET == 0 || RET == 1))
/* TryAdd: true => linked before all-done; false => all-done observed */
__CPROVER_ensures(RET == g.linked)
__CPROVER_ensures(!RET ==> (g.done && g.saw_done))
'''
    harness = 'void harness(void) {\n  ghost_havoc();\n  OneShotEvent* e; Job* j;\n  int r = TryAdd(e, j);\n  if (r) VF_CANARY("registered"); else VF_CANARY("all done");\n}\n'
    out.append(Job('event/TryAdd', props, EV + contract_try + '{ g_me_node = job; ' + c + '}\n' + harness, 'harness', enforce='TryAdd', loop_contracts=True, funcs=[b_try],
                   canaries=2, expect=[r'postcondition', r'G_add', r'invariant after step|loop_invariant_step'], meta={'fn': 'TryAdd'}))
    # ---- Ready -------------------------------------------------------------------------------------------------
    c = Rewriter('Ready', atomics=['_head'], pre=[(r'OneShotEvent::kAllDone', 'kAllDone', 0)]).rewrite(b_ready.text)
    src = EV + '''int Ready(OneShotEvent* self)
__CPROVER_requires(__CPROVER_is_fresh(self, sizeof(*self)) && g.role == ROLE_ADD && INV(self->_head) && !g.saw_done)
__CPROVER_assigns(self->_head, g)
/* Ready() true only after the count reached zero (all-done observed, with acquire) */
__CPROVER_ensures(RET ==> (g.done && g.saw_done))
{''' + c + '''}
void harness(void) { ghost_havoc(); OneShotEvent* e; int r = Ready(e); if (r) VF_CANARY("ready"); else VF_CANARY("not ready"); }
'''
    out.append(Job('event/Ready', props, src, 'harness', enforce='Ready', funcs=[b_ready], canaries=2, expect=[r'postcondition'], meta={'fn': 'Ready'}))
    # ---- Wait (blocking) ----------------------------------------------------------------------------------------
    c = Rewriter('Wait', methods=['TryAdd'], pre=[(r'Waiter\s+waiter\s*;', 'Waiter waiter_obj; Waiter* waiter = &waiter_obj;', 1),
                                                  (r'TryAdd\(\s*waiter\s*\)', 'TryAdd(&waiter->job)', 1),
                                                  (r'waiter\.Make\(\)', 'W_Make(waiter)', 1), (r'waiter\.Wait\(\s*token\s*\)', 'W_Wait(waiter, token)', 1)]).rewrite(b_wait.text)
    src = EV + '''
typedef struct Waiter { Job job; int ev; } Waiter;
unsigned char g_my_call_done;     /* the event released this waiter (its Call ran, which only SetImpl does) */
int W_Make(Waiter* w) __CPROVER_assigns() __CPROVER_ensures(1);
/* DefaultEvent::Wait returns only after Set (proved for MutexEvent; AtomicEvent is not compiled in this tree: YACLIB_FUTEX is fixed to 0), and Waiter::Call is exactly Set (own job) */
void W_Wait(Waiter* w, int token) __CPROVER_requires(g.linked) __CPROVER_assigns(g_my_call_done) __CPROVER_ensures(g_my_call_done == 1);
''' + contract_try.replace('__CPROVER_requires(__CPROVER_is_fresh(self, sizeof(*self)) && __CPROVER_is_fresh(job, sizeof(*job)))\n', '').replace('g.me == (uintptr_t)job)', '1)') + ''';
void Wait(OneShotEvent* self)
__CPROVER_requires(__CPROVER_is_fresh(self, sizeof(*self)) && g.role == ROLE_ADD && INV(self->_head) && !g.linked && !g.saw_done && g_my_call_done == 0)
__CPROVER_assigns(self->_head, g, g_me_node, g_my_call_done)
/* Wait returns only after the count has reached zero: all-done was observed, or the own waiter was released by Set; late arrivals return at once */
__CPROVER_ensures((g.saw_done && g.done) || (g.linked && g_my_call_done))
{''' + c + '''}
void harness(void) { ghost_havoc(); OneShotEvent* e; g_my_call_done = 0; Wait(e); if (g.linked) VF_CANARY("blocked then released"); else VF_CANARY("late arrival"); }
'''
    out.append(Job('event/Wait', props, src, 'harness', enforce='Wait', replace=['TryAdd', 'W_Make', 'W_Wait'], funcs=[b_wait], canaries=2, expect=[r'postcondition'], meta={'fn': 'Wait'}))
    # ---- TimedWait: two-owner waiter ----------------------------------------------------------------------------
    c = Rewriter('TimedWait', methods=['TryAdd'], pre=[
        (r'auto\s+waiter\s*=\s*MakeShared<TimedWaiter>\(\s*(\d+)\s*\)\s*;', r'TimedWaiter* waiter = TW_MakeShared(\1);', 1),
        (r'TryAdd\(\s*\*\s*waiter\s*\)', 'TryAdd(&waiter->job)', 1),
        (r'waiter->Make\(\)', 'TW_Make(waiter)', 1),
        (r'waiter->IncRef\(\)', 'TW_IncRef(waiter)', 0),
        (r'waiter->DecRef\(\)', 'TW_DecRef(waiter)', 0),
        (r'waiter->Wait\(\s*token\s*,\s*timeout\s*\)', 'TW_Wait(waiter, token)', 1),
        # the local IntrusivePtr's destructor runs at every return (after the returned expression is evaluated) unless the pointer was Release()d
        (r'\breturn\s+([^;]+);', r'{ int vf_r = (\1); if (waiter) TW_DecRef(waiter); /* ~IntrusivePtr */ return vf_r; }', 1),
        (r'delete\s+waiter\.Release\(\)\s*;', 'TW_Delete(waiter); waiter = 0;', 0),
        (r'waiter\.Release\(\)', 'TW_Release(&waiter)', 0)]).rewrite(b_tw.text)
    src = EV + '''
typedef struct TimedWaiter { Job job; int ev; } TimedWaiter;
struct { long refs; unsigned char alive; unsigned char event_owns; unsigned long allocs; } tw;
unsigned char g_set_seen;
TimedWaiter* TW_MakeShared(unsigned long n) __CPROVER_requires(tw.allocs == 0) __CPROVER_assigns(tw)
  __CPROVER_ensures(__CPROVER_is_fresh(RET, sizeof(TimedWaiter)) && tw.refs == (long)n && tw.alive == 1 && tw.event_owns == 0 && tw.allocs == 1);
int TW_Make(TimedWaiter* w) __CPROVER_requires(tw.alive) __CPROVER_assigns() __CPROVER_ensures(1);
/* MutexEvent timed Wait: true => Set happened (own Call ran) */
int TW_Wait(TimedWaiter* w, int token) __CPROVER_requires(tw.alive && g.linked) __CPROVER_assigns(g_set_seen) __CPROVER_ensures((RET == 0 || RET == 1) && (RET ==> g_set_seen));
/* one reference dropped; the object dies with the last one (the event's Call drops the other) */
void TW_DecRef(TimedWaiter* w) __CPROVER_requires(tw.alive && tw.refs >= 1) __CPROVER_assigns(tw.refs, tw.alive) __CPROVER_ensures(tw.refs == OLD(tw.refs) - 1 && tw.alive == (tw.refs > 0 || tw.event_owns));
void TW_Delete(TimedWaiter* w) __CPROVER_requires(tw.alive && !g.linked) __CPROVER_assigns(tw.refs, tw.alive) __CPROVER_ensures(tw.refs == 0 && tw.alive == 0);
void TW_IncRef(TimedWaiter* w) __CPROVER_requires(tw.alive && tw.refs >= 1 && tw.refs < 8) __CPROVER_assigns(tw.refs) __CPROVER_ensures(tw.refs == OLD(tw.refs) + 1);
TimedWaiter* TW_Release(TimedWaiter** w) __CPROVER_requires(__CPROVER_r_ok(w, sizeof(*w))) __CPROVER_assigns(*w) __CPROVER_ensures(RET == OLD(*w) && *w == 0);
''' + contract_try.replace('__CPROVER_requires(__CPROVER_is_fresh(self, sizeof(*self)) && __CPROVER_is_fresh(job, sizeof(*job)))\n', '').replace('g.me == (uintptr_t)job)', 'tw.alive)\n/* C03,C16: the event may run the waiter\'s Call (Set; DecRef) as soon as it is published, so BOTH owners\' references are counted before TryAdd */\n__CPROVER_requires(tw.refs == 2)') + ''';
int TimedWait(OneShotEvent* self, int timeout)
__CPROVER_requires(__CPROVER_is_fresh(self, sizeof(*self)) && g.role == ROLE_ADD && INV(self->_head) && !g.linked && !g.saw_done && tw.allocs == 0 && g_set_seen == 0)
__CPROVER_assigns(self->_head, g, g_me_node, tw, g_set_seen)
/* timed wait true => count reached zero (all-done observed or own waiter released) */
__CPROVER_ensures(RET ==> ((g.saw_done && g.done) || g_set_seen))
/* C03: TimedWaiter has two owners, freed by whoever lets go last; if registering failed it is freed directly */
__CPROVER_ensures(g.linked ? (tw.refs == 1) : (tw.refs == 0 && tw.alive == 0))
__CPROVER_ensures(tw.allocs == 1)
{''' + c + '''}
void harness(void) { ghost_havoc(); OneShotEvent* e; tw.allocs = 0; g_set_seen = 0; int r = TimedWait(e, 0);
  if (!g.linked) VF_CANARY("late arrival"); else if (r) VF_CANARY("released in time"); else VF_CANARY("timed out"); }
'''
    out.append(Job('event/TimedWait', props, src, 'harness', enforce='TimedWait', replace=['TryAdd', 'TW_MakeShared', 'TW_Make', 'TW_Wait', 'TW_DecRef', 'TW_Delete', 'TW_IncRef', 'TW_Release'],
                   funcs=[b_tw], canaries=3, expect=[r'postcondition'], meta={'fn': 'TimedWait'}))
    # ---- Waiter::Call / TimedWaiter::Call ------------------------------------------------------------------------
    for nm, b, post in (('Waiter.Call', b_wc, 'g_sets == 1 && g_decrefs == 0'), ('TimedWaiter.Call', b_twc, 'g_sets == 1 && g_decrefs == 1 && g_set_before_decref')):
        cc = Rewriter(nm, methods=['Set', 'DecRef']).rewrite(b.text)
        src = COMMON + '''
unsigned g_sets, g_decrefs; unsigned char g_set_before_decref;
void Set(void* self) __CPROVER_assigns(g_sets) __CPROVER_ensures(g_sets == OLD(g_sets) + 1);
void DecRef(void* self) __CPROVER_assigns(g_decrefs, g_set_before_decref) __CPROVER_ensures(g_decrefs == OLD(g_decrefs) + 1 && g_set_before_decref == (g_sets == 1));
void F(void* self)
__CPROVER_requires(g_sets == 0 && g_decrefs == 0)
__CPROVER_assigns(g_sets, g_decrefs, g_set_before_decref)
/* the registered job releases its waiter exactly once; the timed waiter drops the event's reference after (never before) Set */
__CPROVER_ensures(%s)
{%s}
void harness(void) { void* w; g_sets = g_decrefs = 0; F(w); VF_CANARY("end"); }
''' % (post, cc)
        out.append(Job('event/' + nm, props, src, 'harness', enforce='F', replace=['Set', 'DecRef'] if 'Timed' in nm else ['Set'], funcs=[b], expect=[r'postcondition'], meta={'fn': nm}))
    # ---- Reset ------------------------------------------------------------------------------------------------------
    c = Rewriter('Reset', atomics=['_head'], pre=[(r'#ifdef\s+YACLIB_LOG_DEBUG.*?#endif', '', 0)]).rewrite(b_reset.text)
    src = COMMON + '''
unsigned char g_quiescent;
static inline void rg_env(RG_WORD* p) { }
static inline void rg_read(RG_WORD* p, RG_WORD v, int mo) { }
static inline void rg_write(RG_WORD* p, RG_WORD o, RG_WORD n, int mo, int kind) { __CPROVER_assert(g_quiescent, "Reset only at quiescence (documented)"); }
#include "rg_atomic.h"
void Reset(OneShotEvent* self)
__CPROVER_requires(__CPROVER_is_fresh(self, sizeof(*self)) && g_quiescent && (self->_head == kEmpty || self->_head == kAllDone))
__CPROVER_assigns(self->_head)
__CPROVER_ensures(self->_head == kEmpty)
{''' + c + '''}
void harness(void) { OneShotEvent* e; g_quiescent = 1; Reset(e); VF_CANARY("end"); }
'''
    out.append(Job('event/Reset', props, src, 'harness', enforce='Reset', funcs=[b_reset], expect=[r'postcondition'], meta={'fn': 'Reset'}))
    return out


CNT = r'''
#include "vf.h"
typedef struct Counter { unsigned long count; } Counter;
#define RG_WORD unsigned long
/* ghost: the mathematical count the documented usage guarantees (every Sub(n) has n <= count, Add only while count > 0) */
struct { unsigned long sub_n; unsigned char reached_zero; unsigned char fenced; unsigned char released; } g;
static inline void rg_env(RG_WORD* p) {
  /* other threads Add (while non-zero) and Sub what they accounted for: the count stays >= what this thread still holds */
  unsigned long c = nondet_ulong();
  __CPROVER_assume(c >= g.sub_n);
  if (!g.reached_zero) *p = c;
}
static inline void rg_read(RG_WORD* p, RG_WORD v, int mo) { }
static inline void rg_write(RG_WORD* p, RG_WORD o, RG_WORD n, int mo, int kind) {
  if (kind == RG_SUB) {
    __CPROVER_assert(o - n == g.sub_n && o >= g.sub_n, "G_sub: subtracts exactly what the caller accounted for");
    __CPROVER_assert(MO_REL(mo), "C04: MO give: a decrement publishes the accesses made through the dropped reference, needs release");
    g.released = 1;
    g.reached_zero = (n == 0);
    if (n == 0 && MO_ACQ(mo)) g.fenced = 1;
  } else {
    __CPROVER_assert(kind == RG_ADD && o != 0, "G_add: Add only while the count is non-zero (documented rule)");
  }
}
#include "rg_atomic.h"
static inline void A_fence(int mo) { if (MO_ACQ(mo)) g.fenced = 1; }
'''


def counter_jobs(ctx, props):
    repo = ctx.repo
    out = []
    b_add = find_body(repo, F_CNT, r'void\s+Add\s*\(\s*std::size_t\s+delta', 'AtomicCounter::Add')
    b_sub = find_body(repo, F_CNT, r'void\s+Sub\s*\(\s*std::size_t\s+delta', 'AtomicCounter::Sub')
    b_get = find_body(repo, F_CNT, r'std::size_t\s+Get\s*\(', 'AtomicCounter::Get')
    b_se = find_body(repo, F_CNT, r'bool\s+SubEqual\s*\(', 'AtomicCounter::SubEqual')
    b_del = find_body(repo, F_DEL, r'static\s+void\s+Delete\s*\(\s*Event\s*&\s*event', 'SetDeleter::Delete', within=r'struct\s+SetDeleter')

    def rwc(name, **kw):
        return Rewriter(name, atomics=['count'], members=['count'], methods=['SubEqual'],
                        pre=[(r'yaclib_std::atomic_thread_fence\(', 'A_fence(', 0), (r'Deleter::Delete\(\s*\*this\s*\)', 'Deleter_Delete(self)', 0)] + kw.pop('pre', []), **kw)
    for tsan in (0, 1):
        c = rwc('SubEqual').rewrite(b_se.text)
        src = CNT + ('#define YACLIB_TSAN 1\n' if tsan else '') + '''int SubEqual(Counter* self, unsigned long n)
__CPROVER_requires(__CPROVER_is_fresh(self, sizeof(*self)) && g.sub_n == n && n >= 1 && self->count >= n && !g.reached_zero && !g.fenced && !g.released)
__CPROVER_assigns(self->count, g)
/* Sub: Set()/Delete is called by exactly the decrement that reaches zero */
__CPROVER_ensures((RET == 0 || RET == 1) && RET == g.reached_zero)
/* C04: whoever sees zero destroys / releases: it must acquire every other holder's release */
__CPROVER_ensures(RET ==> g.fenced) /*C04*/
__CPROVER_ensures(g.released) /*C04*/
{''' + c + '''}
void harness(void) { Counter* c; unsigned long n; g.reached_zero = 0; g.fenced = 0; g.released = 0; int r = SubEqual(c, n); if (r) VF_CANARY("reached zero"); else VF_CANARY("others remain"); }
'''
        out.append(Job('counter/SubEqual.tsan%d' % tsan, props, src, 'harness', enforce='SubEqual', funcs=[b_se], canaries=2, expect=[r'postcondition', r'G_sub'], meta={'fn': 'SubEqual', 'tsan': tsan}))
    c = rwc('Sub').rewrite(b_sub.text)
    src = CNT + '''unsigned g_deletes;
int SubEqual(Counter* self, unsigned long n) __CPROVER_assigns(g.reached_zero) __CPROVER_ensures((RET == 0 || RET == 1) && RET == g.reached_zero);
void Deleter_Delete(Counter* self) __CPROVER_requires(g.reached_zero) __CPROVER_assigns(g_deletes) __CPROVER_ensures(g_deletes == OLD(g_deletes) + 1);
void Sub(Counter* self, unsigned long delta)
__CPROVER_requires(__CPROVER_is_fresh(self, sizeof(*self)) && g_deletes == 0)
__CPROVER_assigns(g.reached_zero, g_deletes)
/* C03 / C16: Delete (destroy the object, or Set the event) iff this decrement reached zero - exactly once */
__CPROVER_ensures(g_deletes == (g.reached_zero ? 1 : 0))
{''' + c + '''}
void harness(void) { Counter* c; unsigned long n; g_deletes = 0; Sub(c, n); if (g_deletes) VF_CANARY("deleted"); else VF_CANARY("kept"); }
'''
    out.append(Job('counter/Sub', props, src, 'harness', enforce='Sub', replace=['SubEqual', 'Deleter_Delete'], funcs=[b_sub], canaries=2, expect=[r'postcondition'], meta={'fn': 'Sub'}))
    c = rwc('Add').rewrite(b_add.text)
    src = CNT + '''void Add(Counter* self, unsigned long delta)
__CPROVER_requires(__CPROVER_is_fresh(self, sizeof(*self)) && self->count >= 1 && g.sub_n == 1 && !g.reached_zero)
__CPROVER_assigns(self->count)
__CPROVER_ensures(1)
{''' + c + '''}
void harness(void) { Counter* c; unsigned long n; g.reached_zero = 0; Add(c, n); VF_CANARY("end"); }
'''
    out.append(Job('counter/Add', props, src, 'harness', enforce='Add', funcs=[b_add], expect=[r'G_add'], meta={'fn': 'Add'}))
    c = Rewriter('SetDeleter::Delete', refs=['event'], omethods=['Set']).rewrite(b_del.text)
    src = '#include "vf.h"\nunsigned g_sets; void* g_set_on;\nvoid Set(void* e) __CPROVER_assigns(g_sets, g_set_on) __CPROVER_ensures(g_sets == OLD(g_sets) + 1 && g_set_on == e);\n' + \
          'void Delete(void* event)\n__CPROVER_requires(g_sets == 0)\n__CPROVER_assigns(g_sets, g_set_on)\n/* the WaitGroup counter reaching zero sets the event, once */\n__CPROVER_ensures(g_sets == 1 && g_set_on == event)\n{' + c + '}\n' + \
          'void harness(void) { void* e; g_sets = 0; Delete(e); VF_CANARY("end"); }\n'
    out.append(Job('counter/SetDeleter', props, src, 'harness', enforce='Delete', replace=['Set'], funcs=[b_del], expect=[r'postcondition'], meta={'fn': 'SetDeleter::Delete'}))
    # lemma: with accounted decrements, exactly one decrement observes old == n
    lem = '''#include "vf.h"
void lemma_zero_once(void) {
  /* abstract counter history summarised by: c = current count, mine = what this Sub subtracts, rest = what all other holders will still subtract */
  unsigned long c = nondet_ulong(), mine = nondet_ulong(), rest = nondet_ulong();
  __CPROVER_assume(mine >= 1 && c == mine + rest && rest <= c);        /* accounting: the count is exactly what is still owed */
  _Bool i_see_zero = (c == mine);
  __CPROVER_assert(i_see_zero == (rest == 0), "lemma: the decrement that observes old == n is the last one (nothing else owed), so it is unique");
  __CPROVER_assert(!i_see_zero ==> (c - mine >= 1), "lemma: otherwise the count stays non-zero (Add remains legal, the event stays unset)");
  VF_CANARY("lemma reachable");
}
'''
    out.append(Job('counter/lemma_zero_once', props, lem, 'lemma_zero_once', kind='lemma', expect=[r'lemma'], meta={'fn': 'lemma'}))
    return out


def waitgroup_jobs(ctx, props):
    repo = ctx.repo
    out = []
    b_ir = find_body(repo, F_WG, r'void\s+InsertRange\s*\(', 'WaitGroup::InsertRange')
    b_rs = find_body(repo, F_WG, r'void\s+Reset\s*\(\s*std::size_t\s+count', 'WaitGroup::Reset')
    b_cc = find_body(repo, F_WE, r'auto\s+Impl\s*\(\s*\)\s*noexcept', 'CallCallback::Impl', within=r'struct\s+CallCallback\s*:')
    b_dc = find_body(repo, F_WE, r'auto\s+Impl\s*\(\s*InlineCore\s*&\s*caller\s*\)\s*noexcept', 'DropCallback::Impl', within=r'struct\s+DropCallback\s*:')
    # the per-future lambda of InsertRange, extracted on its own, and the surrounding accounting
    lam = re.search(r'range\(\s*\[&\]\s*\(detail::BaseCore&\s*core\)\s*noexcept\s*\{(.*?)\n\s*\}\s*\)\s*;', b_ir.text, re.S)
    from vf.extract import ExtractionBreak
    if not lam:
        raise ExtractionBreak('WaitGroup::InsertRange: per-future lambda not found')
    for need_move in (0, 1):
        c = Rewriter('InsertRange.lambda', refs=['core'], omethods=['SetCallback', 'DecRef', 'GetDrop', 'GetCall'],
                     pre=[(r'detail::UniqueHandle\s+handle\s*\{\s*core\s*\}\s*;', 'BaseCore* handle = core;', 1), (r'handle\.', 'handle->', 1)]).rewrite(lam.group(1))
        c = c.replace('&self->_event', 'self_event').replace('self->_event.', 'self_event->')
        src = '''#include "vf.h"
#define NeedMove %d
typedef struct BaseCore BaseCore; typedef struct Ev Ev;
Ev* self_event_p; void* g_cb_drop; void* g_cb_call;
#define GetDrop(e) g_cb_drop
#define GetCall(e) g_cb_call
#define self_event self_event_p
struct Selfish { Ev* _event; } ;
unsigned g_attached, g_decrefs; void* g_attached_cb;
int SetCallback(BaseCore* h, void* cb) __CPROVER_assigns(g_attached, g_attached_cb) __CPROVER_ensures((RET == 0 || RET == 1) && g_attached == OLD(g_attached) + RET && (RET ==> g_attached_cb == cb));
void DecRef(BaseCore* c) __CPROVER_assigns(g_decrefs) __CPROVER_ensures(g_decrefs == OLD(g_decrefs) + 1);
int per_future(BaseCore* core)
__CPROVER_requires(g_attached == 0 && g_decrefs == 0)
__CPROVER_assigns(g_attached, g_attached_cb, g_decrefs)
/* each future either holds the event callback (counted in wait_count) or is already complete;
   a consumed-and-ready core is released exactly once, an attached one is left to its owner */
__CPROVER_ensures((RET == 0 || RET == 1) && RET == (int)g_attached)
__CPROVER_ensures(RET ==> (g_attached_cb == (NeedMove ? g_cb_drop : g_cb_call) && g_decrefs == 0))
__CPROVER_ensures(!RET ==> g_decrefs == (NeedMove ? 1 : 0))
{ struct Selfish self_s; struct Selfish* self = &self_s; %s }
void harness(void) { BaseCore* c; g_attached = g_decrefs = 0; int r = per_future(c); if (r) VF_CANARY("attached"); else VF_CANARY("already complete"); }
''' % (need_move, c.replace('self->_event', '(*self_event_p)').replace('(*self_event_p).', 'self_event_p->'))
        src = src.replace('GetDrop(&(*self_event_p))', 'g_cb_drop').replace('GetCall(&(*self_event_p))', 'g_cb_call')
        out.append(Job('waitgroup/InsertRange.lambda.move%d' % need_move, props, src, 'harness', enforce='per_future', replace=['SetCallback', 'DecRef'],
                       funcs=[b_ir], canaries=2, expect=[r'postcondition'], meta={'fn': 'InsertRange lambda', 'move': need_move}))
    # accounting around the range: Add(count) first, Done(count - wait_count)
    body = b_ir.text[:lam.start()] + 'RANGE_CALL();' + b_ir.text[lam.end():]
    for need_add in (0, 1):
        c = Rewriter('InsertRange', methods=['Add', 'Done'], pre=[(r'const\s+auto\s+wait_count\s*=\s*RANGE_CALL\(\);', 'size_t wait_count = RANGE_CALL(count);', 1)]).rewrite(body)
        src = '''#include "vf.h"
#define NeedAdd %d
#define NeedMove 0
unsigned long g_count;     /* ghost mirror of the wait counter: what is owed */
unsigned long g_adds, g_dones, g_waiting; unsigned char g_add_before_range;
void Add(void* self, unsigned long n) __CPROVER_assigns(g_adds) __CPROVER_ensures(g_adds == OLD(g_adds) + n);
void Done(void* self, unsigned long n) __CPROVER_requires(n >= 1) __CPROVER_assigns(g_dones) __CPROVER_ensures(g_dones == OLD(g_dones) + n);
/* the range: registers the callback with w <= count futures (contract of the per-future lambda, proved separately) */
size_t RANGE_CALL(size_t count) __CPROVER_assigns(g_waiting, g_add_before_range) __CPROVER_ensures(RET <= count && g_waiting == RET && g_add_before_range == (NeedAdd ? g_adds == count : 1));
void InsertRange(void* self, int range, size_t count)
__CPROVER_requires(g_adds == 0 && g_dones == 0 && count >= 1)
__CPROVER_assigns(g_adds, g_dones, g_waiting, g_add_before_range)
/* InsertRange: Add(count) happens before any future can complete into the group; afterwards the group owes exactly one Done per
   future that holds the callback: count - already-complete ones are given back at once */
__CPROVER_ensures(g_add_before_range)
__CPROVER_ensures(g_adds == (NeedAdd ? count : 0) && g_dones == count - g_waiting)
{%s}
void harness(void) { void* s; size_t n; InsertRange(s, 0, n); if (g_dones) VF_CANARY("some already complete"); else VF_CANARY("all pending"); }
''' % (need_add, c)
        out.append(Job('waitgroup/InsertRange.add%d' % need_add, props, src, 'harness', enforce='InsertRange', replace=['Add', 'Done', 'RANGE_CALL'], funcs=[b_ir], canaries=2,
                       expect=[r'postcondition'], meta={'fn': 'InsertRange', 'add': need_add}))
    # callbacks
    for st in (0, 1):
        c = Rewriter('CallCallback::Impl', tcalls=['Noop'], pre=[(r'DownCast<Derived>\(\*this\)\.Sub\(', 'Sub(self, ', 1)]).rewrite(b_cc.text)
        c2 = Rewriter('DropCallback::Impl', refs=['caller'], tcalls=['Noop'], omethods=['DecRef'], pre=[(r'DownCast<Derived>\(\*this\)\.Sub\(', 'Sub(self, ', 1)]).rewrite(b_dc.text)
        src = '''#include "vf.h"
#define SymmetricTransfer %d
#define Noop_T(ST) ((void*)0)
unsigned long g_subs, g_sub_n, g_decrefs; void* g_decref_of; unsigned char g_decref_before_sub;
void Sub(void* self, unsigned long n) __CPROVER_assigns(g_subs, g_sub_n) __CPROVER_ensures(g_subs == OLD(g_subs) + 1 && g_sub_n == n);
void DecRef(void* c) __CPROVER_assigns(g_decrefs, g_decref_of, g_decref_before_sub) __CPROVER_ensures(g_decrefs == OLD(g_decrefs) + 1 && g_decref_of == c && g_decref_before_sub == (g_subs == 0));
void* CallImpl(void* self)
__CPROVER_requires(g_subs == 0 && g_decrefs == 0)
__CPROVER_assigns(g_subs, g_sub_n)
/* an attached future completing is exactly one Done(1); the future's core is left to its owner; nothing further runs */
__CPROVER_ensures(g_subs == 1 && g_sub_n == 1 && g_decrefs == 0 && RET == (void*)0)
{%s}
void* DropImpl(void* self, void* caller)
__CPROVER_requires(g_subs == 0 && g_decrefs == 0)
__CPROVER_assigns(g_subs, g_sub_n, g_decrefs, g_decref_of, g_decref_before_sub)
/* a consumed future completing: its core is released exactly once, then one Done(1) */
__CPROVER_ensures(g_subs == 1 && g_sub_n == 1 && g_decrefs == 1 && g_decref_of == caller && g_decref_before_sub && RET == (void*)0)
{%s}
void h1(void) { void* s; g_subs = g_decrefs = 0; CallImpl(s); VF_CANARY("end"); }
void h2(void) { void* s; void* c; g_subs = g_decrefs = 0; DropImpl(s, c); VF_CANARY("end"); }
''' % (st, c, c2)
        out.append(Job('waitgroup/CallCallback.Impl.st%d' % st, props, src, 'h1', enforce='CallImpl', replace=['Sub'], funcs=[b_cc], expect=[r'postcondition'], meta={'fn': 'CallCallback::Impl'}))
        out.append(Job('waitgroup/DropCallback.Impl.st%d' % st, props, src, 'h2', enforce='DropImpl', replace=['Sub', 'DecRef'], funcs=[b_dc], expect=[r'postcondition'], meta={'fn': 'DropCallback::Impl'}))
    return out


MUTEX_EVENT = r'''
#include "vf.h"
typedef struct MutexEvent { _Bool _is_ready; int _m; int _cv; } MutexEvent;
MutexEvent* g_self;
unsigned char g_reset_allowed;
struct { unsigned char set_done; } g;
#define MON_INV(m) (g_self->_is_ready == (g.set_done != 0) && g.set_done <= 1)
#define MON_RELY(m) 1
static inline void mon_havoc(void* m) { unsigned char s = nondet_bool(); __CPROVER_assume(s >= g.set_done || g_reset_allowed); g.set_done = s; g_self->_is_ready = s; }
#include "monitor.h"
unsigned g_notified_under_lock;
void notify_one(int* cv) __CPROVER_assigns(g_notified_under_lock, g_notify_one) __CPROVER_ensures(g_notify_one == OLD(g_notify_one) + 1 && g_notified_under_lock == (unsigned)g_lock_held);
'''


def mutex_event_jobs(ctx, props):
    repo = ctx.repo
    out = []
    b_wait = find_body(repo, F_ME, r'void\s+MutexEvent::Wait\s*\(', 'MutexEvent::Wait')
    b_set = find_body(repo, F_ME, r'void\s+MutexEvent::Set\s*\(', 'MutexEvent::Set')
    b_reset = find_body(repo, F_ME, r'void\s+MutexEvent::Reset\s*\(', 'MutexEvent::Reset')
    c = Rewriter('MutexEvent::Wait', pre=[(r'_cv\.wait\(\s*token\s*\)\s*;', 'MON_WAIT(&self->_m);', 1)]).rewrite(b_wait.text)
    inv = '__CPROVER_assigns(self->_is_ready, g, g_lock_held)\n__CPROVER_loop_invariant(g_lock_held == 1 && MON_INV(0))'
    c = attach_loop_contracts('MutexEvent::Wait', c, [inv])
    src = MUTEX_EVENT + '''void Wait(MutexEvent* self, int token)
__CPROVER_requires(__CPROVER_is_fresh(self, sizeof(*self)) && g_lock_held == 1 && self->_is_ready == (g.set_done != 0) && g.set_done <= 1)   /* the token holds _m */
__CPROVER_assigns(self->_is_ready, g, g_self, g_lock_held)
/* MutexEvent: Wait returns only after Set (and still holds the token's lock) */
__CPROVER_ensures(g.set_done && g_lock_held == 1)
{ g_self = self; ''' + c + '''}
void harness(void) { MutexEvent* e; g_lock_held = 1; g_reset_allowed = 0; Wait(e, 0); VF_CANARY("end"); }
'''
    out.append(Job('mutex_event/Wait', props, src, 'harness', enforce='Wait', loop_contracts=True, funcs=[b_wait], expect=[r'postcondition', r'invariant after step|loop_invariant_step'], meta={'fn': 'MutexEvent::Wait'}))
    c = Rewriter('MutexEvent::Set', omethods=['notify_one']).rewrite(expand_lock('MutexEvent::Set', b_set.text))
    c = c.replace('self->_is_ready = true;', '{ __CPROVER_assert(g_lock_held == 1, "C11,C16: the ready flag is written only while holding the event\\\'s mutex (the waiter checks it under the mutex and may destroy the event - it lives on its stack - as soon as it has unlocked: a setter that still has to take the mutex would touch a dead event)"); self->_is_ready = true; g.set_done = 1; /* ghost: linearisation point of Set */ }')
    src = MUTEX_EVENT + '''void Set(MutexEvent* self)
__CPROVER_requires(__CPROVER_is_fresh(self, sizeof(*self)) && g_lock_held == 0 && g_notify_one == 0)
__CPROVER_assigns(self->_is_ready, g, g_self, g_lock_held, g_notify_one, g_notified_under_lock)
/* Set: ready := true under the mutex, the waiter is notified while the mutex is still held (the event may live on the waiter's stack: C11 nobody touches it after Wait returned) */
__CPROVER_ensures(g.set_done && g_lock_held == 0 && g_notify_one == 1 && g_notified_under_lock == 1)
{ g_self = self; ''' + c + '''}
void harness(void) { MutexEvent* e; g_lock_held = 0; g_notify_one = 0; g_reset_allowed = 0; Set(e); VF_CANARY("end"); }
'''
    out.append(Job('mutex_event/Set', props, src, 'harness', enforce='Set', replace=['notify_one'], funcs=[b_set], expect=[r'postcondition', r'monitor invariant'], meta={'fn': 'MutexEvent::Set'}))
    c = Rewriter('MutexEvent::Reset').rewrite(b_reset.text)
    src = MUTEX_EVENT + '''void Reset(MutexEvent* self)
__CPROVER_requires(__CPROVER_is_fresh(self, sizeof(*self)) && g_reset_allowed)     /* only by the single waiter, between waits, with no setter in flight */
__CPROVER_assigns(self->_is_ready)
__CPROVER_ensures(self->_is_ready == 0)
{''' + c + '''}
void harness(void) { MutexEvent* e; g_reset_allowed = 1; Reset(e); VF_CANARY("end"); }
'''
    out.append(Job('mutex_event/Reset', props, src, 'harness', enforce='Reset', funcs=[b_reset], expect=[r'postcondition'], meta={'fn': 'MutexEvent::Reset'}))
    # the two timed Wait overloads (header): std::condition_variable::wait_for / wait_until WITH a predicate
    F_MEH = 'include/yaclib/util/detail/mutex_event.hpp'
    for nm, sig, call in (('Wait.for', r'bool\s+Wait\s*\(\s*Token\s*&\s*token\s*,\s*const\s+std::chrono::duration<Rep,\s*Period>\s*&\s*timeout_duration\s*\)\s*noexcept', 'wait_for'),
                          ('Wait.until', r'bool\s+Wait\s*\(\s*Token\s*&\s*token\s*,\s*const\s+std::chrono::time_point<Clock,\s*Duration>\s*&\s*timeout_time\s*\)\s*noexcept', 'wait_until')):
        try:
            b = find_body(repo, F_MEH, sig, 'MutexEvent::' + nm, within=r'class\s+MutexEvent')
            # `_cv.wait_xxx(token, t, [&] { return EXPR; })`: the lambda's expression becomes the predicate macro of the std semantics below; a call WITHOUT predicate is the plain timed wait
            t = b.text
            # a predicate lambda bound to a name first: `const auto p = [&] { return E; }; ... wait_xxx(token, t, p)`
            for mm in list(re.finditer(r'(?:const\s+)?auto\s+(\w+)\s*=\s*\[&\]\s*\{\s*return\s+([^;{}]+);\s*\}\s*;', t)):
                t = t.replace(mm.group(0), '')
                t = re.sub(r'(_cv\.' + call + r'\(\s*token\s*,\s*\w+\s*,\s*)%s(\s*\))' % re.escape(mm.group(1)), lambda q: q.group(1) + '[&] { return ' + mm.group(2) + '; }' + q.group(2), t)
            t, k = re.subn(r'_cv\.' + call + r'\(\s*token\s*,\s*\w+\s*,\s*\[&\]\s*\{\s*return\s+([^;{}]+);\s*\}\s*\)', r'CV_TIMED_WAIT_PRED(self, (\1))', t)
            t, k2 = re.subn(r'_cv\.' + call + r'\(\s*token\s*,\s*\w+\s*\)', 'CV_TIMED_WAIT(self)', t)
            if k + k2 != 1:
                raise ExtractionBreak('MutexEvent::%s: expected exactly one `_cv.%s(token, ...)` call (found %d with and %d without a predicate lambda of the form [&] { return E; })' % (nm, call, k, k2))
            t = re.sub(r'std::cv_status::(\w+)', r'CV_\1', t)
            c = Rewriter('MutexEvent::' + nm).rewrite(t)
            src = MUTEX_EVENT + '''unsigned char g_timed_out;
enum { CV_no_timeout, CV_timeout };
/* std::condition_variable::wait_for / wait_until(lock, t, pred) is  `while (!pred()) if (wait(lock, t) == timeout) return pred(); return true;`: every blocking step releases the mutex
   (anything the monitor invariant allows may happen), may wake spuriously, and reports timeout only after the deadline.  Its result is the predicate evaluated under the mutex at return;
   it is false only after the deadline passed.  (Statement expression: PRED is re-evaluated in the final state.) */
#define CV_TIMED_WAIT_PRED(self, PRED) ({ int vf_r; if (PRED) vf_r = 1; else { MON_WAIT(&(self)->_m); g_timed_out = nondet_bool(); __CPROVER_assume(g_timed_out || (PRED)); vf_r = (PRED) ? 1 : 0; } vf_r; })
/* without a predicate: one blocking step; no_timeout may be a spurious wake-up */
#define CV_TIMED_WAIT(self) ({ MON_WAIT(&(self)->_m); g_timed_out = nondet_bool(); g_timed_out ? CV_timeout : CV_no_timeout; })
int Wait(MutexEvent* self, int token)
__CPROVER_requires(__CPROVER_is_fresh(self, sizeof(*self)) && g_lock_held == 1 && self->_is_ready == (g.set_done != 0) && g.set_done <= 1 && g_timed_out == 0)   /* the token holds _m */
__CPROVER_assigns(self->_is_ready, g, g_self, g_lock_held, g_timed_out)
/* C11, C16: a timed Wait reports true only when Set has happened (seen under the mutex - spurious wake-ups do not count), false only after the deadline with the event still not set; the token's lock is held again */
__CPROVER_ensures((RET == 0 || RET == 1) && g_lock_held == 1)
__CPROVER_ensures(RET ==> g.set_done)
__CPROVER_ensures(!RET ==> (g_timed_out && !g.set_done))
{ g_self = self; ''' + c + '''}
void harness(void) { MutexEvent* e; g_lock_held = 1; g_reset_allowed = 0; g_timed_out = 0; int r = Wait(e, 0); if (r) VF_CANARY("set in time"); else VF_CANARY("timed out"); }
'''
            out.append(Job('mutex_event/' + nm, props, src, 'harness', enforce='Wait', funcs=[b], canaries=2, expect=[r'postcondition'], meta={'fn': 'MutexEvent::' + nm}))
        except ExtractionBreak as e:
            ctx.breaks.append(str(e))
    return out


def jobs(ctx):
    props = ['C16', 'C03', 'C04', 'C11', 'C13']
    out = []
    out += event_jobs(ctx, props) + counter_jobs(ctx, props) + waitgroup_jobs(ctx, props)
    if ctx.prop in ('C11', 'C16', 'C04'):
        out += mutex_event_jobs(ctx, ['C11', 'C16', 'C04'])
    return out


def replay(ctx, res, failed, rec):
    """real-code witness for the sequential part of C16: every mix of ready / pending futures in one Attach / Consume call, Add / Done by hand, Reset"""
    from vf.replay import run_driver
    return run_driver(ctx, 'wait_group.cpp', timeout=60)
