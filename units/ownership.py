"""The small ownership pieces everything else rests on:  C03, C05.

  util/helper.hpp               Helper::IncRef / DecRef / GetRef (exactly Add(1) / Sub(1) / Get()), MakeUnique / MakeShared (initial count, adopted without IncRef)
  util/detail/unique_counter.hpp OneCounter: the single owner's counter (Sub deletes, once; Add is a no-op; Get is 1; SubEqual never "last")
  util/detail/default_deleter.hpp DefaultDeleter::Delete (delete of exactly the object given)
  exe/detail/unique_job.hpp     UniqueJob::Call (functor once, then the job frees itself), Drop (frees itself, functor never run), MakeUniqueJob
  util/detail/safe_call.hpp     SafeCall::Call (functor invoked exactly once, an exception does not escape)
  exe/submit.hpp                Submit(executor, f): one job is made from f and handed to the executor exactly once
"""
import re

from vf.cxx2c import Rewriter
from vf.extract import ExtractionBreak, find_body
from vf.runner import Job

F_HELP = 'include/yaclib/util/helper.hpp'
F_ONE = 'include/yaclib/util/detail/unique_counter.hpp'
F_DEL = 'include/yaclib/util/detail/default_deleter.hpp'
F_UJ = 'include/yaclib/exe/detail/unique_job.hpp'
F_SC = 'include/yaclib/util/detail/safe_call.hpp'
F_SUB = 'include/yaclib/exe/submit.hpp'
TRUSTED = ['operator new / delete (one block obtained / returned per expression), IExecutor::Submit (the C05 interface contract: proved per executor in units thread_pool, strand)',
           'AtomicCounter (proved in unit event), IntrusivePtr (unit intrusive_ptr)']
DROPPED = ['`if constexpr (std::is_nothrow_invocable_v<Invoke>) A else try { A } catch (...) {}`: both branches are kept under a free configuration predicate; the invocation of the user functor '
           'is a stub that may throw (ghost flag), a `try { } catch (...) { }` around it clears the flag',
           'perfect forwarding (std::forward / std::move) is dropped: values are opaque tokens',
           'the `new T{args...}` expressions are translated to an allocation stub that records the type tag and the initial count argument']
ASSUMPTIONS = []

COMMON = r'''
#include "vf.h"
unsigned g_adds, g_subs, g_gets, g_deletes, g_calls, g_drops, g_invokes, g_news, g_submits;
unsigned long g_add_arg, g_sub_arg, g_get_val, g_new_count; void* g_deleted; void* g_new_obj; void* g_submitted; void* g_submit_to; unsigned char g_new_kind, g_threw, g_nothrow_cfg;
unsigned long g_clock, g_t_invoke, g_t_delete;
static void ghost_reset(void) { g_adds = g_subs = g_gets = g_deletes = g_calls = g_drops = g_invokes = g_news = g_submits = 0; g_threw = 0; g_clock = 1; g_t_invoke = g_t_delete = 0; }
void Add(void* self, unsigned long d) __CPROVER_assigns(g_adds, g_add_arg) __CPROVER_ensures(g_adds == OLD(g_adds) + 1 && g_add_arg == d);
void Sub(void* self, unsigned long d) __CPROVER_assigns(g_subs, g_sub_arg) __CPROVER_ensures(g_subs == OLD(g_subs) + 1 && g_sub_arg == d);
unsigned long Get(void* self) __CPROVER_assigns(g_gets) __CPROVER_ensures(g_gets == OLD(g_gets) + 1 && RET == g_get_val);
void DELETE(void* p) __CPROVER_requires(p != 0 && g_deletes == 0) __CPROVER_assigns(g_deletes, g_deleted, g_t_delete, g_clock)
  __CPROVER_ensures(g_deletes == 1 && g_deleted == p && g_t_delete == OLD(g_clock) && g_clock == OLD(g_clock) + 1);
/* the user functor: may throw unless the configuration says it cannot */
void INVOKE(void* self) __CPROVER_requires(g_deletes == 0) __CPROVER_assigns(g_invokes, g_threw, g_t_invoke, g_clock)
  __CPROVER_ensures(g_invokes == OLD(g_invokes) + 1 && (g_nothrow_cfg ==> !g_threw) && g_t_invoke == OLD(g_clock) && g_clock == OLD(g_clock) + 1);
'''


def jobs(ctx):
    repo = ctx.repo
    props = ['C03', 'C05']
    out = []

    def job(name, b, src, enforce, replace, canaries=1):
        out.append(Job('own/' + name, props, src, 'harness', enforce=enforce, replace=list(replace), funcs=b if isinstance(b, list) else [b], canaries=canaries,
                       expect=[r'postcondition'], meta={'fn': name}))

    def guarded(fn):
        try:
            fn()
        except ExtractionBreak as e:
            ctx.breaks.append(str(e))

    # ---- Helper ----------------------------------------------------------------------------------------------------------------------------
    def helper():
        within = r'class\s+Helper\s+final'
        pre = [(r'this->Add\(\s*(\w+)\s*\)', r'Add(self, \1)', 0), (r'this->Sub\(\s*(\w+)\s*\)', r'Sub(self, \1)', 0), (r'this->Get\(\s*\)', 'Get(self)', 0)]
        for nm, sig, ret, post, rep in (('IncRef', r'void\s+IncRef\s*\(\s*\)\s*noexcept\s+final', 'void', 'g_adds == 1 && g_add_arg == 1 && g_subs == 0', ['Add', 'Sub']),
                                        ('DecRef', r'void\s+DecRef\s*\(\s*\)\s*noexcept\s+final', 'void', 'g_subs == 1 && g_sub_arg == 1 && g_adds == 0', ['Add', 'Sub']),
                                        ('GetRef', r'std::size_t\s+GetRef\s*\(\s*\)\s*noexcept\s+final', 'unsigned long', 'g_gets == 1 && RET == g_get_val && g_adds == 0 && g_subs == 0', ['Get', 'Add', 'Sub'])):
            b = find_body(repo, F_HELP, sig, 'Helper::' + nm, within=within)
            c = Rewriter('Helper::' + nm, pre=pre).rewrite(b.text)
            src = COMMON + '%s F(void* self)\n__CPROVER_requires(g_adds == 0 && g_subs == 0 && g_gets == 0)\n__CPROVER_assigns(g_adds, g_add_arg, g_subs, g_sub_arg, g_gets)\n' % ret + \
                '/* C03: one IncRef / DecRef of a handle is exactly one unit on the counter (GetRef: exactly a read) */\n__CPROVER_ensures(%s)\n{' % post + c + '}\nvoid harness(void) { void* s; ghost_reset(); F(s); VF_CANARY("end"); }\n'
            job('Helper.' + nm, b, src, 'F', rep)
    guarded(helper)

    # ---- MakeUnique / MakeShared ---------------------------------------------------------------------------------------------------------------
    def makers():
        for nm, sig, kind, cnt in (('MakeUnique', r'auto\s+MakeUnique\s*\(\s*Args\s*&&\s*\.\.\.\s*args\s*\)', 'K_ONE', '0'), ('MakeShared', r'auto\s+MakeShared\s*\(\s*std::size_t\s+n\s*,\s*Args\s*&&\s*\.\.\.\s*args\s*\)', 'K_ATOMIC', 'n')):
            b = find_body(repo, F_HELP, sig, nm)
            # expression level: the `new Helper<Counter, ObjectT>{count, args...}` and the adopting handle may be one expression or go through a named local
            pre = [(r'new\s+detail::Helper<detail::(\w+)Counter,\s*ObjectT>\{\s*([^,{};]+?)\s*,\s*std::forward<Args>\(args\)\.\.\.\s*\}', r'NEW_HELPER(K_\1, \2)', 1),
                   (r'IntrusivePtr\{\s*NoRefTag\{\s*\}\s*,\s*((?:[^{}()]|\([^()]*\))+?)\s*\}', r'ADOPT(\1)', 1), (r'\bauto\s*\*\s*(\w+)\s*=', r'void* \1 =', 0)]
            c = Rewriter(nm, pre=pre).rewrite(b.text)
            c = c.replace('K_One', 'K_ONE').replace('K_Atomic', 'K_ATOMIC')
            src = COMMON + '''enum { K_ONE = 1, K_ATOMIC = 2 }; unsigned g_adopts;
void* NEW_HELPER(int kind, unsigned long count) __CPROVER_assigns(g_news, g_new_kind, g_new_count, g_new_obj) __CPROVER_ensures(g_news == OLD(g_news) + 1 && g_new_kind == kind && g_new_count == count && RET == g_new_obj && RET != 0);
/* IntrusivePtr{NoRefTag{}, p}: adopts without IncRef (unit intrusive_ptr) */
void* ADOPT(void* p) __CPROVER_assigns(g_adopts) __CPROVER_ensures(g_adopts == OLD(g_adopts) + 1 && RET == p);
void* F(unsigned long n)
__CPROVER_requires(g_news == 0 && g_adopts == 0 && g_adds == 0)
__CPROVER_assigns(g_news, g_new_kind, g_new_count, g_new_obj, g_adopts)
/* C03: one object is allocated, its counter starts at the stated number of references (%s), and the returned handle adopts one of them without adding another */
__CPROVER_ensures(g_news == 1 && g_new_kind == %s && g_new_count == %s && g_adopts == 1 && RET == g_new_obj && g_adds == 0)
{''' % ('MakeUnique: the single-owner counter ignores it' if kind == 'K_ONE' else 'MakeShared: exactly n', kind, cnt) + c + '}\nvoid harness(void) { ghost_reset(); g_adopts = 0; F(nondet_ulong()); VF_CANARY("end"); }\n'
            job(nm, b, src, 'F', ['NEW_HELPER', 'ADOPT'])
    guarded(makers)

    # ---- OneCounter -----------------------------------------------------------------------------------------------------------------------------
    def one_counter():
        within = r'struct\s+OneCounter\s*:'
        b_sub = find_body(repo, F_ONE, r'void\s+Sub\s*\(\s*std::size_t\s*\)\s*noexcept', 'OneCounter::Sub', within=within)
        b_add = find_body(repo, F_ONE, r'void\s+Add\s*\(\s*std::size_t\s*\)\s*noexcept', 'OneCounter::Add', within=within)
        b_get = find_body(repo, F_ONE, r'std::size_t\s+Get\s*\(\s*\)\s*noexcept', 'OneCounter::Get', within=within)
        b_se = find_body(repo, F_ONE, r'constexpr\s+bool\s+SubEqual\s*\(\s*std::size_t\s*\)\s*const', 'OneCounter::SubEqual', within=within)
        pre = [(r'Deleter::Delete\(\s*\*this\s*\)', 'DELETE(self)', 0)]
        REQ = '__CPROVER_requires(self != 0 && g_deletes == 0)\n__CPROVER_assigns(g_deletes, g_deleted, g_t_delete, g_clock)\n'
        src = COMMON + 'void F(void* self, unsigned long d)\n' + REQ + '/* C03: the single owner letting go destroys the object, exactly once, and exactly this object */\n__CPROVER_ensures(g_deletes == 1 && g_deleted == self)\n{' + \
            Rewriter('OneCounter::Sub', pre=pre).rewrite(b_sub.text) + '}\nvoid harness(void) { void* s; ghost_reset(); F(s, nondet_ulong()); VF_CANARY("end"); }\n'
        job('OneCounter.Sub', b_sub, src, 'F', ['DELETE'])
        src = COMMON + 'void F(void* self, unsigned long d)\n' + REQ + '/* a uniquely owned object cannot gain owners: Add has no effect (and never destroys) */\n__CPROVER_ensures(g_deletes == 0)\n{' + \
            Rewriter('OneCounter::Add', pre=pre).rewrite(b_add.text) + '}\nvoid harness(void) { void* s; ghost_reset(); F(s, nondet_ulong()); VF_CANARY("end"); }\n'
        job('OneCounter.Add', b_add, src, 'F', ['DELETE'])
        src = COMMON + 'unsigned long F(void* self)\n' + REQ + '/* exactly one owner */\n__CPROVER_ensures(RET == 1 && g_deletes == 0)\n{' + \
            Rewriter('OneCounter::Get', pre=pre).rewrite(b_get.text) + '}\nvoid harness(void) { void* s; ghost_reset(); F(s); VF_CANARY("end"); }\n'
        job('OneCounter.Get', b_get, src, 'F', ['DELETE'])
        src = COMMON + 'int F(void* self, unsigned long n)\n' + REQ + '/* SubEqual (used as "was this the last signal" by events): a uniquely owned object is never released through it */\n__CPROVER_ensures(RET == 0 && g_deletes == 0)\n{' + \
            Rewriter('OneCounter::SubEqual', pre=pre).rewrite(b_se.text) + '}\nvoid harness(void) { void* s; ghost_reset(); F(s, nondet_ulong()); VF_CANARY("end"); }\n'
        job('OneCounter.SubEqual', b_se, src, 'F', ['DELETE'])
    guarded(one_counter)

    # ---- DefaultDeleter ---------------------------------------------------------------------------------------------------------------------------
    def deleter():
        b = find_body(repo, F_DEL, r'static\s+void\s+Delete\s*\(\s*Type\s*&\s*self\s*\)\s*noexcept', 'DefaultDeleter::Delete')
        c = Rewriter('DefaultDeleter::Delete', pre=[(r'delete\s+&\s*self\s*;', 'DELETE(self);', 1)], keep_this=True).rewrite(b.text)
        src = COMMON + 'void F(void* self)\n__CPROVER_requires(self != 0 && g_deletes == 0)\n__CPROVER_assigns(g_deletes, g_deleted, g_t_delete, g_clock)\n' \
            '/* C03: exactly the object given is destroyed, once */\n__CPROVER_ensures(g_deletes == 1 && g_deleted == self)\n{' + c + '}\nvoid harness(void) { void* s; ghost_reset(); F(s); VF_CANARY("end"); }\n'
        job('DefaultDeleter.Delete', b, src, 'F', ['DELETE'])
    guarded(deleter)

    # ---- SafeCall::Call -----------------------------------------------------------------------------------------------------------------------------
    def safe_call():
        b = find_body(repo, F_SC, r'void\s+Call\s*\(\s*\)\s*noexcept', 'SafeCall::Call', within=r'class\s+SafeCall')
        t = b.text
        t, k1 = re.subn(r'if\s+constexpr\s*\(\s*std::is_nothrow_invocable_v<Invoke>\s*\)', 'if (g_nothrow_cfg)', t)
        t, k2 = re.subn(r'std::forward<Invoke>\(\s*_func\s*\)\(\s*\)\s*;', 'INVOKE(self);', t)
        # try { X } catch (...) { Y }  ->  { X } if (g_threw) { g_threw = 0; Y }
        t, k3 = re.subn(r'\btry\s*\{', '{ g_in_try = 1; {', t)
        t, k4 = re.subn(r'\}\s*catch\s*\(\s*\.\.\.\s*\)\s*\{', '} g_in_try = 0; } if (g_threw) { g_threw = 0;', t)
        if k1 != 1 or k2 < 1 or k3 != k4:
            raise ExtractionBreak('SafeCall::Call: shape outside the recipe (constexpr test %d, invocations %d, try %d / catch %d)' % (k1, k2, k3, k4))
        c = Rewriter('SafeCall::Call', nomembers=['_func']).rewrite(t)
        src = COMMON + '''unsigned char g_in_try;
void F(void* self)
__CPROVER_requires(g_invokes == 0 && g_threw == 0 && g_deletes == 0)
__CPROVER_assigns(g_invokes, g_threw, g_t_invoke, g_clock, g_in_try)
/* C05: the submitted functor is invoked exactly once; Call is noexcept: an exception of the functor does not leave it (it would terminate the worker) */
__CPROVER_ensures(g_invokes == 1 && !g_threw)
{''' + c + '''}
void harness(void) { void* s; ghost_reset(); g_nothrow_cfg = nondet_uchar() & 1; F(s); if (g_nothrow_cfg) VF_CANARY("nothrow functor"); else VF_CANARY("functor may throw"); }
'''
        job('SafeCall.Call', b, src, 'F', ['INVOKE'], canaries=2)
    guarded(safe_call)

    # ---- UniqueJob ----------------------------------------------------------------------------------------------------------------------------------
    def unique_job():
        b_call = find_body(repo, F_UJ, r'void\s+UniqueJob<Func>::Call\s*\(\s*\)\s*noexcept', 'UniqueJob::Call')
        b_drop = find_body(repo, F_UJ, r'void\s+UniqueJob<Func>::Drop\s*\(\s*\)\s*noexcept', 'UniqueJob::Drop')
        b_make = find_body(repo, F_UJ, r'Job\s*\*\s*MakeUniqueJob\s*\(\s*Func\s*&&\s*f\s*\)', 'MakeUniqueJob')
        pre = [(r'SafeCall<Func>::Call\(\s*\)', 'SafeCall_Call(self)', 0), (r'(?<![\w:>.])Drop\(\s*\)', 'Drop(self)', 0), (r'delete\s+this\s*;', 'DELETE(self);', 0)]
        drop_contract = '''void Drop(void* self)
__CPROVER_requires(self != 0 && g_deletes == 0)
__CPROVER_assigns(g_deletes, g_deleted, g_t_delete, g_clock)
/* C03, C05: a dropped job frees itself exactly once and never runs its functor */
__CPROVER_ensures(g_deletes == 1 && g_deleted == self && g_invokes == OLD(g_invokes) && g_t_delete == OLD(g_clock) && g_clock == OLD(g_clock) + 1)
'''
        src = COMMON + drop_contract + '{' + Rewriter('UniqueJob::Drop', pre=pre).rewrite(b_drop.text) + '}\nvoid harness(void) { void* s; ghost_reset(); Drop(s); VF_CANARY("end"); }\n'
        job('UniqueJob.Drop', b_drop, src, 'Drop', ['DELETE'])
        src = COMMON + '''/* SafeCall::Call: proved in job own/SafeCall.Call */
void SafeCall_Call(void* self) __CPROVER_requires(g_deletes == 0) __CPROVER_assigns(g_invokes, g_t_invoke, g_clock) __CPROVER_ensures(g_invokes == OLD(g_invokes) + 1 && g_t_invoke == OLD(g_clock) && g_clock == OLD(g_clock) + 1);
''' + drop_contract + ''';
void Call(void* self)
__CPROVER_requires(self != 0 && g_deletes == 0 && g_invokes == 0)
__CPROVER_assigns(g_invokes, g_t_invoke, g_deletes, g_deleted, g_t_delete, g_clock)
/* C03, C05: a called job runs its functor exactly once and THEN frees itself exactly once (the functor runs on a live object) */
__CPROVER_ensures(g_invokes == 1 && g_deletes == 1 && g_deleted == self && g_t_invoke < g_t_delete)
{''' + Rewriter('UniqueJob::Call', pre=pre).rewrite(b_call.text) + '}\nvoid harness(void) { void* s; ghost_reset(); Call(s); VF_CANARY("end"); }\n'
        job('UniqueJob.Call', b_call, src, 'Call', ['SafeCall_Call', 'Drop', 'DELETE'])
        c = Rewriter('MakeUniqueJob', pre=[(r'return\s+new\s+UniqueJob<decltype\(std::forward<Func>\(f\)\)>\{\s*std::forward<Func>\(f\)\s*\}\s*;', 'return NEW_JOB(f);', 1)]).rewrite(b_make.text)
        src = COMMON + '''void* g_job_func;
void* NEW_JOB(void* f) __CPROVER_assigns(g_news, g_new_obj, g_job_func) __CPROVER_ensures(g_news == OLD(g_news) + 1 && RET == g_new_obj && RET != 0 && g_job_func == f);
void* F(void* f)
__CPROVER_requires(g_news == 0)
__CPROVER_assigns(g_news, g_new_obj, g_job_func)
/* one job object per functor, holding that functor */
__CPROVER_ensures(g_news == 1 && RET == g_new_obj && g_job_func == f)
{''' + c + '}\nvoid harness(void) { void* f; ghost_reset(); F(f); VF_CANARY("end"); }\n'
        job('MakeUniqueJob', b_make, src, 'F', ['NEW_JOB'])
    guarded(unique_job)

    # ---- yaclib::Submit(executor, f) ------------------------------------------------------------------------------------------------------------------
    def submit():
        b = find_body(repo, F_SUB, r'void\s+Submit\s*\(\s*IExecutor\s*&\s*executor\s*,\s*Func\s*&&\s*f\s*\)', 'yaclib::Submit')
        t = re.sub(r'static_assert\((?:[^()]|\([^()]*\))*\)\s*;', '', b.text)
        pre = [(r'auto\s*\*\s*job\s*=\s*detail::MakeUniqueJob\(\s*std::forward<Func>\(f\)\s*\)\s*;', 'void* job = MakeUniqueJob(f);', 1), (r'executor\.Submit\(\s*\*\s*job\s*\)\s*;', 'EXEC_SUBMIT(executor, job);', 1)]
        c = Rewriter('yaclib::Submit', pre=pre).rewrite(t)
        src = COMMON + '''void* g_made_from;
void* MakeUniqueJob(void* f) __CPROVER_assigns(g_news, g_new_obj, g_made_from) __CPROVER_ensures(g_news == OLD(g_news) + 1 && RET == g_new_obj && RET != 0 && g_made_from == f);
/* IExecutor::Submit: from here on the executor owes the job exactly one of Call / Drop (C05) */
void EXEC_SUBMIT(void* e, void* job) __CPROVER_requires(job != 0) __CPROVER_assigns(g_submits, g_submitted, g_submit_to) __CPROVER_ensures(g_submits == OLD(g_submits) + 1 && g_submitted == job && g_submit_to == e);
void F(void* executor, void* f)
__CPROVER_requires(g_news == 0 && g_submits == 0)
__CPROVER_assigns(g_news, g_new_obj, g_made_from, g_submits, g_submitted, g_submit_to)
/* C05: Submit(executor, f) makes ONE job from f and hands exactly that job to exactly that executor, once - everything after is the executor's Call-xor-Drop obligation */
__CPROVER_ensures(g_news == 1 && g_made_from == f && g_submits == 1 && g_submitted == g_new_obj && g_submit_to == executor)
{''' + c + '}\nvoid harness(void) { void* e; void* f; ghost_reset(); F(e, f); VF_CANARY("end"); }\n'
        job('Submit', b, src, 'F', ['MakeUniqueJob', 'EXEC_SUBMIT'])
    guarded(submit)
    return out


def replay(ctx, res, failed, rec):
    return None, 'no sequential witness driver for this obligation'
