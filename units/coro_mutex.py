"""coroutine Mutex (include/yaclib/coro/mutex.hpp, detail/mutex_awaiter.hpp):  C14 (+ C04 orders).

R/G on the sender word (kNotLocked / 0 = locked, no new waiters / list of new waiters) + the holder-owned plain receiver list (A.4).
Configurations: FIFO x Batching x SymmetricTransfer.  The FIFO reversal in GetHead is proved unbounded over a ghost pool with a reversal
frontier and additionally checked bounded on real memory.
"""
import re

from vf.cxx2c import Rewriter, attach_loop_contracts
from vf.extract import ExtractionBreak, find_body, read_source
from vf.runner import Job

F = 'include/yaclib/coro/mutex.hpp'
F_AW = 'include/yaclib/coro/detail/mutex_awaiter.hpp'
F_CORO = 'include/yaclib/coro/coro.hpp'

TRUSTED = ['IExecutor::Submit of the waiter\'s executor (C05 contract) and coroutine resumption by symmetric transfer / handle.resume() (compiler axioms of C13)',
           'every holder eventually releases and executors keep accepting work (the property\'s own liveness assumptions): only the safety shadow is proved']
DROPPED = ['YACLIB_TRANSFER / YACLIB_SUSPEND are expanded from the two definitions in coro.hpp (their text is checked on every run), selected by SymmetricTransfer',
           'BaseCore is a struct {next, _executor}; `curr._executor.Swap(next._executor)` / std::exchange on executor pointers are plain pointer swaps']
ASSUMPTIONS = ['a coroutine that was granted the mutex is resumed exactly once by the executor / transfer it was handed to (C05, C13)']

COMMON = r'''
#include "vf.h"
#include <stdlib.h>
typedef struct Core Core; typedef Core BaseCore; typedef Core Node;
struct Core { Core* next; void* _executor; };
typedef struct Mutex { uintptr_t _sender; Core* _receiver; } Mutex;
#define kLockedNoWaiters ((uintptr_t)0)
#define kNotLocked (~(uintptr_t)0)
#define RG_WORD uintptr_t
#define STD_EXCHANGE(a, b) ({ __auto_type _o = (a); (a) = (b); _o; })
typedef void* Transfer;
enum { H_NONE, H_ME, H_OTHER };
enum { ROLE_LOCKER, ROLE_HOLDER };
unsigned long POOL_MAX; Core* pool;           /* new waiters pushed on the sender word: pool[0] = newest */
#define POOL_INIT() do { POOL_MAX = nondet_ulong(); __CPROVER_assume(POOL_MAX >= 1 && POOL_MAX <= (1UL << 36)); pool = malloc(sizeof(Core) * POOL_MAX); __CPROVER_assume(pool != 0); } while (0)
struct Ghost {
  int role; int holder;
  uintptr_t me; unsigned char parked;          /* locker: its own node, and whether it is enqueued */
  unsigned long n;                             /* holder: number of new waiters in the sender word */
  unsigned long taken, rev; unsigned char has_batch;     /* holder: list taken over by GetHead, reversal frontier */
  unsigned long recv_len;                      /* holder: length of the receiver list (owned, plain) */
  unsigned long grants; Core* granted; unsigned long curr_submits; void* curr_submit_exec; unsigned long transfers;
  unsigned char released;
} g;
Core* g_me_node; Core* g_curr;
static void ghost_havoc(void) { g.role = nondet_int(); g.holder = nondet_int(); g.me = nondet_ulong(); g.parked = 0; g.n = nondet_ulong(); g.taken = 0; g.rev = 0; g.has_batch = 0;
  g.recv_len = nondet_ulong(); g.grants = 0; g.granted = 0; g.curr_submits = 0; g.transfers = 0; g.released = 0; }
#define SENDER_OF(n) ((n) ? (uintptr_t)&pool[0] : kLockedNoWaiters)
/* A.4: the word is kNotLocked exactly while nobody holds the mutex */
#define INV(W) ((g.holder == H_NONE || g.holder == H_ME || g.holder == H_OTHER) && (((W) == kNotLocked) == (g.holder == H_NONE)) && g.me != kNotLocked && g.me != kLockedNoWaiters)
static inline void rg_env(RG_WORD* p) {
  if (g.role == ROLE_LOCKER) {
    /* rely of a locker that is not yet enqueued: lock attempts, pushes, unlocks and grants of the others - any state with Inv in which it does not hold the mutex */
    if (!g.parked && nondet_bool()) {
      uintptr_t w = nondet_ulong(); int h = nondet_bool() ? H_OTHER : H_NONE;
      __CPROVER_assume((w == kNotLocked) == (h == H_NONE) && w != g.me);
      *p = w; g.holder = h;
    }
  } else {
    /* rely of the holder: lockers only push (the word never becomes kNotLocked under a holder) */
    if (!g.released) { unsigned long n2 = nondet_ulong(); __CPROVER_assume(n2 >= g.n && n2 <= POOL_MAX); g.n = n2; *p = SENDER_OF(g.n); }
  }
  __CPROVER_assert(INV(*p), "rely preserves the mutex invariant (A.4)");
}
static inline void rg_read(RG_WORD* p, RG_WORD v, int mo) { }
static inline void rg_write(RG_WORD* p, RG_WORD o, RG_WORD n, int mo, int kind) {
  if (g.role == ROLE_LOCKER) {
    if (n == kLockedNoWaiters) {
      __CPROVER_assert(kind == RG_CAS && o == kNotLocked && g.holder == H_NONE, "G_lock: the mutex is taken only while it is free (at most one holder)");
      __CPROVER_assert(MO_ACQ(mo), "C04: MO take: acquiring the mutex makes the previous critical section visible, needs acquire");
      g.holder = H_ME;
    } else {
      __CPROVER_assert(kind == RG_CAS && n == g.me && o != kNotLocked && !g.parked, "G_lock: otherwise the locker pushes its own node, once, onto a locked word");
      __CPROVER_assert(g_me_node->next == (Core*)o, "G_lock: the node is linked to the waiters it found");
      __CPROVER_assert(MO_REL(mo), "C04: MO give: enqueueing publishes the coroutine object, needs release");
      g.parked = 1;
    }
  } else {
    __CPROVER_assert(g.holder == H_ME, "G_unlock: only the holder writes the word");
    if (n == kNotLocked) {
      __CPROVER_assert(kind == RG_CAS && o == kLockedNoWaiters && g.recv_len == 0, "G_unlock: released only when no waiter is parked (none in the word at the CAS, receiver list empty)");
      __CPROVER_assert(MO_REL(mo), "C04: MO give: unlocking publishes the critical section, needs release");
      g.holder = H_NONE; g.released = 1;
    } else {
      __CPROVER_assert(kind == RG_XCHG && n == kLockedNoWaiters && o != kLockedNoWaiters && o != kNotLocked && !g.has_batch, "G_unlock: takes over all new waiters with one exchange");
      __CPROVER_assert(MO_ACQ(mo), "C04: MO take: the exchange takes the enqueued coroutine objects, needs acquire");
      g.has_batch = 1; g.taken = g.n; g.n = 0; g.rev = 0;
    }
  }
  __CPROVER_assert(INV(*p), "own step preserves the mutex invariant (A.4)");
}
#include "rg_atomic.h"
'''


# real-code driver (thorough tier sanity run, replay of violations)
DRIVERS = [('coro_mutex.cpp', [2000], 'coro')]

def macros(repo):
    raw, txt = read_source(repo, F_CORO)
    m1 = re.search(r'#\s*define\s+YACLIB_TRANSFER\(handle\)\s*\\\s*return\s+yaclib_std::coroutine_handle<>\s*\{\s*\\\s*handle\s*\\\s*\}', txt)
    m2 = re.search(r'#\s*define\s+YACLIB_TRANSFER\(handle\)\s*\\\s*handle\.resume\(\);\s*\\\s*return\s+true', txt)
    m3 = re.search(r'#\s*define\s+YACLIB_SUSPEND\(\)\s+YACLIB_TRANSFER\(yaclib_std::noop_coroutine\(\)\)', txt)
    m4 = re.search(r'#\s*define\s+YACLIB_SUSPEND\(\)\s+return\s+true', txt)
    if not (m1 and m2 and m3 and m4):
        raise ExtractionBreak('coro.hpp: YACLIB_TRANSFER / YACLIB_SUSPEND no longer have the two known shapes')
    return '''#if SymmetricTransfer
#define YACLIB_TRANSFER(h) return (Transfer)(h)
#define YACLIB_SUSPEND() return NOOP_CORO
#else
#define YACLIB_TRANSFER(h) RESUME(h); return (Transfer)1
#define YACLIB_SUSPEND() return (Transfer)1
#endif
#define NOOP_CORO ((Transfer)&g_noop)
char g_noop;
'''


def rw(name, **kw):
    pre = [(r'next\.Curr\(\)', 'CURR(next)', 0), (r'curr\._executor\.Swap\(\s*next\._executor\s*\)', 'SWAP_EXEC(curr, next)', 0),
           (r'next\._executor\s*=\s*std::move\(curr_executor\)', 'next->_executor = curr_executor', 0)] + list(kw.pop('pre', []))
    kw.setdefault('refs', ['curr', 'next', 'executor'])
    kw.setdefault('methods', ['TryUnlockAwait', 'GetHead', 'UnlockHereAwait', 'TryLockAwait', 'BatchingPossible'])
    kw.setdefault('omethods', ['Submit'])
    return Rewriter(name, atomics=['_sender'], pre=pre, types={'BaseCore*': 'Core*', 'detail::BaseCore*': 'Core*', 'Node*': 'Core*'}, **kw)


def jobs(ctx):
    repo = ctx.repo
    props = ['C14', 'C04']
    out = []
    MAC = macros(repo)
    W = r'struct\s+MutexImpl\s*\{'
    B = {nm: find_body(repo, F, sig, 'MutexImpl::' + nm, within=W) for nm, sig in {
        'TryLockAwait': r'bool\s+TryLockAwait\s*\(', 'AwaitLock': r'bool\s+AwaitLock\s*\(', 'TryUnlockAwait': r'bool\s+TryUnlockAwait\s*\(',
        'BatchingPossible': r'bool\s+BatchingPossible\s*\(', 'UnlockHereAwait': r'void\s+UnlockHereAwait\s*\(', 'AwaitUnlock': r'auto\s+AwaitUnlock\s*\(\s*BaseCore\s*&\s*curr\s*\)',
        'AwaitUnlockOn': r'auto\s+AwaitUnlockOn\s*\(', 'TryLock': r'bool\s+TryLock\s*\(', 'UnlockHere': r'void\s+UnlockHere\s*\(', 'GetHead': r'BaseCore\s*&\s*GetHead\s*\('}.items()}

    def job(name, b, src, enforce, replace, canaries=1, loops=False, expect=(r'postcondition',), timeout=300, kind='proof', unwind=None, entry='harness'):
        out.append(Job('coro_mutex/' + name, props, src, entry, enforce=enforce, replace=replace, loop_contracts=loops, funcs=b if isinstance(b, list) else [b], canaries=canaries,
                       expect=list(expect), meta={'fn': name}, timeout=timeout, kind=kind, unwind=unwind))

    # ---- TryLockAwait / TryLock ----------------------------------------------------------------------------------------
    c = rw('TryLockAwait').rewrite(B['TryLockAwait'].text)
    contract_try = '''int TryLockAwait(Mutex* self)
__CPROVER_requires(__CPROVER_is_fresh(self, sizeof(*self)) && g.role == ROLE_LOCKER && INV(self->_sender) && g.holder != H_ME && !g.parked)
__CPROVER_assigns(self->_sender, g.holder)
__CPROVER_ensures(INV(self->_sender) && (RET == 0 || RET == 1))
/* Try*: succeed only when the mutex is free (then this coroutine is the holder); failure leaves everything as it was */
__CPROVER_ensures(RET ? g.holder == H_ME && self->_sender == kLockedNoWaiters : g.holder != H_ME)
'''
    job('TryLockAwait', B['TryLockAwait'], COMMON + contract_try + '{' + c + '}\nvoid harness(void) { ghost_havoc(); Mutex* m; int r = TryLockAwait(m); if (r) VF_CANARY("acquired"); else VF_CANARY("busy"); }\n',
        'TryLockAwait', [], canaries=2, expect=[r'postcondition', r'G_lock'])
    c = rw('TryLock').rewrite(B['TryLock'].text)
    src = COMMON + contract_try + ''';
int TryLock(Mutex* self)
__CPROVER_requires(__CPROVER_is_fresh(self, sizeof(*self)) && g.role == ROLE_LOCKER && INV(self->_sender) && g.holder != H_ME && !g.parked)
__CPROVER_assigns(self->_sender, g.holder)
__CPROVER_ensures(INV(self->_sender) && (RET ? g.holder == H_ME : g.holder != H_ME))
{''' + c + '''}
void harness(void) { ghost_havoc(); Mutex* m; int r = TryLock(m); if (r) VF_CANARY("acquired"); else VF_CANARY("busy"); }
'''
    job('TryLock', B['TryLock'], src, 'TryLock', ['TryLockAwait'], canaries=2)
    # ---- AwaitLock --------------------------------------------------------------------------------------------------------
    c = rw('AwaitLock').rewrite(B['AwaitLock'].text)
    inv = ('__CPROVER_assigns(expected, curr->next, self->_sender, g.holder, g.parked)\n'
           '__CPROVER_loop_invariant(INV(self->_sender) && !g.parked && g.holder != H_ME && g.role == ROLE_LOCKER && g.me == (uintptr_t)curr)')
    c = attach_loop_contracts('AwaitLock', c, [inv])
    src = COMMON + '''int AwaitLock(Mutex* self, Core* curr)
__CPROVER_requires(__CPROVER_is_fresh(self, sizeof(*self)) && __CPROVER_is_fresh(curr, sizeof(*curr)) && g.role == ROLE_LOCKER && INV(self->_sender) && g.holder != H_ME && !g.parked && g.me == (uintptr_t)curr)
__CPROVER_assigns(self->_sender, curr->next, g.holder, g.parked, g_me_node)
__CPROVER_ensures(INV(self->_sender) && (RET == 0 || RET == 1))
/* AwaitLock: returns false <=> acquired (the coroutine continues at once as the holder), true <=> enqueued (suspended until a holder grants it): never both, never neither */
__CPROVER_ensures(RET ? (g.parked && g.holder != H_ME) : (!g.parked && g.holder == H_ME))
{ g_me_node = curr; ''' + c + '''}
void harness(void) { ghost_havoc(); Mutex* m; Core* c; int r = AwaitLock(m, c); if (r) VF_CANARY("enqueued"); else VF_CANARY("acquired"); }
'''
    job('AwaitLock', B['AwaitLock'], src, 'AwaitLock', [], canaries=2, loops=True, expect=[r'postcondition', r'G_lock', r'invariant after step|loop_invariant_step'])
    # ---- TryUnlockAwait ---------------------------------------------------------------------------------------------------------
    c = rw('TryUnlockAwait').rewrite(B['TryUnlockAwait'].text)
    contract_tu = '''int TryUnlockAwait(Mutex* self)
__CPROVER_requires(__CPROVER_is_fresh(self, sizeof(*self)) && g.role == ROLE_HOLDER && g.holder == H_ME && INV(self->_sender) && !g.released && !g.has_batch && g.n <= POOL_MAX)
__CPROVER_requires(self->_sender == SENDER_OF(g.n) && (self->_receiver != 0) == (g.recv_len > 0))
__CPROVER_assigns(self->_sender, g.holder, g.released, g.n)
__CPROVER_ensures(INV(self->_sender) && (RET == 0 || RET == 1))
/* unlock fast path: releases only if no waiter is parked anywhere (receiver list empty and no new waiter at the release CAS); otherwise the holder keeps the mutex and must grant it:
   a waiter that enqueued makes the release fail - no lost wake-up */
__CPROVER_ensures(RET ? (g.holder == H_NONE && g.released && g.recv_len == 0 && self->_sender == kNotLocked) : (g.holder == H_ME && !g.released && (g.recv_len > 0 || g.n >= 1)))
__CPROVER_ensures(self->_sender == (RET ? kNotLocked : SENDER_OF(g.n)))
'''
    # BatchingPossible (proved in its own job below) is available to the body as the extracted helper it is, for both values of Batching
    c_bp = rw('BatchingPossible').rewrite(B['BatchingPossible'].text)
    for batching in (0, 1):
        job('TryUnlockAwait.batch%d' % batching, [B['TryUnlockAwait'], B['BatchingPossible']],
            COMMON + '#define Batching %d\nstatic int BatchingPossible(Mutex* self) {' % batching + c_bp + '}\n' + contract_tu + '{' + c + '}\nvoid harness(void) { ghost_havoc(); POOL_INIT(); Mutex* m; int r = TryUnlockAwait(m); if (r) VF_CANARY("released"); else VF_CANARY("waiters present"); }\n',
            'TryUnlockAwait', [], canaries=2, expect=[r'postcondition', r'G_unlock'])
    # ---- GetHead: FIFO reversal over the ghost pool -----------------------------------------------------------------------------------
    NEXT = [(r'(\b\w+)->next\s*=(?!=)\s*([^;]+);', r'NODE_SET_NEXT(\1, \2);', 0), (r'(\b\w+)->next\b(?!\s*=[^=])', r'NODE_NEXT(\1)', 0)]
    POOLACC = r'''
static inline unsigned long node_idx(Core* x) { __CPROVER_assert(x != 0 && __CPROVER_same_object(x, pool) && (unsigned long)(x - pool) < g.taken, "access to a node of the list taken over"); return (unsigned long)(x - pool); }
static inline Core* node_next(Core* x) { unsigned long k = node_idx(x); if (k < g.rev) return k > 0 ? &pool[k - 1] : (Core*)0; return k + 1 < g.taken ? &pool[k + 1] : (Core*)0; }
static inline void node_set_next(Core* x, Core* v) { unsigned long k = node_idx(x);
  __CPROVER_assert(k == g.rev && v == (k > 0 ? &pool[k - 1] : (Core*)0), "SHAPE: a link write is exactly the next step of the in-place reversal"); g.rev = k + 1; }
#define NODE_NEXT(x) node_next(x)
#define NODE_SET_NEXT(x, v) node_set_next(x, v)
Core g_recv_head;      /* the first node of the (non-empty) receiver list, abstract */
'''
    for fifo in (0, 1):
        c = rw('GetHead', post=NEXT, pre=[(r'return\s+\*\s*_receiver\s*;', 'return self->_receiver;', 0), (r'return\s+\*\s*static_cast<BaseCore\s*\*>\(prev\)\s*;', 'return (Core*)prev;', 0),
                                          (r'return\s+\*\s*reinterpret_cast<BaseCore\s*\*>\(expected\)\s*;', 'return (Core*)expected;', 0)]).rewrite(B['GetHead'].text)
        inv = ('__CPROVER_assigns(node, prev, g.rev)\n__CPROVER_loop_invariant(g.has_batch && g.taken >= 1 && g.taken <= POOL_MAX && g.rev < g.taken && node == &pool[g.rev] && prev == (g.rev > 0 ? &pool[g.rev - 1] : (Core*)0))')
        c = attach_loop_contracts('GetHead', c, [inv])
        src = COMMON + POOLACC + '#define FIFO %d\n' % fifo + '''Core* GetHead(Mutex* self)
__CPROVER_requires(__CPROVER_is_fresh(self, sizeof(*self)) && g.role == ROLE_HOLDER && g.holder == H_ME && INV(self->_sender) && !g.released && !g.has_batch && g.n <= POOL_MAX)
__CPROVER_requires(self->_sender == SENDER_OF(g.n) && (g.recv_len > 0 ? self->_receiver == &g_recv_head : (self->_receiver == 0 && g.n >= 1)))     /* reached only after the fast path failed: somebody is parked */
__CPROVER_assigns(self->_sender, g.n, g.taken, g.rev, g.has_batch)
__CPROVER_ensures(INV(self->_sender) && g.holder == H_ME)
/* GetHead: the next waiter to be granted: the head of the receiver list if there is one, otherwise all new waiters are taken over with one exchange and the oldest (FIFO) /
   newest (LIFO) of them is returned; nothing is lost: the rest stays linked behind it */
__CPROVER_ensures(OLD(g.recv_len) > 0 ? (RET == &g_recv_head && !g.has_batch) : (g.has_batch && g.taken >= 1 && (FIFO ? (RET == &pool[g.taken - 1] && g.rev == g.taken)
      /* FIFO=false leaves the order open: either end of the taken list, completely reversed or not at all - nobody skipped or lost either way */
      : ((RET == &pool[0] && g.rev == 0) || (RET == &pool[g.taken - 1] && g.rev == g.taken)))))
{''' + c + '''}
void harness(void) { ghost_havoc(); POOL_INIT(); Mutex* m; GetHead(m); if (!g.has_batch) VF_CANARY("from the receiver list"); else if (g.taken > 1) VF_CANARY("took over several"); else VF_CANARY("took over one"); }
'''
        job('GetHead.fifo%d' % fifo, B['GetHead'], src, 'GetHead', [], canaries=3, loops=True, expect=[r'postcondition', r'G_unlock', r'invariant after step|loop_invariant_step'])
    # bounded, real memory: FIFO grants follow arrival order through the reversal
    n = 6 if ctx.tier == 'quick' else 10
    c = rw('GetHead', pre=[(r'return\s+\*\s*_receiver\s*;', 'return self->_receiver;', 0), (r'return\s+\*\s*static_cast<BaseCore\s*\*>\(prev\)\s*;', 'return (Core*)prev;', 0),
                           (r'return\s+\*\s*reinterpret_cast<BaseCore\s*\*>\(expected\)\s*;', 'return (Core*)expected;', 0)]).rewrite(B['GetHead'].text)
    src = r'''#include "vf.h"
typedef struct Core Core; typedef Core BaseCore; typedef Core Node; struct Core { Core* next; void* _executor; };
typedef struct Mutex { uintptr_t _sender; Core* _receiver; } Mutex;
#define kLockedNoWaiters ((uintptr_t)0)
#define kNotLocked (~(uintptr_t)0)
#define RG_WORD uintptr_t
static inline void rg_env(RG_WORD* p) { } static inline void rg_read(RG_WORD* p, RG_WORD v, int mo) { } static inline void rg_write(RG_WORD* p, RG_WORD o, RG_WORD n, int mo, int kind) { }
#include "rg_atomic.h"
#define FIFO 1
#define N %d
Core* GetHead(Mutex* self) {%s}
Core w[N];
void harness(void) {
  Mutex m; unsigned long k = nondet_ulong(); __CPROVER_assume(k >= 1 && k <= N);
  /* arrival order w[0] first: each arrival pushes on the head, so the word holds w[k-1] -> ... -> w[0] */
  for (unsigned long i = 0; i < N; i++) w[i].next = i ? &w[i - 1] : (Core*)0;
  m._sender = (uintptr_t)&w[k - 1]; m._receiver = 0;
  Core* h = GetHead(&m);
  for (unsigned long i = 0; i < N; i++) { if (i < k) { __CPROVER_assert(h == &w[i], "C14 (bounded): with FIFO=true grants follow arrival order, nobody is skipped or lost"); h = h->next; } }
  __CPROVER_assert(h == 0, "C14 (bounded): the taken list ends after the last arrival");
  VF_CANARY("end");
}
''' % (n, c)
    job('GetHead.fifo.bounded', B['GetHead'], src, None, [], kind='bounded', unwind=n + 2, expect=[r'bounded'])
    # ---- grants: UnlockHereAwait, AwaitUnlock, AwaitUnlockOn, UnlockHere -------------------------------------------------------------------
    GR = r'''
/* granting: exactly one parked waiter becomes the holder, through Submit on its executor or through symmetric transfer / resume */
Core g_next_obj;                 /* what GetHead returns (abstract), with the rest of its list */
Core* g_rest;
unsigned char g_waiters_known;   /* a failed fast path (or a non-empty receiver list) told the holder that somebody is parked: only then may it take a waiter */
Core* GetHead(Mutex* self) __CPROVER_requires(g.holder == H_ME && !g.released && g_waiters_known) __CPROVER_assigns(g.has_batch) __CPROVER_ensures(RET == &g_next_obj && g_next_obj.next == g_rest);
void Submit(void* exec, Core* c)
__CPROVER_requires(exec != 0 && c != 0 && (c == g_curr ? g.curr_submits == 0 : (g.grants == 0 && g.holder == H_ME)))
__CPROVER_assigns(g.grants, g.granted, g.holder, g.curr_submits, g.curr_submit_exec)
__CPROVER_ensures(c == g_curr ? (g.curr_submits == 1 && g.curr_submit_exec == exec && g.grants == OLD(g.grants) && g.holder == OLD(g.holder)) : (g.grants == 1 && g.granted == c && g.holder == H_OTHER && g.curr_submits == OLD(g.curr_submits)));
void* CURR(Core* c) __CPROVER_assigns() __CPROVER_ensures(RET == (void*)c);
void RESUME(void* h) __CPROVER_requires(h != 0 && g.grants == 0 && g.holder == H_ME) __CPROVER_assigns(g.grants, g.granted, g.holder, g.transfers) __CPROVER_ensures(g.grants == 1 && g.granted == (Core*)h && g.holder == H_OTHER && g.transfers == OLD(g.transfers) + 1);
static inline void SWAP_EXEC(Core* a, Core* b) { void* t = a->_executor; a->_executor = b->_executor; b->_executor = t; }
'''
    c = rw('UnlockHereAwait').rewrite(B['UnlockHereAwait'].text)
    src = COMMON + GR + '''void UnlockHereAwait(Mutex* self)
__CPROVER_requires(__CPROVER_is_fresh(self, sizeof(*self)) && g.role == ROLE_HOLDER && g.holder == H_ME && !g.released && g.grants == 0 && g_next_obj._executor != 0 && g_curr != &g_next_obj && g_waiters_known)
__CPROVER_assigns(self->_receiver, g.has_batch, g.grants, g.granted, g.holder, g.curr_submits, g.curr_submit_exec)
/* slow unlock: exactly one waiter is granted (submitted to its own executor) and becomes the holder; the others stay in the holder-owned receiver list for the next unlock */
__CPROVER_ensures(g.grants == 1 && g.granted == &g_next_obj && g.holder == H_OTHER && self->_receiver == g_rest && g.curr_submits == 0)
{''' + c + '''}
void harness(void) { ghost_havoc(); Mutex* m; UnlockHereAwait(m); VF_CANARY("end"); }
'''
    job('UnlockHereAwait', B['UnlockHereAwait'], src, 'UnlockHereAwait', ['GetHead', 'Submit'])
    c = rw('UnlockHere').rewrite(B['UnlockHere'].text)
    src = COMMON + '''unsigned g_slow; unsigned char g_fast_ok; unsigned char g_waiters_known;
int TryUnlockAwait(Mutex* self) __CPROVER_assigns(g.released, g.holder, g_waiters_known) __CPROVER_ensures(RET == g_fast_ok && g_fast_ok <= 1 && g.released == RET && g.holder == (RET ? H_NONE : OLD(g.holder)) && g_waiters_known == !RET);
void UnlockHereAwait(Mutex* self) __CPROVER_requires(!g.released && g.holder == H_ME && g_waiters_known) __CPROVER_assigns(g_slow, g.grants, g.holder) __CPROVER_ensures(g_slow == OLD(g_slow) + 1 && g.grants == 1 && g.holder == H_OTHER);
void UnlockHere(Mutex* self)
__CPROVER_requires(__CPROVER_is_fresh(self, sizeof(*self)) && g.holder == H_ME && g_slow == 0 && g.grants == 0 && !g.released)
__CPROVER_assigns(g.released, g.holder, g_slow, g.grants, g_waiters_known)
/* every unlock either releases the mutex (nobody was parked) or grants it to exactly one parked waiter - never neither (lost wake-up), never both */
__CPROVER_ensures((g.released && g.grants == 0 && g.holder == H_NONE) || (!g.released && g.grants == 1 && g.holder == H_OTHER))
{''' + c + '''}
void harness(void) { ghost_havoc(); g_slow = 0; Mutex* m; UnlockHere(m); if (g.released) VF_CANARY("released"); else VF_CANARY("granted"); }
'''
    job('UnlockHere', B['UnlockHere'], src, 'UnlockHere', ['TryUnlockAwait', 'UnlockHereAwait'], canaries=2)
    for st in (0, 1):
        c = rw('AwaitUnlock', pre=[(r'auto\s*&\s*next\s*=\s*\*\s*_receiver\s*;', 'Core* next = self->_receiver;', 0)]).rewrite(B['AwaitUnlock'].text)
        src = COMMON + '#define SymmetricTransfer %d\n' % st + MAC + GR + '''Transfer AwaitUnlock(Mutex* self, Core* curr)
__CPROVER_requires(__CPROVER_is_fresh(self, sizeof(*self)) && __CPROVER_is_fresh(curr, sizeof(*curr)) && __CPROVER_is_fresh(self->_receiver, sizeof(Core)))
__CPROVER_requires(g.role == ROLE_HOLDER && g.holder == H_ME && !g.released && g.grants == 0 && g.curr_submits == 0 && g_curr == curr && curr->_executor != 0 && self->_receiver->_executor != 0 && g.transfers == 0)
__CPROVER_assigns(self->_receiver, curr->_executor, OBJ_RECV_EXEC, g.grants, g.granted, g.holder, g.curr_submits, g.curr_submit_exec, g.transfers)
/* batching unlock: the head of the receiver list is granted by transfer (it runs its critical section right here, on the executor the unlocking coroutine was running on),
   the unlocking coroutine itself is resubmitted exactly once on the granted waiter's former executor */
__CPROVER_ensures(g.curr_submits == 1 && g.curr_submit_exec == OLD(self->_receiver->_executor) && curr->_executor == OLD(self->_receiver->_executor))
__CPROVER_ensures(SymmetricTransfer ? (RET == (Transfer)OLD(self->_receiver) && g.grants == 0) : (g.grants == 1 && g.granted == OLD(self->_receiver) && g.holder == H_OTHER))
__CPROVER_ensures(self->_receiver == OLD(self->_receiver->next))
{''' + c + '''}
void harness(void) { ghost_havoc(); Mutex* m; Core* c; g_curr = c; AwaitUnlock(m, c); VF_CANARY("end"); }
'''
        src = src.replace('OBJ_RECV_EXEC', 'self->_receiver->_executor')
        src = src.replace('void harness(void) { ghost_havoc(); Mutex* m; Core* c; g_curr = c; AwaitUnlock(m, c);', 'void harness(void) { ghost_havoc(); Mutex* m; Core* c; AwaitUnlock(m, c);')
        src = src.replace('&& g_curr == curr && curr->_executor != 0', '&& curr->_executor != 0').replace('{' + c + '}', '{ g_curr = curr; ' + c + '}').replace('g.curr_submit_exec, g.transfers)\n/* batching', 'g.curr_submit_exec, g.transfers, g_curr)\n/* batching')
        job('AwaitUnlock.st%d' % st, B['AwaitUnlock'], src, 'AwaitUnlock', ['Submit', 'CURR', 'RESUME'] if not st else ['Submit', 'CURR'])
    # ---- AwaitUnlockOn --------------------------------------------------------------------------------------------------------------------------
    for st in (0, 1):
        for batching in (0, 1):
            c = rw('AwaitUnlockOn', pre=[(r'auto\s+curr_executor\s*=\s*std::exchange\(\s*curr\._executor\s*,\s*&executor\s*\)\s*;', 'void* curr_executor = STD_EXCHANGE(curr->_executor, executor);', 0),
                                         (r'executor\.Submit\(\s*curr\s*\)', 'Submit(executor, curr)', 0), (r'auto\s*&\s*next\s*=\s*GetHead\(\)\s*;', 'Core* next = GetHead();', 0)]).rewrite(B['AwaitUnlockOn'].text)
            src = COMMON + '#define SymmetricTransfer %d\n#define Batching %d\n' % (st, batching) + MAC + GR + """unsigned char g_fast_ok;
int TryUnlockAwait(Mutex* self) __CPROVER_requires(g.holder == H_ME && !g.released) __CPROVER_assigns(g.released, g.holder, g_waiters_known) __CPROVER_ensures(RET == g_fast_ok && g_fast_ok <= 1 && g.released == RET && g.holder == (RET ? H_NONE : H_ME) && g_waiters_known == !RET);
Transfer AwaitUnlockOn(Mutex* self, Core* curr, void* executor)
__CPROVER_requires(__CPROVER_is_fresh(self, sizeof(*self)) && __CPROVER_is_fresh(curr, sizeof(*curr)) && executor != 0 && curr->_executor != 0 && curr != &g_next_obj && g_next_obj._executor != 0)
__CPROVER_requires(g.role == ROLE_HOLDER && g.holder == H_ME && !g.released && g.grants == 0 && g.curr_submits == 0 && g.transfers == 0 && !g_waiters_known)
__CPROVER_assigns(self->_receiver, curr->_executor, g_next_obj._executor, g.released, g.has_batch, g.grants, g.granted, g.holder, g.curr_submits, g.curr_submit_exec, g.transfers, g_curr, g_waiters_known)
/* UnlockOn(e): the unlocking coroutine is resubmitted exactly once, on e; then either the mutex was released (nobody parked) or exactly one waiter is granted (Submit on its executor,
   or - batching - transfer) */
__CPROVER_ensures(g.curr_submits == 1 && g.curr_submit_exec == executor && curr->_executor == executor)
__CPROVER_ensures(g.released ? (g.grants == 0 && g.holder == H_NONE) : ((g.grants == 1 && g.granted == &g_next_obj && g.holder == H_OTHER) || (SymmetricTransfer && Batching && RET == (Transfer)&g_next_obj && g.grants == 0)))
__CPROVER_ensures(!g.released ==> self->_receiver == g_rest)
{ g_curr = curr; """ + c + """}
void harness(void) { ghost_havoc(); Mutex* m; Core* c; void* e; AwaitUnlockOn(m, c, e); if (g.released) VF_CANARY("released"); else VF_CANARY("granted"); }
"""
            job('AwaitUnlockOn.st%d.batch%d' % (st, batching), B['AwaitUnlockOn'], src, 'AwaitUnlockOn', ['Submit', 'TryUnlockAwait', 'GetHead', 'CURR'] + ([] if st else ['RESUME']), canaries=2)
    # ---- awaiters -----------------------------------------------------------------------------------------------------------------------------------
    b_ur = find_body(repo, F, r'bool\s+await_ready\s*\(\s*\)\s*noexcept', 'UnlockAwaiter::await_ready', within=r'class\s+\[\[nodiscard\]\]\s+UnlockAwaiter\s+final')
    c = Rewriter('UnlockAwaiter::await_ready', pre=[(r'_mutex\.(\w+)\(\)', r'\1(self)', 0)], nomembers=['_mutex']).rewrite(b_ur.text)
    src = COMMON + """unsigned char g_fast_ok, g_batch_ok, g_waiters_known; unsigned g_slow;
int TryUnlockAwait(Mutex* self) __CPROVER_requires(g.holder == H_ME && !g.released) __CPROVER_assigns(g.released, g.holder, g_waiters_known) __CPROVER_ensures(RET == g_fast_ok && g_fast_ok <= 1 && g.released == RET && g.holder == (RET ? H_NONE : H_ME) && g_waiters_known == !RET);
int BatchingPossible(Mutex* self) __CPROVER_assigns() __CPROVER_ensures(RET == g_batch_ok && g_batch_ok <= 1);
void UnlockHereAwait(Mutex* self) __CPROVER_requires(!g.released && g.holder == H_ME && g_waiters_known) __CPROVER_assigns(g_slow, g.grants, g.holder) __CPROVER_ensures(g_slow == OLD(g_slow) + 1 && g.grants == 1 && g.holder == H_OTHER);
int await_ready(Mutex* self)
__CPROVER_requires(g.holder == H_ME && !g.released && g.grants == 0 && g_slow == 0)
__CPROVER_assigns(g.released, g.holder, g_slow, g.grants, g_waiters_known)
/* co_await Unlock(): ready (no suspension) iff the unlock is already complete - released, or one waiter granted by Submit; not ready only when a batching hand-over by transfer follows in await_suspend,
   and then the mutex is still held by this coroutine */
__CPROVER_ensures(RET ? ((g.released && g.grants == 0) || (!g.released && g.grants == 1 && g.holder == H_OTHER)) : (!g.released && g.grants == 0 && g.holder == H_ME && g_batch_ok))
{""" + c + """}
void harness(void) { ghost_havoc(); g_slow = 0; Mutex* m; int r = await_ready(m); if (!r) VF_CANARY("batching hand-over follows"); else if (g.released) VF_CANARY("released"); else VF_CANARY("granted"); }
"""
    job('UnlockAwaiter.await_ready', b_ur, src, 'await_ready', ['TryUnlockAwait', 'BatchingPossible', 'UnlockHereAwait'], canaries=3)
    c = rw('BatchingPossible').rewrite(B['BatchingPossible'].text)
    for batching in (0, 1):
        src = COMMON + '#define Batching %d\n' % batching + 'int BatchingPossible(Mutex* self)\n__CPROVER_requires(__CPROVER_is_fresh(self, sizeof(*self)))\n__CPROVER_assigns()\n/* a hand-over by transfer needs a waiter already in the holder-owned receiver list */\n__CPROVER_ensures(RET == (Batching && self->_receiver != 0))\n{' + c + '}\nvoid harness(void) { Mutex* m; int r = BatchingPossible(m); VF_CANARY("end"); }\n'
        job('BatchingPossible.batch%d' % batching, B['BatchingPossible'], src, 'BatchingPossible', [])
    b_lr = find_body(repo, F_AW, r'bool\s+await_ready\s*\(\s*\)\s*noexcept', 'LockAwaiter::await_ready', within=r'class\s+\[\[nodiscard\]\]\s+LockAwaiter\s*\{')
    b_ls = find_body(repo, F_AW, r'bool\s+await_suspend\s*\(', 'LockAwaiter::await_suspend', within=r'class\s+\[\[nodiscard\]\]\s+LockAwaiter\s*\{')
    pre = [(r'_mutex\.(\w+)\(\s*handle\.promise\(\)\s*\)', r'\1(self, promise)', 0), (r'_mutex\.(\w+)\(\)', r'\1(self)', 0)]
    cr = Rewriter('LockAwaiter::await_ready', pre=pre, nomembers=['_mutex']).rewrite(b_lr.text)
    cs = Rewriter('LockAwaiter::await_suspend', pre=pre, nomembers=['_mutex']).rewrite(b_ls.text)
    src = '#include "vf.h"\n#define Shared 0\n' + """unsigned g_try, g_await, g_try_sh, g_await_sh; int g_r; void* g_p;
int TryLockAwait(void* m) __CPROVER_assigns(g_try) __CPROVER_ensures(g_try == OLD(g_try) + 1 && RET == g_r);
int TryLockSharedAwait(void* m) __CPROVER_assigns(g_try_sh) __CPROVER_ensures(g_try_sh == OLD(g_try_sh) + 1 && RET == g_r);
int AwaitLock(void* m, void* p) __CPROVER_assigns(g_await, g_p) __CPROVER_ensures(g_await == OLD(g_await) + 1 && g_p == p && RET == g_r);
int AwaitLockShared(void* m, void* p) __CPROVER_assigns(g_await_sh, g_p) __CPROVER_ensures(g_await_sh == OLD(g_await_sh) + 1 && g_p == p && RET == g_r);
int await_ready(void* self) __CPROVER_requires(g_try == 0 && g_try_sh == 0) __CPROVER_assigns(g_try, g_try_sh)
/* co_await Lock(): no suspension iff the try-lock succeeded (exclusive form for the exclusive awaiter) */
__CPROVER_ensures(g_try == 1 && g_try_sh == 0 && RET == g_r)
{%s}
int await_suspend(void* self, void* promise) __CPROVER_requires(g_await == 0 && g_await_sh == 0) __CPROVER_assigns(g_await, g_await_sh, g_p)
/* otherwise the coroutine itself is what gets enqueued; it stays suspended iff AwaitLock says enqueued, else it continues at once as the holder */
__CPROVER_ensures(g_await == 1 && g_await_sh == 0 && g_p == promise && RET == g_r)
{%s}
void h1(void) { void* s; g_try = g_try_sh = 0; await_ready(s); VF_CANARY("end"); }
void h2(void) { void* s; void* p; g_await = g_await_sh = 0; await_suspend(s, p); VF_CANARY("end"); }
""" % (cr, cs)
    out.append(Job('coro_mutex/LockAwaiter.await_ready', props, src, 'h1', enforce='await_ready', replace=['TryLockAwait', 'TryLockSharedAwait'], funcs=[b_lr], expect=[r'postcondition'], meta={'fn': 'LockAwaiter::await_ready'}))
    out[-1].props = props + ['C15']
    out.append(Job('coro_mutex/LockAwaiter.await_suspend', props, src, 'h2', enforce='await_suspend', replace=['AwaitLock', 'AwaitLockShared'], funcs=[b_ls], expect=[r'postcondition'], meta={'fn': 'LockAwaiter::await_suspend'}))
    out[-1].props = props + ['C15']
    if getattr(ctx, 'prop', None) == 'C15':
        out = [j for j in out if 'LockAwaiter' in j.name]      # the awaiter shared with SharedMutex
    return out


def replay(ctx, res, failed, rec):
    """the real coroutine Mutex of the tree under check (CORO build): deterministic arrival-order scenarios for all option pairs and unlock forms, then a 4-thread stress"""
    from vf.replay import run_coro_driver
    return run_coro_driver(ctx, 'coro_mutex.cpp', [2000], timeout=150)
