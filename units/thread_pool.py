"""FairThreadPool (src/runtime/fair_thread_pool.cpp), intrusive List (src/util/intrusive_list.cpp),
Manual and Inline executors (src/exe/manual.cpp, src/exe/inline.cpp):  C08, C05 (+ C04 via the monitor discipline).

Method C (monitor invariant: assume on lock, assert on unlock / wait) with ghost accounting of queued / running
jobs; the List is used through an abstract sequence contract that the real List functions are proved against in
their own jobs (ghost pool with front / back indices, method I); FIFO order is additionally checked bounded on real memory.
"""
import re

from vf.cxx2c import Rewriter, attach_loop_contracts, expand_lock, inline_void_helpers
from vf.extract import ExtractionBreak, find_body
from vf.runner import Job

F_POOL = 'src/runtime/fair_thread_pool.cpp'
F_LIST = 'src/util/intrusive_list.cpp'
F_MAN = 'src/exe/manual.cpp'
F_INL = 'src/exe/inline.cpp'

TRUSTED = ['yaclib_std::mutex / condition_variable / thread (std semantics: mutual exclusion, wait releases and re-acquires, join)',
           'Job::Call / Job::Drop interface contracts (V_Call, V_Drop)']
DROPPED = ['RAII lock objects are expanded mechanically (vf/cxx2c.expand_lock): lock at declaration, unlock before every return and at the end of the body, ownership passed by std::move(lock) to Stop(lock&&)',
           'plain updates of the protected counter `_jobs_count` are the linearisation points of the ghost accounting (+=4: job counted, -=4: job finished, |=1: stopped, |=2: stop wanted)',
           'Wait() (join of the std threads) and the constructor (thread creation) are not under contract']
ASSUMPTIONS = ['fewer than 2^60 jobs are queued or running at once (the 62-bit job count does not overflow)']

COMMON = r'''
#include "vf.h"
#include <stdlib.h>
typedef struct Node Node;
typedef Node Job;
struct Node { Node* next; };
typedef struct List { Node _head; Node* _tail; } List;
typedef struct Pool { int _m; int _idle; List _jobs; uint64_t _jobs_count; } Pool;
typedef Pool FairThreadPool;
'''

POOL = COMMON + r'''
Pool* g_self;   /* bound by assignment in the prologue; kept out of struct Ghost so that no loop / contract havoc touches it */
struct Ghost {
  unsigned long queued, running;      /* jobs in _jobs / popped and not yet accounted as finished */
  unsigned char stopped, want, hard;  /* bit0, bit1, HardStop removed queued jobs without un-counting them */
  unsigned char my_running;           /* this worker holds one unit of `running` across its unlocked Call */
  Job* popped; unsigned char popped_done;   /* the job this thread took out of a list and must finish exactly once */
  Job* pushed;
  unsigned long local_len;            /* HardStop: length of the private list */
  unsigned long calls, drops, pushes;
  unsigned char decided_stopped;      /* Submit: value of `stopped` at the deciding step */
  unsigned char exit_stopped; unsigned long exit_queued, exit_running;   /* protected state at the last unlock */
} g;
static void ghost_havoc(void) {
  g.queued = nondet_ulong(); g.running = nondet_ulong(); g.stopped = nondet_bool(); g.want = nondet_bool(); g.hard = nondet_bool();
  g.my_running = 0; g.popped = 0; g.popped_done = 1; g.pushed = 0; g.local_len = 0; g.calls = g.drops = g.pushes = 0;
  g.decided_stopped = 0; g.exit_stopped = 0; g.exit_queued = 0; g.exit_running = 0;
}
/* g_self is bound by ASSIGNMENT in the prologue of every function under proof (CBMC dereferences by value set) */
#define CNT (g_self->_jobs_count)
#define MON_INV(m) MON_INV_OF(g_self)
#define MON_INV_OF(P) ( g.stopped <= 1 && g.want <= 1 && g.hard <= 1                                                      \
   && (((P)->_jobs_count & 1) == g.stopped) && ((((P)->_jobs_count >> 1) & 1) == g.want)                                \
   && g.queued <= ((P)->_jobs_count >> 2) && g.running <= ((P)->_jobs_count >> 2) - g.queued                            \
   && (g.hard || g.running == ((P)->_jobs_count >> 2) - g.queued) && ((P)->_jobs_count >> 2) < (1UL << 61) )
#define MON_RELY(m) (!g.my_running || g.running >= 1)
static inline void mon_havoc(void* m) {
  CNT = nondet_ulong();
  unsigned char st = nondet_bool(), hd = nondet_bool();
  __CPROVER_assume(st >= g.stopped && hd >= g.hard);    /* stopped / hard never reset */
  g.queued = nondet_ulong(); g.running = nondet_ulong(); g.stopped = st; g.want = nondet_bool(); g.hard = hd;
}
#define MON_ON_UNLOCK(m) do { g.exit_stopped = g.stopped; g.exit_queued = g.queued; g.exit_running = g.running; } while (0)
#include "monitor.h"
/* linearisation points on the protected counter */
#define GHOST_ADD(v) do { __CPROVER_assert((v) == 4, "count arithmetic: an accepted job adds exactly one unit (4)"); \
                          /* listed assumption: fewer than 2^60 jobs at once */ __CPROVER_assume((CNT >> 2) < (1UL << 61)); } while (0)
#define GHOST_SUB(v) do { __CPROVER_assert((v) == 4 && g.my_running && g.running >= 1, "count arithmetic: a finished job removes exactly the unit it holds"); \
                          g.running--; g.my_running = 0; } while (0)
#define GHOST_OR(v) do { __CPROVER_assert((v) == 1 || (v) == 2, "count arithmetic: only the stop bits are or-ed in"); \
                         if ((v) == 1) g.stopped = 1; else g.want = 1; } while (0)
/* abstract List (each real List function is proved against this view in the list jobs) */
int Empty(List* l)
__CPROVER_requires(l == &g_self->_jobs ? g_lock_held == 1 : 1)
__CPROVER_assigns()
__CPROVER_ensures((RET == 0 || RET == 1) && RET == ((l == &g_self->_jobs ? g.queued : g.local_len) == 0));
Node* PopFront(List* l)
__CPROVER_requires(l == &g_self->_jobs ? (g_lock_held == 1 && g.queued >= 1) : g.local_len >= 1)
__CPROVER_requires(g.popped_done)          /* the previously taken job was finished */
__CPROVER_assigns(g.queued, g.running, g.my_running, g.local_len, g.popped, g.popped_done)
__CPROVER_ensures(RET != 0 && g.popped == RET && !g.popped_done)
__CPROVER_ensures(l == &g_self->_jobs ? (g.queued == OLD(g.queued) - 1 && g.running == OLD(g.running) + 1 && g.my_running == 1 && g.local_len == OLD(g.local_len))
                                      : (g.local_len == OLD(g.local_len) - 1 && g.queued == OLD(g.queued) && g.running == OLD(g.running) && g.my_running == OLD(g.my_running)));
void PushBack(List* l, Node* n)
__CPROVER_requires(l == &g_self->_jobs && g_lock_held == 1 && !g.stopped)      /* C08: after stopped no Submit enqueues */
__CPROVER_assigns(g.queued, g.pushes, g.pushed)
__CPROVER_ensures(g.queued == OLD(g.queued) + 1 && g.pushes == OLD(g.pushes) + 1 && g.pushed == n);
void List_move(List* dst, List* src)
__CPROVER_requires(src == &g_self->_jobs && g_lock_held == 1)
__CPROVER_assigns(g.queued, g.local_len, g.hard)
__CPROVER_ensures(g.local_len == OLD(g.queued) && g.queued == 0 && g.hard == (OLD(g.hard) || OLD(g.queued) > 0));
/* jobs are finished outside the lock, each taken job exactly once */
void Call(Job* j)
__CPROVER_requires(g_lock_held == 0)                       /* user code never runs under the pool mutex */
__CPROVER_requires(j == g.popped && !g.popped_done)        /* C08/C05: a popped job is Called exactly once */
__CPROVER_assigns(g.calls, g.popped_done)
__CPROVER_ensures(g.calls == OLD(g.calls) + 1 && g.popped_done == 1);
void Drop(Job* j)
__CPROVER_requires(g_lock_held == 0)
__CPROVER_requires((j == g.popped && !g.popped_done) || (j == g.pushed && g.pushes == 0))
__CPROVER_assigns(g.drops, g.popped_done)
__CPROVER_ensures(g.drops == OLD(g.drops) + 1 && g.popped_done == 1);
void notify_one(int* cv) __CPROVER_requires(g_lock_held == 0 || 1) __CPROVER_assigns(g_notify_one) __CPROVER_ensures(g_notify_one == OLD(g_notify_one) + 1);
void notify_all(int* cv) __CPROVER_assigns(g_notify_all) __CPROVER_ensures(g_notify_all == OLD(g_notify_all) + 1);
/* Alive() as a callee: one complete critical section of its own (proved in job pool/Alive); what it returns may be stale as soon as it returns */
static inline int Alive_cs(Pool* self) { MON_LOCK(&self->_m); int r = !g.stopped; MON_UNLOCK(&self->_m); return r; }
/* private predicates and Stop(lock&&): proved in their own jobs, used by contract here */
int WasStop(Pool* self) __CPROVER_assigns() __CPROVER_ensures(RET == (int)(self->_jobs_count & 1));
int WantStop(Pool* self) __CPROVER_assigns() __CPROVER_ensures(RET == (int)((self->_jobs_count >> 1) & 1));
int NoJobs(Pool* self) __CPROVER_assigns() __CPROVER_ensures(RET == ((self->_jobs_count >> 2) == 0));
void Stop_locked(Pool* self)
__CPROVER_requires(self == g_self && g_lock_held == 1 && MON_INV_OF(self))
__CPROVER_assigns(self->_jobs_count, g.stopped, g_lock_held, g_notify_all, g.exit_stopped, g.exit_queued, g.exit_running)
/* Stop: sets bit0, never removes jobs, releases the lock, wakes every worker */
__CPROVER_ensures(self->_jobs_count == (OLD(self->_jobs_count) | 1) && g.stopped == 1 && g_lock_held == 0 && g_notify_all == OLD(g_notify_all) + 1)
__CPROVER_ensures(g.exit_stopped == 1 && g.exit_queued == g.queued && g.exit_running == g.running);
/* the public Stop() as a callee: one complete critical section of its own (job pool/Stop): whatever other threads did before it got the mutex has happened */
static inline void Stop_public(Pool* self) { MON_LOCK(&self->_m); Stop_locked(self); }
/* C08: SoftStop stops only when no job is queued or running - a worker turns `stopped` on only on request and when nothing is queued and nothing is running (on any worker) */
#define SOFT_STOP_OK() __CPROVER_assert(g.stopped || (g.want && g.queued == 0 && g.running == 0), "C08: a worker stops the pool only on a SoftStop request and when no job is queued or running")
#define WAIT_CV(cv, lk) do { \
  __CPROVER_assert(!g.stopped, "C08: a worker blocks only while the pool is not stopped (Stop's notify_all is the last wake-up it can rely on)"); \
  __CPROVER_assert(g.queued == 0, "C08: a worker never blocks while a job is queued (the notify_one of that Submit may already be gone)"); \
  MON_WAIT(&self->_m); } while (0)
'''

FRESH = '__CPROVER_requires(__CPROVER_is_fresh(self, sizeof(*self)) && g_lock_held == 0)'

COUNT_RULES = [(r'(self->_jobs_count\s*\+=\s*(\w+)\s*;)', r'{ \1 GHOST_ADD(\2); }', 0),
               (r'(self->_jobs_count\s*-=\s*(\w+)\s*;)', r'{ \1 GHOST_SUB(\2); }', 0),
               (r'(self->_jobs_count\s*\|=\s*(\w+)\s*;)', r'{ \1 GHOST_OR(\2); }', 0),
               (r'\b(\d+)U\b', r'\1u', 0)]


def rw(name, **kw):
    kw.setdefault('methods', ['WasStop', 'WantStop', 'NoJobs'])
    kw.setdefault('omethods', ['Call', 'Drop', 'PushBack', 'PopFront', 'Empty', 'notify_one', 'notify_all'])
    kw.setdefault('refs', ['job', 'task', 'f'])
    post = list(kw.pop('post', [])) + COUNT_RULES
    kw['pre'] = list(kw.get('pre', [])) + [(r'(?<![\w.>:])Stop\(\s*\)\s*;', 'Stop_public(self);', 0)]
    return Rewriter(name, types={'Job&': 'Job*'}, post=post, **kw)


def pool_jobs(ctx, props):
    repo = ctx.repo
    out = []

    class _Missing:
        def __init__(self, err):
            self._err = err

        def __getattr__(self, k):
            raise ExtractionBreak(self._err)

    KNOWN = {'Stop', 'WasStop', 'WantStop', 'NoJobs', 'Alive', 'Submit', 'PushBack', 'PushFront', 'PopFront', 'Empty', 'Drop', 'Call', 'Loop', 'HardStop', 'SoftStop', 'Wait', 'IncRef', 'DecRef'}

    def body(sig, name):
        try:
            b = find_body(repo, F_POOL, sig, name)
        except ExtractionBreak as e:
            return _Missing(str(e))
        # a few statements moved into a new void helper of the same file are put back textually (vf.cxx2c.inline_void_helpers); the helper is then part of what is verified
        t, hb = inline_void_helpers(repo, F_POOL, b.text, KNOWN)
        if hb:
            b.text, b.helpers = t, hb
        return b
    b_alive = body(r'bool\s+FairThreadPool::Alive\s*\(', 'FairThreadPool::Alive')
    b_submit = body(r'void\s+FairThreadPool::Submit\s*\(', 'FairThreadPool::Submit')
    b_soft = body(r'void\s+FairThreadPool::SoftStop\s*\(', 'FairThreadPool::SoftStop')
    b_stop0 = body(r'void\s+FairThreadPool::Stop\s*\(\s*\)', 'FairThreadPool::Stop()')
    b_hard = body(r'void\s+FairThreadPool::HardStop\s*\(', 'FairThreadPool::HardStop')
    b_loop = body(r'void\s+FairThreadPool::Loop\s*\(', 'FairThreadPool::Loop')
    b_was = body(r'bool\s+FairThreadPool::WasStop\s*\(', 'FairThreadPool::WasStop')
    b_want = body(r'bool\s+FairThreadPool::WantStop\s*\(', 'FairThreadPool::WantStop')
    b_nojobs = body(r'bool\s+FairThreadPool::NoJobs\s*\(', 'FairThreadPool::NoJobs')
    b_stopl = body(r'void\s+FairThreadPool::Stop\s*\(\s*std::unique_lock', 'FairThreadPool::Stop(lock&&)')

    def mk(name, b, c_body, contract, harness_body, canaries, replace, loops=False, expect=(), timeout=180, flags=()):
        src = POOL + contract + '{ g_self = self; /* ghost prologue */' + c_body + '}\n' + 'void harness(void) {\n  ghost_havoc();\n  Pool* self;\n' + harness_body + '}\n'
        out.append(Job('pool/' + name, props, src, 'harness', enforce='F_' + name, replace=replace, loop_contracts=loops, funcs=[b] + list(getattr(b, 'helpers', [])),
                       canaries=canaries, expect=[r'postcondition'] + list(expect), meta={'fn': name}, timeout=timeout, cbmc_flags=list(flags)))

    # Alive
    def s_alive():
        c = rw('Alive').rewrite(expand_lock('Alive', b_alive.text))
        mk('Alive', b_alive, c, '''int F_Alive(Pool* self)
%s
__CPROVER_assigns(self->_jobs_count, g, g_self, g_lock_held)
__CPROVER_ensures(g_lock_held == 0)
__CPROVER_ensures(RET == !g.stopped)      /* decided under the lock */
''' % FRESH, '  int r = F_Alive(self);\n  if (r) VF_CANARY("alive"); else VF_CANARY("stopped");\n', 2, ['WasStop'], expect=[r'monitor invariant'])
    # Submit
    def s_submit():
        c = rw('Submit', methods=['WasStop', 'WantStop', 'NoJobs', 'Alive']).rewrite(expand_lock('Submit', b_submit.text)).replace('Alive(self)', 'Alive_cs(self)')
        mk('Submit', b_submit, c, '''void F_Submit(Pool* self, Job* job)
%s
__CPROVER_requires(__CPROVER_is_fresh(job, sizeof(*job)) && g.pushed == job && g.pushes == 0 && g.drops == 0 && g_notify_one == 0)
__CPROVER_assigns(self->_jobs_count, g, g_self, g_lock_held, g_notify_one, job->next)
__CPROVER_ensures(g_lock_held == 0)
/* Submit: accepted iff the pool was not stopped at the deciding step (then queued and a worker is notified), else Dropped exactly once outside the lock */
__CPROVER_ensures((g.pushes == 1 && g.drops == 0 && g_notify_one == 1) || (g.pushes == 0 && g.drops == 1 && g.stopped))
__CPROVER_ensures(g.calls == 0)
''' % FRESH, '  Job* job; g.pushed = job; g_notify_one = 0;\n  F_Submit(self, job);\n  if (g.pushes) VF_CANARY("accepted"); else VF_CANARY("dropped");\n', 2,
           ['WasStop', 'PushBack', 'Drop', 'notify_one'], expect=[r'monitor invariant', r'count arithmetic'])
    # SoftStop
    def s_soft():
        c = rw('SoftStop').rewrite(expand_lock('SoftStop', b_soft.text))
        mk('SoftStop', b_soft, c, '''void F_SoftStop(Pool* self)
%s
__CPROVER_requires(g_notify_all == 0)
__CPROVER_assigns(self->_jobs_count, g, g_self, g_lock_held, g_notify_all)
__CPROVER_ensures(g_lock_held == 0)
/* SoftStop: stops now iff no job is queued or running at the deciding step, else only records the wish (bit1) */
__CPROVER_ensures((g_notify_all == 1 && g.stopped) || (g_notify_all == 0 && g.want))
__CPROVER_ensures(g_notify_all == 1 ==> (g.exit_queued == 0 && g.exit_running == 0))
__CPROVER_ensures(g_notify_all == 0 ==> (g.exit_queued + g.exit_running > 0 || g.hard))
__CPROVER_ensures(g.drops == 0 && g.calls == 0)
''' % FRESH, '  g_notify_all = 0;\n  F_SoftStop(self);\n  if (g_notify_all) VF_CANARY("stopped now"); else VF_CANARY("wish recorded");\n', 2,
           ['NoJobs', 'Stop_locked'], expect=[r'monitor invariant'])
        # the deciding step of SoftStop, in isolation: "stops now" only with nothing queued or running
    # Stop()
    def s_stop():
        c = re.sub(r'Stop\s*\(\s*std::unique_lock\s*\{\s*_m\s*\}\s*\)\s*;', 'MON_LOCK(&self->_m); Stop_locked(self);', b_stop0.text)
        c = rw('Stop()').rewrite(c)
        mk('Stop', b_stop0, c, '''void F_Stop(Pool* self)
%s
__CPROVER_requires(g_notify_all == 0)
__CPROVER_assigns(self->_jobs_count, g, g_self, g_lock_held, g_notify_all)
/* Stop: bit0 set under the lock, no job removed (everything accepted before it is still queued), all workers woken */
__CPROVER_ensures(g_lock_held == 0 && g.stopped && g_notify_all == 1 && g.drops == 0 && g.exit_queued == g.queued)
''' % FRESH, '  g_notify_all = 0;\n  F_Stop(self);\n  VF_CANARY("end");\n', 1, ['Stop_locked'])
    # HardStop
    def s_hard():
        pre = [(r'detail::List\s+jobs\s*\{\s*std::move\(\s*_jobs\s*\)\s*\}\s*;', 'List jobs; List_move(&jobs, &self->_jobs);', 1)]
        c = expand_lock('HardStop', b_hard.text)
        c = rw('HardStop', pre=pre, nomembers=['_jobs']).rewrite(c)
        inv = ('__CPROVER_assigns(g.local_len, g.popped, g.popped_done, g.drops, g.queued, g.running, g.my_running)\n'
               '__CPROVER_loop_invariant(g_lock_held == 0 && g.popped_done && g.local_len + g.drops == g_stolen && g.drops <= g_stolen && g.calls == 0 && g.stopped && g_notify_all == 1)')
        c = attach_loop_contracts('HardStop', c, [inv])
        c = c.replace('List_move(&jobs, &self->_jobs);', 'List_move(&jobs, &self->_jobs); g_stolen = g.local_len;')
        mk('HardStop', b_hard, c, '''unsigned long g_stolen;
void F_HardStop(Pool* self)
%s
__CPROVER_requires(g_notify_all == 0)
__CPROVER_assigns(self->_jobs_count, g, g_self, g_lock_held, g_notify_all, g_stolen)
/* HardStop: the queue is taken under the lock, the pool is stopped, every stolen job is Dropped exactly once outside the lock */
__CPROVER_ensures(g_lock_held == 0 && g.stopped && g_notify_all == 1)
__CPROVER_ensures(g.drops == g_stolen && g.local_len == 0 && g.calls == 0 && g.popped_done)
''' % FRESH, '  g_notify_all = 0;\n  F_HardStop(self);\n  if (g_stolen > 1) VF_CANARY("several stolen"); else VF_CANARY("few");\n', 2,
           ['List_move', 'Stop_locked', 'Empty', 'PopFront', 'Drop'], loops=True, expect=[r'invariant after step|loop_invariant_step'])
    # Loop
    def s_loop():
        c = expand_lock('Loop', b_loop.text)
        c = rw('Loop', pre=[(r'_idle\.wait\(\s*lock\s*\)\s*;', 'WAIT_CV(&self->_idle, lock);', 1)], nomembers=[]).rewrite(c)
        # discipline at the worker's own stop: (the final state - stopped, queue empty - is reached by a premature stop as well)
        c, k = re.subn(r'\bStop_locked\(\s*self\s*\)', '(SOFT_STOP_OK(), Stop_locked(self))', c)
        if k < 1:
            raise ExtractionBreak('Loop: the worker no longer stops the pool through Stop(lock&&)')
        outer = ('__CPROVER_assigns(self->_jobs_count, g, g_lock_held, g_notify_all, lock_held)\n'
                 '__CPROVER_loop_invariant(lock_held == 1 && g_lock_held == 1 && MON_INV(0) && !g.my_running && g.popped_done && g.drops == 0 && g_notify_all == 0)')
        inner = ('__CPROVER_assigns(self->_jobs_count, g, g_lock_held, lock_held)\n'
                 '__CPROVER_loop_invariant(lock_held == 1 && g_lock_held == 1 && MON_INV(0) && !g.my_running && g.popped_done && g.drops == 0 && g_notify_all == 0)')
        c = attach_loop_contracts('Loop', c, [outer, inner])
        mk('Loop', b_loop, c, '''void F_Loop(Pool* self)
%s
__CPROVER_requires(g_notify_all == 0)
__CPROVER_assigns(self->_jobs_count, g, g_self, g_lock_held, g_notify_all)
/* Loop: every popped job is Called exactly once outside the lock and accounted for; the worker returns only
   after it saw (stopped and queue empty) under the lock */
__CPROVER_ensures(g_lock_held == 0 && g.popped_done && !g.my_running && g.drops == 0)
__CPROVER_ensures(g.exit_stopped && g.exit_queued == 0)
''' % FRESH, '  g_notify_all = 0;\n  F_Loop(self);\n  if (g.calls) VF_CANARY("ran jobs"); else VF_CANARY("idle exit");\n', 2,
           ['Empty', 'PopFront', 'Call', 'NoJobs', 'WantStop', 'WasStop', 'Stop_locked'], loops=True,
           expect=[r'invariant after step|loop_invariant_step', r'monitor invariant', r'count arithmetic'], timeout=300, flags=['--sat-solver', 'cadical'])
        # the worker's plain `return` after WasStop(): record the state at that unlock (ghost only)
    # predicates and Stop(lock&&)
    def s_pred():
        for nm, b, ens in (('WasStop', b_was, 'RET == (int)(self->_jobs_count & 1)'), ('WantStop', b_want, 'RET == (int)((self->_jobs_count >> 1) & 1)'),
                           ('NoJobs', b_nojobs, 'RET == ((self->_jobs_count >> 2) == 0)')):
            cc = Rewriter(nm, post=[(r'\b(\d+)U\b', r'\1u', 0)]).rewrite(b.text)
            src = COMMON + 'int F_%s(Pool* self)\n__CPROVER_requires(__CPROVER_is_fresh(self, sizeof(*self)))\n__CPROVER_assigns()\n__CPROVER_ensures(%s)\n{%s}\n' % (nm, ens, cc)
            src += 'void harness(void) { Pool* self; int r = F_%s(self); if (r) VF_CANARY("true"); else VF_CANARY("false"); }\n' % nm
            out.append(Job('pool/' + nm, props, src, 'harness', enforce='F_' + nm, funcs=[b], canaries=2, expect=[r'postcondition'], meta={'fn': nm}))
        cc = b_stopl.text
        cc = re.sub(r'lock\s*\.\s*unlock\s*\(\s*\)\s*;', 'MON_UNLOCK(&self->_m);', cc)
        cc = rw('Stop(lock&&)').rewrite(cc)
        src = POOL.replace('void Stop_locked(Pool* self)', 'void Stop_locked_decl(Pool* self)') + '''void F_StopLocked(Pool* self)
__CPROVER_requires(__CPROVER_is_fresh(self, sizeof(*self)) && g_lock_held == 1 && MON_INV_OF(self))
__CPROVER_assigns(self->_jobs_count, g.stopped, g_lock_held, g_notify_all, g.exit_stopped, g.exit_queued, g.exit_running, g_self)
__CPROVER_ensures(self->_jobs_count == (OLD(self->_jobs_count) | 1) && g.stopped == 1 && g_lock_held == 0 && g_notify_all == OLD(g_notify_all) + 1)
__CPROVER_ensures(g.exit_stopped == 1 && g.exit_queued == g.queued && g.exit_running == g.running)
{ g_self = self; ''' + cc + '''}
void harness(void) { ghost_havoc(); Pool* self; g_lock_held = 1; g_notify_all = 0; F_StopLocked(self); VF_CANARY("end"); }
'''
        out.append(Job('pool/Stop_locked', props, src, 'harness', enforce='F_StopLocked', replace=['notify_all'], funcs=[b_stopl],
                       expect=[r'postcondition', r'monitor invariant'], meta={'fn': 'Stop(lock&&)'}))
    for fn in (s_alive, s_submit, s_soft, s_stop, s_hard, s_loop, s_pred):
        try:
            fn()
        except ExtractionBreak as e:      # one function outside the recipe leaves the other functions of the pool decided
            ctx.breaks.append(str(e))
    return out


# ----------------------------------------------------------------------------------------------------------------
LISTC = COMMON + r'''
unsigned long POOL_MAX; Node* pool; unsigned long gf, gb;   /* the list is pool[gf..gb): gf = front, gb-1 = back */
#define POOL_INIT() do { POOL_MAX = nondet_ulong(); __CPROVER_assume(POOL_MAX >= 2 && POOL_MAX <= (1UL << 40)); \
                         pool = malloc(sizeof(Node) * POOL_MAX); __CPROVER_assume(pool != 0); \
                         gf = nondet_ulong(); gb = nondet_ulong(); __CPROVER_assume(gf <= gb && gb < POOL_MAX); } while (0)
/* representation invariant: head.next and _tail are what the abstract sequence says */
#define LINV(l) ((l)->_head.next == (gf < gb ? &pool[gf] : (Node*)0) && (l)->_tail == (gf < gb ? &pool[gb - 1] : &(l)->_head))
List* g_list;
static inline Node* node_next(Node* x) {
  if (x == &g_list->_head) return g_list->_head.next;
  __CPROVER_assert(__CPROVER_same_object(x, pool) && (unsigned long)(x - pool) >= gf && (unsigned long)(x - pool) < gb, "read of ->next of a node of the list");
  unsigned long k = (unsigned long)(x - pool);
  return k + 1 < gb ? &pool[k + 1] : (Node*)0;
}
static inline void node_set_next(Node* x, Node* v) {
  if (x == &g_list->_head) { g_list->_head.next = v; return; }
  unsigned long k = (unsigned long)(x - pool);
  __CPROVER_assert(__CPROVER_same_object(x, pool) && k < POOL_MAX, "write of ->next of a pool node");
  /* appending behind the back node, or initialising the node being inserted */
  __CPROVER_assert((k + 1 == gb && v == &pool[gb]) || (k == gb && v == 0) || (k + 1 == gf && v == (gf < gb ? &pool[gf] : (Node*)0)),
                   "SHAPE: a link write appends behind the back, terminates the new back node, or links a new front node");
}
#define NODE_NEXT(x) node_next(x)
#define NODE_SET_NEXT(x, v) node_set_next(x, v)
'''
LIST_NEXT_RULES = [(r'(\b[\w.>-]+?)(?:->|\.)next\s*=(?!=)\s*([^;]+);', r'NODE_SET_NEXT(ADDR(\1), \2);', 0),
                   (r'(\b[\w.>-]+?)(?:->|\.)next\b(?!\s*=[^=])', r'NODE_NEXT(ADDR(\1))', 0)]


def list_jobs(ctx, props):
    repo = ctx.repo
    out = []
    b_pb = find_body(repo, F_LIST, r'void\s+List::PushBack\s*\(', 'List::PushBack')
    b_pf = find_body(repo, F_LIST, r'void\s+List::PushFront\s*\(', 'List::PushFront')
    b_pop = find_body(repo, F_LIST, r'Node\s*&\s*List::PopFront\s*\(', 'List::PopFront')
    b_emp = find_body(repo, F_LIST, r'bool\s+List::Empty\s*\(', 'List::Empty')
    b_mv = find_body(repo, F_LIST, r'List::List\s*\(\s*List\s*&&', 'List::List(List&&)')

    def rwl(name, **kw):
        r = Rewriter(name, refs=['node', 'other'], methods=['Empty'], omethods=['Empty'], **kw)
        return r

    def fix(c):
        # `_head.next` of this list is a real field; `x->next` of nodes goes through the accessors
        c = re.sub(r'self->_head\.next\s*=(?!=)\s*([^;]+);', r'NODE_SET_NEXT(&self->_head, \1);', c)
        c = re.sub(r'self->_head\.next\b', r'NODE_NEXT(&self->_head)', c)
        c = re.sub(r'self->_tail->next\s*=(?!=)\s*([^;]+);', r'NODE_SET_NEXT(self->_tail, \1);', c)
        c = re.sub(r'\b(node)->next\s*=(?!=)\s*([^;]+);', r'NODE_SET_NEXT(\1, \2);', c)
        c = re.sub(r'\b(node)->next\b', r'NODE_NEXT(\1)', c)
        return c
    emp_decl = 'int Empty(List* self) __CPROVER_requires(self == g_list && LINV(self)) __CPROVER_assigns() __CPROVER_ensures(RET == (gf == gb));\n'
    # Empty
    c = fix(rwl('List::Empty').rewrite(b_emp.text))
    src = LISTC + '''int F_Empty(List* self)
__CPROVER_requires(__CPROVER_is_fresh(self, sizeof(*self)) && g_list == self && LINV(self))
__CPROVER_assigns()
__CPROVER_ensures(RET == (gf == gb))
{''' + c + '''}
void harness(void) { POOL_INIT(); List* l; g_list = l; int r = F_Empty(l); if (r) VF_CANARY("empty"); else VF_CANARY("non-empty"); }
'''
    out.append(Job('list/Empty', props, src, 'harness', enforce='F_Empty', funcs=[b_emp], canaries=2, expect=[r'postcondition'], meta={'fn': 'List::Empty'}))
    # PushBack
    c = fix(rwl('List::PushBack').rewrite(b_pb.text))
    src = LISTC + '''void F_PushBack(List* self, Node* node)
__CPROVER_requires(__CPROVER_is_fresh(self, sizeof(*self)) && g_list == self && LINV(self) && gb + 1 < POOL_MAX && node == &pool[gb])
__CPROVER_assigns(self->_head.next, self->_tail, gb, node->next)
/* abstract view: seq' = seq ++ [node]  (the front is unchanged, the new node is the back) */
__CPROVER_ensures(gb == OLD(gb) + 1 && LINV(self))
{''' + c + ''' gb = gb + 1; }
void harness(void) { POOL_INIT(); List* l; g_list = l; __CPROVER_assume(gb + 1 < POOL_MAX); unsigned long b0 = gb; F_PushBack(l, &pool[gb]);
  if (gf == b0) VF_CANARY("into empty"); else VF_CANARY("behind back"); }
'''
    out.append(Job('list/PushBack', props, src, 'harness', enforce='F_PushBack', funcs=[b_pb], canaries=2, expect=[r'postcondition', r'SHAPE'], meta={'fn': 'List::PushBack'}))
    # PushFront
    c = fix(rwl('List::PushFront').rewrite(b_pf.text))
    src = LISTC + emp_decl + '''void F_PushFront(List* self, Node* node)
__CPROVER_requires(__CPROVER_is_fresh(self, sizeof(*self)) && g_list == self && LINV(self) && gf >= 1 && node == &pool[gf - 1])
__CPROVER_assigns(self->_head.next, self->_tail, gf, node->next)
/* abstract view: seq' = [node] ++ seq */
__CPROVER_ensures(gf == OLD(gf) - 1 && LINV(self))
{''' + c + ''' gf = gf - 1; }
void harness(void) { POOL_INIT(); List* l; g_list = l; __CPROVER_assume(gf >= 1); unsigned long f0 = gf; F_PushFront(l, &pool[gf - 1]);
  if (f0 == gb) VF_CANARY("into empty"); else VF_CANARY("before front"); }
'''
    out.append(Job('list/PushFront', props, src, 'harness', enforce='F_PushFront', replace=['Empty'], funcs=[b_pf], canaries=2, expect=[r'postcondition'], meta={'fn': 'List::PushFront'}))
    # PopFront
    c = fix(rwl('List::PopFront', post=[(r'return\s+\*\s*node\s*;', 'return node;', 1)]).rewrite(b_pop.text))
    c = c.replace('return node;', '{ gf = gf + 1; return node; }')
    src = LISTC + emp_decl + '''Node* F_PopFront(List* self)
__CPROVER_requires(__CPROVER_is_fresh(self, sizeof(*self)) && g_list == self && LINV(self) && gf < gb)
__CPROVER_assigns(self->_head.next, self->_tail, gf)
/* abstract view: returns the front, seq' = tail(seq)  (FIFO with PushBack) */
__CPROVER_ensures(RET == &pool[OLD(gf)] && gf == OLD(gf) + 1 && LINV(self))
{''' + c + '''}
void harness(void) { POOL_INIT(); List* l; g_list = l; __CPROVER_assume(gf < gb); F_PopFront(l); if (gf == gb) VF_CANARY("now empty"); else VF_CANARY("still non-empty"); }
'''
    out.append(Job('list/PopFront', props, src.replace('gf = gf + 1; return node;', 'unsigned long k_ = gf; gf = gf + 1; return node;'), 'harness', enforce='F_PopFront', replace=['Empty'],
                   funcs=[b_pop], canaries=2, expect=[r'postcondition'], meta={'fn': 'List::PopFront'}))
    # move constructor: the new list takes the whole sequence, the source becomes empty
    c = rwl('List::List(List&&)', pre=[(r'return\s*;\s*', 'return;', 0)]).rewrite(b_mv.text)
    c = c.replace('Empty(self, other)', 'Empty(other)').replace('other->Empty(self)', 'Empty(other)').replace('Empty(self)', 'Empty(other)')
    src = COMMON + '''
#define STD_EXCHANGE(a, b) ({ __auto_type _o = (a); (a) = (b); _o; })
Node g_first, g_last;
int Empty(List* l) __CPROVER_assigns() __CPROVER_ensures(RET == (l->_head.next == 0));
void F_Move(List* self, List* other)
__CPROVER_requires(__CPROVER_is_fresh(self, sizeof(*self)) && __CPROVER_is_fresh(other, sizeof(*other)))
__CPROVER_requires(self->_head.next == 0 && self->_tail == &self->_head)        /* default member initialisers ran */
__CPROVER_requires((other->_head.next == 0) == (other->_tail == &other->_head))
__CPROVER_assigns(self->_head.next, self->_tail, other->_head.next, other->_tail)
/* the whole sequence moves: same first and last node; the source is a well-formed empty list */
__CPROVER_ensures(self->_head.next == OLD(other->_head.next))
__CPROVER_ensures(OLD(other->_head.next) != 0 ==> self->_tail == OLD(other->_tail))
__CPROVER_ensures(OLD(other->_head.next) == 0 ==> self->_tail == &self->_head)
__CPROVER_ensures(other->_head.next == 0 && other->_tail == &other->_head)
{''' + c + '''}
void harness(void) { List* a; List* b; F_Move(a, b); VF_CANARY("end"); }
'''
    out.append(Job('list/MoveCtor', props, src, 'harness', enforce='F_Move', replace=['Empty'], funcs=[b_mv], canaries=1, expect=[r'postcondition'], meta={'fn': 'List::List(List&&)'}))
    return out


# ----------------------------------------------------------------------------------------------------------------
def exec_jobs(ctx, props):
    repo = ctx.repo
    out = []
    b_ms = find_body(repo, F_MAN, r'void\s+ManualExecutor::Submit\s*\(', 'ManualExecutor::Submit')
    b_md = find_body(repo, F_MAN, r'std::size_t\s+ManualExecutor::Drain\s*\(', 'ManualExecutor::Drain')
    b_is = find_body(repo, F_INL, r'void\s+Submit\s*\(\s*Job\s*&\s*task\s*\)', 'Inline<Stopped>::Submit', within=r'class\s+Inline\s+final')
    b_ia = find_body(repo, F_INL, r'bool\s+Alive\s*\(\s*\)\s*const', 'Inline<Stopped>::Alive', within=r'class\s+Inline\s+final')
    base = COMMON + r'''
typedef struct Manual { List _tasks; } Manual;
unsigned long g_len, g_calls, g_drops, g_pushes; Node* g_popped; unsigned char g_popped_done; Node* g_pushed;
int Empty(List* l) __CPROVER_assigns() __CPROVER_ensures(RET == (g_len == 0));
Node* PopFront(List* l) __CPROVER_requires(g_len >= 1 && g_popped_done) __CPROVER_assigns(g_len, g_popped, g_popped_done)
  __CPROVER_ensures(RET != 0 && g_popped == RET && !g_popped_done && g_len == OLD(g_len) - 1);
void PushBack(List* l, Node* n) __CPROVER_assigns(g_len, g_pushes, g_pushed) __CPROVER_ensures(g_len == OLD(g_len) + 1 && g_pushes == OLD(g_pushes) + 1 && g_pushed == n);
void Call(Job* j) __CPROVER_requires(j == g_popped && !g_popped_done) __CPROVER_assigns(g_calls, g_popped_done) __CPROVER_ensures(g_calls == OLD(g_calls) + 1 && g_popped_done);
void Drop(Job* j) __CPROVER_requires(j == g_popped && !g_popped_done) __CPROVER_assigns(g_drops, g_popped_done) __CPROVER_ensures(g_drops == OLD(g_drops) + 1 && g_popped_done);
'''
    r = Rewriter('ManualExecutor::Submit', refs=['f'], omethods=['PushBack'])
    c = r.rewrite(b_ms.text)
    src = base + '''void F_Submit(Manual* self, Job* f)
__CPROVER_requires(__CPROVER_is_fresh(self, sizeof(*self)) && __CPROVER_is_fresh(f, sizeof(*f)) && g_pushes == 0)
__CPROVER_assigns(g_len, g_pushes, g_pushed)
/* Manual never refuses: the job is queued (pending in the executor), neither Called nor Dropped here */
__CPROVER_ensures(g_pushes == 1 && g_pushed == f && g_calls == OLD(g_calls) && g_drops == OLD(g_drops))
{''' + c + '''}
void harness(void) { Manual* m; Job* j; g_pushes = 0; F_Submit(m, j); VF_CANARY("end"); }
'''
    out.append(Job('manual/Submit', props, src, 'harness', enforce='F_Submit', replace=['PushBack'], funcs=[b_ms], expect=[r'postcondition'], meta={'fn': 'Manual::Submit'}))
    r = Rewriter('ManualExecutor::Drain', refs=['task'], omethods=['Empty', 'PopFront', 'Call'], types={'Job&': 'Job*'})
    c = r.rewrite(b_md.text)
    inv = ('__CPROVER_assigns(done, g_len, g_popped, g_popped_done, g_calls)\n'
           '__CPROVER_loop_invariant(g_popped_done && g_len + g_calls == g_len0 && g_calls <= g_len0 && done == g_calls && g_drops == 0)')
    c = attach_loop_contracts('Drain', c, [inv])
    src = base + '''unsigned long g_len0;
size_t F_Drain(Manual* self)
__CPROVER_requires(__CPROVER_is_fresh(self, sizeof(*self)) && g_calls == 0 && g_drops == 0 && g_popped_done && g_len == g_len0)
__CPROVER_assigns(g_len, g_popped, g_popped_done, g_calls)
/* Drain: every queued job Called exactly once (none Dropped), the queue ends empty, the count is returned */
__CPROVER_ensures(g_len == 0 && g_calls == g_len0 && g_drops == 0 && RET == g_len0 && g_popped_done)
{''' + c + '''}
void harness(void) { Manual* m; g_len = nondet_ulong(); g_len0 = g_len; g_calls = g_drops = 0; g_popped_done = 1; F_Drain(m); if (g_len0 > 1) VF_CANARY("several"); else VF_CANARY("few"); }
'''
    # jobs submitted from inside a running job extend the queue: the loop invariant above is for the closed queue; re-entrancy is the rely g_len may grow
    out.append(Job('manual/Drain', props, src, 'harness', enforce='F_Drain', replace=['Empty', 'PopFront', 'Call'], loop_contracts=True, funcs=[b_md],
                   canaries=2, expect=[r'postcondition', r'invariant after step|loop_invariant_step'], meta={'fn': 'Manual::Drain'}))
    for stopped in (0, 1):
        r = Rewriter('Inline::Submit', refs=['task'], omethods=['Call', 'Drop'])
        c = r.rewrite(b_is.text)
        ca = Rewriter('Inline::Alive').rewrite(b_ia.text)
        src = base + '''#define Stopped %d
void F_Submit(void* self, Job* task)
__CPROVER_requires(g_popped == task && !g_popped_done && g_calls == 0 && g_drops == 0)
__CPROVER_assigns(g_calls, g_drops, g_popped_done)
/* Inline: the job is finished synchronously by exactly one of Call / Drop; Drop iff this is the stopped instance */
__CPROVER_ensures(g_popped_done && g_calls + g_drops == 1 && (g_drops == 1) == (Stopped != 0))
{%s}
int F_Alive(void* self)
__CPROVER_assigns()
__CPROVER_ensures(RET == !Stopped)      /* Drop only from an executor that reports not alive */
{%s}
void h1(void) { void* e; Job* j; g_popped = j; g_popped_done = 0; g_calls = g_drops = 0; F_Submit(e, j); VF_CANARY("end"); }
void h2(void) { void* e; F_Alive(e); VF_CANARY("end"); }
''' % (stopped, c, ca)
        out.append(Job('inline/Submit.stopped%d' % stopped, props, src, 'h1', enforce='F_Submit', replace=['Call', 'Drop'], funcs=[b_is], expect=[r'postcondition'], meta={'fn': 'Inline::Submit', 'stopped': stopped}))
        out.append(Job('inline/Alive.stopped%d' % stopped, props, src, 'h2', enforce='F_Alive', funcs=[b_ia], expect=[r'postcondition'], meta={'fn': 'Inline::Alive', 'stopped': stopped}))
    return out


def bounded_fifo(ctx, props):
    """real memory: N jobs pushed with the real PushBack, popped with the real PopFront: FIFO, none lost (bounded)"""
    repo = ctx.repo
    n = 6 if ctx.tier == 'quick' else 10
    b_pb = find_body(repo, F_LIST, r'void\s+List::PushBack\s*\(', 'List::PushBack')
    b_pop = find_body(repo, F_LIST, r'Node\s*&\s*List::PopFront\s*\(', 'List::PopFront')
    b_emp = find_body(repo, F_LIST, r'bool\s+List::Empty\s*\(', 'List::Empty')
    r = lambda nm, **kw: Rewriter(nm, refs=['node'], methods=['Empty'], **kw)
    src = COMMON + '''
#define N %d
int Empty(List* self) {%s}
void PushBack(List* self, Node* node) {%s}
Node* PopFront(List* self) {%s}
Node jobs_[N];
void harness(void) {
  List l; l._head.next = 0; l._tail = &l._head;
  unsigned pushed = 0, popped = 0;
  for (unsigned step = 0; step < 2 * N; step++) {
    if (pushed < N && (popped == pushed || nondet_bool())) { PushBack(&l, &jobs_[pushed]); pushed++; }
    else if (popped < pushed) { Node* x = PopFront(&l); __CPROVER_assert(x == &jobs_[popped], "C08 (bounded): single-worker order = submission order (FIFO), none lost"); popped++; }
    __CPROVER_assert(Empty(&l) == (popped == pushed), "C08 (bounded): Empty() iff every pushed job was popped");
  }
  VF_CANARY("end");
}
''' % (n, r('Empty').rewrite(b_emp.text), r('PushBack').rewrite(b_pb.text),
       r('PopFront', post=[(r'return\s+\*\s*node\s*;', 'return node;', 1)]).rewrite(b_pop.text))
    return [Job('list/FIFO.bounded', props, src, 'harness', kind='bounded', unwind=2 * n + 1, funcs=[b_pb, b_pop, b_emp], expect=[r'bounded'], meta={'fn': 'List FIFO', 'bound': n})]


def jobs(ctx):
    props = ['C08', 'C05', 'C04', 'C03']
    out = []
    if ctx.prop in ('C08', 'C04', 'C05', 'C03'):
        out += pool_jobs(ctx, props) + list_jobs(ctx, props) + bounded_fifo(ctx, props)
    if ctx.prop in ('C05', 'C03'):
        out += exec_jobs(ctx, ['C05', 'C03'])
    return out
