"""The fiber scheduler's sleep map (src/fault/fiber/scheduler.cpp: Sleep, SleepPreemptive, WakeUpNeeded):  C18 (timed waits end, at or after their deadline), C17.

`_sleep_list` is a std::map<time, BiList>. It is abstracted with respect to ONE arbitrary key K (a symbolic constant, so every key is covered): `g.present` (bucket K exists),
`g.cnt` (fibers sleeping in bucket K); every other bucket is non-deterministic. Ordered iteration is abstracted faithfully for K: advancing an iterator yields a non-deterministic
larger key, but never skips K while bucket K exists.
"""
import re

from vf.cxx2c import Rewriter, attach_loop_contracts
from vf.extract import ExtractionBreak, find_body
from vf.runner import Job

F = 'src/fault/fiber/scheduler.cpp'
TRUSTED = ['std::map keeps its keys ordered and erase / find / operator[] have their standard meaning (abstracted for one symbolic key)', 'BiList PushBack / PushAll / Empty (counts)',
           'fiber context switching: Suspend() returns after somebody made the fiber runnable again']
DROPPED = ['iterators are (position, key) pairs of the abstract map; `it->first`, `it->second`, `it++`, begin(), end(), find(), erase() are the MAP_* operations below']
ASSUMPTIONS = ['GetFaultSleepTime() > 0 (a documented configuration precondition: see DESIGN 7, `% 0`)']

COMMON = r'''
#include "vf.h"
typedef struct Sched { uint64_t _time; } Sched;
uint64_t K;                                   /* the bucket under observation: arbitrary */
struct Ghost { unsigned char present; unsigned long cnt; unsigned long moved_to_queue; unsigned char erased_K; unsigned long parked_here; unsigned suspends; } g;
#define INV (g.present <= 1 && (g.present || g.cnt == 0))        /* sleepers are only in an existing bucket */
/* bucket handles */
typedef struct Bucket { int dummy; } Bucket;
Bucket BUCKET_K, BUCKET_OTHER;                /* identified by address (statics are non-deterministic under DFCC) */
static Bucket* MAP_AT(uint64_t key) { if (key == K) { g.present = 1; return &BUCKET_K; } return &BUCKET_OTHER; }        /* operator[]: creates the bucket if absent */
static void BUCKET_PUSH(Bucket* b) { if (b == &BUCKET_K) { g.cnt++; g.parked_here++; } }
static int BUCKET_EMPTY(Bucket* b) { return b == &BUCKET_K ? g.cnt == 0 : (int)nondet_bool(); }
/* iterators: kind 0 = end, 1 = at key `key` */
typedef struct It { int at; uint64_t key; } It;
static It MAP_END(void) { It i; i.at = 0; i.key = 0; return i; }
static It MAP_FIND(uint64_t key) { It i; i.key = key; i.at = (key == K) ? g.present : (int)nondet_bool(); return i; }
static Bucket* IT_SECOND(It i) { __CPROVER_assert(i.at, "C18: an end() iterator of the sleep map is never dereferenced"); return i.key == K ? &BUCKET_K : &BUCKET_OTHER; }
static void MAP_ERASE_KEY(uint64_t key) {
  if (key == K) { __CPROVER_assert(g.cnt == 0, "C18: a sleep bucket is erased only when nobody sleeps in it any more (otherwise those fibers are never woken: a timed wait that never ends)"); g.present = 0; g.erased_K = 1; } }
'''


def jobs(ctx):
    repo = ctx.repo
    props = ['C18', 'C17']
    out = []
    b_sleep = find_body(repo, F, r'void\s+Scheduler::Sleep\s*\(\s*std::uint64_t\s+ns\s*\)', 'Scheduler::Sleep')
    b_pre = find_body(repo, F, r'void\s+Scheduler::SleepPreemptive\s*\(\s*std::uint64_t\s+ns\s*\)', 'Scheduler::SleepPreemptive')
    b_wake = find_body(repo, F, r'void\s+Scheduler::WakeUpNeeded\s*\(\s*\)\s*noexcept', 'Scheduler::WakeUpNeeded')
    pre = [(r'detail::fiber::BiList\s*&\s*sleep_list\s*=\s*_sleep_list\[\s*ns\s*\]\s*;', 'Bucket* sleep_list = MAP_AT(ns);', 0), (r'auto\s*\*\s*fiber\s*=\s*sCurrent\s*;', '', 0),
           (r'sleep_list\.PushBack\(\s*static_cast<detail::fiber::BiNodeScheduler\s*\*>\(fiber\)\s*\)\s*;', 'BUCKET_PUSH(sleep_list);', 0), (r'GetTimeNs\(\)', 'self->_time', 0),
           (r'\bSuspend\(\)\s*;', 'SUSPEND(self);', 0), (r'detail::GetRandNumber\(\s*GetFaultSleepTime\(\)\s*\)', 'JITTER()', 0), (r'\bSleep\(\s*ns\s*\)\s*;', 'SleepS(self, ns);', 0),
           (r'auto\s+it\s*=\s*_sleep_list\.find\(\s*ns\s*\)\s*;', 'It it = MAP_FIND(ns);', 0), (r'it->second\.Empty\(\)', 'BUCKET_EMPTY(IT_SECOND(it))', 0),
           (r'_sleep_list\.erase\(\s*ns\s*\)\s*;', 'MAP_ERASE_KEY(ns);', 0), (r'_sleep_list\.erase\(\s*it\s*\)\s*;', 'MAP_ERASE_KEY(it.key);', 0),
           (r'it\s*!=\s*_sleep_list\.end\(\)', 'it.at', 0), (r'it\s*==\s*_sleep_list\.end\(\)', '!it.at', 0)]
    # ---- Sleep ---------------------------------------------------------------------------------------------------------------------------------------------
    c = Rewriter('Scheduler::Sleep', pre=pre, nomembers=['_sleep_list']).rewrite(b_sleep.text)
    src = COMMON + '''void SUSPEND(Sched* self) __CPROVER_requires(g.suspends == 0) __CPROVER_assigns(g.suspends) __CPROVER_ensures(g.suspends == 1);
void Sleep(Sched* self, uint64_t ns)
__CPROVER_requires(__CPROVER_is_fresh(self, sizeof(*self)) && INV && g.suspends == 0 && g.parked_here == 0 && g.cnt < (1UL << 60))
__CPROVER_assigns(g.present, g.cnt, g.parked_here, g.suspends)
/* a deadline that already passed does not block; otherwise the fiber is put into the bucket of exactly its wake-up time and suspended (it is woken by the clock - WakeUpNeeded - or earlier by a notify) */
__CPROVER_ensures(ns <= self->_time ? (g.suspends == 0 && g.cnt == OLD(g.cnt) && g.present == OLD(g.present))
                                   : (g.suspends == 1 && (ns == K ? (g.present && g.cnt == OLD(g.cnt) + 1) : (g.cnt == OLD(g.cnt) && g.present == OLD(g.present)))))
__CPROVER_ensures(INV)
{''' + c + '''}
void harness(void) { g.suspends = 0; g.parked_here = 0; Sched* s; uint64_t ns; Sleep(s, ns); if (g.suspends) VF_CANARY("parked"); else VF_CANARY("deadline passed"); }
'''
    out.append(Job('sleep_map/Sleep', props, src, 'harness', enforce='Sleep', replace=['SUSPEND'], funcs=[b_sleep], canaries=2, expect=[r'postcondition'], meta={'fn': 'Scheduler::Sleep'}))
    # ---- SleepPreemptive ---------------------------------------------------------------------------------------------------------------------------------------
    c = Rewriter('Scheduler::SleepPreemptive', pre=pre, nomembers=['_sleep_list']).rewrite(b_pre.text)
    src = COMMON + '''uint64_t g_jitter; uint64_t g_ns_slept; unsigned g_sleeps;
uint64_t JITTER(void) __CPROVER_assigns() __CPROVER_ensures(RET == g_jitter && g_jitter < (1UL << 32));
/* Sleep as a callee: on return the fiber was resumed: time did not go back; bucket K is whatever the other fibers and the clock made of it (interference: it may even be GONE - a peer that
   slept until the same instant and was woken early as well tidies the empty bucket up first), but sleepers are only in an existing bucket */
void SleepS(Sched* self, uint64_t ns) __CPROVER_requires(g_sleeps == 0) __CPROVER_assigns(g_sleeps, g_ns_slept, self->_time, g.present, g.cnt)
  __CPROVER_ensures(g_sleeps == 1 && g_ns_slept == ns && self->_time >= OLD(self->_time) && INV);
void SleepPreemptive(Sched* self, uint64_t ns)
__CPROVER_requires(__CPROVER_is_fresh(self, sizeof(*self)) && INV && g_sleeps == 0 && !g.erased_K && ns < (1UL << 62))
__CPROVER_assigns(g_sleeps, g_ns_slept, self->_time, g.present, g.cnt, g.erased_K)
/* a timed wait sleeps until its deadline plus a bounded jitter - never less (C18: "end at or after their deadline"); when it was woken early it tidies its bucket up ONLY IF the bucket is empty:
   other fibers that sleep until the same instant stay in the map and will be woken by the clock (obligation "erased only when nobody sleeps in it") */
__CPROVER_ensures(g_sleeps == 1 && g_ns_slept == ns + g_jitter && INV && (g.erased_K ==> g.cnt == 0))
{''' + c + '''}
void harness(void) { g_sleeps = 0; g.erased_K = 0; Sched* s; uint64_t ns; SleepPreemptive(s, ns); if (g.erased_K) VF_CANARY("tidied an empty bucket"); else VF_CANARY("left the bucket alone"); }
'''
    out.append(Job('sleep_map/SleepPreemptive', props, src, 'harness', enforce='SleepPreemptive', replace=['JITTER', 'SleepS'], funcs=[b_pre], canaries=2,
                   expect=[r'postcondition', r'erased only when nobody sleeps'], meta={'fn': 'Scheduler::SleepPreemptive'}))
    # ---- WakeUpNeeded: ordered walk, abstracted for K ----------------------------------------------------------------------------------------------------------------
    wpre = [(r'auto\s+iter_to_remove\s*=\s*_sleep_list\.end\(\)\s*;', 'It iter_to_remove = MAP_END();', 0),
            (r'for\s*\(\s*auto\s+it\s*=\s*_sleep_list\.begin\(\)\s*;\s*it\s*!=\s*_sleep_list\.end\(\)\s*;\s*it\+\+\s*\)', 'for (It it = MAP_BEGIN(); it.at; it = MAP_NEXT(it))', 1),
            (r'it->first', 'it.key', 0), (r'_queue\.PushAll\(\s*std::move\(\s*it->second\s*\)\s*\)\s*;', 'QUEUE_PUSH_ALL(it);', 0),
            (r'iter_to_remove\s*!=\s*_sleep_list\.begin\(\)', '!IT_IS_BEGIN(iter_to_remove)', 1), (r'_sleep_list\.erase\(\s*_sleep_list\.begin\(\)\s*,\s*iter_to_remove\s*\)\s*;', 'MAP_ERASE_PREFIX(iter_to_remove);', 1)]
    c = Rewriter('Scheduler::WakeUpNeeded', pre=wpre, nomembers=['_sleep_list', '_queue']).rewrite(b_wake.text)
    inv = ('__CPROVER_assigns(it, iter_to_remove, g.cnt, g.moved_to_queue, g_visited_K, g_first_key_known, g_last_key)\n'
           '__CPROVER_loop_invariant(iter_to_remove.at == 0 && (it.at ==> (g_first_key_known && it.key >= g_first_key && it.key >= g_last_key)) && (g_visited_K ==> (g0_present && K <= self->_time && g.cnt == 0 && g.moved_to_queue == g0_cnt))\n'
           '   && (!g_visited_K ==> (g.cnt == g0_cnt && g.moved_to_queue == 0)) && g.present == g0_present\n'
           '   /* ordered walk: while bucket K exists and has not been visited, the iterator has not passed K */\n'
           '   && ((g0_present && !g_visited_K) ==> (it.at && it.key <= K)) && ((it.at && it.key == K) ==> g0_present) && (g_visited_K ==> (!it.at || it.key > K)))')
    c = attach_loop_contracts('Scheduler::WakeUpNeeded', c, [inv])
    src = COMMON + '''unsigned char g0_present, g_visited_K, g_first_key_known; unsigned long g0_cnt; uint64_t g_first_key, g_last_key;
/* begin(): the smallest key; if bucket K exists the smallest key is <= K */
static It MAP_BEGIN(void) { It i; i.at = nondet_bool(); i.key = nondet_ulong(); if (g.present) { __CPROVER_assume(i.at && i.key <= K); } if (i.at && i.key == K) __CPROVER_assume(g.present);
  g_first_key_known = 1; g_first_key = i.key; g_last_key = i.key; return i; }
/* it++: the next larger key (non-deterministic), never jumping over K while bucket K exists */
static It MAP_NEXT(It cur) { It i; i.at = nondet_bool(); i.key = nondet_ulong(); if (i.at) __CPROVER_assume(i.key > cur.key);
  if (g.present && cur.key < K) __CPROVER_assume(i.at && i.key <= K);
  if (i.at && i.key == K) __CPROVER_assume(g.present);
  if (i.at) g_last_key = i.key; return i; }
static void QUEUE_PUSH_ALL(It i) { __CPROVER_assert(i.at, "C18: an end() iterator of the sleep map is never dereferenced"); if (i.key == K) { g.moved_to_queue += g.cnt; g.cnt = 0; g_visited_K = 1; } }
static int IT_IS_BEGIN(It i) { return i.at && g_first_key_known && i.key == g_first_key; }
/* erase [begin, stop): every bucket with a key smaller than stop's key (all of them if stop is end()) */
static void MAP_ERASE_PREFIX(It stop) { if (g.present && (!stop.at || K < stop.key)) { __CPROVER_assert(g.cnt == 0, "C18: a sleep bucket is erased only when nobody sleeps in it any more (otherwise those fibers are never woken: a timed wait that never ends)"); g.present = 0; g.erased_K = 1; } }
void WakeUpNeeded(Sched* self)
__CPROVER_requires(__CPROVER_is_fresh(self, sizeof(*self)) && INV && g.moved_to_queue == 0 && !g.erased_K && !g_visited_K && g0_present == g.present && g0_cnt == g.cnt && g.cnt < (1UL << 60))
__CPROVER_assigns(g.cnt, g.moved_to_queue, g.present, g.erased_K, g_visited_K, g_first_key_known, g_first_key, g_last_key)
/* the clock wakes exactly the buckets whose time has come: for ANY key K: if K <= now, every fiber sleeping until K is moved to the run queue (all of them, once) and the bucket is removed;
   if K > now the bucket and its sleepers are untouched - nobody is woken before its deadline, nobody whose deadline passed stays asleep */
__CPROVER_ensures(OLD(g.present) && K <= self->_time ? (g.moved_to_queue == OLD(g.cnt) && g.cnt == 0 && !g.present)
                                                    : (g.moved_to_queue == 0 && g.cnt == OLD(g.cnt) && g.present == OLD(g.present)))
__CPROVER_ensures(INV)
{''' + c + '''}
void harness(void) { g.moved_to_queue = 0; g.erased_K = 0; g_visited_K = 0; g_first_key_known = 0; g0_present = g.present; g0_cnt = g.cnt; Sched* s; WakeUpNeeded(s);
  if (g.erased_K) VF_CANARY("bucket K was due"); else if (g.present) VF_CANARY("bucket K not yet due"); else VF_CANARY("no bucket K"); }
'''
    out.append(Job('sleep_map/WakeUpNeeded', props, src, 'harness', enforce='WakeUpNeeded', replace=[], loop_contracts=True, funcs=[b_wake], canaries=3,
                   expect=[r'postcondition', r'invariant after step|loop_invariant_step'], meta={'fn': 'Scheduler::WakeUpNeeded'}, timeout=600))
    return out


DRIVERS = [('sleep_bucket.cpp', [], 'fiber_debug')]


def replay(ctx, res, failed, rec):
    """two timed waiters on the same wake-up nanosecond, both woken early, in a FIBER build with checked iterators (-D_GLIBCXX_DEBUG)"""
    from vf.replay import run_fiber_driver
    return run_fiber_driver(ctx, 'sleep_bucket.cpp', timeout=60, glibcxx_debug=True)
