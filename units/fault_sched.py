"""Fiber fault-injection determinism (src/fault/util.cpp, injector.cpp, atomic.cpp, fiber/scheduler.cpp, bidirectional_intrusive_list.cpp):  C17.

Method G: relational (2-run) contracts by self-composition - every decision function is run twice on two copies of the declared decision
state S (seed, engine position, random count, injector state, the configuration values, virtual time) with everything else
(addresses, real clocks, random_device, thread ids) independent, and must produce equal outputs and equal S.  Plus functional contracts:
engine invariant, GetRandCount reports the draws since seeding, the restore lemma (unbounded forwarding loop).
"""
import re

from vf.cxx2c import Rewriter, attach_loop_contracts
from vf.extract import ExtractionBreak, find_body
from vf.runner import Job

F_UTIL = 'src/fault/util.cpp'
F_INJ = 'src/fault/injector.cpp'
F_ATOM = 'src/fault/atomic.cpp'
F_SCHED = 'src/fault/fiber/scheduler.cpp'
F_BI = 'src/fault/fiber/bidirectional_intrusive_list.cpp'

TRUSTED = ['std::mt19937_64 is an opaque deterministic stream: eng() == MT(seed, position) (uninterpreted function), eng.seed(s) resets the position',
           'std::map iteration order (sleep list keyed by wake-up time), context switching, the order of elements inside a BiList is the order of PushBack calls']
DROPPED = ['file-scope statics (sSeed, sRandCount, sYieldFrequency, ...) and the Injector / Scheduler members are fields of one decision-state struct S',
           'sources of run-to-run variation are mapped to fresh non-deterministic values per run: clocks (NONDET_CLOCK), std::random_device / rand (NONDET_RD), pointer-to-integer casts (NONDET_ADDR), thread ids']
ASSUMPTIONS = ['the random list pick width is below 2^31 (2 * pick does not wrap)', 'configuration values used as moduli are >= 1 (SetFaultFrequency(0) / SetFaultSleepTime(0) make GetRandNumber compute % 0: observed, outside the quantified configurations)',
               'YACLIB_FAULT == 2 (FIBER) branch of the preprocessor conditionals']
# real-code drivers that exercise what this unit proves (thorough tier: sanity run on the tree under check)
DRIVERS = [('reseed.cpp', [], 'fiber')]

STATE = r'''
#include "vf.h"
#define YACLIB_FAULT 2
typedef struct S_ {
  uint32_t sSeed; uint64_t eng_pos;            /* engine: MT(sSeed, eng_pos) is the next draw */
  uint64_t sRandCount;
  uint32_t _count; unsigned char _pause;       /* the process-wide Injector */
  uint32_t sYieldFrequency, sSleepTime; uint64_t sInjectedCount;
  uint32_t sAtomicFailFrequency, sRandomListPick, sTickLength;
  uint64_t _time;
  unsigned long yields;                        /* observable effect: injected yields */
} S_;
uint64_t __CPROVER_uninterpreted_mt(uint32_t seed, uint64_t pos);
/* sources of variation between two runs: a different value every time they are asked */
uint64_t NONDET_CLOCK(void); uint64_t NONDET_RD(void); uint64_t NONDET_ADDR(const void* p);
#define RG_WORD uint32_t
static inline void rg_env(RG_WORD* p) { }
static inline void rg_read(RG_WORD* p, RG_WORD v, int mo) { }
static inline void rg_write(RG_WORD* p, RG_WORD o, RG_WORD n, int mo, int kind) { }
#include "rg_atomic.h"
'''

VARIATION = [
    (r'std::chrono::\w+::now\(\)(?:\.time_since_epoch\(\)\.count\(\))?', 'NONDET_CLOCK()', 0),
    (r'std::random_device\s*(?:\{\}|\(\))\s*\(\)', 'NONDET_RD()', 0), (r'(?:std::)?rand\(\)', 'NONDET_RD()', 0),
    (r'reinterpret_cast<std::u?intptr_t>\(', 'NONDET_ADDR(', 0), (r'std::this_thread::get_id\(\)', 'NONDET_ADDR(0)', 0),
]
STATICS = ['sSeed', 'sRandCount', 'sYieldFrequency', 'sSleepTime', 'sInjectedCount', 'sAtomicFailFrequency', 'sRandomListPick', 'sTickLength']


def rw(name, **kw):
    pre = VARIATION + [(r'\beng\(\)', 'ENG_NEXT(S)', 0), (r'\beng\.seed\(\s*(\w+)\s*\)', r'ENG_SEED(S, \1)', 0), (r'static_cast<std::uint32_t>\(', '(uint32_t)(', 0),
                       (r'yaclib_std::this_thread::yield\(\)', 'YIELD(S)', 0), (r'#elif.*?#endif', '#endif', 0), (r'\[\[maybe_unused\]\]', '', 0),
                       (r'\bdetail::GetRandNumber\(', 'GetRandNumber(', 0), (r'\bGetFaultSleepTime\(\)', 'S->sSleepTime', 0), (r'\bauto\s+freq\b', 'uint32_t freq', 0)] + list(kw.pop('pre', []))
    kw_post_mod = [(r'ENG_NEXT\(S\)\s*%\s*(\w+)', r'MOD(ENG_NEXT(S), \1)', 0)]
    post = kw_post_mod + [(r'(?<![\w.>])(' + '|'.join(STATICS) + r')\b', r'S->\1', 0), (r'self->(_count|_pause|_time)\b', r'S->\1', 0)] + list(kw.pop('post', []))
    kw.setdefault('atomics', ['_count'])
    kw.setdefault('methods', [])
    r = Rewriter(name, pre=pre, post=post, **kw)
    return r


ENGINE = r'''
static inline uint64_t ENG_NEXT(S_* S) { uint64_t v = __CPROVER_uninterpreted_mt(S->sSeed_eng, S->eng_pos); S->eng_pos++; return v; }
static inline void ENG_SEED(S_* S, uint32_t s) { S->sSeed_eng = s; S->eng_pos = 0; }
static inline void ENG_DISCARD(S_* S, uint64_t n) { S->eng_pos += n; }
static inline void YIELD(S_* S) { S->yields++; }
/* a % b as an uninterpreted function with its defining bound (64-bit division circuits compared twice do not finish on any back end) */
uint64_t __CPROVER_uninterpreted_umod(uint64_t a, uint64_t b);
static inline uint64_t MOD(uint64_t a, uint64_t b) { __CPROVER_assert(b != 0, "division by zero in %"); uint64_t r = __CPROVER_uninterpreted_umod(a, b); __CPROVER_assume(r < b); return r; }
'''


def jobs(ctx):
    repo = ctx.repo
    props = ['C17']
    out = []
    state = STATE.replace('uint32_t sSeed; uint64_t eng_pos;', 'uint32_t sSeed; uint32_t sSeed_eng; uint64_t eng_pos;') + ENGINE
    B = {
        'SetSeed': find_body(repo, F_UTIL, r'void\s+SetSeed\s*\(', 'detail::SetSeed'),
        'GetRandNumber': find_body(repo, F_UTIL, r'std::uint64_t\s+GetRandNumber\s*\(', 'detail::GetRandNumber'),
        'GetRandCount': find_body(repo, F_UTIL, r'std::uint64_t\s+GetRandCount\s*\(', 'detail::GetRandCount'),
        'ForwardToRandCount': find_body(repo, F_UTIL, r'void\s+ForwardToRandCount\s*\(', 'detail::ForwardToRandCount'),
        'NeedInject': find_body(repo, F_INJ, r'bool\s+Injector::NeedInject\s*\(', 'Injector::NeedInject'),
        'Reset': find_body(repo, F_INJ, r'void\s+Injector::Reset\s*\(', 'Injector::Reset'),
        'MaybeInject': find_body(repo, F_INJ, r'void\s+Injector::MaybeInject\s*\(', 'Injector::MaybeInject'),
        'GetState': find_body(repo, F_INJ, r'std::uint32_t\s+Injector::GetState\s*\(', 'Injector::GetState'),
        'SetState': find_body(repo, F_INJ, r'void\s+Injector::SetState\s*\(', 'Injector::SetState'),
        'ShouldFailAtomicWeak': find_body(repo, F_ATOM, r'bool\s+ShouldFailAtomicWeak\s*\(', 'detail::ShouldFailAtomicWeak'),
        'TickTime': find_body(repo, F_SCHED, r'void\s+Scheduler::TickTime\s*\(', 'Scheduler::TickTime'),
    }
    b_poll = find_body(repo, F_SCHED, r'Node\s*\*\s*PollRandomElementFromList\s*\(', 'fiber::PollRandomElementFromList')
    C = {}
    for nm, b in B.items():
        C[nm] = rw(nm, methods=['Reset', 'NeedInject']).rewrite(b.text)
        C[nm] = re.sub(r'\b(Reset|NeedInject)\(self\)', r'\1(S)', C[nm])
    INVS = '(S->sRandCount == S->eng_pos && S->sSeed == S->sSeed_eng)'
    # ---- functional contracts --------------------------------------------------------------------------------------
    fsrc = state + '''
/* engine invariant: the engine is init(seed) advanced by exactly the draws since seeding, and the random count reports those draws */
#define SINV(S) %s
uint64_t GetRandNumber(S_* S, uint64_t max)
__CPROVER_requires(__CPROVER_is_fresh(S, sizeof(*S)) && SINV(S) && max != 0)
__CPROVER_assigns(S->eng_pos, S->sRandCount)
/* one draw: the result is a function of (seed, position) only; position and count advance together */
__CPROVER_ensures(SINV(S) && S->eng_pos == OLD(S->eng_pos) + 1 && RET == __CPROVER_uninterpreted_umod(__CPROVER_uninterpreted_mt(S->sSeed_eng, OLD(S->eng_pos)), max) && RET < max)
{%s}
void SetSeed(S_* S, uint32_t new_seed)
__CPROVER_requires(__CPROVER_is_fresh(S, sizeof(*S)))
__CPROVER_assigns(S->sSeed, S->sSeed_eng, S->eng_pos, S->sRandCount)
/* re-seeding re-creates the initial engine state: position 0 of the new seed, and the random count describes exactly that position */
__CPROVER_ensures(S->sSeed == new_seed && S->sSeed_eng == new_seed && S->eng_pos == 0 && SINV(S))
{%s}
uint64_t GetRandCount(S_* S)
__CPROVER_requires(__CPROVER_is_fresh(S, sizeof(*S)) && SINV(S))
__CPROVER_assigns()
__CPROVER_ensures(RET == S->eng_pos)          /* GetRandCount reports exactly the draws since seeding */
{%s}
void h_rand(void) { S_* s; GetRandNumber(s, nondet_ulong()); VF_CANARY("end"); }
void h_seed(void) { S_* s; SetSeed(s, nondet_uint()); VF_CANARY("end"); }
void h_count(void) { S_* s; GetRandCount(s); VF_CANARY("end"); }
''' % (INVS, C['GetRandNumber'], C['SetSeed'], C['GetRandCount'])
    out.append(Job('fault/GetRandNumber', props, fsrc, 'h_rand', enforce='GetRandNumber', funcs=[B['GetRandNumber']], expect=[r'postcondition'], meta={'fn': 'GetRandNumber'}))
    out.append(Job('fault/SetSeed', props, fsrc, 'h_seed', enforce='SetSeed', funcs=[B['SetSeed']], expect=[r'postcondition'], meta={'fn': 'SetSeed'}))
    out.append(Job('fault/GetRandCount', props, fsrc, 'h_count', enforce='GetRandCount', funcs=[B['GetRandCount']], expect=[r'postcondition'], meta={'fn': 'GetRandCount'}))
    # ForwardToRandCount: restore lemma, unbounded n
    def forward():
        c = C['ForwardToRandCount']
        c = re.sub(r'GetRandNumber\(\s*1\s*\)', 'GetRandNumberS(S, 1)', c)
        # std::mt19937_64::discard(n) advances the engine by n draws (and nothing else)
        c = re.sub(r'\beng\.discard\(\s*([^;]+?)\s*\)\s*;', r'ENG_DISCARD(S, \1);', c)
        if re.search(r'\b(for|while)\b', c):
            mv = re.search(r'\b(\w+)\s*(?:!=|<)\s*random_count\b', c)      # the loop counter, whatever it is called
            if not mv:
                raise ExtractionBreak('ForwardToRandCount: cannot find the counter the loop compares with random_count')
            iv = mv.group(1)
            c = attach_loop_contracts('ForwardToRandCount', c, ['__CPROVER_assigns(%s, S->eng_pos, S->sRandCount)\n__CPROVER_loop_invariant(%s <= random_count && SINV(S) && S->eng_pos == g_pos0 + %s)' % (iv, iv, iv)])
        src = state + '''#define SINV(S) %s
uint64_t g_pos0;
uint64_t GetRandNumberS(S_* S, uint64_t max) __CPROVER_requires(SINV(S) && max != 0) __CPROVER_assigns(S->eng_pos, S->sRandCount) __CPROVER_ensures(SINV(S) && S->eng_pos == OLD(S->eng_pos) + 1);
void ForwardToRandCount(S_* S, uint64_t random_count)
__CPROVER_requires(__CPROVER_is_fresh(S, sizeof(*S)) && SINV(S) && S->eng_pos == g_pos0 && g_pos0 == 0 && random_count < (1UL << 62))
__CPROVER_assigns(S->eng_pos, S->sRandCount)
/* restore lemma: after SetSeed(s); ForwardToRandCount(n) the engine is exactly where a run that recorded GetRandCount() == n was (position n of seed s), for any n */
__CPROVER_ensures(SINV(S) && S->eng_pos == random_count && S->sRandCount == random_count)
{%s}
void harness(void) { S_* s; g_pos0 = 0; ForwardToRandCount(s, nondet_ulong()); VF_CANARY("end"); }
''' % (INVS, c)
        has_loop = bool(re.search(r'\b(for|while)\b', c))
        out.append(Job('fault/ForwardToRandCount', props, src, 'harness', enforce='ForwardToRandCount', replace=['GetRandNumberS'], loop_contracts=has_loop, funcs=[B['ForwardToRandCount']],
                       expect=[r'postcondition'] + ([r'invariant after step|loop_invariant_step'] if has_loop else []), meta={'fn': 'ForwardToRandCount'}))
    try:
        forward()
    except ExtractionBreak as e:      # this function outside the recipe leaves the other functions of the unit decided
        ctx.breaks.append(str(e))
    # Injector state accessors: SetState(GetState()) restores the injector part of S
    src = state + '''uint32_t GetState(S_* S) __CPROVER_requires(__CPROVER_is_fresh(S, sizeof(*S))) __CPROVER_assigns() __CPROVER_ensures(RET == S->_count)
{ S_* self = S; %s }
void SetState(S_* S, uint32_t state) __CPROVER_requires(__CPROVER_is_fresh(S, sizeof(*S))) __CPROVER_assigns(S->_count) __CPROVER_ensures(S->_count == state)
{ S_* self = S; %s }
void h1(void) { S_* s; GetState(s); VF_CANARY("end"); }
void h2(void) { S_* s; SetState(s, nondet_uint()); VF_CANARY("end"); }
''' % (C['GetState'], C['SetState'])
    out.append(Job('fault/Injector.GetState', props, src, 'h1', enforce='GetState', funcs=[B['GetState']], expect=[r'postcondition'], meta={'fn': 'Injector::GetState'}))
    out.append(Job('fault/Injector.SetState', props, src, 'h2', enforce='SetState', funcs=[B['SetState']], expect=[r'postcondition'], meta={'fn': 'Injector::SetState'}))
    # ---- relational jobs: two runs agreeing on S produce the same decisions and the same S ----------------------------------
    defs = {
        'GetRandNumber': ('uint64_t GetRandNumber_X(S_* S, uint64_t max) {%s}' % C['GetRandNumber'], 'uint64_t r%d = GetRandNumber_%s(&S%s, in_max);', 'uint64_t in_max = nondet_ulong(); __CPROVER_assume(in_max != 0);'),
        'ShouldFailAtomicWeak': ('int ShouldFailAtomicWeak_X(S_* S) {%s}' % C['ShouldFailAtomicWeak'], 'int r%d = ShouldFailAtomicWeak_%s(&S%s);', ''),
        'Reset': ('void Reset_X(S_* S) { S_* self = S; %s }' % C['Reset'], 'int r%d = 0; Reset_%s(&S%s);', ''),
        'NeedInject': ('void Reset_X(S_* S) { S_* self = S; %s }\nint NeedInject_X(S_* S) { S_* self = S; %s }' % (C['Reset'], C['NeedInject']), 'int r%d = NeedInject_%s(&S%s);', ''),
        'MaybeInject': ('void Reset_X(S_* S) { S_* self = S; %s }\nint NeedInject_X(S_* S) { S_* self = S; %s }\nvoid MaybeInject_X(S_* S) { S_* self = S; %s }' % (C['Reset'], C['NeedInject'], C['MaybeInject']),
                        'int r%d = 0; MaybeInject_%s(&S%s);', ''),
        'TickTime': ('void TickTime_X(S_* S) { S_* self = S; %s }' % C['TickTime'], 'int r%d = 0; TickTime_%s(&S%s);', ''),
    }
    # the position choice of PollRandomElementFromList: which element (index, direction) is asked from the list
    cp = rw('PollRandomElementFromList', pre=[(r'auto\s*\*\s*next\s*=\s*list\.GetElement\(\s*rand_pos\s*,\s*reversed\s*\)\s*;', 'g_pick_X.pos = rand_pos; g_pick_X.rev = reversed;', 0),
                                              (r'next->Erase\(\)\s*;', '', 0), (r'return\s+next\s*;', 'return 0;', 0), (r'\bauto\s+rand_pos\b', 'uint64_t rand_pos', 0), (r'\bauto\s+reversed\b', 'int reversed', 0)]).rewrite(b_poll.text)
    defs['PollRandomElementFromList'] = ('struct { uint64_t pos; int rev; } g_pick_X;\nint Poll_X(S_* S) {%s}' % cp, 'int r%d = 0; Poll_%s(&S%s); r%d = (int)(g_pick_%s.pos * 2 + g_pick_%s.rev);', '')
    RN = 'uint64_t GetRandNumber_X(S_* S, uint64_t max) {%s}\n' % C['GetRandNumber']
    FIELDS = ('sSeed', 'sSeed_eng', 'eng_pos', 'sRandCount', '_count', '_pause', 'sYieldFrequency', 'sSleepTime', 'sInjectedCount', 'sAtomicFailFrequency', 'sRandomListPick', 'sTickLength', '_time', 'yields')
    for nm, (text, call, pre) in defs.items():
        full = (RN if nm != 'GetRandNumber' else '') + text
        # calls inside the bodies go to the instance of the same run
        full = re.sub(r'\b(Reset|NeedInject)\(S\)', r'\1_X(S)', full)
        full = re.sub(r'(?<![\w_])GetRandNumber\(', 'GetRandNumber_X(S, ', full)
        srcs = state
        for tag in ('A', 'B'):
            srcs += re.sub(r'_X\b', '_' + tag, full) + '\n'

        def mkcall(i, tag):
            if nm == 'PollRandomElementFromList':
                return call % (i, tag, tag, i, tag, tag)
            return call % (i, tag, tag)
        eq = ' && '.join('SA.%s == SB.%s' % (f, f) for f in FIELDS)
        srcs += '''S_ SA, SB;
void harness(void) {
  S_ s0; SA = s0; SB = s0;                       /* two runs that agree on the declared decision state S ... */
  __CPROVER_assume(SA.sYieldFrequency != 0 && SA.sSleepTime != 0 && SA.sRandomListPick != 0 && SA.sRandomListPick < (1u << 31) && SA._pause <= 1);
  %s
  %s
  %s
  /* ... take the same decision and end in the same S, whatever addresses, clocks and random devices did in between */
  __CPROVER_assert(r1 == r2, "C17 relational: the decision is a function of the declared state S only");
  __CPROVER_assert(%s, "C17 relational: the successor state S' is a function of S only");
  VF_CANARY("end");
}
''' % (pre, mkcall(1, 'A'), mkcall(2, 'B'), eq)
        fb = [B[nm]] if nm in B else [b_poll]
        out.append(Job('fault/relational.' + nm, props, srcs, 'harness', kind='lemma', funcs=fb, expect=[r'C17 relational'], meta={'fn': nm}))
    # the value choices themselves: functional contracts of the two decision functions most likely to be edited
    src = state + 'uint64_t g_draw;\nuint64_t GetRandNumber(S_* S, uint64_t max) __CPROVER_requires(max != 0) __CPROVER_assigns(S->eng_pos, S->sRandCount) __CPROVER_ensures(RET < max && S->eng_pos == OLD(S->eng_pos) + 1 && RET == __CPROVER_uninterpreted_umod(g_draw, max));\n' + \
        '''int ShouldFailAtomicWeak(S_* S)
__CPROVER_requires(__CPROVER_is_fresh(S, sizeof(*S)))
__CPROVER_assigns(S->eng_pos, S->sRandCount)
/* a spurious CAS failure is injected iff the frequency is non-zero and the draw modulo the frequency is 0; frequency 0 draws nothing */
__CPROVER_ensures(S->sAtomicFailFrequency == 0 ? (RET == 0 && S->eng_pos == OLD(S->eng_pos)) : (RET == (__CPROVER_uninterpreted_umod(g_draw, S->sAtomicFailFrequency) == 0) && S->eng_pos == OLD(S->eng_pos) + 1))
{%s}
void harness(void) { S_* s; int r = ShouldFailAtomicWeak(s); if (r) VF_CANARY("fail injected"); else VF_CANARY("no failure"); }
''' % re.sub(r'(?<![\w_])GetRandNumber\(', 'GetRandNumber(S, ', C['ShouldFailAtomicWeak'])
    out.append(Job('fault/ShouldFailAtomicWeak', props, src, 'harness', enforce='ShouldFailAtomicWeak', replace=['GetRandNumber'], funcs=[B['ShouldFailAtomicWeak']], canaries=2,
                   expect=[r'postcondition'], meta={'fn': 'ShouldFailAtomicWeak'}))

    # ---- virtual time: advances only by the tick or to the earliest sleeper ---------------------------------------------------------
    b_tick = B['TickTime']
    b_adv = find_body(repo, F_SCHED, r'void\s+Scheduler::AdvanceTime\s*\(', 'Scheduler::AdvanceTime')
    c_adv = rw('AdvanceTime', pre=[(r'_sleep_list\.begin\(\)->first', 'EARLIEST_SLEEPER()', 0), (r'\bauto\s+min_sleep_time\b', 'uint64_t min_sleep_time', 0)]).rewrite(b_adv.text)
    src = state + """uint64_t g_earliest;
#define EARLIEST_SLEEPER() g_earliest
void TickTime(S_* S) __CPROVER_requires(__CPROVER_is_fresh(S, sizeof(*S))) __CPROVER_assigns(S->_time)
/* every resumption costs exactly one tick of virtual time */
__CPROVER_ensures(S->_time == OLD(S->_time) + S->sTickLength)
{ S_* self = S; %s }
void AdvanceTime(S_* S) __CPROVER_requires(__CPROVER_is_fresh(S, sizeof(*S))) __CPROVER_assigns(S->_time)
/* with nothing runnable, virtual time jumps exactly to the earliest sleeper's wake-up time (never backwards, never past it) */
__CPROVER_ensures(S->_time == (g_earliest >= OLD(S->_time) ? g_earliest : OLD(S->_time)))
{ S_* self = S; %s }
void h1(void) { S_* s; TickTime(s); VF_CANARY("end"); }
void h2(void) { S_* s; AdvanceTime(s); VF_CANARY("end"); }
""" % (C['TickTime'], c_adv)
    out.append(Job('fault/Scheduler.TickTime', props, src, 'h1', enforce='TickTime', funcs=[b_tick], expect=[r'postcondition'], meta={'fn': 'TickTime'}))
    out.append(Job('fault/Scheduler.AdvanceTime', props, src, 'h2', enforce='AdvanceTime', funcs=[b_adv], expect=[r'postcondition'], meta={'fn': 'AdvanceTime'}))
    # ---- BiList::GetElement: the element at position ind mod size in the given direction (bounded, real memory) -----------------------
    n = 6 if ctx.tier == 'quick' else 9
    b_ge = find_body(repo, F_BI, r'Node\s*\*\s*BiList::GetElement\s*\(', 'BiList::GetElement')
    c_ge = Rewriter('BiList::GetElement', pre=[(r'Node\s*\*\s*node\s*\{\s*\}\s*;', 'Node* node = 0;', 0), (r'std::size_t', 'size_t', 0)]).rewrite(b_ge.text)
    src = '#include "vf.h"\n' + """#define N %d
typedef struct Node Node; struct Node { Node* prev; Node* next; };
typedef struct BiList { Node _head; } BiList;
Node* GetElement(BiList* self, size_t ind, int reversed) {%s}
Node el[N];
void harness(void) {
  BiList l; size_t size = nondet_ulong(); __CPROVER_assume(size <= N);
  /* list order = order of PushBack: el[0] first */
  l._head.next = size ? &el[0] : &l._head; l._head.prev = size ? &el[size - 1] : &l._head;
  for (size_t k = 0; k < N; k++) { el[k].prev = k ? &el[k - 1] : &l._head; el[k].next = (k + 1 < size) ? &el[k + 1] : &l._head; }
  size_t ind = nondet_ulong(); __CPROVER_assume(ind < 4 * N); int rev = nondet_bool();
  Node* r = GetElement(&l, ind, rev);
  if (size == 0) __CPROVER_assert(r == 0, "C17 (bounded): an empty list yields nothing");
  else {
    __CPROVER_assert(r != 0 && __CPROVER_same_object(r, el) && (size_t)(r - el) < size, "C17 (bounded): GetElement returns an element of the list (never the sentinel, never nothing)");
    if (ind < size) __CPROVER_assert(r == (rev ? &el[size - 1 - ind] : &el[ind]), "C17 (bounded): within the list, GetElement returns the element at position ind in the given direction (queue order only)");
  }
  VF_CANARY("end");
}
""" % (n, c_ge)
    out.append(Job('fault/BiList.GetElement.bounded', props, src, 'harness', kind='bounded', unwind=4 * n + 2, funcs=[b_ge], expect=[r'bounded'], meta={'fn': 'BiList::GetElement', 'bound': n}, timeout=600))
    if getattr(ctx, 'prop', None) == 'C18':
        out = [j for j in out if j.name.startswith('fault/Scheduler.')]      # virtual time: what 'at or after the deadline' is measured in
    return out


def replay(ctx, res, failed, rec):
    from vf.replay import run_fiber_driver
    if res.job.meta.get('fn') in ('SetSeed', 'GetRandCount', 'ForwardToRandCount', 'GetRandNumber'):
        return run_fiber_driver(ctx, 'reseed.cpp', timeout=60)
    return None, 'no replay driver for this decision function'
