"""yaclib_std locks / condition variable / queue / join under the FIBER backend:  C18.

Method D: fibers are cooperative, so the only interference points are FiberQueue::Wait (both forms), Scheduler::Suspend and InjectFault;
there the environment performs any sequence of complete lock operations of other fibers that respects the lock invariant (A.8).
Writes of the lock words are the linearisation points of acquire / release (ghost holder bookkeeping).
"""
import re

from vf.cxx2c import Rewriter, attach_loop_contracts
from vf.extract import ExtractionBreak, find_body
from vf.runner import Job

D = 'src/fault/fiber/'
H = 'include/yaclib/fault/detail/fiber/'

TRUSTED = ['context switching (Suspend / Resume), the scheduler run loop, std::unordered_map for TLS, BiList operations (unit fault_sched)',
           'a fiber parked on a FiberQueue is resumed only by NotifyOne / NotifyAll of that queue or by its timed wake-up']
DROPPED = ['std::unique_lock<Mutex>& lock in ConditionVariable::WaitImpl: lock.unlock() / lock.lock() are the Mutex operations under their contracts',
           'WaitStatus is an int enum; timeouts are opaque, the stub of the timed wait reports whether the (virtual) deadline passed']
ASSUMPTIONS = ['recursion depth and reader count stay below 2^62 (no counter wrap-around)', 'no preemption inside a lock operation other than at the listed suspension points (cooperative scheduling)']
# real-code drivers that exercise what this unit proves (thorough tier: sanity run on the tree under check)
DRIVERS = [('fiber_locks.cpp', [sc], 'fiber') for sc in ('recursive', 'recursive_timed', 'shared_mixed', 'shared_excl', 'timed', 'shared_timed')]

COMMON = r'''
#include "vf.h"
enum { H_NONE = 0, H_ME = 1, H_OTHER = 2 };
enum { Ready = 0, Timeout = 1 };
#define MY_ID 7UL
struct Ghost {
  int excl;                       /* who holds the lock exclusively */
  unsigned long my_shared, other_shared;    /* shared holds by this fiber / by other fibers */
  unsigned long my_depth;         /* recursive depth of this fiber */
  unsigned long notify_one, notify_all; void* notified_queue;
  unsigned char deadline_passed;  /* the (virtual) deadline of the current timed operation passed */
  unsigned char parked;           /* this fiber went through a suspension point */
} g;
static void ghost_havoc(void) { g.excl = nondet_int(); g.my_shared = nondet_ulong(); g.other_shared = nondet_ulong(); g.my_depth = nondet_ulong();
  g.notify_one = g.notify_all = 0; g.deadline_passed = 0; g.parked = 0; }
void NotifyOne(void* q) __CPROVER_assigns(g.notify_one, g.notified_queue) __CPROVER_ensures(g.notify_one == OLD(g.notify_one) + 1 && g.notified_queue == q);
void NotifyAll(void* q) __CPROVER_assigns(g.notify_all, g.notified_queue) __CPROVER_ensures(g.notify_all == OLD(g.notify_all) + 1 && g.notified_queue == q);
unsigned long GetId(void) __CPROVER_assigns() __CPROVER_ensures(RET == MY_ID);
'''

MUTEX = COMMON + r'''
typedef struct Mutex { unsigned char _occupied; int _queue; } Mutex;    /* bool members are bytes restricted to 0/1 by the invariant */
Mutex* g_m;
#define INV(m) ((g.excl == H_NONE || g.excl == H_ME || g.excl == H_OTHER) && (m)->_occupied <= 1 && (m)->_occupied == (g.excl != H_NONE))
/* other fibers lock / unlock while this one is suspended - unless this fiber holds the lock */
static inline void env(void) { g.parked = 1; if (g.excl != H_ME) { g.excl = nondet_bool() ? H_OTHER : H_NONE; g_m->_occupied = (g.excl != H_NONE); } }
static inline int QWait(int* q) { env(); return Ready; }
static inline int QWaitTimed(int* q, int timeout) { env(); if (nondet_bool()) return Ready; g.deadline_passed = 1; return Timeout; }
#define ACQUIRE() do { __CPROVER_assert(g.excl == H_NONE, "C18: the lock is taken only while nobody holds it (no two exclusive holders)"); g.excl = H_ME; } while (0)
#define RELEASE() do { __CPROVER_assert(g.excl == H_ME, "C18: only the holder releases"); g.excl = H_NONE; } while (0)
'''
MUTEX_RULES = [(r'(self->_occupied\s*=\s*true\s*;)', r'{ \1 ACQUIRE(); }', 0), (r'(self->_occupied\s*=\s*false\s*;)', r'{ \1 RELEASE(); }', 0)]
WAIT_RULES = [(r'(\w+)\.Wait\(\s*NoTimeoutTag\{\}\s*\)', r'QWait(&self->\1)', 0), (r'(\w+)\.Wait\(\s*timeout\s*\)\s*==\s*WaitStatus::Ready', r'(QWaitTimed(&self->\1, 0) == Ready)', 0),
              (r'(\w+)\.Wait\(\s*timeout\s*\)', r'QWaitTimed(&self->\1, 0)', 0), (r'WaitStatus::(\w+)', r'\1', 0), (r'fault::Scheduler::GetId\(\)', 'GetId()', 0)]


def fix_queue(c):
    return re.sub(r'QWait(Timed)?\(&self->self->', r'QWait\1(&self->', c)


def jobs(ctx):
    repo = ctx.repo
    props = ['C18']
    out = []

    def job(name, b, src, enforce, replace, canaries=1, loops=False, expect=(r'postcondition',), timeout=180):
        out.append(Job('fiber/' + name, props, src, 'harness', enforce=enforce, replace=replace, loop_contracts=loops, funcs=b if isinstance(b, list) else [b],
                       canaries=canaries, expect=list(expect), meta={'fn': name}, timeout=timeout))

    # ============ Mutex / TimedMutex ====================================================================================
    b = find_body(repo, D + 'mutex.cpp', r'void\s+Mutex::lock\s*\(', 'fiber::Mutex::lock')
    c = fix_queue(Rewriter('Mutex::lock', pre=WAIT_RULES, post=MUTEX_RULES, omethods=['NotifyOne']).rewrite(b.text))
    c = attach_loop_contracts('Mutex::lock', c, ['__CPROVER_assigns(self->_occupied, g.excl, g.parked)\n__CPROVER_loop_invariant(INV(self) && g.excl != H_ME)'])
    src = MUTEX + '''void lock(Mutex* self)
__CPROVER_requires(__CPROVER_is_fresh(self, sizeof(*self)) && INV(self) && g.excl != H_ME)
__CPROVER_assigns(self->_occupied, g.excl, g.parked, g_m)
/* lock(): on return this fiber is the only holder (the condition is re-checked after every wake-up) */
__CPROVER_ensures(INV(self) && g.excl == H_ME)
{ g_m = self; ''' + c + '''}
void harness(void) { ghost_havoc(); Mutex* m; lock(m); if (g.parked) VF_CANARY("had to wait"); else VF_CANARY("free at once"); }
'''
    job('Mutex.lock', b, src, 'lock', [], canaries=2, loops=True, expect=[r'postcondition', r'invariant after step|loop_invariant_step', r'no two exclusive holders'])
    b = find_body(repo, D + 'mutex.cpp', r'bool\s+Mutex::try_lock\s*\(', 'fiber::Mutex::try_lock')
    c = Rewriter('Mutex::try_lock', post=MUTEX_RULES).rewrite(b.text)
    src = MUTEX + '''int try_lock(Mutex* self)
__CPROVER_requires(__CPROVER_is_fresh(self, sizeof(*self)) && INV(self) && g.excl != H_ME)
__CPROVER_assigns(self->_occupied, g.excl, g_m)
/* try_lock: success really holds the lock; failure only because it was held at the decision */
__CPROVER_ensures(INV(self) && (RET ? (g.excl == H_ME && OLD(g.excl) == H_NONE) : (g.excl == H_OTHER && OLD(g.excl) == H_OTHER)))
{ g_m = self; ''' + c + '''}
void harness(void) { ghost_havoc(); Mutex* m; int r = try_lock(m); if (r) VF_CANARY("acquired"); else VF_CANARY("busy"); }
'''
    job('Mutex.try_lock', b, src, 'try_lock', [], canaries=2)
    b = find_body(repo, D + 'mutex.cpp', r'void\s+Mutex::unlock\s*\(', 'fiber::Mutex::unlock')
    c = Rewriter('Mutex::unlock', post=MUTEX_RULES, pre=[(r'_queue\.NotifyOne\(\)', 'NotifyOne(&self->_queue)', 0)]).rewrite(b.text)
    c = c.replace('&self->self->', '&self->')
    src = MUTEX + '''void unlock(Mutex* self)
__CPROVER_requires(__CPROVER_is_fresh(self, sizeof(*self)) && INV(self) && g.excl == H_ME && g.notify_one == 0)
__CPROVER_assigns(self->_occupied, g.excl, g.notify_one, g.notified_queue, g_m)
/* unlock: the lock becomes free and one parked locker (if any) is made runnable: a blocked locker is woken when the lock becomes available */
__CPROVER_ensures(INV(self) && g.excl == H_NONE && g.notify_one == 1 && g.notified_queue == &self->_queue)
{ g_m = self; ''' + c + '''}
void harness(void) { ghost_havoc(); Mutex* m; unlock(m); VF_CANARY("end"); }
'''
    job('Mutex.unlock', b, src, 'unlock', ['NotifyOne'])
    b = find_body(repo, H + 'timed_mutex.hpp', r'bool\s+TimedWaitHelper\s*\(', 'fiber::TimedMutex::TimedWaitHelper')
    c = fix_queue(Rewriter('TimedMutex::TimedWaitHelper', pre=WAIT_RULES, post=MUTEX_RULES).rewrite(b.text))
    src = MUTEX + '''int TimedWaitHelper(Mutex* self, int timeout)
__CPROVER_requires(__CPROVER_is_fresh(self, sizeof(*self)) && INV(self) && g.excl != H_ME && !g.deadline_passed)
__CPROVER_assigns(self->_occupied, g.excl, g.parked, g.deadline_passed, g_m)
/* timed acquisition: success really holds the lock; failure only because the deadline passed or the lock was (again) held when this fiber ran */
__CPROVER_ensures(INV(self) && (RET ? g.excl == H_ME : (g.excl != H_ME && (g.deadline_passed || g.excl == H_OTHER))))
{ g_m = self; ''' + c + '''}
void harness(void) { ghost_havoc(); Mutex* m; int r = TimedWaitHelper(m, 0); if (r) VF_CANARY("acquired"); else VF_CANARY("gave up"); }
'''
    job('TimedMutex.TimedWaitHelper', b, src, 'TimedWaitHelper', [], canaries=2, expect=[r'postcondition', r'no two exclusive holders'])

    # ============ RecursiveMutex / RecursiveTimedMutex ===========================================================================
    REC = COMMON + r'''
typedef struct RMutex { unsigned long _occupied_count; unsigned long _owner_id; int _queue; } RMutex;
RMutex* g_m;
#define INV(m) ( (g.excl == H_NONE || g.excl == H_ME || g.excl == H_OTHER) && ((m)->_occupied_count != 0) == (g.excl != H_NONE)          \
   && (g.excl == H_ME ==> ((m)->_owner_id == MY_ID && (m)->_occupied_count == g.my_depth)) && (g.excl != H_ME ==> g.my_depth == 0)          \
   && (g.excl == H_OTHER ==> ((m)->_owner_id != MY_ID)) )
static inline void env(void) { g.parked = 1; if (g.excl != H_ME) { g.excl = nondet_bool() ? H_OTHER : H_NONE;
  g_m->_occupied_count = g.excl == H_NONE ? 0 : nondet_ulong(); g_m->_owner_id = nondet_ulong(); __CPROVER_assume(INV(g_m)); } }
static inline int QWait(int* q) { env(); return Ready; }
static inline int QWaitTimed(int* q, int timeout) { env(); if (nondet_bool()) return Ready; g.deadline_passed = 1; return Timeout; }
/* LockHelper is the linearisation point of acquiring one level */
void LockHelper(RMutex* self)
__CPROVER_requires(g.excl == H_NONE || g.excl == H_ME)       /* C18: never admit incompatible holders: recursion by the owner only, first level only on a free lock */
__CPROVER_requires(INV(self))
__CPROVER_assigns(self->_occupied_count, self->_owner_id, g.excl, g.my_depth)
__CPROVER_ensures(g.excl == H_ME && g.my_depth == OLD(g.my_depth) + 1 && INV(self));
'''
    b = find_body(repo, D + 'recursive_mutex.cpp', r'void\s+RecursiveMutex::LockHelper\s*\(', 'fiber::RecursiveMutex::LockHelper')
    c = Rewriter('RecursiveMutex::LockHelper', pre=WAIT_RULES).rewrite(b.text)
    src = REC.replace('void LockHelper(RMutex* self)', 'void LockHelper_decl(RMutex* self)') + '''void LockHelperF(RMutex* self)
__CPROVER_requires(__CPROVER_is_fresh(self, sizeof(*self)) && (g.excl == H_NONE || g.excl == H_ME) && INV(self))
__CPROVER_assigns(self->_occupied_count, self->_owner_id, g.excl, g.my_depth, g_m)
__CPROVER_ensures(g.excl == H_ME && g.my_depth == OLD(g.my_depth) + 1 && INV(self))
{ g_m = self; ''' + c + ''' g.excl = H_ME; g.my_depth++; __CPROVER_assume(g.my_depth != 0); /* ghost epilogue; listed assumption: the recursion depth does not wrap */ }
void harness(void) { ghost_havoc(); RMutex* m; LockHelperF(m); if (g.my_depth > 1) VF_CANARY("recursive level"); else VF_CANARY("first level"); }
'''
    job('RecursiveMutex.LockHelper', b, src, 'LockHelperF', ['GetId'], canaries=2)
    for nm, f, sig, ret in (('RecursiveMutex.lock', D + 'recursive_mutex.cpp', r'void\s+RecursiveMutex::lock\s*\(', 'void'),
                            ('RecursiveMutex.try_lock', D + 'recursive_mutex.cpp', r'bool\s+RecursiveMutex::try_lock\s*\(', 'int'),
                            ('RecursiveTimedMutex.TimedWaitHelper', H + 'recursive_timed_mutex.hpp', r'bool\s+TimedWaitHelper\s*\(', 'int')):
        b = find_body(repo, f, sig, 'fiber::' + nm)
        c = fix_queue(Rewriter(nm, pre=WAIT_RULES, methods=['LockHelper']).rewrite(b.text))
        nloops = len(re.findall(r'\bwhile\b', c))
        if nloops:
            c = attach_loop_contracts(nm, c, ['__CPROVER_assigns(self->_occupied_count, self->_owner_id, g.excl, g.parked, g.deadline_passed)\n__CPROVER_loop_invariant(INV(self))'] * nloops)
        if nm.endswith('.lock'):
            post = '/* lock(): on return this fiber holds the lock, one level deeper; nobody else holds it */\n__CPROVER_ensures(INV(self) && g.excl == H_ME && g.my_depth == OLD(g.my_depth) + 1)'
            har = 'void harness(void) { ghost_havoc(); RMutex* m; F(m, 0); if (g.parked) VF_CANARY("had to wait"); else VF_CANARY("no wait"); }'
            ncan = 2
        elif nm.endswith('try_lock'):
            post = '/* try_lock: success holds one more level; failure only because another fiber held it at the decision */\n__CPROVER_ensures(INV(self) && (RET ? (g.excl == H_ME && g.my_depth == OLD(g.my_depth) + 1) : (g.excl == H_OTHER && OLD(g.excl) == H_OTHER)))'
            har = 'void harness(void) { ghost_havoc(); RMutex* m; int r = F(m, 0); if (r) VF_CANARY("acquired"); else VF_CANARY("busy"); }'
            ncan = 2
        else:
            post = '/* timed: success holds the lock; failure only after the deadline or because it was (again) held */\n__CPROVER_ensures(INV(self) && (RET ? (g.excl == H_ME && g.my_depth == OLD(g.my_depth) + 1) : (g.my_depth == OLD(g.my_depth) && (g.deadline_passed || g.excl == H_OTHER))))'
            har = 'void harness(void) { ghost_havoc(); RMutex* m; int r = F(m, 0); if (r) VF_CANARY("acquired"); else VF_CANARY("gave up"); }'
            ncan = 2
        src = REC + '%s F(RMutex* self, int timeout)\n__CPROVER_requires(__CPROVER_is_fresh(self, sizeof(*self)) && INV(self) && !g.deadline_passed)\n__CPROVER_assigns(self->_occupied_count, self->_owner_id, g.excl, g.my_depth, g.parked, g.deadline_passed, g_m)\n%s\n{ g_m = self; %s }\n%s\n' % (ret, post, c, har)
        job(nm, b, src, 'F', ['LockHelper', 'GetId'], canaries=ncan, loops=bool(nloops), expect=[r'postcondition', r'precondition'])
    b = find_body(repo, D + 'recursive_mutex.cpp', r'void\s+RecursiveMutex::unlock\s*\(', 'fiber::RecursiveMutex::unlock')
    c = Rewriter('RecursiveMutex::unlock', pre=[(r'_queue\.NotifyOne\(\)', 'NotifyOne(&self->_queue)', 0)]).rewrite(b.text).replace('&self->self->', '&self->')
    src = REC + '''void unlock(RMutex* self)
__CPROVER_requires(__CPROVER_is_fresh(self, sizeof(*self)) && INV(self) && g.excl == H_ME && g.my_depth >= 1 && g.notify_one == 0)
__CPROVER_assigns(self->_occupied_count, self->_owner_id, g.excl, g.my_depth, g.notify_one, g.notified_queue, g_m)
/* unlock: one level is released; when the last level goes the lock is free and one parked locker is made runnable (a blocked locker is woken when the lock becomes available) */
__CPROVER_ensures(INV(self) && g.my_depth == OLD(g.my_depth) - 1 && g.excl == (g.my_depth == 0 ? H_NONE : H_ME))
__CPROVER_ensures(g.my_depth == 0 ==> (g.notify_one >= 1 && g.notified_queue == &self->_queue))
{ g_m = self; ''' + c + ''' g.my_depth--; if (g.my_depth == 0) g.excl = H_NONE; /* ghost epilogue */ }
void harness(void) { ghost_havoc(); RMutex* m; unlock(m); if (g.my_depth == 0) VF_CANARY("fully released"); else VF_CANARY("still held"); }
'''
    job('RecursiveMutex.unlock', b, src, 'unlock', ['NotifyOne'], canaries=2)

    # ============ SharedMutex / SharedTimedMutex ================================================================================
    SH = COMMON + r'''
typedef struct SMutex { unsigned char _occupied; unsigned char _exclusive_mode; unsigned long _shared_owners_count; int _exclusive_queue; int _shared_queue; } SMutex;
SMutex* g_m;
#define SHARED_TOTAL (g.my_shared + g.other_shared)
#define INV(m) ( (g.excl == H_NONE || g.excl == H_ME || g.excl == H_OTHER) && g.my_shared <= 1 && g.other_shared < (1UL << 62)                    \
   && (m)->_occupied <= 1 && (m)->_exclusive_mode <= 1 && (m)->_shared_owners_count == SHARED_TOTAL && (m)->_occupied == (g.excl != H_NONE || SHARED_TOTAL > 0)                                                                          \
   && (g.excl != H_NONE ==> ((m)->_exclusive_mode && SHARED_TOTAL == 0))                                                               \
   && (SHARED_TOTAL > 0 ==> !(m)->_exclusive_mode) )
static inline void env(void) { g.parked = 1;
  if (g.excl != H_ME) { if (g.my_shared) { g.other_shared = nondet_ulong(); } else { g.excl = nondet_bool() ? H_OTHER : H_NONE; g.other_shared = g.excl == H_NONE ? nondet_ulong() : 0; }
    g_m->_occupied = nondet_bool(); g_m->_exclusive_mode = nondet_bool(); g_m->_shared_owners_count = nondet_ulong(); __CPROVER_assume(INV(g_m)); } }
static inline int QWait(int* q) { env(); return Ready; }
static inline int QWaitTimed(int* q, int timeout) { env(); if (nondet_bool()) return Ready; g.deadline_passed = 1; return Timeout; }
void LockHelper(SMutex* self)
__CPROVER_requires(g.excl == H_NONE && SHARED_TOTAL == 0)       /* C18: an exclusive holder never overlaps with any other holder */
__CPROVER_requires(INV(self))
__CPROVER_assigns(self->_occupied, self->_exclusive_mode, g.excl)
__CPROVER_ensures(g.excl == H_ME && INV(self));
void SharedLockHelper(SMutex* self)
__CPROVER_requires(g.excl == H_NONE && g.my_shared == 0)        /* C18: a shared holder overlaps only with shared holders */
__CPROVER_requires(INV(self))
__CPROVER_assigns(self->_occupied, self->_exclusive_mode, self->_shared_owners_count, g.my_shared)
__CPROVER_ensures(g.my_shared == 1 && INV(self));
unsigned char g_eq_empty, g_sq_empty;      /* ghost: is the exclusive / shared wait queue empty (nobody parked there) */
int QEmpty(int* q) __CPROVER_requires(q == &g_m->_exclusive_queue || q == &g_m->_shared_queue) __CPROVER_assigns() __CPROVER_ensures(RET == (q == &g_m->_exclusive_queue ? g_eq_empty : g_sq_empty));
unsigned GetRandNumber(unsigned n) __CPROVER_requires(n != 0) __CPROVER_assigns() __CPROVER_ensures(RET < n);
'''
    for hn, ghost in (('LockHelper', 'g.excl = H_ME;'), ('SharedLockHelper', 'g.my_shared = 1;')):
        b = find_body(repo, D + 'shared_mutex.cpp', r'void\s+SharedMutex::%s\s*\(' % hn, 'fiber::SharedMutex::' + hn)
        c = Rewriter(hn).rewrite(b.text)
        pre = 'g.excl == H_NONE && SHARED_TOTAL == 0' if hn == 'LockHelper' else 'g.excl == H_NONE && g.my_shared == 0'
        ens = 'g.excl == H_ME' if hn == 'LockHelper' else 'g.my_shared == 1'
        src = SH.replace('void %s(SMutex* self)' % hn, 'void %s_decl(SMutex* self)' % hn) + '''void F(SMutex* self)
__CPROVER_requires(__CPROVER_is_fresh(self, sizeof(*self)) && INV(self) && %s)
__CPROVER_assigns(self->_occupied, self->_exclusive_mode, self->_shared_owners_count, g.excl, g.my_shared, g_m)
__CPROVER_ensures(%s && INV(self))
{ g_m = self; %s %s /* ghost epilogue */ }
void harness(void) { ghost_havoc(); SMutex* m; F(m); VF_CANARY("end"); }
''' % (pre, ens, c, ghost)
        job('SharedMutex.' + hn, b, src, 'F', [])
    sh_rules = WAIT_RULES + [(r'(\w+)\.Empty\(\)', r'QEmpty(&self->\1)', 0), (r'(\w+)\.NotifyAll\(\)', r'NotifyAll(&self->\1)', 0), (r'(\w+)\.NotifyOne\(\)', r'NotifyOne(&self->\1)', 0)]
    table = (
        ('SharedMutex.lock', D + 'shared_mutex.cpp', r'void\s+fiber::SharedMutex::lock\s*\(|void\s+SharedMutex::lock\s*\(\s*\)', 'void', 'excl'),
        ('SharedMutex.try_lock', D + 'shared_mutex.cpp', r'bool\s+SharedMutex::try_lock\s*\(\s*\)', 'int', 'try_excl'),
        ('SharedMutex.lock_shared', D + 'shared_mutex.cpp', r'void\s+SharedMutex::lock_shared\s*\(', 'void', 'shared'),
        ('SharedMutex.try_lock_shared', D + 'shared_mutex.cpp', r'bool\s+SharedMutex::try_lock_shared\s*\(', 'int', 'try_shared'),
    )
    for nm, f, sig, ret, kind in table:
        b = find_body(repo, f, sig, 'fiber::' + nm)
        c = fix_queue(Rewriter(nm, pre=sh_rules, methods=['LockHelper', 'SharedLockHelper']).rewrite(b.text))
        nloops = len(re.findall(r'\bwhile\b', c))
        if nloops:
            c = attach_loop_contracts(nm, c, ['__CPROVER_assigns(self->_occupied, self->_exclusive_mode, self->_shared_owners_count, g.excl, g.other_shared, g.parked)\n__CPROVER_loop_invariant(INV(self) && g.excl != H_ME && g.my_shared == 0)'] * nloops)
        post = {'excl': '__CPROVER_ensures(INV(self) && g.excl == H_ME)      /* exclusive: nobody else holds it in any mode */',
                'try_excl': '__CPROVER_ensures(INV(self) && (RET ? g.excl == H_ME : (g.excl != H_ME && (OLD(g.excl) == H_OTHER || OLD(g.other_shared) > 0))))',
                'shared': '__CPROVER_ensures(INV(self) && g.my_shared == 1 && g.excl == H_NONE)      /* shared: no exclusive holder */',
                'try_shared': '__CPROVER_ensures(INV(self) && (RET ? (g.my_shared == 1 && g.excl == H_NONE) : (g.my_shared == 0 && OLD(g.excl) == H_OTHER)))'}[kind]
        har = 'void harness(void) { ghost_havoc(); SMutex* m; F(m); VF_CANARY("end"); }' if ret == 'void' else 'void harness(void) { ghost_havoc(); SMutex* m; int r = F(m); if (r) VF_CANARY("acquired"); else VF_CANARY("busy"); }'
        src = SH + '%s F(SMutex* self)\n__CPROVER_requires(__CPROVER_is_fresh(self, sizeof(*self)) && INV(self) && g.excl != H_ME && g.my_shared == 0)\n__CPROVER_assigns(self->_occupied, self->_exclusive_mode, self->_shared_owners_count, g.excl, g.my_shared, g.other_shared, g.parked, g_m)\n%s\n{ g_m = self; %s }\n%s\n' % (ret, post, c, har)
        job(nm, b, src, 'F', ['LockHelper', 'SharedLockHelper'], canaries=1 if ret == 'void' else 2, loops=bool(nloops), expect=[r'postcondition', r'precondition'])
    b = find_body(repo, D + 'shared_mutex.cpp', r'void\s+SharedMutex::unlock\s*\(\s*\)', 'fiber::SharedMutex::unlock')
    c = Rewriter('SharedMutex::unlock', pre=sh_rules).rewrite(b.text).replace('&self->self->', '&self->')
    src = SH + '''void unlock(SMutex* self)
__CPROVER_requires(__CPROVER_is_fresh(self, sizeof(*self)) && INV(self) && g.excl == H_ME && g.notify_one == 0 && g.notify_all == 0 && g_eq_empty <= 1 && g_sq_empty <= 1)
__CPROVER_assigns(self->_occupied, g.excl, g.notify_one, g.notify_all, g.notified_queue, g_m)
/* unlock (exclusive): the lock is free and parked lockers are woken (all shared ones, or one exclusive one) */
__CPROVER_ensures(INV(self) && g.excl == H_NONE && g.notify_one + g.notify_all == 1)
/* C18: a blocked locker is woken when the lock becomes available: if anybody is parked on either queue, the notify goes to a queue somebody is parked on (a notify on an empty
   queue wakes nobody and the parked fiber would sleep on a free lock) */
__CPROVER_ensures((!g_eq_empty || !g_sq_empty) ==> (g.notified_queue == (void*)&self->_exclusive_queue ? !g_eq_empty : (g.notified_queue == (void*)&self->_shared_queue && !g_sq_empty)))
{ g_m = self; ''' + c + ''' g.excl = H_NONE; /* ghost epilogue */ }
void harness(void) { ghost_havoc(); g_eq_empty = nondet_uchar() & 1; g_sq_empty = nondet_uchar() & 1; SMutex* m; unlock(m); if (g.notify_all) VF_CANARY("readers woken"); else VF_CANARY("one writer woken"); }
'''
    job('SharedMutex.unlock', b, src, 'unlock', ['QEmpty', 'GetRandNumber', 'NotifyOne', 'NotifyAll'], canaries=2)
    b = find_body(repo, D + 'shared_mutex.cpp', r'void\s+SharedMutex::unlock_shared\s*\(', 'fiber::SharedMutex::unlock_shared')
    c = Rewriter('SharedMutex::unlock_shared', pre=sh_rules).rewrite(b.text).replace('&self->self->', '&self->')
    src = SH + '''void unlock_shared(SMutex* self)
__CPROVER_requires(__CPROVER_is_fresh(self, sizeof(*self)) && INV(self) && g.my_shared == 1 && g.excl == H_NONE && g.notify_one == 0)
__CPROVER_assigns(self->_occupied, self->_shared_owners_count, g.my_shared, g.notify_one, g.notified_queue, g_m)
/* unlock_shared: this fiber's shared hold ends; the last reader frees the lock and wakes one parked writer */
__CPROVER_ensures(INV(self) && g.my_shared == 0 && (g.other_shared == 0 ==> (g.notify_one == 1 && g.notified_queue == &self->_exclusive_queue)))
{ g_m = self; g.my_shared = 0; /* ghost: the decrement below is this fiber's release */ ''' + c + ''' }
void harness(void) { ghost_havoc(); SMutex* m; unlock_shared(m); if (g.other_shared == 0) VF_CANARY("last reader"); else VF_CANARY("other readers remain"); }
'''
    src = src.replace('{ g_m = self; g.my_shared = 0;', '{ g_m = self; ').replace(c + ' }', c.replace('self->_shared_owners_count--;', '{ self->_shared_owners_count--; g.my_shared = 0; /* ghost: this decrement is the release */ }') + ' }')
    job('SharedMutex.unlock_shared', b, src, 'unlock_shared', ['NotifyOne'], canaries=2)
    b = find_body(repo, H + 'shared_timed_mutex.hpp', r'bool\s+TimedWaitHelper\s*\(', 'fiber::SharedTimedMutex::TimedWaitHelper')
    c = fix_queue(Rewriter('SharedTimedMutex::TimedWaitHelper', pre=sh_rules, methods=['LockHelper', 'SharedLockHelper']).rewrite(b.text))
    src = SH + '''int F(SMutex* self, int timeout, int exclusive)
__CPROVER_requires(__CPROVER_is_fresh(self, sizeof(*self)) && INV(self) && g.excl != H_ME && g.my_shared == 0 && !g.deadline_passed && (exclusive == 0 || exclusive == 1))
__CPROVER_assigns(self->_occupied, self->_exclusive_mode, self->_shared_owners_count, g.excl, g.my_shared, g.other_shared, g.parked, g.deadline_passed, g_m)
/* timed acquisition in the requested mode: success really holds the lock in that mode */
__CPROVER_ensures(INV(self) && (RET ? (exclusive ? g.excl == H_ME : (g.my_shared == 1 && g.excl == H_NONE)) : (g.excl != H_ME && g.my_shared == 0)))
{ g_m = self; ''' + c + '''}
void harness(void) { ghost_havoc(); SMutex* m; int ex = nondet_bool(); int r = F(m, 0, ex); if (!r) VF_CANARY("gave up"); else if (ex) VF_CANARY("exclusive"); else VF_CANARY("shared"); }
'''
    job('SharedTimedMutex.TimedWaitHelper', b, src, 'F', ['LockHelper', 'SharedLockHelper'], canaries=3, expect=[r'postcondition', r'precondition'])

    # ============ FiberQueue / ConditionVariable / join ===========================================================================
    Q = COMMON + r'''
typedef struct Node Node; struct Node { int x; };
typedef struct Queue { int _queue; } Queue;
struct { unsigned long len; unsigned char me_in; unsigned pushes, schedules, erases; Node* scheduled; unsigned char woke_by_notify; } q;
Node g_me, g_other;
Node* Current(void) __CPROVER_assigns() __CPROVER_ensures(RET == &g_me);
void PushBack(int* l, Node* n) __CPROVER_requires(n == &g_me && !q.me_in) __CPROVER_assigns(q.len, q.me_in, q.pushes) __CPROVER_ensures(q.len == OLD(q.len) + 1 && q.me_in == 1 && q.pushes == OLD(q.pushes) + 1);
int LEmpty(int* l) __CPROVER_assigns() __CPROVER_ensures(RET == (q.len == 0));
Node* PollRandomElementFromList(int* l) __CPROVER_requires(q.len >= 1) __CPROVER_assigns(q.len) __CPROVER_ensures(q.len == OLD(q.len) - 1 && RET == &g_other);
void ScheduleAndRemove(Node* n) __CPROVER_requires(n != 0) __CPROVER_assigns(q.schedules, q.scheduled) __CPROVER_ensures(q.schedules == OLD(q.schedules) + 1 && q.scheduled == n);
/* suspension: returns because a notify removed this fiber from the queue and scheduled it */
void Suspend(void) __CPROVER_requires(q.me_in) __CPROVER_assigns(q.me_in, q.len, q.woke_by_notify, g.parked) __CPROVER_ensures(q.me_in == 0 && q.woke_by_notify == 1 && g.parked == 1);
/* timed sleep: returns because it was notified (removed from the queue) or because virtual time reached the deadline (still in the queue) */
void SleepPreemptive(unsigned long deadline) __CPROVER_requires(q.me_in) __CPROVER_assigns(q.me_in, q.len, q.woke_by_notify, g.deadline_passed, g.parked)
  __CPROVER_ensures(g.parked == 1 && (q.me_in ? (g.deadline_passed == 1 && !q.woke_by_notify) : q.woke_by_notify == 1));
int Erase(Node* n) __CPROVER_requires(n == &g_me) __CPROVER_assigns(q.me_in, q.erases) __CPROVER_ensures(RET == OLD(q.me_in) && q.me_in == 0 && q.erases == OLD(q.erases) + 1);
'''
    qpre = [(r'fault::Scheduler::Current\(\)', 'Current()', 0), (r'fault::Scheduler::Suspend\(\)', 'Suspend()', 0), (r'static_cast<\w+\s*\*>\(\s*static_cast<\w+\s*\*>\(([^;]*?)\)\s*\)', r'(\1)', 0), (r'static_cast<\w+\s*\*>\((\w+)\)', r'(\1)', 0),
            (r'_queue\.PushBack\(', 'PushBack(&self->_queue, ', 0), (r'_queue\.Empty\(\)', 'LEmpty(&self->_queue)', 0), (r'PollRandomElementFromList\(_queue\)', 'PollRandomElementFromList(&self->_queue)', 0),
            (r'WaitStatus::(\w+)', r'\1', 0), (r'auto\s*\*\s*scheduler\s*=\s*fault::Scheduler::GetScheduler\(\)\s*;', '', 0),
            (r'scheduler->SleepPreemptive\(\s*std::chrono::duration_cast<std::chrono::nanoseconds>\(time_point\.time_since_epoch\(\)\)\.count\(\)\s*\)', 'SleepPreemptive(time_point)', 0),
            (r'queue_node->Erase\(\)', 'Erase(queue_node)', 0)]
    b = find_body(repo, D + 'queue.cpp', r'WaitStatus\s+FiberQueue::Wait\s*\(\s*NoTimeoutTag\s*\)', 'FiberQueue::Wait(NoTimeout)')
    c = Rewriter('FiberQueue::Wait', pre=qpre, nomembers=['_queue']).rewrite(b.text)
    src = Q + '''int Wait(Queue* self)
__CPROVER_requires(__CPROVER_is_fresh(self, sizeof(*self)) && !q.me_in && q.pushes == 0)
__CPROVER_assigns(q.len, q.me_in, q.pushes, q.woke_by_notify, g.parked)
/* the fiber parks itself on this queue before suspending, and runs again only after a notify took it out: a notify wakes a waiter that was already blocked */
__CPROVER_ensures(q.pushes == 1 && q.woke_by_notify && !q.me_in && RET == Ready)
{''' + c + '''}
void harness(void) { Queue* s; q.me_in = 0; q.pushes = 0; Wait(s); VF_CANARY("end"); }
'''
    job('FiberQueue.Wait', b, src, 'Wait', ['Current', 'PushBack', 'Suspend'])
    b = find_body(repo, H + 'queue.hpp', r'WaitStatus\s+Wait\s*\(\s*const\s+std::chrono::time_point<Clock,\s*Duration>\s*&\s*time_point\s*\)', 'FiberQueue::Wait(time_point)')
    c = Rewriter('FiberQueue::Wait(tp)', pre=qpre, nomembers=['_queue']).rewrite(b.text)
    src = Q + '''int WaitUntil(Queue* self, unsigned long time_point)
__CPROVER_requires(__CPROVER_is_fresh(self, sizeof(*self)) && !q.me_in && q.pushes == 0 && !g.deadline_passed && !q.woke_by_notify && q.erases == 0)
__CPROVER_assigns(q.len, q.me_in, q.pushes, q.woke_by_notify, q.erases, g.deadline_passed, g.parked)
/* timed waits end at or after their deadline: Timeout is reported only if nobody notified this fiber and the deadline passed; the fiber never stays in the queue */
__CPROVER_ensures(q.pushes == 1 && !q.me_in && (RET == Timeout ? (g.deadline_passed && !q.woke_by_notify) : (RET == Ready && q.woke_by_notify)))
{''' + c + '''}
void harness(void) { Queue* s; q.me_in = 0; q.pushes = 0; q.erases = 0; q.woke_by_notify = 0; g.deadline_passed = 0; int r = WaitUntil(s, nondet_ulong()); if (r == Timeout) VF_CANARY("timed out"); else VF_CANARY("notified"); }
'''
    job('FiberQueue.WaitUntil', b, src, 'WaitUntil', ['Current', 'PushBack', 'SleepPreemptive', 'Erase'], canaries=2)
    b = find_body(repo, D + 'queue.cpp', r'void\s+FiberQueue::NotifyOne\s*\(', 'FiberQueue::NotifyOne')
    c = Rewriter('FiberQueue::NotifyOne', pre=qpre, nomembers=['_queue']).rewrite(b.text)
    src = Q + '''void NotifyOneF(Queue* self)
__CPROVER_requires(__CPROVER_is_fresh(self, sizeof(*self)) && q.schedules == 0)
__CPROVER_assigns(q.len, q.schedules, q.scheduled)
/* notify_one: if a fiber is parked on the queue exactly one of them is taken out and made runnable; otherwise nothing happens (no stored wake-up) */
__CPROVER_ensures(OLD(q.len) == 0 ? (q.schedules == 0 && q.len == 0) : (q.schedules == 1 && q.len == OLD(q.len) - 1 && q.scheduled == &g_other))
{''' + c + '''}
void harness(void) { Queue* s; q.schedules = 0; q.len = nondet_ulong(); unsigned long l0 = q.len; NotifyOneF(s); if (l0) VF_CANARY("woke one"); else VF_CANARY("nobody parked"); }
'''
    job('FiberQueue.NotifyOne', b, src, 'NotifyOneF', ['LEmpty', 'PollRandomElementFromList', 'ScheduleAndRemove'], canaries=2)
    # NotifyAll: every fiber parked at the moment of the call is made runnable exactly once; fibers that park during the walk are not touched (they wait for the next notify)
    def notify_all():
        b = find_body(repo, D + 'queue.cpp', r'void\s+FiberQueue::NotifyAll\s*\(', 'FiberQueue::NotifyAll')
        pre = qpre + [(r'auto\s+all\s*=\s*std::move\(\s*_queue\s*\)\s*;', 'unsigned long all = LIST_TAKE();', 1), (r'_queue\s*=\s*BiList\(\)\s*;', 'LIST_RESET();', 0),
                      (r'all\.Empty\(\)', '(all == 0)', 1), (r'all\.PopBack\(\)', 'LIST_POP(&all)', 1), (r'auto\s*\*\s*fiber\s*=', 'Node* fiber =', 0)]
        c = Rewriter('FiberQueue::NotifyAll', pre=pre, nomembers=['_queue']).rewrite(b.text)
        has_loop = bool(re.search(r'\b(while|for)\b', c))
        if has_loop:
            c = attach_loop_contracts('FiberQueue::NotifyAll', c, ['__CPROVER_assigns(all, q.schedules, q.scheduled)\n__CPROVER_loop_invariant(all <= g_taken && q.schedules == g_taken - all && q.len == 0)'])
        src = Q + '''unsigned long g_taken; unsigned char g_reset_done;
/* std::move of the BiList: the local list takes every parked fiber, the member is left in a moved-from state that `_queue = BiList()` re-initialises */
unsigned long LIST_TAKE(void) __CPROVER_assigns(q.len, g_taken) __CPROVER_ensures(RET == OLD(q.len) && g_taken == OLD(q.len) && q.len == 0);
void LIST_RESET(void) __CPROVER_assigns(g_reset_done) __CPROVER_ensures(g_reset_done == 1);
Node* LIST_POP(unsigned long* l) __CPROVER_requires(*l >= 1) __CPROVER_assigns(*l) __CPROVER_ensures(*l == OLD(*l) - 1 && RET == &g_other);
void NotifyAllF(Queue* self)
__CPROVER_requires(__CPROVER_is_fresh(self, sizeof(*self)) && q.schedules == 0 && q.len < (1UL << 32))
__CPROVER_assigns(q.len, q.schedules, q.scheduled, g_taken, g_reset_done)
/* C18 notify_all: every fiber that was parked on the queue is taken out and made runnable, each exactly once; nobody stays behind */
__CPROVER_ensures(q.schedules == OLD(q.len) && q.len == 0)
{''' + c + '''}
void harness(void) { Queue* s; q.schedules = 0; q.len = nondet_ulong(); unsigned long l0 = q.len; NotifyAllF(s); if (l0 > 1) VF_CANARY("woke several"); else VF_CANARY("at most one parked"); }
'''
        job('FiberQueue.NotifyAll', b, src, 'NotifyAllF', ['LIST_TAKE', 'LIST_RESET', 'LIST_POP', 'ScheduleAndRemove'], canaries=2, loops=has_loop, expect=[r'postcondition'] + ([r'invariant after step|loop_invariant_step'] if has_loop else []))
        # ScheduleAndRemove: a fiber that is not runnable yet is taken out of the sleep structures and scheduled, exactly once
        b = find_body(repo, D + 'queue.cpp', r'void\s+FiberQueue::ScheduleAndRemove\s*\(\s*FiberBase\s*\*\s*node\s*\)', 'FiberQueue::ScheduleAndRemove')
        pre = [(r'node->GetState\(\)\s*!=\s*Waiting', '(!g_is_waiting)', 0), (r'node->GetState\(\)\s*==\s*Waiting', '(g_is_waiting)', 0), (r'static_cast<BiNodeScheduler\s*\*>\(node\)->Erase\(\)', 'SCHED_NODE_ERASE(node)', 0),
               (r'fault::Scheduler::GetScheduler\(\)->Schedule\(\s*node\s*\)', 'SCHEDULE(node)', 0)]
        c = Rewriter('FiberQueue::ScheduleAndRemove', pre=pre).rewrite(b.text)
        src = COMMON + '''typedef struct Node { int x; } Node;
unsigned char g_is_waiting; unsigned g_erases, g_schedules; Node* g_scheduled; unsigned char g_erase_before_schedule;
void SCHED_NODE_ERASE(Node* n) __CPROVER_assigns(g_erases) __CPROVER_ensures(g_erases == OLD(g_erases) + 1);
void SCHEDULE(Node* n) __CPROVER_assigns(g_schedules, g_scheduled, g_erase_before_schedule) __CPROVER_ensures(g_schedules == OLD(g_schedules) + 1 && g_scheduled == n && g_erase_before_schedule == (g_erases == 1));
void ScheduleAndRemoveF(Node* node)
__CPROVER_requires(node != 0 && g_erases == 0 && g_schedules == 0 && g_is_waiting <= 1)
__CPROVER_assigns(g_erases, g_schedules, g_scheduled, g_erase_before_schedule)
/* C18: a notified fiber that is not already runnable (state Waiting = already in the run queue, e.g. woken by the clock in the same step) is removed from the sleep bucket it may be
   in and scheduled exactly once - never twice (it would be resumed twice), never left out */
__CPROVER_ensures(g_is_waiting ? (g_schedules == 0 && g_erases == 0) : (g_schedules == 1 && g_scheduled == node && g_erases == 1 && g_erase_before_schedule))
{''' + c + '''}
void harness(void) { Node* n; __CPROVER_assume(n != 0); g_erases = g_schedules = 0; g_is_waiting = nondet_uchar() & 1; ScheduleAndRemoveF(n); if (g_is_waiting) VF_CANARY("already runnable"); else VF_CANARY("made runnable"); }
'''
        job('FiberQueue.ScheduleAndRemove', b, src, 'ScheduleAndRemoveF', ['SCHED_NODE_ERASE', 'SCHEDULE'], canaries=2)
        # ConditionVariable::notify_one / notify_all: exactly the queue operation of that name
        for nm, want in (('notify_one', 'g_n1 == 1 && g_nall == 0'), ('notify_all', 'g_n1 == 0 && g_nall == 1')):
            b = find_body(repo, D + 'condition_variable.cpp', r'void\s+ConditionVariable::' + nm + r'\s*\(\s*\)\s*noexcept', 'fiber::ConditionVariable::' + nm)
            c = Rewriter('ConditionVariable::' + nm, pre=[(r'_queue\.NotifyOne\(\)', 'Q_NotifyOne(&self->_queue)', 0), (r'_queue\.NotifyAll\(\)', 'Q_NotifyAll(&self->_queue)', 0)], nomembers=['_queue']).rewrite(b.text)
            src = COMMON + '''typedef struct CV { int _queue; } CV; unsigned g_n1, g_nall; void* g_nq;
void Q_NotifyOne(void* q) __CPROVER_assigns(g_n1, g_nq) __CPROVER_ensures(g_n1 == OLD(g_n1) + 1 && g_nq == q);
void Q_NotifyAll(void* q) __CPROVER_assigns(g_nall, g_nq) __CPROVER_ensures(g_nall == OLD(g_nall) + 1 && g_nq == q);
void F(CV* self) __CPROVER_requires(__CPROVER_is_fresh(self, sizeof(*self)) && g_n1 == 0 && g_nall == 0) __CPROVER_assigns(g_n1, g_nall, g_nq)
/* C18: %s wakes through this condition variable's own queue: one waiter / every waiter parked there */
__CPROVER_ensures(%s && g_nq == (void*)&self->_queue)
{''' % (nm, want) + c + '''}
void harness(void) { CV* c; g_n1 = g_nall = 0; F(c); VF_CANARY("end"); }
'''
            job('ConditionVariable.' + nm, b, src, 'F', ['Q_NotifyOne', 'Q_NotifyAll'])
    try:
        notify_all()
    except ExtractionBreak as e:
        ctx.breaks.append(str(e))
    # ConditionVariable::WaitImpl
    b = find_body(repo, H + 'condition_variable.hpp', r'WaitStatus\s+WaitImpl\s*\(', 'fiber::ConditionVariable::WaitImpl')
    c = Rewriter('ConditionVariable::WaitImpl', pre=[(r'lock\.unlock\(\)', 'M_unlock(lock)', 0), (r'lock\.lock\(\)', 'M_lock(lock)', 0), (r'_queue\.Wait\(\s*timeout\s*\)', 'CV_Wait(self, timeout)', 0)]).rewrite(b.text)
    src = COMMON + '''typedef struct CV { int _queue; } CV;
unsigned g_unlocks, g_locks, g_waits; unsigned char g_wait_unlocked; int g_wait_status;
void InjectFault(void) __CPROVER_assigns() __CPROVER_ensures(1);
void M_unlock(int* lock) __CPROVER_requires(g.excl == H_ME) __CPROVER_assigns(g.excl, g_unlocks) __CPROVER_ensures(g.excl == H_NONE && g_unlocks == OLD(g_unlocks) + 1);
void M_lock(int* lock) __CPROVER_requires(g.excl != H_ME) __CPROVER_assigns(g.excl, g_locks) __CPROVER_ensures(g.excl == H_ME && g_locks == OLD(g_locks) + 1);
int CV_Wait(CV* self, int timeout) __CPROVER_assigns(g_waits, g_wait_unlocked, g.excl, g.deadline_passed)
  __CPROVER_ensures(g_waits == OLD(g_waits) + 1 && g_wait_unlocked == (OLD(g.excl) != H_ME) && (RET == Ready || RET == Timeout) && RET == g_wait_status && (RET == Timeout ==> g.deadline_passed) && g.excl != H_ME);
int WaitImpl(CV* self, int* lock, int timeout)
__CPROVER_requires(g.excl == H_ME && g_unlocks == 0 && g_locks == 0 && g_waits == 0 && !g.deadline_passed)
__CPROVER_assigns(g.excl, g_unlocks, g_locks, g_waits, g_wait_unlocked, g.deadline_passed)
/* condition_variable::wait: the mutex is released before parking and re-acquired before returning; the status is the queue's (Timeout only after the deadline) */
__CPROVER_ensures(g_unlocks == 1 && g_waits == 1 && g_wait_unlocked && g_locks == 1 && g.excl == H_ME && RET == g_wait_status && (RET == Timeout ==> g.deadline_passed))
{''' + c + '''}
void harness(void) { CV* s; int* l; g.excl = H_ME; g_unlocks = g_locks = g_waits = 0; g.deadline_passed = 0; WaitImpl(s, l, 0); VF_CANARY("end"); }
'''
    job('ConditionVariable.WaitImpl', b, src, 'WaitImpl', ['InjectFault', 'M_unlock', 'M_lock', 'CV_Wait'])
    # Thread::join
    b = find_body(repo, D + 'thread.cpp', r'void\s+Thread::join\s*\(', 'fiber::Thread::join')
    pre = [(r'throw\s+std::system_error\{[^;]*\}\s*;', 'THROW();', 0), (r'_impl->GetState\(\)\s*!=\s*Completed', '(ImplState(self) != Completed)', 0), (r'_impl->SetJoiningFiber\(\s*fault::Scheduler::Current\(\)\s*\)', 'SetJoiningFiber(self)', 0),
           (r'fault::Scheduler::Suspend\(\)', 'SuspendJoin()', 0), (r'joinable\(\)', 'joinable(self)', 0)]
    c = Rewriter('Thread::join', pre=pre, methods=['AfterJoinOrDetach'], nomembers=[]).rewrite(b.text)
    c = attach_loop_contracts('Thread::join', c, ['__CPROVER_assigns(g_state, g_joiner_set, g_suspends)\n__CPROVER_loop_invariant(g_threw == 0 && g_after == 0)'])
    src = COMMON + '''enum { Running = 0, Suspended = 1, Waiting = 2, Completed = 3 };
typedef struct Thread { void* _impl; } Thread;
int g_state; unsigned g_threw, g_after, g_suspends; unsigned char g_joiner_set;
#define THROW() do { g_threw = 1; return; } while (0)
int ImplState(Thread* t) __CPROVER_assigns() __CPROVER_ensures(RET == g_state);
int joinable(Thread* t) __CPROVER_assigns() __CPROVER_ensures(RET == 0 || RET == 1);
void SetJoiningFiber(Thread* t) __CPROVER_assigns(g_joiner_set) __CPROVER_ensures(g_joiner_set == 1);
/* the joiner suspends only after it registered itself (Exit() schedules the registered joiner); meanwhile the thread function may finish */
void SuspendJoin(void) __CPROVER_requires(g_joiner_set) __CPROVER_assigns(g_state, g_suspends, g_joiner_set) __CPROVER_ensures(g_suspends == OLD(g_suspends) + 1);
void AfterJoinOrDetach(Thread* t) __CPROVER_requires(g_state == Completed) __CPROVER_assigns(g_after) __CPROVER_ensures(g_after == OLD(g_after) + 1);
void join(Thread* self)
__CPROVER_requires(__CPROVER_is_fresh(self, sizeof(*self)) && g_threw == 0 && g_after == 0)
__CPROVER_assigns(g_state, g_threw, g_after, g_suspends, g_joiner_set)
/* thread::join returns (normally) only after the thread function finished */
__CPROVER_ensures(!g_threw ==> (g_state == Completed && g_after == 1))
{''' + c + '''}
void harness(void) { Thread* t; g_threw = g_after = g_suspends = 0; g_state = nondet_int(); join(t); if (g_threw) VF_CANARY("error"); else VF_CANARY("joined"); }
'''
    job('Thread.join', b, src, 'join', ['ImplState', 'joinable', 'SetJoiningFiber', 'SuspendJoin', 'AfterJoinOrDetach'], canaries=2, loops=True,
        expect=[r'postcondition', r'invariant after step|loop_invariant_step', r'precondition'])
    # thread-local proxy: keyed by the current fiber
    b1 = find_body(repo, D + 'thread_local_proxy.cpp', r'void\s*\*\s*GetImpl\s*\(', 'fiber::GetImpl')
    b2 = find_body(repo, D + 'thread_local_proxy.cpp', r'void\s+Set\s*\(\s*void\s*\*\s*new_value', 'fiber::Set')
    pre = [(r'fault::Scheduler::Current\(\)', 'CurrentFiber()', 0), (r'fiber->GetTLS\(\s*(\w+)\s*,\s*GetMap\(\)\s*\)', r'GetTLS(fiber, \1)', 0), (r'fiber->SetTLS\(\s*(\w+)\s*,\s*(\w+)\s*\)', r'SetTLS(fiber, \1, \2)', 0)]
    c1 = Rewriter('GetImpl', pre=pre).rewrite(b1.text)
    c2 = Rewriter('Set', pre=pre).rewrite(b2.text)
    src = '#include "vf.h"\n' + '''void* g_cur; unsigned g_gets, g_sets; void* g_tls_fiber; unsigned long g_tls_key; void* g_tls_val;
void* CurrentFiber(void) __CPROVER_assigns() __CPROVER_ensures(RET == g_cur && RET != 0);
void* GetTLS(void* fiber, unsigned long key) __CPROVER_assigns(g_gets, g_tls_fiber, g_tls_key) __CPROVER_ensures(g_gets == OLD(g_gets) + 1 && g_tls_fiber == fiber && g_tls_key == key && RET == g_tls_val);
void SetTLS(void* fiber, unsigned long key, void* v) __CPROVER_assigns(g_sets, g_tls_fiber, g_tls_key, g_tls_val) __CPROVER_ensures(g_sets == OLD(g_sets) + 1 && g_tls_fiber == fiber && g_tls_key == key && g_tls_val == v);
void* GetImpl(unsigned long i)
__CPROVER_requires(g_gets == 0) __CPROVER_assigns(g_gets, g_tls_fiber, g_tls_key)
/* thread-local pointers are per fiber: looked up in the map of the fiber that is running now */
__CPROVER_ensures(g_gets == 1 && g_tls_fiber == g_cur && g_tls_key == i && RET == g_tls_val)
{''' + c1 + '''}
void SetF(void* new_value, unsigned long i)
__CPROVER_requires(g_sets == 0) __CPROVER_assigns(g_sets, g_tls_fiber, g_tls_key, g_tls_val)
__CPROVER_ensures(g_sets == 1 && g_tls_fiber == g_cur && g_tls_key == i && g_tls_val == new_value)
{''' + c2 + '''}
void h1(void) { g_gets = 0; GetImpl(nondet_ulong()); VF_CANARY("end"); }
void h2(void) { g_sets = 0; void* v; SetF(v, nondet_ulong()); VF_CANARY("end"); }
'''
    out.append(Job('fiber/TLS.Get', props, src, 'h1', enforce='GetImpl', replace=['CurrentFiber', 'GetTLS'], funcs=[b1], expect=[r'postcondition'], meta={'fn': 'TLS.Get'}))
    out.append(Job('fiber/TLS.Set', props, src, 'h2', enforce='SetF', replace=['CurrentFiber', 'SetTLS'], funcs=[b2], expect=[r'postcondition'], meta={'fn': 'TLS.Set'}))
    return out


SCENARIO = {'RecursiveMutex': 'recursive', 'RecursiveTimedMutex': 'recursive_timed', 'SharedMutex.lock_shared': 'shared_mixed', 'SharedMutex': 'shared_excl',
            'TimedMutex': 'timed', 'SharedTimedMutex': 'shared_timed', 'Mutex': 'timed'}


def replay(ctx, res, failed, rec):
    """R2: the real lock types in the FIBER build, several fibers and seeds (stock seeded scheduler); a hang counts as reproduced"""
    from vf.replay import run_fiber_driver
    fn = res.job.meta.get('fn', '')
    sc = None
    for k in sorted(SCENARIO, key=len, reverse=True):
        if fn.startswith(k):
            sc = SCENARIO[k]
            break
    if sc is None:
        return None, 'no scheduled driver for this obligation'
    return run_fiber_driver(ctx, 'fiber_locks.cpp', [sc], timeout=60)
