"""C19 - yaclib_std::atomic computes exactly what std::atomic computes.

Every member function body of the FIBER re-implementation (fault/detail/fiber/atomic.hpp,
atomic_wait.hpp, atomic_flag.hpp) and of the fault-injecting wrapper (fault/detail/atomic.hpp,
atomic_flag.hpp) is extracted and proved against the std::atomic meaning of the operation,
written as a plain C expression (method A: function against a spec function, loop-free,
full-domain symbolic operands => complete).
"""
import os
import re
import subprocess

from vf.cxx2c import Rewriter
from vf.extract import ExtractionBreak, find_body, read_source
from vf.runner import Job

F_FIBER = 'include/yaclib/fault/detail/fiber/atomic.hpp'
F_WAIT = 'include/yaclib/fault/detail/fiber/atomic_wait.hpp'
F_FLAG = 'include/yaclib/fault/detail/fiber/atomic_flag.hpp'
F_WRAP = 'include/yaclib/fault/detail/atomic.hpp'
F_WFLAG = 'include/yaclib/fault/detail/atomic_flag.hpp'
F_INJECT = 'include/yaclib/fault/inject.hpp'

TRUSTED = ['std::atomic<T> itself (the THREAD backend wraps it; its operations are assumed to satisfy the std contract written in the recipe)',
           'InjectFault() does not modify the atomic object of the calling thread (single-thread sequence, as the property states)']
DROPPED = ['the memory_order arguments are ignored by the FIBER implementation and forwarded by the wrapper; not part of the C19 contract',
           'signed arithmetic is treated as two\'s-complement wrap (std::atomic semantics); the plain `+=` of the FIBER implementation is UB in C++ on signed overflow - an observation, not a violation',
           'fiber::AtomicBase::operator T() calls load() without an order and is never instantiated (the wrapper defines its own); not under contract']
ASSUMPTIONS = ['an operation *sequence* is the composition of single operations: each contract fixes return value and stored value as a function of the old stored value and the operands, so sequences follow by induction',
               'float/double: arithmetic results compared bit-for-bit against the same IEEE operation; compare_exchange uses the object representation (as std::atomic does)']

# ---- types -----------------------------------------------------------------------------------------
TYPES = {
    # name: (C type, unsigned type of the same width, kind, C++ spelling for the replay driver)
    'bool':   ('_Bool', 'unsigned char', 'bool', 'bool'),
    'int8':   ('int8_t', 'uint8_t', 'int', 'std::int8_t'),
    'uint8':  ('uint8_t', 'uint8_t', 'int', 'std::uint8_t'),
    'int16':  ('int16_t', 'uint16_t', 'int', 'std::int16_t'),
    'uint16': ('uint16_t', 'uint16_t', 'int', 'std::uint16_t'),
    'int32':  ('int32_t', 'uint32_t', 'int', 'std::int32_t'),
    'uint32': ('uint32_t', 'uint32_t', 'int', 'std::uint32_t'),
    'int64':  ('int64_t', 'uint64_t', 'int', 'std::int64_t'),
    'uint64': ('uint64_t', 'uint64_t', 'int', 'std::uint64_t'),
    'float':  ('float', 'uint32_t', 'float', 'float'),
    'double': ('double', 'uint64_t', 'float', 'double'),
    'ptr1':   ('U*', 'uintptr_t', 'ptr', 'P1*'),
    'ptr4':   ('U*', 'uintptr_t', 'ptr', 'P4*'),
    'ptr24':  ('U*', 'uintptr_t', 'ptr', 'P24*'),
}
QUICK_TYPES = ['bool', 'int8', 'uint32', 'int64', 'double', 'ptr24']

PRELUDE = r'''
#include <stdint.h>
#include <stddef.h>
#include <stdbool.h>
typedef struct { char b[USIZE]; } U;
typedef CTYPE T;
typedef UTYPE UT;
struct Atomic { T _value; };
enum { mo_relaxed, mo_consume, mo_acquire, mo_release, mo_acq_rel, mo_seq_cst };
#define STD_EXCHANGE(a, b) ({ __auto_type _o = (a); (a) = (b); _o; })
#if KIND_FLOAT
typedef union { T f; UT u; } bits_t;
#define BITS(x) (((bits_t){.f = (x)}).u)
/* IEEE addition / subtraction are uninterpreted binary functions: the same hardware operation std::atomic uses
   (bit-blasting two double adders to prove x+y == x+y did not finish in 120 s on any back end) */
T __CPROVER_uninterpreted_fadd(T a, T b);
T __CPROVER_uninterpreted_fsub(T a, T b);
#define ADD(a, b) __CPROVER_uninterpreted_fadd(a, b)
#define SUB(a, b) __CPROVER_uninterpreted_fsub(a, b)
#elif KIND_PTR
#define BITS(x) (x)
#define ADD(a, b) ((a) + (b))
#define SUB(a, b) ((a) - (b))
#else
#define BITS(x) ((UT)(x))
#define ADD(a, b) ((T)((UT)(a) + (UT)(b)))
#define SUB(a, b) ((T)((UT)(a) - (UT)(b)))
#endif
#define AND(a, b) ((T)((UT)(a) & (UT)(b)))
#define OR(a, b) ((T)((UT)(a) | (UT)(b)))
#define XOR(a, b) ((T)((UT)(a) ^ (UT)(b)))
/* std::memcmp over exactly one T: comparison of the object representations */
int vf_bad_memcmp(void);
#define VF_MEMCMP(a, b, n) ((n) == sizeof(T) ? (BITS(*(a)) != BITS(*(b))) : vf_bad_memcmp())
#define OLDV __CPROVER_old(self->_value)
#define RET __CPROVER_return_value
/* the fault-injection macro, text taken from inject.hpp on this run (checked by the recipe) */
void InjectFault(void) __CPROVER_assigns() __CPROVER_ensures(1);
_Bool ShouldFailAtomicWeak(void) __CPROVER_assigns() __CPROVER_ensures(1);
#define YACLIB_INJECT_FAULT(statement) InjectFault(); statement; InjectFault()
'''

FRESH = '__CPROVER_requires(__CPROVER_is_fresh(self, sizeof(*self)))'
FRESH_E = '__CPROVER_requires(__CPROVER_is_fresh(expected, sizeof(*expected)))'

# std::atomic meaning of every operation.  key -> (return type, extra params, contract clauses)
# DT = operand type for arithmetic: T for numeric atomics, ptrdiff_t for pointers
CAS_ENS = [
    # success: bits equal -> stored desired, expected untouched, returns true
    '__CPROVER_ensures(RET ==> (BITS(OLDV) == BITS(__CPROVER_old(*expected)) && BITS(self->_value) == BITS(desired) && BITS(*expected) == BITS(__CPROVER_old(*expected))))',
    # failure: nothing stored, expected receives the current value
    '__CPROVER_ensures(!RET ==> (BITS(self->_value) == BITS(OLDV) && BITS(*expected) == BITS(OLDV)))',
]
CAS_STRONG_ENS = CAS_ENS + [
    # strong never fails spuriously
    '__CPROVER_ensures(RET == (BITS(OLDV) == BITS(__CPROVER_old(*expected))))',
]


def fetch(spec):
    return ['__CPROVER_assigns(self->_value)', '__CPROVER_ensures(BITS(RET) == BITS(OLDV))',
            '__CPROVER_ensures(BITS(self->_value) == BITS(%s))' % spec]


def newval(spec):
    return ['__CPROVER_assigns(self->_value)', '__CPROVER_ensures(BITS(RET) == BITS(%s))' % spec,
            '__CPROVER_ensures(BITS(self->_value) == BITS(%s))' % spec]


SPEC = {
    'store': ('void', 'T desired, int order', ['__CPROVER_assigns(self->_value)', '__CPROVER_ensures(BITS(self->_value) == BITS(desired))']),
    'load': ('T', 'int order', ['__CPROVER_assigns()', '__CPROVER_ensures(BITS(RET) == BITS(OLDV) && BITS(self->_value) == BITS(OLDV))']),
    'assign': ('T', 'T desired', ['__CPROVER_assigns(self->_value)', '__CPROVER_ensures(BITS(RET) == BITS(desired) && BITS(self->_value) == BITS(desired))']),
    'conv': ('T', '', ['__CPROVER_assigns()', '__CPROVER_ensures(BITS(RET) == BITS(OLDV) && BITS(self->_value) == BITS(OLDV))']),
    'exchange': ('T', 'T desired, int order', ['__CPROVER_assigns(self->_value)', '__CPROVER_ensures(BITS(RET) == BITS(OLDV))', '__CPROVER_ensures(BITS(self->_value) == BITS(desired))']),
    'cas_weak4': ('_Bool', 'T* expected, T desired, int success, int failure', [FRESH_E, '__CPROVER_assigns(self->_value, *expected)'] + CAS_ENS),
    'cas_weak3': ('_Bool', 'T* expected, T desired, int order', [FRESH_E, '__CPROVER_assigns(self->_value, *expected)'] + CAS_ENS),
    'cas_strong4': ('_Bool', 'T* expected, T desired, int success, int failure', [FRESH_E, '__CPROVER_assigns(self->_value, *expected)'] + CAS_STRONG_ENS),
    'cas_strong3': ('_Bool', 'T* expected, T desired, int order', [FRESH_E, '__CPROVER_assigns(self->_value, *expected)'] + CAS_STRONG_ENS),
    'cas_helper': ('_Bool', 'T* expected, T desired', [FRESH_E, '__CPROVER_assigns(self->_value, *expected)'] + CAS_STRONG_ENS),
    'fetch_add': ('T', 'DT arg, int order', fetch('ADD(OLDV, arg)')),
    'fetch_sub': ('T', 'DT arg, int order', fetch('SUB(OLDV, arg)')),
    'fetch_and': ('T', 'T arg, int order', fetch('AND(OLDV, arg)')),
    'fetch_or': ('T', 'T arg, int order', fetch('OR(OLDV, arg)')),
    'fetch_xor': ('T', 'T arg, int order', fetch('XOR(OLDV, arg)')),
    'preinc': ('T', '', newval('ADD(OLDV, 1)')),
    'postinc': ('T', '', fetch('ADD(OLDV, 1)')),
    'predec': ('T', '', newval('SUB(OLDV, 1)')),
    'postdec': ('T', '', fetch('SUB(OLDV, 1)')),
    'add_assign': ('T', 'DT arg', newval('ADD(OLDV, arg)')),
    'sub_assign': ('T', 'DT arg', newval('SUB(OLDV, arg)')),
    'and_assign': ('T', 'T arg', newval('AND(OLDV, arg)')),
    'or_assign': ('T', 'T arg', newval('OR(OLDV, arg)')),
    'xor_assign': ('T', 'T arg', newval('XOR(OLDV, arg)')),
    # atomic_flag
    'clear': ('void', 'int order', ['__CPROVER_assigns(self->_value)', '__CPROVER_ensures(self->_value == 0)']),
    'test_and_set': ('_Bool', 'int order', ['__CPROVER_assigns(self->_value)', '__CPROVER_ensures(RET == OLDV && self->_value == 1)']),
    'test': ('_Bool', 'int order', ['__CPROVER_assigns()', '__CPROVER_ensures(RET == OLDV && self->_value == OLDV)']),
}

# where each operation lives: op -> (signature regex, number of cv overloads, index base among textual matches)
# (the regex matches every overload with that name inside the class scope; nth picks one)
BASE_OPS = {
    'store': (r'\bvoid\s+store\s*\(', [0, 1]),
    'load': (r'\bT\s+load\s*\(', [0, 1]),
    'exchange': (r'\bT\s+exchange\s*\(', [0, 1]),
    'cas_weak4': (r'\bbool\s+compare_exchange_weak\s*\(', [0, 1]),
    'cas_weak3': (r'\bbool\s+compare_exchange_weak\s*\(', [2, 3]),
    'cas_strong4': (r'\bbool\s+compare_exchange_strong\s*\(', [0, 1]),
    'cas_strong3': (r'\bbool\s+compare_exchange_strong\s*\(', [2, 3]),
}
FLOAT_OPS = {
    'fetch_add': (r'\bT\s+fetch_add\s*\(', [0, 1]),
    'fetch_sub': (r'\bT\s+fetch_sub\s*\(', [0, 1]),
    'add_assign': (r'\bT\s+operator\+=\s*\(', [0, 1]),
    'sub_assign': (r'\bT\s+operator-=\s*\(', [0, 1]),
}
INT_OPS = {
    'fetch_and': (r'\bT\s+fetch_and\s*\(', [0, 1]),
    'fetch_or': (r'\bT\s+fetch_or\s*\(', [0, 1]),
    'fetch_xor': (r'\bT\s+fetch_xor\s*\(', [0, 1]),
    'preinc': (r'\bT\s+operator\+\+\s*\(\s*\)', [0, 1]),
    'postinc': (r'\bT\s+operator\+\+\s*\(\s*int\s*\)', [0, 1]),
    'predec': (r'\bT\s+operator--\s*\(\s*\)', [0, 1]),
    'postdec': (r'\bT\s+operator--\s*\(\s*int\s*\)', [0, 1]),
    'and_assign': (r'\bT\s+operator&=\s*\(', [0, 1]),
    'or_assign': (r'\bT\s+operator\|=\s*\(', [0, 1]),
    'xor_assign': (r'\bT\s+operator\^=\s*\(', [0, 1]),
}
PTR_OPS = {
    'fetch_add': (r'\bU\*\s+fetch_add\s*\(', [0, 1]),
    'fetch_sub': (r'\bU\*\s+fetch_sub\s*\(', [0, 1]),
    'preinc': (r'\bU\*\s+operator\+\+\s*\(\s*\)', [0, 1]),
    'postinc': (r'\bU\*\s+operator\+\+\s*\(\s*int\s*\)', [0, 1]),
    'predec': (r'\bU\*\s+operator--\s*\(\s*\)', [0, 1]),
    'postdec': (r'\bU\*\s+operator--\s*\(\s*int\s*\)', [0, 1]),
    'add_assign': (r'\bU\*\s+operator\+=\s*\(', [0, 1]),
    'sub_assign': (r'\bU\*\s+operator-=\s*\(', [0, 1]),
}
FLAG_OPS = {
    'clear': (r'\bvoid\s+clear\s*\(', [0, 1]),
    'test_and_set': (r'\bbool\s+test_and_set\s*\(', [0, 1]),
    'test': (r'\bbool\s+test\s*\(', [0, 1]),
}

IMPL_NAME = {  # how the wrapper reaches the implementation -> name of the contract stub
    'operator=': 'assign', 'operator+=': 'add_assign', 'operator-=': 'sub_assign', 'operator&=': 'and_assign',
    'operator|=': 'or_assign', 'operator^=': 'xor_assign', 'compare_exchange_weak': 'cas_weak',
    'compare_exchange_strong': 'cas_strong',
}


def proto(fn, op, tkind):
    ret, params, clauses = SPEC[op]
    dt = 'ptrdiff_t' if tkind == 'ptr' else 'T'
    params = params.replace('DT', dt)
    ps = 'struct Atomic* self' + (', ' + params if params else '')
    return '%s %s(%s)\n%s\n%s' % (ret, fn, ps, FRESH, '\n'.join(clauses))


def call_args(op, tkind):
    ret, params, _ = SPEC[op]
    dt = 'ptrdiff_t' if tkind == 'ptr' else 'T'
    params = params.replace('DT', dt)
    decls, names = [], []
    for p in [x.strip() for x in params.split(',') if x.strip()]:
        ty, nm = p.rsplit(' ', 1)
        decls.append('%s in_%s;' % (ty, nm))
        names.append('in_' + nm)
    return decls, names


def fiber_rewriter(name):
    rw = Rewriter(name)
    rw.valrefs = {'expected'}
    return rw


def rewrite_fiber(name, body, op, kind='int'):
    pre = []
    if kind == 'float':
        # vocabulary rule for floating T only:  x += y  ->  x = ADD(x, y)   (ADD is the uninterpreted IEEE addition)
        pre = [(r'((?:this->)?_value)\s*\+=\s*(\w+)', r'\1 = ADD(\1, \2)', 0),
               (r'((?:this->)?_value)\s*-=\s*(\w+)', r'\1 = SUB(\1, \2)', 0)]
    rw = Rewriter(name, methods=['CompareExchangeHelper'], pre=pre)
    t = rw.rewrite(body)
    if op.startswith('cas'):
        # `expected` is a T& in C++, a T* here: dereference every use except when passed on by reference
        t = re.sub(r'\bexpected\b', '(*expected)', t)
        t = re.sub(r'CompareExchangeHelper\(self,\s*\(\*expected\)', 'CompareExchangeHelper(self, expected', t)
    return t


def rewrite_wrapper(name, body, op):
    pre = [
        (r'\+\+\s*static_cast<Impl&>\(\*this\)', 'Impl_preinc(self)', 0),
        (r'--\s*static_cast<Impl&>\(\*this\)', 'Impl_predec(self)', 0),
        (r'static_cast<Impl&>\(\*this\)\s*\+\+', 'Impl_postinc(self)', 0),
        (r'static_cast<Impl&>\(\*this\)\s*--', 'Impl_postdec(self)', 0),
    ]
    rw = Rewriter(name, pre=pre, methods=['load'])
    t = body

    def impl(m):
        nm = m.group(1).strip()
        nm = IMPL_NAME.get(nm, nm)
        return 'Impl_%s(self, ' % nm
    t = re.sub(r'\bImpl::(operator\s*[-+&|^]?=|\w+)\s*\(', impl, t)
    t = re.sub(r'\(self, \s*\)', '(self)', t)
    t = rw.rewrite(t)
    t = re.sub(r'\bload\(self\)', 'load(self, mo_seq_cst)', t)   # default argument of the wrapper's load()
    if op.startswith('cas'):
        t = re.sub(r'\bexpected\b', '(*expected)', t)
        t = re.sub(r'\(self,\s*\(\*expected\)', '(self, expected', t)
        # 3- and 4-argument forms of the implementation share one std contract
        t = re.sub(r'Impl_cas_(weak|strong)\(self, expected, desired, (\w+)\)', r'Impl_cas_\1(self, expected, desired, \2, \2)', t)
    return t


def check_inject_macro(repo):
    raw, text = read_source(repo, F_INJECT)
    m = re.search(r'#define\s+YACLIB_INJECT_FAULT\(statement\)\s*\\?\s*yaclib::InjectFault\(\);\s*\\?\s*statement;\s*\\?\s*yaclib::InjectFault\(\)', text)
    if not m:
        raise ExtractionBreak('%s: YACLIB_INJECT_FAULT no longer has the shape `InjectFault(); statement; InjectFault()`' % F_INJECT)


def impl_stubs(tkind, ops):
    """contract-only declarations `Impl_<op>` with the std meaning: stands for std::atomic (THREAD backend,
    trusted) and for the FIBER implementation (proved against the very same contract in the fiber jobs)."""
    out = []
    seen = set()
    for op in ops:
        nm = op
        if op.startswith('cas_weak'):
            nm, spec_op = 'cas_weak', 'cas_weak4'
        elif op.startswith('cas_strong'):
            nm, spec_op = 'cas_strong', 'cas_strong4'
        else:
            spec_op = op
        if nm in seen:
            continue
        seen.add(nm)
        out.append(proto('Impl_' + nm, spec_op, tkind) + ';\n')
    return ''.join(out)


def make_job(prop, layer, tname, op, cv, body, c_body, tkind, extra_decl='', replace=()):
    cty, uty, kind, cxx = TYPES[tname]
    usize = {'ptr1': 1, 'ptr4': 4, 'ptr24': 24}.get(tname, 1)
    fn = 'f_' + op
    decls, names = call_args(op, tkind)
    ret = SPEC[op][0]
    harness = 'void harness(void) {\n  struct Atomic* self;\n  %s\n  %s(%s);\n  __CPROVER_assert(0, "VF_CANARY end reachable");\n}\n' % (
        '\n  '.join(decls), fn, ', '.join(['self'] + names))
    src = (PRELUDE.replace('CTYPE', cty).replace('UTYPE', uty).replace('USIZE', str(usize))
           .replace('KIND_FLOAT', '1' if kind == 'float' else '0').replace('KIND_PTR', '1' if kind == 'ptr' else '0'))
    src += extra_decl
    src += '/* extracted from %s:%d-%d (%s) */\n' % (body.file, body.line0, body.line1, body.sig.replace('\n', ' '))
    src += proto(fn, op, tkind) + '\n{' + c_body + '}\n\n' + harness
    name = 'C19/%s/%s/%s.%s' % (layer, tname, op, 'v' if cv else 'p')
    replace = list(replace)
    for stub in ('InjectFault', 'ShouldFailAtomicWeak'):
        if re.search(r'\b%s\s*\(' % stub, c_body) or (stub == 'InjectFault' and 'YACLIB_INJECT_FAULT' in c_body):
            replace.append(stub)
    return Job(name, [prop], src, 'harness', enforce=fn, replace=replace, funcs=[body],
               meta={'layer': layer, 'type': tname, 'op': op, 'cv': cv, 'cxx_type': cxx},
               expect=[r'postcondition'], timeout=120, cbmc_flags=['--no-signed-overflow-check'])


def jobs(ctx):
    repo = ctx.repo
    check_inject_macro(repo)
    types = QUICK_TYPES if ctx.tier == 'quick' else list(TYPES)
    out = []
    for tname in types:
        cty, uty, kind, cxx = TYPES[tname]
        groups = []  # (ops table, fiber file, fiber scope, wrapper file, wrapper scope)
        groups.append((BASE_OPS, F_FIBER, r'class\s+AtomicBase\s*:', F_WRAP, r'class\s+AtomicBase\s*:'))
        if kind in ('int', 'float'):
            groups.append((FLOAT_OPS, F_FIBER, r'class\s+AtomicFloatingBase<T,\s*true>', F_WRAP, r'class\s+AtomicFloatingBase<Impl,\s*T,\s*true>'))
        if kind == 'int':
            groups.append((INT_OPS, F_FIBER, r'class\s+AtomicIntegralBase<T,\s*true>', F_WRAP, r'class\s+AtomicIntegralBase<Impl,\s*T,\s*true>'))
        if kind == 'ptr':
            groups.append((PTR_OPS, F_FIBER, r'class\s+Atomic<U\*>', F_WRAP, r'class\s+Atomic<Impl,\s*U\*>'))
        all_ops = [op for g in groups for op in g[0]] + ['assign', 'load']
        stubs = impl_stubs(kind, all_ops)
        # fiber implementation
        hb = find_body(repo, F_FIBER, r'\bbool\s+CompareExchangeHelper\s*\(', 'fiber::AtomicBase::CompareExchangeHelper', within=r'class\s+AtomicBase\s*:')
        out.append(make_job(ctx.prop, 'fiber', tname, 'cas_helper', 0, hb, rewrite_fiber('CompareExchangeHelper', hb.text, 'cas_helper'), kind))
        helper_decl = proto('CompareExchangeHelper', 'cas_helper', kind) + ';\n'
        for (ops, ffile, fscope, wfile, wscope) in groups:
            for op, (sig, nths) in ops.items():
                for cv, nth in enumerate(nths):
                    b = find_body(repo, ffile, sig, 'fiber::%s#%d' % (op, nth), within=fscope, nth=nth)
                    cb = rewrite_fiber(b.name, b.text, op, kind)
                    uses_helper = 'CompareExchangeHelper' in cb
                    out.append(make_job(ctx.prop, 'fiber', tname, op, cv, b, cb, kind,
                                        extra_decl=helper_decl if uses_helper else '',
                                        replace=['CompareExchangeHelper'] if uses_helper else ()))
                    w = find_body(repo, wfile, sig, 'wrapper::%s#%d' % (op, nth), within=wscope, nth=nth)
                    wb = rewrite_wrapper(w.name, w.text, op)
                    used = sorted(set(re.findall(r'\bImpl_\w+', wb)))
                    extra = stubs
                    if re.search(r'\bload\(self', wb):
                        extra += proto('load', 'load', kind) + ';\n'
                        used.append('load')
                    out.append(make_job(ctx.prop, 'wrapper', tname, op, cv, w, wb, kind, extra_decl=extra, replace=used))
        # operator= : fiber side lives in AtomicWait, wrapper side in AtomicBase
        for cv, nth in enumerate([1, 0]):
            b = find_body(repo, F_WAIT, r'\bT\s+operator=\s*\(', 'fiber::AtomicWait::operator=#%d' % nth, within=r'class\s+AtomicWait\b', nth=nth)
            out.append(make_job(ctx.prop, 'fiber', tname, 'assign', cv, b, rewrite_fiber(b.name, b.text, 'assign'), kind))
        for cv, nth in enumerate([0, 1]):
            w = find_body(repo, F_WRAP, r'\bT\s+operator=\s*\(', 'wrapper::operator=#%d' % nth, within=r'class\s+AtomicBase\s*:', nth=nth)
            wb = rewrite_wrapper(w.name, w.text, 'assign')
            out.append(make_job(ctx.prop, 'wrapper', tname, 'assign', cv, w, wb, kind, extra_decl=stubs, replace=sorted(set(re.findall(r'\bImpl_\w+', wb)))))
            w = find_body(repo, F_WRAP, r'\boperator\s+T\s*\(\s*\)', 'wrapper::operator T#%d' % nth, within=r'class\s+AtomicBase\s*:', nth=nth)
            wb = rewrite_wrapper(w.name, w.text, 'conv')
            out.append(make_job(ctx.prop, 'wrapper', tname, 'conv', cv, w, wb, kind, extra_decl=proto('load', 'load', kind) + ';\n', replace=['load']))
    # atomic_flag (bool only)
    stubs = ''.join(proto('Impl_' + op, op, 'bool') + ';\n' for op in FLAG_OPS)
    for op, (sig, nths) in FLAG_OPS.items():
        for cv, nth in enumerate([1, 0]):
            b = find_body(repo, F_FLAG, sig, 'fiber::AtomicFlag::%s#%d' % (op, nth), within=r'class\s+AtomicFlag\b', nth=nth)
            out.append(make_job(ctx.prop, 'fiber', 'bool', op, cv, b, rewrite_fiber(b.name, b.text, op), 'bool'))
            w = find_body(repo, F_WFLAG, sig, 'wrapper::AtomicFlag::%s#%d' % (op, nth), within=r'class\s+AtomicFlag\b', nth=nth)
            wb = rewrite_wrapper(w.name, w.text, op)
            out.append(make_job(ctx.prop, 'wrapper', 'bool', op, cv, w, wb, 'bool', extra_decl=stubs, replace=sorted(set(re.findall(r'\bImpl_\w+', wb)))))
    # fences: under FIBER they are empty functions; contract: no effect
    b = find_body(repo, 'include/yaclib_std/detail/atomic_fence.hpp', r'inline\s+void\s+atomic_thread_fence\s*\(', 'yaclib_std::atomic_thread_fence')
    b2 = find_body(repo, 'include/yaclib_std/detail/atomic_fence.hpp', r'inline\s+void\s+atomic_signal_fence\s*\(', 'yaclib_std::atomic_signal_fence')
    for bb, nm in ((b, 'thread_fence'), (b2, 'signal_fence')):
        src = ('int g_observable;\nvoid f_%s(int order)\n__CPROVER_assigns()\n__CPROVER_ensures(g_observable == __CPROVER_old(g_observable))\n{%s}\n'
               'void harness(void) { int o; f_%s(o); __CPROVER_assert(0, "VF_CANARY end reachable"); }\n') % (nm, Rewriter(nm).rewrite(bb.text), nm)
        out.append(Job('C19/fiber/fence/%s' % nm, [ctx.prop], src, 'harness', enforce='f_' + nm, funcs=[bb],
                       meta={'layer': 'fiber', 'type': 'fence', 'op': nm}, expect=[r'postcondition']))
    return out


# ---- replay on the real code ------------------------------------------------------------------------
def _bits(trace, names):
    vals = {}
    for lhs, data, fn, line in trace:
        for n in names:
            if lhs == n and n not in vals:
                vals[n] = data
    return vals


def replay(ctx, res, failed, rec):
    meta = res.job.meta
    if meta.get('type') == 'fence':
        return None, 'fences have no operands to replay'
    drv = os.path.join(os.path.dirname(os.path.dirname(os.path.abspath(__file__))), 'replay', 'atomic_diff.cpp')
    exe = os.path.join(ctx.workdir, 'atomic_diff')
    if not os.path.exists(exe):
        cmd = ['g++', '-std=c++20', '-O0', '-DYACLIB_FUTEX=0', '-I', os.path.join(ctx.repo, 'include'),
               '-I', os.path.join(ctx.repo, '_build/include'), drv, '-o', exe]
        p = subprocess.run(cmd, stdout=subprocess.PIPE, stderr=subprocess.STDOUT)
        if p.returncode != 0:
            return None, 'replay driver does not compile against the current tree:\n' + p.stdout.decode()[-2000:]
    # operands from the counterexample
    tr = []
    for pid, t in res.trace.items():
        tr = t
        break
    ops = {}
    for lhs, data, fn, line in tr:
        if lhs is None:
            continue
        if lhs == 'fresh0._value' and 'old' not in ops:
            ops['old'] = data
        if lhs == 'fresh1' and 'exp' not in ops:
            ops['exp'] = data
        if lhs in ('in_arg', 'in_desired'):
            ops['arg'] = data
    rec['counterexample_operands'] = ops
    spurious = '1' if any(l and l.startswith('return_value_ShouldFailAtomicWeak') and d not in ('0b0', 'FALSE') for l, d, f, n in tr) else '0'
    cmd = [exe, meta['layer'], meta['type'], meta['op'], str(ops.get('old', '0')), str(ops.get('arg', '0')), str(ops.get('exp', '0')), spurious]
    p = subprocess.run(cmd, stdout=subprocess.PIPE, stderr=subprocess.STDOUT, timeout=60)
    out = p.stdout.decode()
    text = '$ %s\n%s' % (' '.join(cmd), out)
    if p.returncode != 1 and meta.get('type') in ('float', 'double'):
        # IEEE + and - are uninterpreted functions in the proof (see DROPPED), so the verifier's operands for a floating obligation need not be a failing input of the
        # hardware operation: the replay goes on through a fixed table of IEEE corner operands (rounding, absorption, overflow, infinity, denormal) with the same operation
        import struct
        pk = (lambda x: '0x%x' % struct.unpack('<Q', struct.pack('<d', x))[0]) if meta['type'] == 'double' else (lambda x: '0x%x' % struct.unpack('<I', struct.pack('<f', x))[0])
        big = 1.7976931348623157e308 if meta['type'] == 'double' else 3.4028234663852886e38
        tiny = 5e-324 if meta['type'] == 'double' else 1e-45
        for o_, a_ in ((0.1, 0.2), (1.0, 1e16), (1e16, 1.0), (big, big), (-big, big), (1.0, float('inf')), (tiny, 1.0), (1.0, -1e16), (0.3, -0.1)):
            cmd2 = cmd[:4] + [pk(o_), pk(a_)] + cmd[6:]
            p2 = subprocess.run(cmd2, stdout=subprocess.PIPE, stderr=subprocess.STDOUT, timeout=60)
            text += '$ %s\n%s' % (' '.join(cmd2), p2.stdout.decode())
            if p2.returncode == 1:
                rec['replay_operands'] = {'old': repr(o_), 'arg': repr(a_), 'source': 'IEEE corner table (the verifier operands did not fail on the hardware operation)'}
                return True, text
    return (p.returncode == 1), text


def replay_record(ctx, rec):
    class R:
        pass
    return False, json_dumps(rec.get('replay'))


def json_dumps(x):
    import json
    return json.dumps(x, indent=1)
