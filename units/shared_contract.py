"""MakeSharedContract / MakeSharedContractOn / MakeSharedPromise (include/yaclib/async/shared_contract.hpp) and the reference constants of shared_core.hpp:  C06, C03.

The fulfilment walk of a shared core drops exactly THREE promise-side references (unit base_core, job SetResultImpl<Shared>); every SharedFuture handle stands for one more.  So a
shared core must be born with 3 references when no future is handed out and with 3 + 1 when one is, and the handles made here must ADOPT those references (NoRefTag) instead of
adding their own - the local IntrusivePtr must be emptied by Release() so that its destructor gives nothing back.  The two constants are extracted from the text on every run.
"""
import re

from vf.cxx2c import Rewriter
from vf.extract import ExtractionBreak, find_body, read_source
from vf.runner import Job

F = 'include/yaclib/async/shared_contract.hpp'
F_SC = 'include/yaclib/algo/detail/shared_core.hpp'
TRUSTED = ['MakeShared (unit ownership: counter starts at the number given), IntrusivePtr Get / Release / destructor (unit intrusive_ptr), SetResultImpl<Shared> drops exactly three promise references (unit base_core)']
DROPPED = ['the local `auto core = MakeShared<...>(n)` is an IntrusivePtr: its destructor is written out at the end of the body (gives one reference back iff still non-null)',
           'the returned pair `{std::move(future), std::move(promise)}` is translated to "both handles are returned" (moves of handles transfer, unit intrusive_ptr)']
ASSUMPTIONS = []
PROMISE_REFS = 3     # proved: unit base_core, "C03: exactly three promise references dropped on every path"


def _const(repo, name):
    text = read_source(repo, F_SC)[1]
    ms = re.findall(r'inline\s+constexpr\s+std::size_t\s+%s\s*=\s*(\d+)\s*;' % name, text)
    if len(ms) != 1:
        raise ExtractionBreak('shared_core.hpp: constant %s matched %d times' % (name, len(ms)))
    return int(ms[0])


def jobs(ctx):
    repo = ctx.repo
    props = ['C06', 'C03']
    out = []
    try:
        k4, k3 = _const(repo, 'kSharedRefWithFuture'), _const(repo, 'kSharedRefNoFuture')
    except ExtractionBreak as e:
        ctx.breaks.append(str(e))
        return out
    COMMON = '#include "vf.h"\n#define kSharedRefWithFuture %dUL   /* extracted from shared_core.hpp */\n#define kSharedRefNoFuture %dUL   /* extracted from shared_core.hpp */\n#define PROMISE_REFS %dUL\n' % (k4, k3, PROMISE_REFS) + r'''
typedef struct Core { void* _executor; } Core;
typedef struct Ptr { Core* p; } Ptr;
Core g_obj;
unsigned g_news, g_increfs, g_decrefs, g_exec_increfs, g_exec_resets; unsigned long g_born; Core* g_future_core; Core* g_promise_core; unsigned char g_future_made, g_promise_made, g_future_on; void* g_exec;
Ptr MAKE_SHARED_CORE(unsigned long n) __CPROVER_requires(g_news == 0) __CPROVER_assigns(g_news, g_born) __CPROVER_ensures(g_news == 1 && g_born == n && RET.p == &g_obj);
static inline Core* PTR_GET(Ptr* c) { return c->p; }
static inline Core* PTR_RELEASE(Ptr* c) { Core* r = c->p; c->p = 0; return r; }
/* handle{SharedCorePtr{NoRefTag{}, p}}: adopts one (promise: its three) of the references the core was born with - no IncRef */
void MAKE_FUTURE(int on, Core* p) __CPROVER_requires(p != 0 && !g_future_made) __CPROVER_assigns(g_future_made, g_future_core, g_future_on) __CPROVER_ensures(g_future_made == 1 && g_future_core == p && g_future_on == on);
void MAKE_PROMISE(Core* p) __CPROVER_requires(p != 0 && !g_promise_made) __CPROVER_assigns(g_promise_made, g_promise_core) __CPROVER_ensures(g_promise_made == 1 && g_promise_core == p);
void DECREF(Core* p) __CPROVER_assigns(g_decrefs) __CPROVER_ensures(g_decrefs == OLD(g_decrefs) + 1);
void EXEC_INCREF(void* e) __CPROVER_requires(e == g_exec) __CPROVER_assigns(g_exec_increfs) __CPROVER_ensures(g_exec_increfs == OLD(g_exec_increfs) + 1);
void EXEC_RESET_NOREF(Core* c, void* e) __CPROVER_requires(c == &g_obj && c->_executor == 0) __CPROVER_assigns(g_exec_resets, c->_executor) __CPROVER_ensures(g_exec_resets == OLD(g_exec_resets) + 1 && c->_executor == e);
static void reset(void) { g_news = g_increfs = g_decrefs = g_exec_increfs = g_exec_resets = 0; g_future_made = g_promise_made = 0; g_obj._executor = 0; }
'''
    pre = [(r'auto\s+core\s*=\s*MakeShared<detail::SharedCore<V,\s*E>>\(\s*(?:detail::)?(\w+)\s*\)\s*;', r'Ptr core = MAKE_SHARED_CORE(\1);', 1),
           (r'(SharedFuture|SharedFutureOn)<V,\s*E>\s+future\{\s*detail::SharedCorePtr<V,\s*E>\{\s*NoRefTag\{\}\s*,\s*core\.(Get|Release)\(\)\s*\}\s*\}\s*;',
            lambda m: 'MAKE_FUTURE(%d, PTR_%s(&core));' % (1 if m.group(1).endswith('On') else 0, m.group(2).upper()), 0),
           (r'SharedPromise<V,\s*E>\s+promise\{\s*detail::SharedCorePtr<V,\s*E>\{\s*NoRefTag\{\}\s*,\s*core\.(Get|Release)\(\)\s*\}\s*\}\s*;', lambda m: 'MAKE_PROMISE(PTR_%s(&core));' % m.group(1).upper(), 1),
           (r'e\.IncRef\(\)', 'EXEC_INCREF(e)', 0), (r'core->_executor\.Reset\(\s*NoRefTag\{\}\s*,\s*&e\s*\)', 'EXEC_RESET_NOREF(core.p, e)', 0),
           # the local IntrusivePtr `core` dies at every return
           (r'return\s+\{\s*std::move\(future\)\s*,\s*std::move\(promise\)\s*\}\s*;', '{ if (core.p) DECREF(core.p); return; }', 0),
           (r'return\s+promise\s*;', '{ if (core.p) DECREF(core.p); return; }', 0)]
    table = (('MakeSharedContract', r'SharedContract<V,\s*E>\s+MakeSharedContract\s*\(\s*\)', 0, 1, 0),
             ('MakeSharedContractOn', r'SharedContract<V,\s*E>\s+MakeSharedContractOn\s*\(\s*IExecutor\s*&\s*e\s*\)', 1, 1, 1),
             ('MakeSharedPromise', r'SharedPromise<V,\s*E>\s+MakeSharedPromise\s*\(\s*\)', 0, 0, 0))
    for nm, sig, has_e, fut, on in table:
        try:
            b = find_body(repo, F, sig, nm)
            c = Rewriter(nm, pre=pre, nomembers=['_executor']).rewrite(b.text)
            if c.count('return;') < 1:
                raise ExtractionBreak('%s: the return statement is not of a translated form' % nm)
            post = ['g_news == 1 && g_decrefs == 0 && g_increfs == 0',
                    '/* C06, C03: born with exactly the references that will be given back: three by the fulfilment walk of the promise side%s */\n   g_born == PROMISE_REFS + %d' % (', one by the SharedFuture handed out' if fut else '', fut),
                    'g_promise_made && g_promise_core == &g_obj']
            post.append('g_future_made && g_future_core == &g_obj && g_future_on == %d' % on if fut else '!g_future_made')
            post.append('g_exec_increfs == 1 && g_exec_resets == 1 && g_obj._executor == e' if has_e else 'g_exec_increfs == 0 && g_exec_resets == 0')
            src = COMMON + 'void F(void* e)\n__CPROVER_requires(g_news == 0 && g_decrefs == 0 && g_increfs == 0 && !g_future_made && !g_promise_made && g_exec_increfs == 0 && g_exec_resets == 0 && g_obj._executor == 0 && e == g_exec && e != 0)\n' \
                '__CPROVER_assigns(g_news, g_born, g_decrefs, g_future_made, g_future_core, g_future_on, g_promise_made, g_promise_core, g_exec_increfs, g_exec_resets, g_obj._executor)\n' + \
                ''.join('__CPROVER_ensures(%s)\n' % p for p in post) + '{' + c + '}\nvoid harness(void) { reset(); void* e; g_exec = e; F(e); VF_CANARY("end"); }\n'
            out.append(Job('shared_contract/' + nm, props, src, 'harness', enforce='F', replace=['MAKE_SHARED_CORE', 'MAKE_FUTURE', 'MAKE_PROMISE', 'DECREF', 'EXEC_INCREF', 'EXEC_RESET_NOREF'], funcs=[b],
                           expect=[r'postcondition'], meta={'fn': nm}))
        except ExtractionBreak as e:
            ctx.breaks.append(str(e))
    # the constants themselves against the proved number of promise references
    src = COMMON + 'void harness(void) {\n  __CPROVER_assert(kSharedRefNoFuture == PROMISE_REFS, "C06,C03: a shared core without a future is born with exactly the three references its fulfilment walk gives back");\n' \
        '  __CPROVER_assert(kSharedRefWithFuture == kSharedRefNoFuture + 1, "C06,C03: a shared core handed out with one SharedFuture is born with exactly one reference more");\n  VF_CANARY("end");\n}\n'
    out.append(Job('shared_contract/constants', props, src, 'harness', kind='lemma', funcs=[], expect=[r'three references'], meta={'fn': 'constants'}))
    return out


def replay(ctx, res, failed, rec):
    return None, 'no sequential witness driver for this obligation'
