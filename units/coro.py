"""Coroutine awaiters and promise type (coro/detail/*.hpp):  C13 (+ C05 On/AwaitOn, C12 co_await Task, C03 frame destruction).

Resume-token contracts: every co_await creates exactly one resumption token for the suspended coroutine - either await_suspend declines
to suspend (returns false / the awaiter is ready) or the completer hands the coroutine to an executor / resumes it through Here / Next -
and only after the awaited object(s) completed.  Compiler-generated coroutine code is axiomatised (see TRUSTED).
"""
import re

from vf.cxx2c import Rewriter, attach_loop_contracts
from vf.extract import ExtractionBreak, find_body
from vf.runner import Job

D = 'include/yaclib/coro/detail/'
F_AA = D + 'await_awaiter.hpp'
F_AO = D + 'await_on_awaiter.hpp'
F_ON = D + 'on_awaiter.hpp'
F_PT = D + 'promise_type.hpp'
F_Y = 'include/yaclib/coro/yield.hpp'
F_CE = 'include/yaclib/coro/current_executor.hpp'
F_SE = 'include/yaclib/algo/detail/shared_event.hpp'

TRUSTED = ['compiler axioms: the coroutine is resumed immediately iff await_ready is true or await_suspend returns false, suspended otherwise; handle.resume() resumes exactly the suspended coroutine; '
           'destroy() destroys the frame and its live locals once; final_suspend is reached exactly once after co_return / an escaping exception',
           'BaseCore::SetCallbackImpl / Empty (unit base_core), AtomicCounter::SubEqual (unit event: exactly one decrement reaches zero), IExecutor::Submit (C05)']
DROPPED = ['coroutine_handle<Promise> is the promise object itself (handle.promise() is the identity); Handle{core}.SetCallback(x) is SetCallback(core, x)']
ASSUMPTIONS = ['the awaited objects complete at most once each (C01 / C06)']
# real-code drivers that exercise what this unit proves (thorough tier: sanity run on the tree under check)
DRIVERS = [('coro_await.cpp', ['all', 2000], 'coro')]

COMMON = r'''
#include "vf.h"
typedef struct Core Core; typedef Core BaseCore; typedef Core InlineCore;
struct Core { Core* next; void* _executor; Core* _core; Core* job; void* _executor_ref; };
typedef void* Transfer;
#define NOOP ((Transfer)0)
#define Noop_T(st) NOOP
struct Ghost {
  unsigned tokens;              /* resumption tokens created for the suspended coroutine */
  Core* token_for; void* token_exec; unsigned char token_kind;     /* 1 Submit, 2 Here / Next (inline on the completer), 3 declined to suspend */
  unsigned char zero;           /* this decrement is the one that reaches zero (all awaited objects completed) */
  unsigned subs; unsigned long sub_n; unsigned char next_set_before_sub;
  unsigned attach_calls; Core* attach_on; Core* attach_cb; unsigned char attach_ok;
} g;
static void ghost_reset(void) { g.tokens = 0; g.subs = 0; g.attach_calls = 0; g.zero = nondet_bool(); g.attach_ok = nondet_bool(); g.token_for = 0; g.token_exec = 0; g.token_kind = 0; g.next_set_before_sub = 0; }
Core* g_next_field_owner;
int SubEqual(Core* self, unsigned long n) __CPROVER_requires(g.subs == 0) __CPROVER_assigns(g.subs, g.sub_n, g.next_set_before_sub)
  __CPROVER_ensures(g.subs == 1 && g.sub_n == n && RET == g.zero && g.zero <= 1 && g.next_set_before_sub == (self->next != 0));
void Submit(void* exec, Core* c) __CPROVER_requires(exec != 0 && c != 0 && g.tokens == 0) __CPROVER_assigns(g.tokens, g.token_for, g.token_exec, g.token_kind)
  __CPROVER_ensures(g.tokens == 1 && g.token_for == c && g.token_exec == exec && g.token_kind == 1);
Core* Here(Core* c, Core* caller) __CPROVER_requires(c != 0 && g.tokens == 0) __CPROVER_assigns(g.tokens, g.token_for, g.token_kind) __CPROVER_ensures(g.tokens == 1 && g.token_for == c && g.token_kind == 2 && RET == 0);
Transfer Step_T(int st, Core* caller, Core* c) __CPROVER_requires(c != 0 && g.tokens == 0) __CPROVER_assigns(g.tokens, g.token_for, g.token_kind) __CPROVER_ensures(g.tokens == 1 && g.token_for == c && g.token_kind == 2 && RET == (Transfer)c);
int SetCallback(Core* on, Core* cb) __CPROVER_requires(on != 0 && g.attach_calls == 0) __CPROVER_assigns(g.attach_calls, g.attach_on, g.attach_cb)
  __CPROVER_ensures(g.attach_calls == 1 && g.attach_on == on && g.attach_cb == cb && RET == g.attach_ok && g.attach_ok <= 1);
'''


def jobs(ctx):
    repo = ctx.repo
    props = ['C13', 'C05', 'C03', 'C16']
    out = []

    def job(name, b, src, enforce, replace, canaries=1, expect=(r'postcondition',), entry='harness'):
        out.append(Job('coro/' + name, props, src, entry, enforce=enforce, replace=replace, funcs=b if isinstance(b, list) else [b], canaries=canaries,
                       expect=list(expect), meta={'fn': name}))

    # ---- AwaitEvent<Sticky>::Impl<ST> ---------------------------------------------------------------------------------------------
    b = find_body(repo, F_AA, r'auto\s+Impl\s*\(\s*InlineCore\s*&\s*caller\s*\)\s*noexcept', 'AwaitEvent::Impl', within=r'class\s+AwaitEvent\s*:')
    pre = [(r'this->SubEqual\(', 'SubEqual(self, ', 0), (r'static_cast<(?:BaseCore|InlineCore)\s*\*>\(next\)', '(self->next)', 0), (r'Step<true>\(', 'Step_T(1, ', 0)]
    c = Rewriter('AwaitEvent::Impl', pre=pre, refs=['caller'], tcalls=['Noop'], omethods=['Submit', 'Here'], nomembers=[]).rewrite(b.text)
    c = c.replace('Submit(curr->_executor, *curr)', 'Submit(curr->_executor, curr)').replace('Step_T(1, caller, *curr)', 'Step_T(1, caller, curr)')
    for sticky in (0, 1):
        for st in (0, 1):
            src = COMMON + '#define Sticky %d\n#define SymmetricTransfer %d\n' % (sticky, st) + '''Transfer Impl(Core* self, Core* caller)
__CPROVER_requires(__CPROVER_is_fresh(self, sizeof(*self)) && __CPROVER_is_fresh(self->next, sizeof(Core)) && self->next->_executor != 0 && g.tokens == 0 && g.subs == 0)
__CPROVER_assigns(g.subs, g.sub_n, g.next_set_before_sub, g.tokens, g.token_for, g.token_exec, g.token_kind)
/* one awaited object completed: the suspended coroutine gets its resumption token exactly when this decrement is the last one (everything awaited has happened) - never earlier, never twice;
   Sticky: it is submitted to the coroutine's own executor, otherwise it continues inline on the completer */
__CPROVER_ensures(g.subs == 1 && g.sub_n == 1 && g.tokens == (g.zero ? 1 : 0))
__CPROVER_ensures(g.zero ==> (g.token_for == self->next && (Sticky ? (g.token_kind == 1 && g.token_exec == self->next->_executor) : g.token_kind == 2)))
{''' + c + '''}
void harness(void) { ghost_reset(); Core* s; Core* c; Impl(s, c); if (g.zero) VF_CANARY("last completion resumes"); else VF_CANARY("others still pending"); }
'''
            job('AwaitEvent.Impl.sticky%d.st%d' % (sticky, st), b, src, 'Impl', ['SubEqual', 'Submit', 'Here', 'Step_T'], canaries=2)
    # ---- MultiAwaitAwaiter ----------------------------------------------------------------------------------------------------------------
    W = r'class\s+MultiAwaitAwaiter\s+final'
    b_r = find_body(repo, F_AA, r'bool\s+await_ready\s*\(\s*\)\s*const\s*noexcept', 'MultiAwaitAwaiter::await_ready', within=W)
    b_s = find_body(repo, F_AA, r'bool\s+await_suspend\s*\(', 'MultiAwaitAwaiter::await_suspend', within=W)
    cr = Rewriter('MultiAwaitAwaiter::await_ready', pre=[(r'this->Get\(\s*std::memory_order_(\w+)\s*\)', r'CounterGet(self, mo_\1)', 0)]).rewrite(b_r.text)
    # the coroutine's promise: `handle.promise()` directly or through a reference alias named promise (the C parameter `promise` is the pointer to it)
    HP = [(r'(?:auto|Promise)\s*&\s*promise\s*=\s*handle\.promise\(\)\s*;', '', 0), (r'&\s*handle\.promise\(\)', 'promise', 0), (r'(?<![\w&])&\s*promise\b', 'promise', 0)]
    cs = Rewriter('MultiAwaitAwaiter::await_suspend', pre=HP + [(r'this->SubEqual\(', 'SubEqual(self, ', 0)]).rewrite(b_s.text)
    src = COMMON + '''unsigned long g_cnt; int g_get_mo;
unsigned long CounterGet(Core* self, int mo) __CPROVER_assigns(g_get_mo) __CPROVER_ensures(RET == g_cnt && g_get_mo == mo);
int await_ready(Core* self) __CPROVER_assigns(g_get_mo)
/* Await(fs...) is ready only when every awaited future has completed (only the awaiter's own unit is left), observed with acquire (C04) */
__CPROVER_ensures(RET == (g_cnt == 1) && MO_ACQ(g_get_mo))
{''' + cr + '''}
int await_suspend(Core* self, Core* promise)
__CPROVER_requires(__CPROVER_is_fresh(self, sizeof(*self)) && promise != 0 && g.subs == 0 && self->next == 0)
__CPROVER_assigns(self->next, g.subs, g.sub_n, g.next_set_before_sub)
/* the coroutine is recorded as the continuation BEFORE the awaiter gives up its own unit; it stays suspended iff somebody else will bring the count to zero - otherwise it resumes at once:
   exactly one of the two creates the resumption token */
__CPROVER_ensures(self->next == promise && g.subs == 1 && g.sub_n == 1 && g.next_set_before_sub && RET == !g.zero)
{''' + cs + '''}
void h1(void) { ghost_reset(); Core* s; await_ready(s); VF_CANARY("end"); }
void h2(void) { ghost_reset(); Core* s; Core* p; int r = await_suspend(s, p); if (r) VF_CANARY("suspended"); else VF_CANARY("resumes at once"); }
'''
    job('MultiAwaitAwaiter.await_ready', b_r, src, 'await_ready', ['CounterGet'], entry='h1')
    job('MultiAwaitAwaiter.await_suspend', b_s, src, 'await_suspend', ['SubEqual'], canaries=2, entry='h2')
    # ---- AwaitAwaiter<Handle, Sticky> ---------------------------------------------------------------------------------------------------------
    b0 = find_body(repo, F_AA, r'bool\s+await_suspend\s*\(', 'AwaitAwaiter<false>::await_suspend', within=r'struct\s+\[\[nodiscard\]\]\s+AwaitAwaiter<Handle,\s*false>')
    b1 = find_body(repo, F_AA, r'bool\s+await_suspend\s*\(', 'AwaitAwaiter<true>::await_suspend', within=r'struct\s+\[\[nodiscard\]\]\s+AwaitAwaiter<Handle,\s*true>')
    b1c = find_body(repo, F_AA, r'void\s+Call\s*\(\s*\)\s*noexcept\s+final', 'AwaitAwaiter<true>::Call', within=r'struct\s+\[\[nodiscard\]\]\s+AwaitAwaiter<Handle,\s*true>')
    c0 = Rewriter('AwaitAwaiter<false>', pre=[(r'Handle\{\s*\*this->_core\s*\}\.SetCallback\(\s*handle\.promise\(\)\s*\)', 'SetCallback(self->_core, promise)', 0)]).rewrite(b0.text)
    c1 = Rewriter('AwaitAwaiter<true>', pre=[(r'auto\s+caller_handle\s*=\s*Handle\{\s*\*this->_core\s*\}\s*;', 'Core* caller_handle = self->_core;', 0), (r'this->_core\s*=\s*&handle\.promise\(\)\s*;', 'self->_core = promise;', 0),
                                             (r'caller_handle\.SetCallback\(\s*\*this\s*\)', 'SetCallback(caller_handle, self)', 0)]).rewrite(b1.text)
    c1c = Rewriter('AwaitAwaiter<true>::Call', pre=[(r'this->_core->_executor->Submit\(\s*\*this->_core\s*\)', 'Submit(self->_core->_executor, self->_core)', 0)]).rewrite(b1c.text)
    src = COMMON + '''int susp0(Core* self, Core* promise)
__CPROVER_requires(__CPROVER_is_fresh(self, sizeof(*self)) && self->_core != 0 && promise != 0 && g.attach_calls == 0)
__CPROVER_assigns(g.attach_calls, g.attach_on, g.attach_cb)
/* co_await Await(f): the coroutine itself is attached as the future's continuation; it stays suspended iff that succeeded, else (already complete) it resumes at once */
__CPROVER_ensures(g.attach_calls == 1 && g.attach_on == OLD(self->_core) && g.attach_cb == promise && RET == g.attach_ok)
{''' + c0 + '''}
int susp1(Core* self, Core* promise)
__CPROVER_requires(__CPROVER_is_fresh(self, sizeof(*self)) && self->_core != 0 && promise != 0 && g.attach_calls == 0)
__CPROVER_assigns(self->_core, g.attach_calls, g.attach_on, g.attach_cb)
/* Sticky: the awaiter (not the coroutine) is attached, after it recorded the coroutine it has to resubmit */
__CPROVER_ensures(g.attach_calls == 1 && g.attach_on == OLD(self->_core) && g.attach_cb == self && self->_core == promise && RET == g.attach_ok)
{''' + c1 + '''}
void call1(Core* self)
__CPROVER_requires(__CPROVER_is_fresh(self, sizeof(*self)) && __CPROVER_is_fresh(self->_core, sizeof(Core)) && self->_core->_executor != 0 && g.tokens == 0)
__CPROVER_assigns(g.tokens, g.token_for, g.token_exec, g.token_kind)
/* ... and on completion resubmits that coroutine exactly once to the coroutine's own executor (AwaitSticky resumes where the coroutine lives) */
__CPROVER_ensures(g.tokens == 1 && g.token_for == self->_core && g.token_exec == self->_core->_executor && g.token_kind == 1)
{''' + c1c + '''}
void h0(void) { ghost_reset(); Core* s; Core* p; susp0(s, p); VF_CANARY("end"); }
void h1(void) { ghost_reset(); Core* s; Core* p; susp1(s, p); VF_CANARY("end"); }
void h2(void) { ghost_reset(); Core* s; call1(s); VF_CANARY("end"); }
'''
    job('AwaitAwaiter.inline.await_suspend', b0, src, 'susp0', ['SetCallback'], entry='h0')
    job('AwaitAwaiter.sticky.await_suspend', b1, src, 'susp1', ['SetCallback'], entry='h1')
    job('AwaitAwaiter.sticky.Call', b1c, src, 'call1', ['Submit'], entry='h2')
    # ---- AwaitSingleAwaiter<Shared> --------------------------------------------------------------------------------------------------------------
    for shared, tag in ((0, 'false'), (1, 'true')):
        Wn = r'class\s+\[\[nodiscard\]\]\s+AwaitSingleAwaiter<%s,\s*V,\s*E>\s+final' % tag
        br = find_body(repo, F_AA, r'bool\s+await_ready\s*\(\s*\)\s*const\s*noexcept', 'AwaitSingleAwaiter<%s>::await_ready' % tag, within=Wn)
        bs = find_body(repo, F_AA, r'bool\s+await_suspend\s*\(', 'AwaitSingleAwaiter<%s>::await_suspend' % tag, within=Wn)
        bu = find_body(repo, F_AA, r'auto\s+await_resume\s*\(\s*\)', 'AwaitSingleAwaiter<%s>::await_resume' % tag, within=Wn)
        cr = Rewriter('await_ready', pre=[(r'_result->Empty\(\)', 'Empty(self->_result)', 0)], nomembers=['_result']).rewrite(br.text)
        cs = Rewriter('await_suspend', pre=[(r'_result->SetCallback\(\s*handle\.promise\(\)\s*\)', 'SetCallback(self->_result, promise)', 0)], nomembers=['_result']).rewrite(bs.text)
        cu = Rewriter('await_resume', pre=[(r'std::move\(\s*_result->Get\(\)\s*\)\.Ok\(\)', 'OK(self->_result, 1)', 0), (r'std::as_const\(\s*_result->Get\(\)\s*\)\.Ok\(\)', 'OK(self->_result, 0)', 0)], nomembers=['_result']).rewrite(bu.text)
        src = COMMON.replace('struct Core { Core* next;', 'struct Core { Core* _result; Core* next;') + '''unsigned char g_empty, g_stored; unsigned g_reads; unsigned char g_read_moved; unsigned long g_val;
int Empty(Core* c) __CPROVER_assigns() __CPROVER_ensures(RET == g_empty && g_empty <= 1 && (!g_empty ==> g_stored));     /* C01 / C06: Ready implies the Result is stored */
/* Result::Ok(): the value, or the awaited failure rethrown */
unsigned long OK(Core* c, int move) __CPROVER_requires(g_stored) __CPROVER_assigns(g_reads, g_read_moved) __CPROVER_ensures(g_reads == OLD(g_reads) + 1 && g_read_moved == move && RET == g_val);
int await_ready(Core* self) __CPROVER_requires(__CPROVER_is_fresh(self, sizeof(*self))) __CPROVER_assigns()
__CPROVER_ensures(RET == !g_empty && (RET ==> g_stored))          /* no suspension only if the result is already there */
{''' + cr + '''}
int await_suspend(Core* self, Core* promise) __CPROVER_requires(__CPROVER_is_fresh(self, sizeof(*self)) && self->_result != 0 && g.attach_calls == 0) __CPROVER_assigns(g.attach_calls, g.attach_on, g.attach_cb)
__CPROVER_ensures(g.attach_calls == 1 && g.attach_on == self->_result && g.attach_cb == promise && RET == g.attach_ok)
{''' + cs + '''}
unsigned long await_resume(Core* self) __CPROVER_requires(__CPROVER_is_fresh(self, sizeof(*self)) && g_stored && g_reads == 0) __CPROVER_assigns(g_reads, g_read_moved)
/* the coroutine receives the awaited value (or has the awaited failure rethrown by Ok()); a unique future is moved from, a SharedFuture is only read (C06: never moved by an awaiter) */
__CPROVER_ensures(g_reads == 1 && RET == g_val && g_read_moved == %d)
{''' % (0 if shared else 1) + cu + '''}
void h1(void) { ghost_reset(); Core* s; await_ready(s); VF_CANARY("end"); }
void h2(void) { ghost_reset(); Core* s; Core* p; await_suspend(s, p); VF_CANARY("end"); }
void h3(void) { ghost_reset(); Core* s; g_reads = 0; await_resume(s); VF_CANARY("end"); }
'''
        job('AwaitSingleAwaiter.shared%d.await_ready' % shared, br, src, 'await_ready', ['Empty'], entry='h1')
        job('AwaitSingleAwaiter.shared%d.await_suspend' % shared, bs, src, 'await_suspend', ['SetCallback'], entry='h2')
        job('AwaitSingleAwaiter.shared%d.await_resume' % shared, bu, src, 'await_resume', ['OK'], entry='h3')
    # ---- On / AwaitOn --------------------------------------------------------------------------------------------------------------------------------
    b = find_body(repo, F_ON, r'void\s+await_suspend\s*\(', 'OnAwaiter::await_suspend', within=r'class\s+\[\[nodiscard\]\]\s+OnAwaiter\s+final')
    c = Rewriter('OnAwaiter::await_suspend', pre=[(r'auto\s*&\s*promise\s*=\s*handle\.promise\(\)\s*;', '', 0), (r'promise\._executor\s*=\s*&_executor\s*;', 'promise->_executor = self->_executor_ref;', 0),
                                                  (r'_executor\.Submit\(\s*promise\s*\)', 'Submit(self->_executor_ref, promise)', 0)], nomembers=['_executor']).rewrite(b.text)
    src = COMMON + '''void await_suspend(Core* self, Core* promise)
__CPROVER_requires(__CPROVER_is_fresh(self, sizeof(*self)) && __CPROVER_is_fresh(promise, sizeof(*promise)) && self->_executor_ref != 0 && g.tokens == 0)
__CPROVER_assigns(promise->_executor, g.tokens, g.token_for, g.token_exec, g.token_kind)
/* co_await On(e): the coroutine's executor becomes e and it is resubmitted exactly once, to e (C05: executes inside e and nowhere else) */
__CPROVER_ensures(promise->_executor == self->_executor_ref && g.tokens == 1 && g.token_for == promise && g.token_exec == self->_executor_ref && g.token_kind == 1)
{''' + c + '''}
void harness(void) { ghost_reset(); Core* s; Core* p; await_suspend(s, p); VF_CANARY("end"); }
'''
    job('OnAwaiter.await_suspend', b, src, 'await_suspend', ['Submit'])
    b = find_body(repo, F_AO, r'auto\s+Impl\s*\(\s*InlineCore\s*&[^)]*\)\s*noexcept', 'AwaitOnEvent::Impl', within=r'class\s+AwaitOnEvent\s*:')
    c = Rewriter('AwaitOnEvent::Impl', pre=[(r'this->SubEqual\(', 'SubEqual(self, ', 0), (r'job->_executor->Submit\(\s*\*job\s*\)', 'Submit(self->job->_executor, self->job)', 0), (r'YACLIB_ASSERT\(job\s*!=\s*nullptr\)', 'REPO_ASSERT(self->job != 0)', 0)],
                 tcalls=['Noop']).rewrite(b.text)
    for single in (0, 1):
        src = COMMON + '#define Single %d\n#define SymmetricTransfer 0\n' % single + '''Transfer Impl(Core* self, Core* caller)
__CPROVER_requires(__CPROVER_is_fresh(self, sizeof(*self)) && __CPROVER_is_fresh(self->job, sizeof(Core)) && self->job->_executor != 0 && g.tokens == 0 && g.subs == 0)
__CPROVER_assigns(g.subs, g.sub_n, g.next_set_before_sub, g.tokens, g.token_for, g.token_exec, g.token_kind)
/* AwaitOn: when the (last) awaited object completes the coroutine is submitted exactly once to the executor recorded in it (the one AwaitOn named) */
__CPROVER_ensures(g.tokens == ((Single || g.zero) ? 1 : 0) && (g.tokens ==> (g.token_for == self->job && g.token_exec == self->job->_executor && g.token_kind == 1)) && RET == NOOP)
{''' + c + '''}
void harness(void) { ghost_reset(); Core* s; Core* c; Impl(s, c); if (g.tokens) VF_CANARY("resubmitted"); else VF_CANARY("others pending"); }
'''
        job('AwaitOnEvent.Impl.single%d' % single, b, src, 'Impl', ['SubEqual', 'Submit'], canaries=1 if single else 2)
    b = find_body(repo, F_AO, r'void\s+await_suspend\s*\(', 'AwaitOnAwaiter::await_suspend', within=r'struct\s+\[\[nodiscard\]\]\s+AwaitOnAwaiter\s+final')
    c = Rewriter('AwaitOnAwaiter::await_suspend', pre=[(r'auto\s*&\s*core\s*=\s*handle\.promise\(\)\s*;', 'Core* core = promise;', 0), (r'core\._executor\s*=\s*&_executor\s*;', 'core->_executor = self->_executor_ref;', 0),
                                                       (r'(?<![\w.>])job->_executor\s*=\s*&_executor\s*;', 'self->job->_executor = self->_executor_ref;', 0),
                                                       (r'Handle\s+caller_handle\s*\{\s*\*job\s*\}\s*;', 'Core* caller_handle = self->job;', 0), (r'\bjob\s*=\s*&core\s*;', 'self->job = core;', 0),
                                                       (r'caller_handle\.SetCallback\(\s*\*this\s*\)', 'SetCallback(caller_handle, self)', 0), (r'_executor\.Submit\(\s*core\s*\)', 'Submit(self->_executor_ref, core)', 0)], nomembers=['_executor']).rewrite(b.text)
    src = COMMON + '''void await_suspend(Core* self, Core* promise)
__CPROVER_requires(__CPROVER_is_fresh(self, sizeof(*self)) && __CPROVER_is_fresh(promise, sizeof(*promise)) && __CPROVER_is_fresh(self->job, sizeof(Core)) && self->_executor_ref != 0 && g.tokens == 0 && g.attach_calls == 0)
__CPROVER_assigns(promise->_executor, self->job, g.attach_calls, g.attach_on, g.attach_cb, g.tokens, g.token_for, g.token_exec, g.token_kind)
/* co_await AwaitOn(e, f): the coroutine's executor becomes e; the awaiter is attached to f after it recorded the coroutine; if f was already complete the coroutine is submitted to e right now -
   in both cases exactly one Submit to e will resume it */
__CPROVER_ensures(promise->_executor == self->_executor_ref && self->job == promise && g.attach_calls == 1 && g.attach_on == OLD(self->job) && g.attach_cb == self)
__CPROVER_ensures(g.attach_ok ? g.tokens == 0 : (g.tokens == 1 && g.token_for == promise && g.token_exec == self->_executor_ref))
{''' + c + '''}
void harness(void) { ghost_reset(); Core* s; Core* p; await_suspend(s, p); if (g.tokens) VF_CANARY("already complete"); else VF_CANARY("attached"); }
'''
    job('AwaitOnAwaiter.await_suspend', b, src, 'await_suspend', ['SetCallback', 'Submit'], canaries=2)
    b = find_body(repo, F_AO, r'void\s+await_suspend\s*\(', 'MultiAwaitOnAwaiter::await_suspend', within=r'class\s+\[\[nodiscard\]\]\s+MultiAwaitOnAwaiter\s+final')
    c = Rewriter('MultiAwaitOnAwaiter::await_suspend', pre=[(r'auto\s*&\s*core\s*=\s*handle\.promise\(\)\s*;', 'Core* core = promise;', 0), (r'core\._executor\s*=\s*&_executor\s*;', 'core->_executor = self->_executor_ref;', 0),
                                                            (r'this->job\s*=\s*&core\s*;', 'self->job = core;', 0), (r'this->SubEqual\(', 'SubEqual(self, ', 0), (r'_executor\.Submit\(\s*core\s*\)', 'Submit(self->_executor_ref, core)', 0)], nomembers=['_executor']).rewrite(b.text)
    src = COMMON.replace('g.next_set_before_sub == (self->next != 0)', 'g.next_set_before_sub == (self->job != 0)') + '''void await_suspend(Core* self, Core* promise)
__CPROVER_requires(__CPROVER_is_fresh(self, sizeof(*self)) && __CPROVER_is_fresh(promise, sizeof(*promise)) && self->job == 0 && self->_executor_ref != 0 && g.tokens == 0 && g.subs == 0)
__CPROVER_assigns(promise->_executor, self->job, g.subs, g.sub_n, g.next_set_before_sub, g.tokens, g.token_for, g.token_exec, g.token_kind)
/* AwaitOn(e, fs...): the coroutine is recorded before the awaiter gives up its own unit; if that was the last unit it is submitted to e now, otherwise the last completer submits it (AwaitOnEvent::Impl) */
__CPROVER_ensures(promise->_executor == self->_executor_ref && self->job == promise && g.subs == 1 && g.next_set_before_sub && g.tokens == (g.zero ? 1 : 0))
__CPROVER_ensures(g.zero ==> (g.token_for == promise && g.token_exec == self->_executor_ref))
{''' + c + '''}
void harness(void) { ghost_reset(); Core* s; Core* p; await_suspend(s, p); if (g.zero) VF_CANARY("all complete already"); else VF_CANARY("waits for the last"); }
'''
    job('MultiAwaitOnAwaiter.await_suspend', b, src, 'await_suspend', ['SubEqual', 'Submit'], canaries=2)
    # ---- co_await Task: TransferAwaiter / TransferSingleAwaiter ----------------------------------------------------------------------------------------
    TR = COMMON.replace('struct Core { Core* next;', 'struct Core { Core* _result; Core* _caller_core; Core* next;') + '''unsigned g_store_cbs, g_mtc, g_starts, g_reads; Core* g_sc_on; Core* g_sc_cb; Core* g_head; Core* g_start_head; Core* g_start_caller; unsigned long g_val; unsigned char g_read_moved;
void StoreCallback(Core* on, Core* cb) __CPROVER_requires(on != 0 && g_store_cbs == 0 && g_starts == 0) __CPROVER_assigns(g_store_cbs, g_sc_on, g_sc_cb) __CPROVER_ensures(g_store_cbs == 1 && g_sc_on == on && g_sc_cb == cb);
Core* MoveToCaller(Core* last) __CPROVER_requires(last != 0 && g_mtc == 0) __CPROVER_assigns(g_mtc) __CPROVER_ensures(g_mtc == 1 && RET == g_head && RET != 0);
/* starting the head: V_Here / V_Next of the head with caller == its continuation (every head type starts: ReadyCore, PromiseCore, Core<Run>, PromiseType), or Loop(prev, head) which calls head->Here(*prev) */
Transfer NextV(Core* head, Core* caller) __CPROVER_requires(head != 0 && g_store_cbs == 1 && g_starts == 0) __CPROVER_assigns(g_starts, g_start_head, g_start_caller) __CPROVER_ensures(g_starts == 1 && g_start_head == head && g_start_caller == caller);
Transfer LoopR(Core* prev, Core* head) __CPROVER_requires(head != 0 && g_store_cbs == 1 && g_starts == 0) __CPROVER_assigns(g_starts, g_start_head, g_start_caller) __CPROVER_ensures(g_starts == 1 && g_start_head == head && g_start_caller == prev && RET == 0);
unsigned long OK(Core* c, int move) __CPROVER_assigns(g_reads, g_read_moved) __CPROVER_ensures(g_reads == OLD(g_reads) + 1 && g_read_moved == move && RET == g_val);
static void tr_reset(void) { g_store_cbs = g_mtc = g_starts = g_reads = 0; }
'''
    tpre = [(r'_caller\.StoreCallback\(\s*handle\.promise\(\)\s*\)', 'StoreCallback(self->_caller_core, promise)', 0), (r'MoveToCaller\(\s*&_caller\.core\s*\)', 'MoveToCaller(self->_caller_core)', 0),
            (r'_result->StoreCallback\(\s*handle\.promise\(\)\s*\)', 'StoreCallback(self->_result, promise)', 0), (r'MoveToCaller\(\s*_result\.Get\(\)\s*\)', 'MoveToCaller(self->_result)', 0),
            (r'next->Next\(\s*handle\.promise\(\)\s*\)', 'NextV(next, promise)', 0), (r'Loop\(\s*&handle\.promise\(\)\s*,\s*next\s*\)', 'LoopR(promise, next)', 0),
            (r'std::move\(\s*_result->Get\(\)\s*\)\.Ok\(\)', 'OK(self->_result, 1)', 0)]
    for cls, fld in (('TransferAwaiter', '_caller_core'), ('TransferSingleAwaiter', '_result')):
        Wn = r'struct\s+\[\[nodiscard\]\]\s+%s\s+final' % cls
        b = find_body(repo, F_AA, r'auto\s+await_suspend\s*\(', cls + '::await_suspend', within=Wn)
        for st in (0, 1):
            c = Rewriter(cls + '::await_suspend', pre=tpre, nomembers=['_caller', '_result']).rewrite(b.text)
            src = TR + '#define YACLIB_SYMMETRIC_TRANSFER %d\n' % st + '''Transfer await_suspend(Core* self, Core* promise)
__CPROVER_requires(__CPROVER_is_fresh(self, sizeof(*self)) && self->FLD != 0 && promise != 0 && g_store_cbs == 0 && g_mtc == 0 && g_starts == 0)
__CPROVER_assigns(g_store_cbs, g_sc_on, g_sc_cb, g_mtc, g_starts, g_start_head, g_start_caller)
/* co_await task: the coroutine is stored as the continuation of the Task's last step FIRST, then the head of the lazy chain (and only it) is started exactly once, with the coroutine as its caller;
   the coroutine is resumed by the chain's completion (PromiseType::Here), i.e. exactly once and only after the Task finished (C13 / C12) */
__CPROVER_ensures(g_store_cbs == 1 && g_sc_on == self->FLD && g_sc_cb == promise && g_mtc == 1 && g_starts == 1 && g_start_head == g_head && g_start_caller == promise)
{'''.replace('FLD', fld) + c + '''}
void harness(void) { tr_reset(); Core* s; Core* p; await_suspend(s, p); VF_CANARY("end"); }
'''
            job('%s.await_suspend.st%d' % (cls, st), b, src, 'await_suspend', ['StoreCallback', 'MoveToCaller', 'NextV', 'LoopR'])
    b = find_body(repo, F_AA, r'auto\s+await_resume\s*\(\s*\)', 'TransferSingleAwaiter::await_resume', within=r'struct\s+\[\[nodiscard\]\]\s+TransferSingleAwaiter\s+final')
    c = Rewriter('TransferSingleAwaiter::await_resume', pre=tpre, nomembers=['_result']).rewrite(b.text)
    src = TR + '''unsigned long await_resume(Core* self) __CPROVER_requires(__CPROVER_is_fresh(self, sizeof(*self)) && g_reads == 0) __CPROVER_assigns(g_reads, g_read_moved)
/* the coroutine receives the Task's value, or has its failure rethrown by Ok() */
__CPROVER_ensures(g_reads == 1 && g_read_moved == 1 && RET == g_val)
{''' + c + '''}
void harness(void) { tr_reset(); Core* s; await_resume(s); VF_CANARY("end"); }
'''
    job('TransferSingleAwaiter.await_resume', b, src, 'await_resume', ['OK'])
    # ---- Yield / CurrentExecutor ---------------------------------------------------------------------------------------------------------------------------
    b = find_body(repo, F_Y, r'void\s+await_suspend\s*\(', 'Yield::await_suspend', within=r'class\s+\[\[nodiscard\]\]\s+Yield\s+final')
    ypre = [(r'auto\s*&\s*promise\s*=\s*handle\.promise\(\)\s*;', '', 0), (r'promise\._executor->Submit\(\s*promise\s*\)', 'Submit(promise->_executor, promise)', 0), (r'promise\._executor\b', 'promise->_executor', 0)]
    c = Rewriter('Yield::await_suspend', pre=ypre).rewrite(b.text)
    src = COMMON + '''void await_suspend(Core* self, Core* promise)
__CPROVER_requires(__CPROVER_is_fresh(promise, sizeof(*promise)) && promise->_executor != 0 && g.tokens == 0)
__CPROVER_assigns(g.tokens, g.token_for, g.token_exec, g.token_kind)
/* co_await kYield: the coroutine is resubmitted exactly once to its own current executor */
__CPROVER_ensures(g.tokens == 1 && g.token_for == promise && g.token_exec == promise->_executor && g.token_kind == 1)
{''' + c + '''}
void harness(void) { ghost_reset(); Core* s; Core* p; await_suspend(s, p); VF_CANARY("end"); }
'''
    job('Yield.await_suspend', b, src, 'await_suspend', ['Submit'])
    Wc = r'class\s+\[\[nodiscard\]\]\s+CurrentAwaiter\s+final'
    b = find_body(repo, F_CE, r'auto\s+await_suspend\s*\(', 'CurrentAwaiter::await_suspend', within=Wc)
    b_r = find_body(repo, F_CE, r'IExecutor\s*&\s*await_resume\s*\(\s*\)\s*const\s*noexcept', 'CurrentAwaiter::await_resume', within=Wc)
    cpre = [(r'auto\s*&\s*promise\s*=\s*handle\.promise\(\)\s*;', '', 0), (r'_executor\s*=\s*promise\._executor\.Get\(\)\s*;', 'self->_executor = promise->_executor;', 0),
            (r'_executor->Submit\(\s*promise\s*\)\s*;', '{ Submit(self->_executor, promise); return 1; }', 0), (r'return\s+\*_executor\s*;', 'return self->_executor;', 0)]
    for y in (0, 1):
        c = Rewriter('CurrentAwaiter::await_suspend', pre=cpre).rewrite(b.text)
        src = COMMON + '#define Yield %d\n' % y + '''int await_suspend(Core* self, Core* promise)
__CPROVER_requires(__CPROVER_is_fresh(self, sizeof(*self)) && __CPROVER_is_fresh(promise, sizeof(*promise)) && promise->_executor != 0 && g.tokens == 0)
__CPROVER_assigns(self->_executor, g.tokens, g.token_for, g.token_exec, g.token_kind)
/* CurrentExecutor(): never suspends (await_suspend returns false) and reports the coroutine's executor; Yield(): additionally resubmits the coroutine exactly once to that executor
   (a void await_suspend suspends: modelled as return 1) */
__CPROVER_ensures(self->_executor == promise->_executor && (Yield ? (RET == 1 && g.tokens == 1 && g.token_for == promise && g.token_exec == promise->_executor) : (RET == 0 && g.tokens == 0)))
{''' + c + '''}
void* await_resume(Core* self) __CPROVER_requires(__CPROVER_is_fresh(self, sizeof(*self))) __CPROVER_assigns() __CPROVER_ensures(RET == self->_executor)
{''' + Rewriter('CurrentAwaiter::await_resume', pre=cpre).rewrite(b_r.text) + '''}
void harness(void) { ghost_reset(); Core* s; Core* p; await_suspend(s, p); VF_CANARY("end"); }
void h2(void) { Core* s; await_resume(s); VF_CANARY("end"); }
'''
        job('CurrentAwaiter.yield%d.await_suspend' % y, b, src, 'await_suspend', ['Submit'])
    job('CurrentAwaiter.await_resume', b_r, src, 'await_resume', [], entry='h2')
    # ---- SetCallbacksDynamic: registration + accounting of the awaiter's counter ----------------------------------------------------------------------------------
    b = find_body(repo, F_SE, r'void\s+SetCallbacksDynamic\s*\(', 'SetCallbacksDynamic')
    spre = [(r'YACLIB_ASSERT\(it->Valid\(\)\)\s*;', '', 0), (r'std::is_same_v<decltype\(it->GetHandle\(\)\),\s*UniqueHandle>', 'CFG_UNIQUE', 1),
            (r'static_cast<std::size_t>\(\s*it->GetHandle\(\)\.SetCallback\(\s*event\s*\)\s*\)', 'ATTACH(it, 0, 0)', 1),
            (r'static_cast<std::size_t>\(\s*it->GetHandle\(\)\.SetCallback\(\s*event\.callbacks\[i\]\s*\)\s*\)', 'ATTACH(it, 1, i)', 1),
            (r'event\.count\.fetch_sub\(', 'COUNT_SUB(', 1), (r'std::size_t', 'size_t', 0)]
    c = Rewriter('SetCallbacksDynamic', pre=spre).rewrite(b.text)
    inv = '__CPROVER_assigns(i, it, wait_count, g_att, g_ok)\n__CPROVER_loop_invariant(i <= count && it == i && g_att == i && wait_count == g_ok && g_ok <= i)'
    c = attach_loop_contracts('SetCallbacksDynamic', c, [inv])
    for uq in (0, 1):
        src = '#include "vf.h"\n#define CFG_UNIQUE %d\n' % uq + '''size_t g_att, g_ok, g_cnt; unsigned g_subs; int g_sub_mo;
/* attaching to future k: unique futures get the event itself, shared ones their own helper callback k (intrusive list: one `next` per attachment); true <=> attached, i.e. that future will signal later */
size_t ATTACH(size_t idx, int helper, size_t k) __CPROVER_requires(idx == g_att && helper == !CFG_UNIQUE && (helper ==> k == idx)) __CPROVER_assigns(g_att, g_ok) __CPROVER_ensures(g_att == OLD(g_att) + 1 && RET <= 1 && g_ok == OLD(g_ok) + RET);
void COUNT_SUB(size_t n, int mo) __CPROVER_requires(g_subs == 0 && n < g_cnt) __CPROVER_assigns(g_subs, g_cnt, g_sub_mo) __CPROVER_ensures(g_subs == 1 && g_cnt == OLD(g_cnt) - n && g_sub_mo == mo);
void SetCallbacksDynamic(void* event, size_t it, size_t count)
__CPROVER_requires(g_att == 0 && g_ok == 0 && it == 0 && g_subs == 0 && count < (1UL << 62) && g_cnt == count + 1)          /* the awaiter was built with count + 1 units */
__CPROVER_assigns(g_att, g_ok, g_cnt, g_subs, g_sub_mo)
/* every listed future is asked exactly once, in order; afterwards the counter holds one unit per future that will still signal plus the awaiter's own unit - so "reaches zero" <=> all of them completed
   and the coroutine suspended (or declined to): the premise of the resume-token contracts above, for any count */
__CPROVER_ensures(g_att == count && g_subs == 1 && g_cnt == g_ok + 1)
{''' + c + '''}
void harness(void) { g_att = g_ok = 0; g_subs = 0; size_t n; void* e; SetCallbacksDynamic(e, 0, n); VF_CANARY("end"); }
'''
        out.append(Job('coro/SetCallbacksDynamic.unique%d' % uq, props, src, 'harness', enforce='SetCallbacksDynamic', replace=['ATTACH', 'COUNT_SUB'], loop_contracts=True, funcs=[b],
                       expect=[r'postcondition', r'invariant after step|loop_invariant_step'], meta={'fn': 'SetCallbacksDynamic'}))
    # ---- SetCallbacksStatic: the per-handle registration lambdas (the fold expression that applies them to the pack is pinned textually) ---------------------------------------
    b = find_body(repo, F_SE, r'void\s+SetCallbacksStatic\s*\(', 'SetCallbacksStatic')
    from vf.cxx2c import _ws
    for lit in ('return (... + static_cast<std::size_t>(setter(handles)));', 'event.count.fetch_sub(sizeof...(handles) - wait_count, std::memory_order_relaxed);'):
        if len(re.findall(_ws(lit), b.text)) < 1:
            raise ExtractionBreak('SetCallbacksStatic: pinned text is gone or changed: `%s`' % lit)
    m_un = re.search(r'auto\s+setter\s*=\s*\[&\]\s*\(auto\s+handle\)\s*\{(.*?)\}\s*;', b.text, re.S)
    m_sh = re.search(r'auto\s+setter\s*=\s*\[&,\s*callback_count\s*=\s*std::size_t\{\}\]\s*\(auto\s+handle\)\s*mutable\s*\{(.*?)\}\s*;\s*return', b.text, re.S)
    if not m_un or not m_sh:
        raise ExtractionBreak('SetCallbacksStatic: registration lambdas not found')
    lpre = [(r'std::is_same_v<decltype\(handle\),\s*UniqueHandle>', 'IS_UNIQUE', 0), (r'handle\.SetCallback\(\s*event\.callbacks\[\s*([^\]]+?)\s*\]\s*\)', r'SetCallbackL(handle, HELPER(\1))', 0),
            (r'handle\.SetCallback\(\s*event\s*\)', 'SetCallbackL(handle, EVENT_CALL)', 0)]
    for nm, body, uniq in (('plain', m_un.group(1), 1), ('shared_event.unique_handle', m_sh.group(1), 1), ('shared_event.shared_handle', m_sh.group(1), 0)):
        c = Rewriter('SetCallbacksStatic.lambda.' + nm, pre=lpre).rewrite(body)
        src = '#include "vf.h"\n#define IS_UNIQUE %d\n' % uniq + '''#define EVENT_CALL (-1L)
#define HELPER(k) ((long)(k))
unsigned g_calls; long g_cb; unsigned char g_ok;
int SetCallbackL(int handle, long cb) __CPROVER_assigns(g_calls, g_cb) __CPROVER_ensures(g_calls == OLD(g_calls) + 1 && g_cb == cb && RET == g_ok && g_ok <= 1);
size_t callback_count;
int lam(int handle)
__CPROVER_requires(g_calls == 0 && callback_count < (1UL << 40))
__CPROVER_assigns(g_calls, g_cb, callback_count)
/* C13 (several coroutines on one SharedFuture): a unique future receives the awaiter's own callback; every SharedFuture of the pack receives ITS OWN helper node, numbered in order - a shared core links its
   waiters intrusively through the node, so one node in two lists would cut other waiters out of a list or splice them into the wrong one; the lambda reports whether the future will still signal */
__CPROVER_ensures(g_calls == 1 && RET == g_ok && (IS_UNIQUE ? (g_cb == EVENT_CALL && callback_count == OLD(callback_count)) : (g_cb == (long)OLD(callback_count) && callback_count == OLD(callback_count) + 1)))
{''' + c + '''}
void harness(void) { g_calls = 0; lam(0); VF_CANARY("end"); }
'''
        out.append(Job('coro/SetCallbacksStatic.lambda.' + nm, props, src, 'harness', enforce='lam', replace=['SetCallbackL'], funcs=[b], expect=[r'postcondition'], meta={'fn': 'SetCallbacksStatic lambda'}))
    # ---- PromiseType ------------------------------------------------------------------------------------------------------------------------------------
    WP = r'class\s+PromiseType\s+final'
    PT = COMMON + '''unsigned g_resumes, g_stores, g_set_results, g_loops, g_destroys; unsigned char g_store_state; unsigned long g_store_tag; Core* g_resumed; Transfer g_sr_ret; void* g_exc_tag;
enum { RS_Value = 0, RS_Exception = 1, RS_Error = 2 };
#define TAG_STOP 0xDEADUL
void RESUME(Core* h) __CPROVER_requires(h != 0) __CPROVER_assigns(g_resumes, g_resumed) __CPROVER_ensures(g_resumes == OLD(g_resumes) + 1 && g_resumed == h);
Transfer RESUME_T(Transfer h) __CPROVER_assigns(g_resumes) __CPROVER_ensures(g_resumes == OLD(g_resumes) + 1 && RET == 0);
Core* Curr(Core* self) __CPROVER_assigns() __CPROVER_ensures(RET == self);
void Store(Core* self, unsigned char st, unsigned long tag) __CPROVER_requires(g_stores == 0 && g_set_results == 0) __CPROVER_assigns(g_stores, g_store_state, g_store_tag) __CPROVER_ensures(g_stores == 1 && g_store_state == st && g_store_tag == tag);
Transfer SetResult(Core* self) __CPROVER_requires(g_stores == 1 && g_set_results == 0) __CPROVER_assigns(g_set_results) __CPROVER_ensures(g_set_results == 1 && RET == g_sr_ret);
void Loop(Core* prev, Transfer curr) __CPROVER_requires(g_loops == 0) __CPROVER_assigns(g_loops) __CPROVER_ensures(g_loops == 1);
static void pt_reset(void) { g_resumes = g_stores = g_set_results = g_loops = g_destroys = 0; }
'''
    ppre = [(r'this->template\s+SetResult<(?:true|false)>\(\)\.resume\(\)', 'RESUME_T(SetResult(self))', 0), (r'this->template\s+SetResult<(?:true|false)>\(\)', 'SetResult(self)', 0),
            (r'promise\.template\s+SetResult<(?:true|false)>\(\)\.resume\(\)', 'RESUME_T(SetResult(promise))', 0), (r'promise\.template\s+SetResult<(?:true|false)>\(\)', 'SetResult(promise)', 0),
            (r'this->Store\(\s*StopTag\{\}\s*\)', 'Store(self, RS_Error, TAG_STOP)', 0), (r'this->Store\(\s*std::current_exception\(\)\s*\)', 'Store(self, RS_Exception, (unsigned long)g_exc_tag)', 0),
            (r'this->Store\(\s*std::forward<Value>\(value\)\s*\)', 'Store(self, RS_Value, value)', 0), (r'this->Store\(\s*std::in_place\s*\)', 'Store(self, RS_Value, 0)', 0),
            (r'auto\s+next\s*=\s*Curr\(\)\s*;', 'Core* next = Curr(self);', 0), (r'next\.resume\(\)', 'RESUME(next)', 0)]
    b_call = find_body(repo, F_PT, r'void\s+Call\s*\(\s*\)\s*noexcept\s+final', 'PromiseType::Call', within=WP)
    c = Rewriter('PromiseType::Call', pre=ppre).rewrite(b_call.text)
    src = PT + '''void Call(Core* self)
__CPROVER_requires(self != 0 && g_resumes == 0)
__CPROVER_assigns(g_resumes, g_resumed)
/* the coroutine as a job: Call resumes exactly this coroutine, once */
__CPROVER_ensures(g_resumes == 1 && g_resumed == self)
{''' + c + '''}
void harness(void) { pt_reset(); Core* s; __CPROVER_assume(s != 0); Call(s); VF_CANARY("end"); }
'''
    job('PromiseType.Call', b_call, src, 'Call', ['Curr', 'RESUME'])
    b_drop = find_body(repo, F_PT, r'void\s+Drop\s*\(\s*\)\s*noexcept\s+final', 'PromiseType::Drop', within=WP)
    for st in (0, 1):
        c = Rewriter('PromiseType::Drop', pre=ppre).rewrite(b_drop.text)
        src = PT + '#define YACLIB_SYMMETRIC_TRANSFER %d\n' % st + '''void Drop(Core* self)
__CPROVER_requires(self != 0 && g_stores == 0 && g_set_results == 0 && g_loops == 0 && g_resumes == 0)
__CPROVER_assigns(g_stores, g_store_state, g_store_tag, g_set_results, g_loops, g_resumes)
/* the executor the coroutine was handed to refuses it: the coroutine is never resumed; it is completed with StopError and published (its continuation runs; the frame is destroyed by the deleter when the last reference goes) */
__CPROVER_ensures(g_stores == 1 && g_store_state == RS_Error && g_store_tag == TAG_STOP && g_set_results == 1 && (YACLIB_SYMMETRIC_TRANSFER ? g_resumes == 1 : g_loops == 1))
{''' + c + '''}
void harness(void) { pt_reset(); Core* s; __CPROVER_assume(s != 0); Drop(s); VF_CANARY("end"); }
'''
        job('PromiseType.Drop.st%d' % st, b_drop, src, 'Drop', ['Store', 'SetResult', 'Loop', 'RESUME_T'])
    b_ue = find_body(repo, F_PT, r'void\s+unhandled_exception\s*\(\s*\)\s*noexcept', 'PromiseType::unhandled_exception', within=WP)
    b_rv = find_body(repo, F_PT, r'void\s+return_value\s*\(\s*Value\s*&&\s*value\s*\)', 'PromiseType::return_value', within=WP)
    b_ru = find_body(repo, F_PT, r'void\s+return_value\s*\(\s*Unit\s*\)\s*noexcept', 'PromiseType::return_value(Unit)', within=WP)
    src = PT + '''void unhandled_exception(Core* self) __CPROVER_requires(g_stores == 0 && g_set_results == 0) __CPROVER_assigns(g_stores, g_store_state, g_store_tag)
/* an exception escaping the coroutine body becomes the coroutine's own Result (Exception state, that exception) */
__CPROVER_ensures(g_stores == 1 && g_store_state == RS_Exception && g_store_tag == (unsigned long)g_exc_tag)
{%s}
void return_value(Core* self, unsigned long value) __CPROVER_requires(g_stores == 0 && g_set_results == 0) __CPROVER_assigns(g_stores, g_store_state, g_store_tag)
/* co_return v becomes the coroutine's own Result */
__CPROVER_ensures(g_stores == 1 && g_store_state == RS_Value && g_store_tag == value)
{%s}
void return_unit(Core* self) __CPROVER_requires(g_stores == 0 && g_set_results == 0) __CPROVER_assigns(g_stores, g_store_state, g_store_tag)
__CPROVER_ensures(g_stores == 1 && g_store_state == RS_Value)
{%s}
void h1(void) { pt_reset(); Core* s; unhandled_exception(s); VF_CANARY("end"); }
void h2(void) { pt_reset(); Core* s; return_value(s, nondet_ulong()); VF_CANARY("end"); }
void h3(void) { pt_reset(); Core* s; return_unit(s); VF_CANARY("end"); }
''' % (Rewriter('unhandled_exception', pre=ppre).rewrite(b_ue.text), Rewriter('return_value', pre=ppre).rewrite(b_rv.text), Rewriter('return_value(Unit)', pre=ppre).rewrite(b_ru.text))
    job('PromiseType.unhandled_exception', b_ue, src, 'unhandled_exception', ['Store'], entry='h1')
    job('PromiseType.return_value', b_rv, src, 'return_value', ['Store'], entry='h2')
    job('PromiseType.return_value.unit', b_ru, src, 'return_unit', ['Store'], entry='h3')
    # Here / Next / Impl: resumption by a completer
    b_impl = find_body(repo, F_PT, r'void\s+Impl\s*\(\s*InlineCore\s*&\s*caller\s*\)\s*noexcept', 'PromiseType::Impl', within=WP)
    b_here = find_body(repo, F_PT, r'InlineCore\s*\*\s*Here\s*\(\s*InlineCore\s*&\s*caller\s*\)\s*noexcept\s+final', 'PromiseType::Here', within=WP)
    ci = Rewriter('PromiseType::Impl', pre=[(r'this->_executor\s*=\s*std::move\(\s*DownCast<BaseCore>\(caller\)\._executor\s*\)\s*;', '{ self->_executor = caller->_executor; caller->_executor = 0; }', 0)], refs=['caller']).rewrite(b_impl.text)
    ch = Rewriter('PromiseType::Here', methods=['Impl', 'Call'], refs=['caller'], pre=ppre).rewrite(b_here.text)      # Call() may be written out (Curr().resume())
    src = PT + '''void Impl(Core* self, Core* caller)
__CPROVER_requires(__CPROVER_is_fresh(self, sizeof(*self)) && __CPROVER_is_fresh(caller, sizeof(*caller)) && caller->_executor != 0)
__CPROVER_assigns(self->_executor, caller->_executor)
/* resumed inline by the awaited object: the coroutine continues on (and from now on owns) the executor that object completed on */
__CPROVER_ensures(self->_executor == OLD(caller->_executor) && caller->_executor == 0)
{''' + ci + '''}
unsigned g_impls; unsigned char g_resumed_after_impl;
void ImplS(Core* self, Core* caller) __CPROVER_assigns(g_impls) __CPROVER_ensures(g_impls == OLD(g_impls) + 1);
/* Call() of this class (job PromiseType.Call): resumes exactly this coroutine, once */
void CallS(Core* self) __CPROVER_assigns(g_resumes, g_resumed, g_resumed_after_impl) __CPROVER_ensures(g_resumes == OLD(g_resumes) + 1 && g_resumed == self && g_resumed_after_impl == (g_impls == 1));
/* ... or written out: the resume itself */
void RESUME_H(Core* h) __CPROVER_requires(h != 0) __CPROVER_assigns(g_resumes, g_resumed, g_resumed_after_impl) __CPROVER_ensures(g_resumes == OLD(g_resumes) + 1 && g_resumed == h && g_resumed_after_impl == (g_impls == 1));
Core* HereF(Core* self, Core* caller) __CPROVER_requires(self != 0 && g_impls == 0 && g_resumes == 0) __CPROVER_assigns(g_impls, g_resumes, g_resumed, g_resumed_after_impl)
/* V_Here for a coroutine: takes over the executor, THEN resumes exactly this coroutine exactly once; nothing is handed back to the caller's Loop */
__CPROVER_ensures(g_impls == 1 && g_resumes == 1 && g_resumed == self && g_resumed_after_impl && RET == 0)
{''' + ch.replace('Impl(self, caller)', 'ImplS(self, caller)').replace('Call(self)', 'CallS(self)').replace('RESUME(', 'RESUME_H(') + '''}
void h1(void) { pt_reset(); Core* a; Core* b; Impl(a, b); VF_CANARY("end"); }
void h2(void) { pt_reset(); g_impls = 0; Core* a; Core* b; __CPROVER_assume(a != 0); HereF(a, b); VF_CANARY("end"); }
'''
    job('PromiseType.Impl', b_impl, src, 'Impl', [], entry='h1')
    job('PromiseType.Here', b_here, src, 'HereF', ['ImplS', 'CallS', 'RESUME_H', 'Curr'], entry='h2')
    # frame destruction and final suspend
    b_del = find_body(repo, F_PT, r'void\s+PromiseTypeDeleter<Lazy,\s*Shared>::Delete\s*\(', 'PromiseTypeDeleter::Delete')
    c = Rewriter('PromiseTypeDeleter::Delete', pre=[(r'auto\s*&\s*promise\s*=\s*DownCast<PromiseType<V,\s*E,\s*Lazy,\s*Shared>>\(core\)\s*;', 'Core* promise = core;', 0), (r'auto\s+handle\s*=\s*promise\.Handle\(\)\s*;', 'Core* handle = promise;', 0),
                                                    (r'handle\.destroy\(\)', 'DESTROY(handle)', 0)]).rewrite(b_del.text)
    src = PT + '''Core* g_destroyed;
void DESTROY(Core* h) __CPROVER_requires(g_destroys == 0) __CPROVER_assigns(g_destroys, g_destroyed) __CPROVER_ensures(g_destroys == 1 && g_destroyed == h);
void Delete(Core* core) __CPROVER_requires(core != 0 && g_destroys == 0) __CPROVER_assigns(g_destroys, g_destroyed)
/* C03 / C13: the last reference to the coroutine's core destroys exactly this coroutine's frame (with its live locals), exactly once (the counter contract gives "exactly one last reference") */
__CPROVER_ensures(g_destroys == 1 && g_destroyed == core)
{''' + c + '''}
void harness(void) { pt_reset(); Core* s; __CPROVER_assume(s != 0); Delete(s); VF_CANARY("end"); }
'''
    job('PromiseTypeDeleter.Delete', b_del, src, 'Delete', ['DESTROY'])
    b_fs = find_body(repo, F_PT, r'auto\s+await_suspend\s*\(', 'Destroy::await_suspend', within=r'struct\s+Destroy\s+final')
    for fst, st in ((1, 1), (0, 1), (0, 0)):
        c = Rewriter('Destroy::await_suspend', pre=[(r'auto\s*&\s*promise\s*=\s*handle\.promise\(\)\s*;', 'Core* promise = handle;', 0), (r'Loop\(\s*&promise\s*,', 'LoopR(promise,', 0)] + ppre).rewrite(b_fs.text)
        src = PT + '#define YACLIB_FINAL_SUSPEND_TRANSFER %d\n#define YACLIB_SYMMETRIC_TRANSFER %d\n' % (fst, st) + '''Transfer LoopR(Core* p, Transfer t) __CPROVER_requires(g_loops == 0) __CPROVER_assigns(g_loops) __CPROVER_ensures(g_loops == 1 && RET == 0);
Transfer final_await_suspend(Core* handle)
__CPROVER_requires(handle != 0 && g_stores == 1 && g_set_results == 0 && g_loops == 0 && g_resumes == 0)       /* return_value / unhandled_exception stored the Result before final_suspend */
__CPROVER_assigns(g_set_results, g_loops, g_resumes)
/* final suspend: the stored Result is published exactly once (C01 producer contract) and whatever continuation was attached is driven (transfer, resume or Loop according to the configuration) */
__CPROVER_ensures(g_set_results == 1 && (YACLIB_FINAL_SUSPEND_TRANSFER ? (RET == g_sr_ret && g_resumes == 0 && g_loops == 0) : YACLIB_SYMMETRIC_TRANSFER ? g_resumes == 1 : g_loops == 1))
{''' + c + '''}
void harness(void) { pt_reset(); g_stores = 1; Core* s; __CPROVER_assume(s != 0); final_await_suspend(s); VF_CANARY("end"); }
'''
        job('Destroy.await_suspend.fst%d.st%d' % (fst, st), b_fs, src, 'final_await_suspend', ['SetResult', 'RESUME_T', 'LoopR'])
    # ---- the Await / AwaitOn / AwaitSticky wrappers: their compile-time choice of the event class is TRANSLATED (vf.cxx2c.translate_selection) --------------------------------------
    def wrappers():
        from vf.cxx2c import translate_selection, drop_pinned
        W = 'include/yaclib/coro/'
        WSTUBS = '#include "vf.h"\n' + '''unsigned long N, kSharedCount, count; unsigned char kShared;      /* pack size, shared handles in the pack / iterator value type is a SharedFuture: symbolic configuration */
enum { EV_CORE = 1, EV_STATIC_SHARED, EV_DYNAMIC_SHARED };
unsigned g_made; unsigned char g_kind, g_sticky, g_on; unsigned long g_nodes, g_over; void* g_exec;
void* MAKE_AWAITER(int kind, unsigned long nodes, int sticky, int on, void* e, unsigned long over)
__CPROVER_requires(g_made == 0)
/* C13, C06: every SharedFuture of the awaited set links the awaiter into its intrusive callback list through the `next` of the node it is given, and a node can be in one list only:
   the event itself is one node, StaticSharedEvent<.., k> has k helper nodes, DynamicSharedEvent one per input - there must be a node for every shared handle */
__CPROVER_requires(nodes >= SHARED_HANDLES)
__CPROVER_assigns(g_made, g_kind, g_nodes, g_sticky, g_on, g_exec, g_over) __CPROVER_ensures(g_made == 1 && g_kind == kind && g_nodes == nodes && g_sticky == sticky && g_on == on && g_exec == e && g_over == over && RET != 0);
'''

        def event_of(name, txt, core_alias=None):
            """(kind, nodes expression, sticky or None) of an event class expression"""
            txt = ' '.join(txt.split())
            m = re.match(r'^MultiAwaitAwaiter<\s*(.*)>$', txt)
            if m:
                txt = m.group(1).strip()
            sticky = None

            def core(t):
                nonlocal sticky
                mm = re.match(r'^AwaitEvent<\s*(true|false)\s*>$', t)
                if mm:
                    sticky = 1 if mm.group(1) == 'true' else 0
                    return True
                return core_alias is not None and t == core_alias
            if core(txt):
                return 'EV_CORE', '1', sticky
            m = re.match(r'^StaticSharedEvent<\s*(.+?)\s*,\s*(\w+)\s*>$', txt)
            if m and core(m.group(1)):
                return 'EV_STATIC_SHARED', m.group(2), sticky
            m = re.match(r'^DynamicSharedEvent<\s*(.+?)\s*>$', txt)
            if m and core(m.group(1)):
                return 'EV_DYNAMIC_SHARED', 'count', sticky
            raise ExtractionBreak('%s: event class outside the vocabulary: %s' % (name, txt))

        table = [('AwaitInline.pack', W + 'await_inline.hpp', r'auto\s+AwaitInline\s*\(\s*Waited\s*&\s*\.\.\.\s*waited\s*\)\s*noexcept', 'Awaiter', 0, 0, 0),
                 ('AwaitInline.range', W + 'await_inline.hpp', r'auto\s+AwaitInline\s*\(\s*Iterator\s+begin\s*,\s*std::size_t\s+count\s*\)\s*noexcept', 'Awaiter', 1, 0, 0),
                 ('AwaitSticky.pack', W + 'await_sticky.hpp', r'auto\s+AwaitSticky\s*\(\s*Waited\s*&\s*\.\.\.\s*waited\s*\)\s*noexcept', 'Awaiter', 0, 1, 0),
                 ('AwaitSticky.range', W + 'await_sticky.hpp', r'auto\s+AwaitSticky\s*\(\s*Iterator\s+begin\s*,\s*std::size_t\s+count\s*\)\s*noexcept', 'Awaiter', 1, 1, 0),
                 ('AwaitOn.pack', W + 'await_on.hpp', r'auto\s+AwaitOn\s*\(\s*IExecutor\s*&\s*e\s*,\s*Waited\s*&\s*\.\.\.\s*waited\s*\)\s*noexcept', 'Event', 0, 0, 1),
                 ('AwaitOn.range', W + 'await_on.hpp', r'auto\s+AwaitOn\s*\(\s*IExecutor\s*&\s*e\s*,\s*Iterator\s+begin\s*,\s*std::size_t\s+count\s*\)\s*noexcept', 'Event', 1, 0, 1)]
        for nm, f, sig, alias, rng, sticky, on in table:
            try:
                b = find_body(repo, f, sig, nm)
                t = b.text
                core_alias = None
                if on:
                    t, k = re.subn(r'using\s+CoreEvent\s*=\s*AwaitOnEvent<\s*false\s*>\s*;', '', t)
                    if k != 1:
                        raise ExtractionBreak('%s: `using CoreEvent = AwaitOnEvent<false>;` not found exactly once' % nm)
                    core_alias = 'CoreEvent'
                classes = ['MultiAwaitAwaiter', 'CoreEvent', 'StaticSharedEvent', 'DynamicSharedEvent']
                t, cond, a, bb = translate_selection(nm, t, alias, [], ['kSharedCount', 'kShared'], classes)
                full = lambda x: x[0] + ('<' + x[1] + '>' if x[1] else '')
                (ka, na, sa), (kb, nb, sb) = event_of(nm, full(a), core_alias), event_of(nm, full(bb), core_alias)
                if not on and (sa is None or sb is None or sa != sb):
                    raise ExtractionBreak('%s: cannot read the Sticky argument of the event classes' % nm)
                t = drop_pinned(nm, t, ['using namespace detail;'] + (['static constexpr auto kShared = std::is_same_v<typename Value::Handle, SharedHandle>;'] if rng else
                                                                     ['static constexpr auto kSharedCount = kCount<SharedHandle, typename Waited::Handle...>;']))
                pre = [(r'YACLIB_ASSERT\(\s*\.\.\.\s*&&\s*waited\.Valid\(\)\s*\)\s*;', '', 0),       # a fold over the pack: every awaited future is valid (a precondition of the wrapper)
                       (r'return\s+Awaiter\{\s*waited\.GetHandle\(\)\s*\.\.\.\s*\}\s*;', 'return MAKE_AWAITER(EV_KIND, EV_NODES, EV_STICKY, 0, 0, N);', 0),
                       (r'return\s+Awaiter\{\s*begin\s*,\s*count\s*\}\s*;', 'return MAKE_AWAITER(EV_KIND, EV_NODES, EV_STICKY, 0, 0, count);', 0),
                       (r'return\s+MultiAwaitOnAwaiter<Event>\{\s*e\s*,\s*waited\.GetHandle\(\)\s*\.\.\.\s*\}\s*;', 'return MAKE_AWAITER(EV_KIND, EV_NODES, 0, 1, e, N);', 0),
                       (r'return\s+MultiAwaitOnAwaiter<Event>\{\s*e\s*,\s*begin\s*,\s*count\s*\}\s*;', 'return MAKE_AWAITER(EV_KIND, EV_NODES, 0, 1, e, count);', 0)]
                c = Rewriter(nm, pre=pre, refs=[]).rewrite(t)
                if c.count('MAKE_AWAITER(') != 1:
                    raise ExtractionBreak('%s: the return statement is not of a translated form' % nm)
                src = '#define SHARED_HANDLES %s\n' % ('(kShared ? count : 0)' if rng else 'kSharedCount') + WSTUBS + \
                    '#define EV_KIND ((%s) ? %s : %s)     /* translated from `using %s = std::conditional_t<...>` */\n#define EV_NODES ((%s) ? (%s) : (%s))\n#define EV_STICKY %d\n' % (cond, ka, kb, alias, cond, na, nb, sa if not on else 0) + \
                    '''void* F(void* e, unsigned long begin)
__CPROVER_requires(g_made == 0 && N >= 2 && N < (1UL << 32) && kSharedCount <= N && count >= 2 && count < (1UL << 32) && kShared <= 1)
__CPROVER_assigns(g_made, g_kind, g_nodes, g_sticky, g_on, g_exec, g_over)
/* one awaiter over exactly the given futures, of the flavour the function names (sticky / on executor e), with an event that has a callback node for every shared handle */
__CPROVER_ensures(g_made == 1 && g_over == %s && g_sticky == %d && g_on == %d && (%d ? g_exec == e : 1) && RET != 0)
/* C20: co_await of plain futures allocates nothing: the only event class with heap storage (DynamicSharedEvent: a vector of helper nodes) is chosen only for a range of SharedFutures;
   the static forms keep their helper nodes inside the awaiter (std::array), the plain event has none */
__CPROVER_ensures(g_kind == EV_DYNAMIC_SHARED ==> (SHARED_HANDLES > 0))
{''' % ('count' if rng else 'N', sticky, on, on) + c + '''}
void harness(void) { g_made = 0; N = nondet_ulong(); kSharedCount = nondet_ulong(); count = nondet_ulong(); kShared = nondet_uchar() & 1; void* e; F(e, 0);
  if (SHARED_HANDLES) VF_CANARY("some shared handles"); else VF_CANARY("no shared handle"); }
'''
                job('wrapper.' + nm, b, src, 'F', ['MAKE_AWAITER'], canaries=2, expect=[r'postcondition', r'precondition'])
            except ExtractionBreak as e:
                ctx.breaks.append(str(e))
    wrappers()
    # other properties run the part of this unit that is their business (the unit is written for C13)
    SEL = {'C12': r'coro/(PromiseType\.|PromiseTypeDeleter|Destroy\.|Transfer)',                       # coroutine Task: nothing before start, started by co_await / Here
           'C05': r'coro/(OnAwaiter|AwaitOn|MultiAwaitOn|wrapper\.AwaitOn|Yield|CurrentAwaiter)',         # resumes where told
           'C06': r'coro/(AwaitSingleAwaiter\.shared1|SetCallbacks|wrapper\.)',                         # shared sources: a node per shared handle, const read
           'C03': r'coro/(PromiseType\.(Call|Drop)|PromiseTypeDeleter|Destroy\.)',                     # the coroutine frame is destroyed exactly once
           'C20': r'coro/wrapper\.'}                                                                     # which event class an await builds: heap storage only for ranges of SharedFutures
    if getattr(ctx, 'prop', None) in SEL:
        out = [j for j in out if re.match(SEL[ctx.prop], j.name)]
    return out


def replay(ctx, res, failed, rec):
    """the real coroutine layer of the tree under check (CORO build), scenario group chosen by the function whose obligation failed"""
    from vf.replay import run_coro_driver
    fn = res.job.meta.get('fn', '')
    group = 'all'
    if fn.startswith(('AwaitSingleAwaiter', 'AwaitAwaiter.inline')):
        group = 'single'
    elif fn.startswith(('AwaitEvent', 'MultiAwaitAwaiter', 'SetCallbacks')):
        group = 'multi'
    elif fn.startswith(('OnAwaiter', 'AwaitOn', 'MultiAwaitOn', 'Yield', 'CurrentAwaiter', 'AwaitAwaiter.sticky')):
        group = 'where'
    elif fn.startswith('Transfer'):
        group = 'tasks'
    elif fn.startswith(('PromiseType.Drop', 'PromiseTypeDeleter', 'Destroy', 'PromiseType.unhandled', 'PromiseType.return')):
        group = 'stop'
    bad, log = run_coro_driver(ctx, 'coro_await.cpp', [group, 2000])
    if bad is False and group != 'all':
        bad2, log2 = run_coro_driver(ctx, 'coro_await.cpp', ['all', 2000])
        return bad2, log + '\n' + log2
    return bad, log
