"""Entry functions detail::Run / detail::RunShared (async/run.hpp) and detail::Schedule (lazy/schedule.hpp):  C12, C02, C05, C03.

What distinguishes an eager pipeline head from a lazy one is one statement: `e.Submit(*core)`.  Contract of all three: exactly one core is made from the functor (kind chosen by
the value type), the executor is retained exactly once and stored in the core WITHOUT a second retain, the returned handle adopts the core without IncRef.  Run / RunShared: the core
is then handed to the executor exactly once, after it was completely set up.  Schedule: it is NOT submitted - nothing of a Task runs before it is started (C12).
"""
import re

from vf.cxx2c import Rewriter
from vf.extract import ExtractionBreak, find_body, match_brace
from vf.runner import Job

F_RUN = 'include/yaclib/async/run.hpp'
F_SCH = 'include/yaclib/lazy/schedule.hpp'
TRUSTED = ['MakeCore / MakeUnique / MakeShared (units core, ownership), IExecutor::Submit (C05 interface contract, proved per executor), IntrusivePtr (unit intrusive_ptr)']
DROPPED = ['the immediately invoked lambda `auto* core = [&] { if constexpr (C) return A; else return B; }();` is rewritten to `Core* core; if (C) core = A; else core = B;` '
           '(every return of the lambda is the last statement of its branch: checked)',
           '`static constexpr auto CoreT = ...;` inside the lambda is kept as the argument of the MakeCore stub (the CoreType bits are recorded and checked)',
           'the type alias `using ResultCoreT = ...` is dropped (pinned)']
ASSUMPTIONS = []

COMMON = r'''
#include "vf.h"
typedef struct Core { void* _executor; } Core;
enum { CT_Run = 1, CT_Then = 2, CT_Call = 4, CT_Lazy = 8, CT_ToUnique = 16, CT_ToShared = 32, CT_FromUnique = 64, CT_FromShared = 128 };
enum { MK_CORE = 1, MK_PROMISE_UNIQUE, MK_PROMISE_SHARED };
unsigned char IS_UNIT;                /* std::is_same_v<V, Unit>: free configuration predicate */
unsigned g_makes, g_increfs, g_resets, g_submits, g_adopts; unsigned char g_make_kind; unsigned g_make_type; unsigned long g_make_refs; Core g_core_obj; Core* g_core; void* g_func;
void* g_incref_of; void* g_submit_to; Core* g_submitted; Core* g_adopted; unsigned char g_submit_after_setup, g_handle_kind;
unsigned long kSharedRefWithFuture;
Core* MakeCoreT(unsigned type, void* f) __CPROVER_assigns(g_makes, g_make_kind, g_make_type, g_func)
  __CPROVER_ensures(g_makes == OLD(g_makes) + 1 && g_make_kind == MK_CORE && g_make_type == type && g_func == f && RET == g_core);
Core* MakePromiseCore(int shared, unsigned long refs, void* f) __CPROVER_assigns(g_makes, g_make_kind, g_make_refs, g_func)
  __CPROVER_ensures(g_makes == OLD(g_makes) + 1 && g_make_kind == (shared ? MK_PROMISE_SHARED : MK_PROMISE_UNIQUE) && g_make_refs == refs && g_func == f && RET == g_core);
void EXEC_INCREF(void* e) __CPROVER_assigns(g_increfs, g_incref_of) __CPROVER_ensures(g_increfs == OLD(g_increfs) + 1 && g_incref_of == e);
/* core->_executor.Reset(NoRefTag{}, &e): stores without retaining; the slot must be empty (a fresh core has no executor) */
void EXEC_RESET_NOREF(Core* c, void* e) __CPROVER_requires(c == g_core && c->_executor == 0) __CPROVER_assigns(g_resets, c->_executor) __CPROVER_ensures(g_resets == OLD(g_resets) + 1 && c->_executor == e);
void EXEC_SUBMIT(void* e, Core* c) __CPROVER_requires(c == g_core) __CPROVER_assigns(g_submits, g_submit_to, g_submitted, g_submit_after_setup)
  __CPROVER_ensures(g_submits == OLD(g_submits) + 1 && g_submit_to == e && g_submitted == c && g_submit_after_setup == (g_increfs == 1 && g_resets == 1 && c->_executor == e));
enum { H_FutureOn = 1, H_SharedFutureOn, H_Task };
void* ADOPT(int kind, Core* c) __CPROVER_assigns(g_adopts, g_adopted, g_handle_kind) __CPROVER_ensures(g_adopts == OLD(g_adopts) + 1 && g_adopted == c && g_handle_kind == kind && RET == (void*)c);
'''
CONTRACT = '''void* F(void* e, void* f)
__CPROVER_requires(e != 0 && g_core == &g_core_obj && g_core_obj._executor == 0 && IS_UNIT <= 1)
__CPROVER_requires(g_makes == 0 && g_increfs == 0 && g_resets == 0 && g_submits == 0 && g_adopts == 0)
__CPROVER_assigns(g_makes, g_make_kind, g_make_type, g_make_refs, g_func, g_increfs, g_incref_of, g_resets, g_core_obj._executor, g_submits, g_submit_to, g_submitted, g_submit_after_setup, g_adopts, g_adopted, g_handle_kind)
/* C02, C03: exactly one core is made from this functor - a function step (Run | Call | To%(to)s) for Unit, a promise core (%(pk)s) otherwise */
__CPROVER_ensures(g_makes == 1 && g_func == f && (IS_UNIT ? (g_make_kind == MK_CORE && g_make_type == (CT_Run | CT_Call | CT_To%(to)s)) : (g_make_kind == %(pkind)s%(prefs)s)))
/* C03, C05: the executor is retained exactly once and stored in the core without a second retain; the returned %(handle)s adopts the core without IncRef */
__CPROVER_ensures(g_increfs == 1 && g_incref_of == e && g_resets == 1 && g_core->_executor == e && g_adopts == 1 && g_adopted == g_core && g_handle_kind == H_%(handle)s && RET == (void*)g_core)
%(submit)s
'''
EAGER = ('/* C02, C05: an eager head is handed to its executor exactly once, after it was completely set up */\n'
         '__CPROVER_ensures(g_submits == 1 && g_submit_to == e && g_submitted == g_core && g_submit_after_setup)')
LAZY = ('/* C12: nothing of a Task runs before it is started: Schedule only builds the head, it is NOT submitted */\n'
        '__CPROVER_ensures(g_submits == 0)')


def _lambda_to_branches(name, text):
    """auto* core = [&] { ... return X; ... }();   ->   Core* core; { ... core = X; ... }
    also accepted: the lambda bound to a name first (`auto mk = [&] {...}; auto* core = mk();`), and any name for the variable (it is renamed to `core`, which the rules speak about)"""
    m = re.search(r'auto\s*\*\s*(\w+)\s*=\s*\[&\]\s*\{', text)
    lam_name = None
    if not m:
        m = re.search(r'(?:const\s+)?auto\s+(\w+)\s*=\s*\[&\]\s*\{', text)
        if not m:
            raise ExtractionBreak('%s: the lambda that makes the core was not found' % name)
        lam_name = m.group(1)
    ob = m.end() - 1
    cb = match_brace(text, ob)
    if lam_name is None:
        var = m.group(1)
        tail = re.match(r'\s*\(\s*\)\s*;', text[cb + 1:])
        if not tail:
            raise ExtractionBreak('%s: the lambda is not invoked at once' % name)
        rest = text[cb + 1 + tail.end():]
    else:
        tail = re.match(r'\s*;', text[cb + 1:])
        if not tail:
            raise ExtractionBreak('%s: the named lambda is not a plain declaration' % name)
        rest = text[cb + 1 + tail.end():]
        calls = list(re.finditer(r'auto\s*\*\s*(\w+)\s*=\s*%s\s*\(\s*\)\s*;' % re.escape(lam_name), rest))
        if len(calls) != 1 or len(re.findall(r'\b%s\b' % re.escape(lam_name), rest)) != 1:
            raise ExtractionBreak('%s: the named lambda is not called exactly once as `auto* x = %s();`' % (name, lam_name))
        var = calls[0].group(1)
        if rest[:calls[0].start()].strip():
            raise ExtractionBreak('%s: statements between the lambda and its call' % name)
        rest = rest[calls[0].end():]
    inner = text[ob + 1:cb]
    # every `return X;` must be the last statement of its block
    for r in re.finditer(r'\breturn\b[^;]*;', inner):
        if not re.match(r'\s*\}', inner[r.end():]):
            raise ExtractionBreak('%s: a return of the core lambda is not the last statement of its branch' % name)
    inner = re.sub(r'\breturn\b', 'core =', inner)
    if var != 'core':
        if re.search(r'\bcore\b', rest):
            raise ExtractionBreak('%s: both `%s` and `core` are used' % (name, var))
        rest = re.sub(r'\b%s\b' % re.escape(var), 'core', rest)
    return text[:m.start()] + 'Core* core = 0; {' + inner + '}' + rest


def jobs(ctx):
    repo = ctx.repo
    props = ['C12', 'C02', 'C05', 'C03']
    out = []
    pre = [(r'std::is_same_v<V,\s*Unit>', 'IS_UNIT', 1),
           (r'(?:static\s+)?constexpr\s+auto\s+CoreT\s*=\s*([^;]+);', lambda m: 'const unsigned CoreT = %s;' % re.sub(r'CoreType::(\w+)', r'CT_\1', m.group(1)), 1),
           (r'MakeCore<CoreT,\s*void,\s*E>\(\s*std::forward<Func>\(f\)\s*\)', 'MakeCoreT(CoreT, f)', 1),
           (r'MakeUnique<PromiseCore<V,\s*E,\s*Func&&,\s*false>>\(\s*std::forward<Func>\(f\)\s*\)\.Release\(\)', 'MakePromiseCore(0, 0, f)', 0),
           (r'MakeShared<PromiseCore<V,\s*E,\s*Func&&,\s*true>>\(\s*(?:detail::)?(\w+)\s*,\s*std::forward<Func>\(f\)\s*\)\.Release\(\)', r'MakePromiseCore(1, \1, f)', 0),
           (r'e\.IncRef\(\)', 'EXEC_INCREF(e)', 0), (r'core->_executor\.Reset\(\s*NoRefTag\{\}\s*,\s*&e\s*\)', 'EXEC_RESET_NOREF(core, e)', 0), (r'e\.Submit\(\s*\*core\s*\)', 'EXEC_SUBMIT(e, core)', 0),
           (r'using\s+ResultCoreT\s*=\s*typename\s+std::remove_reference_t<decltype\(\*core\)>::Base\s*;', '', 1),
           (r'return\s+(FutureOn|SharedFutureOn|Task)\{\s*IntrusivePtr<ResultCoreT>\{\s*NoRefTag\{\}\s*,\s*core\s*\}\s*\}\s*;', r'return ADOPT(H_\1, core);', 1)]
    table = (('detail.Run', F_RUN, r'auto\s+Run\s*\(\s*IExecutor\s*&\s*e\s*,\s*Func\s*&&\s*f\s*\)', dict(to='Unique', pk='unique', pkind='MK_PROMISE_UNIQUE', prefs='', handle='FutureOn', submit=EAGER)),
             ('detail.RunShared', F_RUN, r'auto\s+RunShared\s*\(\s*IExecutor\s*&\s*e\s*,\s*Func\s*&&\s*f\s*\)',
              dict(to='Shared', pk='shared, born with the references of the promise side and of the returned future', pkind='MK_PROMISE_SHARED', prefs=' && g_make_refs == kSharedRefWithFuture', handle='SharedFutureOn', submit=EAGER)),
             ('detail.Schedule', F_SCH, r'auto\s+Schedule\s*\(\s*IExecutor\s*&\s*e\s*,\s*Func\s*&&\s*f\s*\)', dict(to='Unique', pk='unique', pkind='MK_PROMISE_UNIQUE', prefs='', handle='Task', submit=LAZY)))
    for nm, f, sig, cfg in table:
        try:
            b = find_body(repo, f, sig, nm, within=r'namespace\s+detail')
            t = _lambda_to_branches(nm, b.text)
            c = Rewriter(nm, pre=pre, nomembers=['_executor']).rewrite(t)
            src = COMMON + CONTRACT % cfg + '{' + c + '''}
void harness(void) { void* e; void* f; g_core = &g_core_obj; g_core_obj._executor = 0; g_makes = g_increfs = g_resets = g_submits = g_adopts = 0; IS_UNIT = nondet_uchar() & 1; F(e, f); if (IS_UNIT) VF_CANARY("function step"); else VF_CANARY("promise core"); }
'''
            out.append(Job('entry/' + nm, props, src, 'harness', enforce='F', replace=['MakeCoreT', 'MakePromiseCore', 'EXEC_INCREF', 'EXEC_RESET_NOREF', 'EXEC_SUBMIT', 'ADOPT'], funcs=[b], canaries=2,
                           expect=[r'postcondition'], meta={'fn': nm}))
        except ExtractionBreak as e:
            ctx.breaks.append(str(e))
    return out


def replay(ctx, res, failed, rec):
    return None, 'no sequential witness driver for this obligation'
