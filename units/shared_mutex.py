"""Coroutine SharedMutex (include/yaclib/coro/shared_mutex.hpp):  C15 (+ C04 orders are not claimed here).

Counting-permission rely/guarantee proof at atomic-operation granularity.  One global mutex object M, logical (ghost) counters

    hw      1 <=> a writer holds (granted; possibly not yet resumed)         hr   readers holding (granted)
    fl      readers registered in the state word while a writer was there, not yet through AwaitLockShared
    ul      readers that released with a writer present and have not yet paid their unit of readers_wait
    wf/mid  a first writer exists (waits for the readers counted at its arrival) / is between its two atomic operations (rmid = that count)
    smid    an unlocking writer is between fetch_sub(state) and store(readers_wait) in RunReaders
    wq      queued writers,  rs / pass / prio  logical values of _readers_size / _readers_pass / _writers_prio (lock protected)
    latent  readers granted by RunReaders and not yet handed to their executor,  fpend  _writers_first not yet written after the store

and the invariant INV_A below over (state word, readers_wait, ghost).  Every function is proved, with arbitrary interference at each
of its atomic operations and at lock acquisition (any INV_A state consistent with the tokens the function owns), to (1) take only
transitions that re-establish INV_A, (2) decrement a counter only by a token it owns, (3) meet its postcondition.  INV_A contains the
exclusion clauses of C15 (hw <= 1, hw ==> hr == 0) and the "nobody is forgotten" shadows (a parked writer / reader is always behind
a holder or a positive debt; the debt equals the readers still to release).
"""
import re

from vf.cxx2c import Rewriter, attach_loop_contracts, auto_helpers
from vf.extract import ExtractionBreak, find_body, match_brace, read_source
from vf.runner import Job

F = 'include/yaclib/coro/shared_mutex.hpp'

TRUSTED = ['Spinlock lock / unlock are mutual exclusion (monitor); List / Stack PushBack, PopFront, Empty, move are an abstract multiset with a count (unit thread_pool proves List)',
           'counting-permission meta-argument: a counter unit is decremented only by the thread owning the matching token (asserted in every transition), so other threads\' tokens are stable under interference',
           'the coroutine machinery: after AwaitLock / AwaitLockShared returned true the coroutine is suspended and is resumed exactly by the Submit of its node (C13)',
           'IExecutor::Submit (C05)']
DROPPED = ['`x / kWriter`, `x % kWriter` are kept as written (kWriter == 1 << 32 is checked from the source text)',
           'C++17 if-with-initializer is split into declaration + if (scope widened, names unique)',
           'the readers container is the abstract count g.rl / g.local (ReadersFIFO only selects List vs Stack: resume order of readers, not their number)']
ASSUMPTIONS = ['SC atomics (orders are C04 and not claimed for this class)', 'fewer than 2^30 simultaneous readers / writers (no counter wrap of the packed 32+32 word)',
               'liveness itself (holders release, executors accept work) is the property\'s own premise: only the safety shadow is proved']
# real-code drivers that exercise what this unit proves (thorough tier: sanity run on the tree under check)
DRIVERS = [('shared_mutex.cpp', [2000], 'coro')]

COMMON = r'''
#include "vf.h"
typedef struct Node { struct Node* next; void* _executor; } Node; typedef Node BaseCore;
#define kReader ((uint64_t)1)
#define kWriter (kReader << (uint64_t)32)
struct SM { uint64_t _state; uint32_t _readers_wait; uint32_t _readers_size, _readers_pass, _writers_prio; Node* _writers_first; Node _writers_head; Node* _writers_tail; int _readers; int _lock; } M;
struct Ghost {
  uint32_t hw, hr, fl, ul, wf, mid, rmid, smid, wq, rs, pass, prio, latent, fpend;
  Node* first_node;
  uint32_t rl, local;                     /* abstract readers container: queued in M._readers / moved to the local list of RunReaders */
  unsigned long qh, qt;                   /* queued writers are wp[qh .. qt) */
  unsigned char dec;                      /* decision taken at the linearisation point of SlowUnlock */
  uint32_t w_at_unlock;
} g;
struct Mine { unsigned char hr, fl, ul, hw, mid, smid, lock, parked_first, parked_queue, queued_reader, enqueued, link_cleared; uint32_t rmid; Node* node; unsigned long idx; } me;
enum { DEC_NONE = 0, DEC_WRITER, DEC_READERS, DEC_READERS_W, DEC_PASS };
unsigned g_runs; Node* g_must_run; unsigned char g_run_kind;    /* obligations to hand a granted node to its executor */
#define BND (1u << 30)
#define W ((uint32_t)(M._state >> 32))
#define R ((uint32_t)M._state)
#define RW (M._readers_wait)
#define D (g.hr + g.ul + g.pass)
#define I_RANGE ( g.hw <= 1 && g.wf <= 1 && g.mid <= 1 && g.smid <= 1 && g.fpend <= 1 && g.mid <= g.wf && g.hw + g.wf + g.smid <= 1 \
  && g.hr < BND && g.fl < BND && g.ul < BND && g.wq < BND && g.rs < BND && g.pass < BND && g.prio < BND && g.latent < BND && R < BND && W < BND )
#define I_WORD ( W == g.hw + g.wf + g.wq && R == g.hr + g.fl + g.rs )
/* C15 exclusion: one writer at most, and no reader while it holds */
#define I_EXCL ( g.hw ==> (g.hr == 0 && g.ul == 0 && g.pass == 0 && RW == 0) )
/* nobody is forgotten: parked writers and readers are always behind a holder, a first writer or an unlock in progress */
#define I_PARKED ( (g.wq > 0 ==> g.hw + g.wf + g.smid == 1) && (g.rs > 0 ==> g.hw + g.wf + g.smid == 1) )
#define I_SMID ( g.smid ==> (g.hr == 0 && g.ul == 0 && g.pass == 0 && RW == 0 && g.rs > 0 && g.wq > 0) )
/* ... and the first writer waits for exactly the readers that still have to release (debt == holders + pending payments + credits) */
#define I_DEBT ( ((g.wf && !g.mid) ==> (RW == D && D >= 1 && D < BND)) && (g.mid ==> (g.rmid >= 1 && g.rmid < BND && D <= g.rmid && (uint32_t)(RW + g.rmid) == D)) )
#define I_FREE ( W == 0 ==> (g.ul == 0 && RW == 0 && g.rs == 0 && g.pass == g.fl) )
#define I_MISC ( g.pass <= g.fl && (g.ul > 0 ==> g.wf) && g.latent <= g.hr )
#define I_FIRST ( (g.fpend ==> (g.wf && !g.mid && g.hr == g.latent && g.ul == 0 && g.pass == 0)) && ((g.wf && !g.mid && !g.fpend) ==> (M._writers_first == g.first_node && g.first_node != 0)) )
#define I_PRIO ( FIFO ? (g.prio <= g.wq && (g.rs == 0 ==> g.prio == g.wq)) : g.prio == 0 )
#define INV_A ( I_RANGE && I_WORD && I_EXCL && I_PARKED && I_SMID && I_DEBT && I_FREE && I_MISC && I_FIRST && I_PRIO )
#define INV_ASSERT(where) do { \
  __CPROVER_assert(I_RANGE, "C15: invariant (counters in range, at most one of writer holding / first writer / unlock in progress) " where); \
  __CPROVER_assert(I_WORD, "C15: invariant (the packed word counts exactly the registered writers and readers) " where); \
  __CPROVER_assert(I_EXCL, "C15: invariant (exclusion: no reader holds, is paying or has a credit while a writer holds) " where); \
  __CPROVER_assert(I_PARKED, "C15: invariant (nobody forgotten: parked writers / readers are behind a holder, a first writer or an unlock in progress) " where); \
  __CPROVER_assert(I_SMID, "C15: invariant (unlock in progress) " where); \
  __CPROVER_assert(I_DEBT, "C15: invariant (the first writer's debt equals the readers still to release) " where); \
  __CPROVER_assert(I_FREE, "C15: invariant (no writer registered: no debt, no queued reader, one credit per registered reader) " where); \
  __CPROVER_assert(I_MISC, "C15: invariant (credits <= registered readers, payments pending only in front of a first writer) " where); \
  __CPROVER_assert(I_FIRST, "C15: invariant (_writers_first names the parked first writer) " where); \
  __CPROVER_assert(I_PRIO, "C15: invariant (FIFO priority bookkeeping) " where); } while (0)
/* coupling of the lock-protected fields with their logical values: holds whenever the spinlock is free */
unsigned long WP_MAX; Node* wp;
#define WHEAD (&M._writers_head)
#define INV_L ( M._readers_size == g.rs && M._readers_pass == g.pass && M._writers_prio == g.prio && g.rl == g.rs \
  && g.qh <= g.qt && g.qt < WP_MAX && g.qt - g.qh == g.wq && M._writers_tail == (g.qh < g.qt ? &wp[g.qt - 1] : WHEAD) && !g.smid && !g.mid && !g.fpend && g.dec == DEC_NONE )
#define POOL_INIT() do { WP_MAX = nondet_ulong(); __CPROVER_assume(WP_MAX >= 2 && WP_MAX <= (1UL << 36)); wp = malloc(sizeof(Node) * WP_MAX); __CPROVER_assume(wp != 0); } while (0)
/* the `next` links of queued writers are defined by the pool order (DESIGN 5.F); writes must agree with it */
static Node* node_next(Node* x) {
  if (x == WHEAD) return g.qh < g.qt ? &wp[g.qh] : (Node*)0;
  __CPROVER_assert(__CPROVER_same_object(x, wp), "SHAPE: next read of a node outside the writers queue");
  unsigned long k = (unsigned long)(x - wp);
  __CPROVER_assert(k >= g.qh && k < g.qt, "SHAPE: next read of a node that is not queued");
  return (k + 1 < g.qt && k >= g.qh) ? &wp[k + 1] : (Node*)0;
}
static void node_set_next(Node* x, Node* v) {
  if (x == WHEAD) {
    if (g.qh == g.qt) { __CPROVER_assert(v == &wp[g.qt] && v == me.node && !me.enqueued, "writers queue: only the arriving node is linked behind the head");
      __CPROVER_assert(me.link_cleared, "writers queue: the new tail's own link is null (RunWriter follows it)"); g.qt++; me.enqueued = 1; }
    else { __CPROVER_assert(v == (g.qh + 1 < g.qt ? &wp[g.qh + 1] : (Node*)0), "writers queue: the head is advanced to the successor of the first node"); g.qh++; }
    return;
  }
  __CPROVER_assert(__CPROVER_same_object(x, wp), "SHAPE: next write of a node outside the writers queue");
  unsigned long k = (unsigned long)(x - wp);
  if (x == me.node && !me.enqueued) { __CPROVER_assert(v == 0, "writers queue: the arriving node's own link is only cleared before it is queued"); me.link_cleared = 1; return; }
  __CPROVER_assert(g.qh < g.qt && k == g.qt - 1 && v == &wp[g.qt] && v == me.node && !me.enqueued, "writers queue: the arriving node is linked behind the tail");
  __CPROVER_assert(me.link_cleared, "writers queue: the new tail's own link is null (RunWriter follows it)");
  g.qt++; me.enqueued = 1;
}
#define NODE_NEXT(x) node_next(x)
#define NODE_SET_NEXT(x, v) node_set_next(x, v)

/* ---- interference ---------------------------------------------------------------------------------------------------------------- */
static void env(void) {
  struct SM o = M; struct Ghost og = g;
  M._state = nondet_ulong(); M._readers_wait = nondet_uint();
  g.hw = nondet_uint(); g.hr = nondet_uint(); g.fl = nondet_uint(); g.ul = nondet_uint(); g.wf = nondet_uint(); g.latent = nondet_uint();
  if (!me.lock) {
    /* lock holders of other threads: everything behind the spinlock may have changed (and is re-read only after LOCK) */
    M._readers_size = nondet_uint(); M._readers_pass = nondet_uint(); M._writers_prio = nondet_uint(); M._writers_first = nondet_ptr(); M._writers_tail = nondet_ptr();
    g.mid = nondet_uint(); g.rmid = nondet_uint(); g.smid = nondet_uint(); g.wq = nondet_uint(); g.rs = nondet_uint(); g.pass = nondet_uint(); g.prio = nondet_uint(); g.fpend = nondet_uint();
    g.first_node = nondet_ptr(); g.rl = nondet_uint(); g.qh = nondet_ulong(); g.qt = nondet_ulong();
  }
  __CPROVER_assume(INV_A);
  /* the tokens of the thread under proof are not taken by anybody else */
  if (me.hr) __CPROVER_assume(g.hr - g.latent >= 1);
  if (me.fl) __CPROVER_assume(g.fl >= 1);
  if (me.ul) __CPROVER_assume(g.ul >= 1);
  if (me.hw) __CPROVER_assume(g.hw == 1);
  if (me.mid) __CPROVER_assume(g.wf && g.mid && g.rmid == og.rmid);
  if (me.smid) __CPROVER_assume(g.smid);
  if (me.lock) {
    /* lock-free operations of others (reader / writer fast paths, reader releases paying the debt) cannot create what only lock holders create */
    __CPROVER_assume((g.wf <= og.wf || og.mid) && (g.wf >= og.wf || (og.wf && !og.mid)));      /* a first writer is only granted away, never created */
    __CPROVER_assume(g.hw + g.wf + g.smid >= og.hw + og.wf + og.smid || (g.wq == 0 && g.rs == 0));
  }
}
static void LOCK(void) {
  __CPROVER_assert(!me.lock, "spinlock: no recursive locking");
  env();
  __CPROVER_assume(INV_L);
  /* naming convention of the ghost pool: an arriving writer is named by the slot it will occupy (me.idx is arbitrary, so every arrival position is covered) */
  if (me.node != 0) __CPROVER_assume(g.qt == me.idx);
  me.lock = 1;
}
static void commit(void);
static void UNLOCK(void) {
  __CPROVER_assert(me.lock, "spinlock: unlock only what is held");
  commit();
  INV_ASSERT("when the spinlock is released");
  __CPROVER_assert(INV_L, "C15: lock-protected fields agree with their logical values when the spinlock is released");
  me.lock = 0;
}
#define MON_LOCK(x) LOCK()
#define MON_UNLOCK(x) UNLOCK()

/* ---- transitions (the guarantees) ------------------------------------------------------------------------------------------------ */
static void tr_reader_arrive(uint64_t old) {           /* fetch_add(kReader) / successful CAS +kReader */
  __CPROVER_assume((uint32_t)old < BND - 1);          /* listed assumption: fewer than 2^30 readers registered at once */
  if ((uint32_t)(old >> 32) == 0) { g.hr++; me.hr = 1; } else { g.fl++; me.fl = 1; }
}
static void tr_writer_try(uint64_t old) {              /* CAS 0 -> kWriter */
  g.hw = 1; me.hw = 1;
}
static void tr_writer_arrive(uint64_t old) {           /* A1: fetch_add(kWriter) under the spinlock */
  __CPROVER_assert(me.lock, "C15: writers register under the spinlock");
  __CPROVER_assume((uint32_t)(old >> 32) < BND - 1);  /* listed assumption: fewer than 2^30 writers registered at once */
  if ((uint32_t)(old >> 32) == 0) {
    uint32_t r = (uint32_t)old;
    g.first_node = me.node;
    if (r == 0) { g.hw = 1; me.hw = 1; } else { g.wf = 1; g.mid = 1; g.rmid = r; me.mid = 1; me.rmid = r; }
  } else {
    g.wq++; me.parked_queue = 1;
    if (FIFO) g.prio += (g.rs == 0);
  }
}
static void tr_writer_debt(uint32_t old, uint32_t d) { /* A2: readers_wait.fetch_add(r) */
  __CPROVER_assert(me.mid && me.lock && d == me.rmid, "C15: the first writer books exactly the readers it saw at arrival");
  g.mid = 0; me.mid = 0;
  if (old == (uint32_t)-d) { g.wf = 0; g.hw = 1; me.hw = 1; } else { me.parked_first = 1; }
}
static void tr_reader_release(uint64_t old) {          /* U1: fetch_sub(kReader) */
  __CPROVER_assert(me.hr, "C15: only a shared holder releases a shared hold");
  g.hr--; me.hr = 0;
  if (old >= kWriter) { g.ul++; me.ul = 1; }
}
static void tr_reader_pay(uint32_t old) {              /* U2: readers_wait.fetch_sub(1) */
  __CPROVER_assert(me.ul, "C15: only a reader that released in front of a writer pays the debt");
  g.ul--; me.ul = 0;
  if (old == 1) { __CPROVER_assert(g.wf && !g.mid && !g.fpend, "C15: the last payment finds the first writer parked"); g.wf = 0; g.hw = 1; g_must_run = g.first_node; g_run_kind = 1; }
}
static void tr_writer_release_fast(uint64_t old) {     /* X: CAS kWriter -> 0 */
  __CPROVER_assert(me.hw, "C15: only the exclusive holder releases the exclusive hold");
  g.hw = 0; me.hw = 0;
}
static void tr_writer_release_slow(uint64_t old) {     /* S1: fetch_sub(kWriter) under the spinlock: the whole decision is linearised here */
  __CPROVER_assert(me.hw && me.lock, "C15: only the exclusive holder releases, under the spinlock");
  uint32_t w = (uint32_t)(old >> 32), r = (uint32_t)old;
  g.hw = 0; me.hw = 0; g.w_at_unlock = w;
  if (FIFO && g.prio != 0) { g.dec = DEC_WRITER; g.prio--; g.wq--; g.hw = 1; }
  else if (g.rs > 0) {
    if (w != 1) { g.dec = DEC_READERS_W; g.smid = 1; me.smid = 1; }
    else { g.dec = DEC_READERS; g.hr += g.rs; g.latent += g.rs; g.pass += r - g.rs; g.rs = 0; }
  }
  else if (!FIFO && w != 1) { g.dec = DEC_WRITER; g.wq--; g.hw = 1; }
  else { g.dec = DEC_PASS; g.pass += r - g.rs; }
}
static void tr_writer_release_store(uint32_t v) {      /* S2: readers_wait.store(_readers_size) */
  __CPROVER_assert(me.smid && me.lock && g.dec == DEC_READERS_W && v == g.rs, "C15: the next first writer waits for exactly the readers released now");
  g.smid = 0; me.smid = 0; g.wf = 1; g.wq--; g.hr += g.rs; g.latent += g.rs; g.rs = 0; g.fpend = 1;
  g.first_node = &wp[g.qh];
  if (FIFO) g.prio = g.wq;
}
/* ---- atomic operations: interference, the operation on the SC word, the guarantee, the invariant ----------------------------------- */
static void on_state_write(uint64_t o, uint64_t n, int mo, int kind);
static void on_rw_write(uint32_t o, uint32_t n, int mo, int kind);
/* C04 (order discipline, DESIGN 5.F): the step that makes this coroutine a holder must carry acquire, the step that gives a hold up must carry release */
#define MO_CHECK(bhw, bhr, mo) do { \
  if ((me.hw && !(bhw)) || (me.hr && !(bhr))) __CPROVER_assert(MO_ACQ(mo), "C04: MO take: the step that makes this coroutine a holder takes everything earlier holders released, needs acquire"); \
  if ((!me.hw && (bhw)) || (!me.hr && (bhr))) __CPROVER_assert(MO_REL(mo), "C04: MO give: the step that gives the hold up publishes the critical section, needs release"); } while (0)
static uint64_t A_load(uint64_t* p, int mo) { env(); return M._state; }
static uint64_t A_fetch_add(uint64_t* p, uint64_t d, int mo) { env(); uint64_t o = M._state; M._state = o + d; unsigned char bw = me.hw, br = me.hr; on_state_write(o, o + d, mo, RG_ADD); MO_CHECK(bw, br, mo); INV_ASSERT("after fetch_add(state)"); return o; }
static uint64_t A_fetch_sub(uint64_t* p, uint64_t d, int mo) { env(); uint64_t o = M._state; M._state = o - d; unsigned char bw = me.hw, br = me.hr; on_state_write(o, o - d, mo, RG_SUB); MO_CHECK(bw, br, mo); INV_ASSERT("after fetch_sub(state)"); return o; }
static int A_cas_strong(uint64_t* p, uint64_t* e, uint64_t d, int ms, int mf) {
  env(); uint64_t o = M._state;
  if (o == *e) { M._state = d; unsigned char bw = me.hw, br = me.hr; on_state_write(o, d, ms, RG_CAS); MO_CHECK(bw, br, ms); INV_ASSERT("after CAS(state)"); return 1; }
  *e = o; return 0;
}
static int A_cas_weak(uint64_t* p, uint64_t* e, uint64_t d, int ms, int mf) {
  env(); uint64_t o = M._state;
  if (o == *e && !nondet_bool()) { M._state = d; unsigned char bw = me.hw, br = me.hr; on_state_write(o, d, ms, RG_CAS); MO_CHECK(bw, br, ms); INV_ASSERT("after CAS(state)"); return 1; }
  *e = o; return 0;
}
static uint32_t A32_fetch_add(uint32_t* p, uint32_t d, int mo) { env(); uint32_t o = M._readers_wait; M._readers_wait = o + d; unsigned char bw = me.hw, br = me.hr; on_rw_write(o, o + d, mo, RG_ADD); MO_CHECK(bw, br, mo); INV_ASSERT("after fetch_add(readers_wait)"); return o; }
static uint32_t A32_fetch_sub(uint32_t* p, uint32_t d, int mo) { env(); uint32_t o = M._readers_wait; M._readers_wait = o - d; on_rw_write(o, o - d, mo, RG_SUB);
  __CPROVER_assert(MO_REL(mo), "C04: MO give: a reader paying the first writer's debt continues the release of its critical section towards that writer, needs release");
  if (o == d) __CPROVER_assert(MO_ACQ(mo), "C04: MO take: the last payment makes the first writer the holder: it takes what every earlier reader released, needs acquire"); INV_ASSERT("after fetch_sub(readers_wait)"); return o; }
static void A32_store(uint32_t* p, uint32_t d, int mo) { env(); uint32_t o = M._readers_wait; M._readers_wait = d; on_rw_write(o, d, mo, RG_STORE); INV_ASSERT("after store(readers_wait)"); }
/* abstract readers container */
static void READERS_PUSH(Node* n) { __CPROVER_assert(me.lock, "readers list only under the spinlock"); g.rl++; }
static int READERS_EMPTY(void) { __CPROVER_assert(me.lock, "readers list only under the spinlock"); return g.rl == 0; }
static void READERS_MOVE(void) { __CPROVER_assert(me.lock, "readers list only under the spinlock"); g.local = g.rl; g.rl = 0; }
'''

ROLES = {
    'none': 'static void on_state_write(uint64_t o, uint64_t n, int mo, int kind) { __CPROVER_assert(0, "C15: unexpected write of the state word"); }\n'
            'static void on_rw_write(uint32_t o, uint32_t n, int mo, int kind) { __CPROVER_assert(0, "C15: unexpected write of readers_wait"); }\nstatic void commit(void) {}\n',
}


def role(state=None, rw=None, commit=''):
    s = 'static void on_state_write(uint64_t o, uint64_t n, int mo, int kind) { %s }\n' % (state or '__CPROVER_assert(0, "C15: unexpected write of the state word");')
    s += 'static void on_rw_write(uint32_t o, uint32_t n, int mo, int kind) { %s }\n' % (rw or '__CPROVER_assert(0, "C15: unexpected write of readers_wait");')
    s += 'static void commit(void) { %s }\n' % commit
    return s


def if_init(name, text):
    """C++17 `if (decl; cond) {`  ->  `decl; if (cond) {`"""
    out = ''
    pos = 0
    n = 0
    for m in re.finditer(r'\bif\s*\(\s*((?:auto|std::uint32_t|std::uint64_t)\s+\w+\s*=)', text):
        if m.start() < pos:
            continue
        close = match_paren(text, text.index('(', m.start()))
        inner = text[text.index('(', m.start()) + 1:close]
        depth = 0
        semi = -1
        for i, ch in enumerate(inner):
            if ch in '([{':
                depth += 1
            elif ch in ')]}':
                depth -= 1
            elif ch == ';' and depth == 0:
                semi = i
                break
        if semi < 0:
            continue
        out += text[pos:m.start()] + inner[:semi].strip() + '; if (' + inner[semi + 1:].strip() + ')'
        pos = close + 1
        n += 1
    return out + text[pos:], n


def match_paren(text, i):
    depth = 0
    for j in range(i, len(text)):
        if text[j] == '(':
            depth += 1
        elif text[j] == ')':
            depth -= 1
            if depth == 0:
                return j
    raise ExtractionBreak('unbalanced parentheses')


def jobs(ctx):
    repo = ctx.repo
    props = ['C15']
    out = []
    src_text = read_source(repo, F)[1]
    if not re.search(r'kReader\s*=\s*std::uint64_t\{1\}\s*;', src_text) or not re.search(r'kWriter\s*=\s*kReader\s*<<\s*std::uint64_t\{32\}\s*;', src_text):
        raise ExtractionBreak('SharedMutexImpl: kReader / kWriter are no longer 1 and 1 << 32')
    WITHIN = r'struct\s+SharedMutexImpl\s*\{'
    SIG = {
        'TryLockSharedAwait': r'bool\s+TryLockSharedAwait\s*\(\s*\)\s*noexcept', 'TryLockAwait': r'bool\s+TryLockAwait\s*\(\s*\)\s*noexcept',
        'AwaitLockShared': r'bool\s+AwaitLockShared\s*\(\s*BaseCore\s*&\s*curr\s*\)\s*noexcept', 'AwaitLock': r'bool\s+AwaitLock\s*\(\s*BaseCore\s*&\s*curr\s*\)\s*noexcept',
        'TryLockShared': r'bool\s+TryLockShared\s*\(\s*\)\s*noexcept', 'TryLock': r'bool\s+TryLock\s*\(\s*\)\s*noexcept',
        'UnlockHereShared': r'void\s+UnlockHereShared\s*\(\s*\)\s*noexcept', 'UnlockHere': r'void\s+UnlockHere\s*\(\s*\)\s*noexcept',
        'Run': r'void\s+Run\s*\(\s*Node\s*\*\s*node\s*\)\s*noexcept', 'RunWriter': r'void\s+RunWriter\s*\(\s*\)\s*noexcept',
        'PassReaders': r'void\s+PassReaders\s*\(\s*std::uint64_t\s+s\s*\)\s*noexcept', 'RunReaders': r'void\s+RunReaders\s*\(\s*std::uint64_t\s+s\s*\)\s*noexcept',
        'SlowUnlock': r'void\s+SlowUnlock\s*\(\s*\)\s*noexcept',
    }
    B = {k: find_body(repo, F, v, 'SharedMutexImpl::' + k, within=WITHIN) for k, v in SIG.items()}
    PRE = [(r'std::lock_guard\s+lock\s*\{\s*_lock\s*\}\s*;', 'LOCK(); int lock_held = 1;', 0), (r'_lock\.lock\(\)\s*;', 'LOCK();', 0), (r'_lock\.unlock\(\)\s*;', 'UNLOCK();', 0),
           (r'_readers\.PushBack\(\s*curr\s*\)', 'READERS_PUSH(curr)', 0), (r'_readers\.Empty\(\)', 'READERS_EMPTY()', 0),
           (r'auto\s+readers\s*=\s*std::move\(\s*_readers\s*\)\s*;', 'READERS_MOVE();', 0), (r'&readers\.PopFront\(\)', 'READERS_POP()', 0), (r'readers\.Empty\(\)', 'READERS_LOCAL_EMPTY()', 0),
           (r'_writers_head\.next\s*=(?!=)\s*([^;]+);', r'NODE_SET_NEXT(WHEAD, \1);', 0), (r'_writers_head\.next\b', 'NODE_NEXT(WHEAD)', 0), (r'&_writers_head\b', 'WHEAD', 0),
           (r'(\b\w+)->next\s*=(?!=)\s*([^;]+);', r'NODE_SET_NEXT(\1, \2);', 0), (r'\bcurr\.next\s*=(?!=)\s*([^;]+);', r'NODE_SET_NEXT(&curr, \1);', 0), (r'(\b\w+)->next\b(?!\s*=[^=])', r'NODE_NEXT(\1)', 0),
           (r'return\s+(RunWriter|RunReaders)\(([^)]*)\)\s*;', r'{ \1(\2); return; }', 0),
           (r'auto\s*&\s*core\s*=\s*static_cast<BaseCore\s*&>\(\s*\*node\s*\)\s*;', 'Node* core = node;', 0), (r'core\._executor->Submit\(\s*core\s*\)', 'Submit(core->_executor, core)', 0)]

    def conv(name, lock_raii=False):
        t, n = if_init(name, B[name].text)
        c = Rewriter('SharedMutexImpl::' + name, pre=PRE, atomics=['_state', '_readers_wait'], refs=['curr'], methods=['Run', 'RunWriter', 'RunReaders', 'PassReaders', 'SlowUnlock', 'TryLockAwait'],
                     nomembers=['_lock', '_readers']).rewrite(t)
        c = re.sub(r'A_(\w+)\(&self->_readers_wait', r'A32_\1(&self->_readers_wait', c)
        c = c.replace('self->', 'M.')
        c = re.sub(r'\b(Run|RunWriter|RunReaders|PassReaders|SlowUnlock|TryLockAwait)\(self(?:,\s*)?', r'\1(', c)
        if lock_raii:
            # RAII lock_guard: released at every return
            c = re.sub(r'\breturn\s+([^;{}]+);', r'{ int vf_ret = (\1); UNLOCK(); return vf_ret; }', c)
        return c

    def head(fifo, role_text):
        return '#define FIFO %d\n' % fifo + COMMON + role_text + '/*HELPERS*/\n'

    KNOWN = set(SIG) | {'Submit', 'RunR', 'Run'}

    def helper_rw(nm, text, refs):
        t, _n = if_init(nm, text)
        c = Rewriter('SharedMutexImpl::' + nm, pre=PRE, atomics=['_state', '_readers_wait'], refs=['curr'] + refs, methods=['Run', 'RunWriter', 'RunReaders', 'PassReaders', 'SlowUnlock', 'TryLockAwait'],
                     nomembers=['_lock', '_readers']).rewrite(t)
        c = re.sub(r'A_(\w+)\(&self->_readers_wait', r'A32_\1(&self->_readers_wait', c)
        return c.replace('self->', 'M.')

    def add(name, fifo, body, src, enforce, replace=(), canaries=1, loops=False, entry='harness', expect=(r'postcondition',)):
        # private helpers of the class that the body calls and this job does not know are extracted with the same rules and verified inline (vf.cxx2c.auto_helpers)
        defs, hb = auto_helpers(repo, F, WITHIN, src.split('/*HELPERS*/', 1)[-1], KNOWN, helper_rw, ctype=lambda t: 'Node*' if t.rstrip('*&') in ('Node', 'BaseCore', 'auto') and t[-1:] in '*&' else ('Node' if t in ('Node', 'BaseCore') else None))
        src = src.replace('/*HELPERS*/', defs)
        body = list(body)
        out.append(Job('shared_mutex/%s.fifo%d' % (name, fifo), props, src, entry, enforce=enforce, replace=list(replace), funcs=[B[b] for b in body] + hb, canaries=canaries,
                       loop_contracts=loops, expect=list(expect), meta={'fn': name, 'fifo': fifo}, timeout=900))

    START = 'POOL_INIT(); env(); __CPROVER_assume(INV_A); g_runs = 0; g_must_run = 0; g_run_kind = 0;'
    NOTOK = 'me.enqueued == 0 && me.link_cleared == 0 && me.hr == 0 && me.fl == 0 && me.ul == 0 && me.hw == 0 && me.mid == 0 && me.smid == 0 && me.lock == 0 && me.parked_first == 0 && me.parked_queue == 0 && me.queued_reader == 0'
    FRAME = '__CPROVER_assigns(M, g, me, g_runs, g_must_run, g_run_kind)'
    for fifo in (0, 1):
        # ---- TryLockSharedAwait ------------------------------------------------------------------------------------------------------------
        r_ = role(state='__CPROVER_assert(kind == RG_ADD && n == o + kReader, "C15: a reader registers exactly one unit"); tr_reader_arrive(o);')
        src = head(fifo, r_) + '''int TryLockSharedAwait(void)
__CPROVER_requires(INV_A && ''' + NOTOK + ''')
''' + FRAME + '''
/* the reader always registers; it holds at once iff no writer was holding or waiting (C15: Try forms succeed only when compatible); otherwise it owns an in-flight registration that AwaitLockShared settles */
__CPROVER_ensures(INV_A && (RET ? (me.hr == 1 && me.fl == 0 && g.hw == 0) : (me.hr == 0 && me.fl == 1)))
{''' + conv('TryLockSharedAwait') + '''}
void harness(void) { ''' + START + ''' int r = TryLockSharedAwait(); if (r) VF_CANARY("acquired"); else VF_CANARY("must wait"); }
'''
        add('TryLockSharedAwait', fifo, ['TryLockSharedAwait'], src, 'TryLockSharedAwait', canaries=2)
        # ---- TryLockAwait / TryLock ----------------------------------------------------------------------------------------------------------
        r_ = role(state='__CPROVER_assert(kind == RG_CAS && o == 0 && n == kWriter, "C15: TryLock takes the mutex only from the free state"); tr_writer_try(o);')
        src = head(fifo, r_) + '''int TryLockAwait(void)
__CPROVER_requires(INV_A && ''' + NOTOK + ''')
''' + FRAME + '''
/* succeeds only from the completely free word (no holder of any kind, nobody waiting): afterwards this is the only holder */
__CPROVER_ensures(INV_A && (RET ? (me.hw == 1 && g.hw == 1 && g.hr == 0) : me.hw == 0) && me.hr == 0 && me.fl == 0)
{''' + conv('TryLockAwait') + '''}
int TryLock(void) __CPROVER_requires(INV_A && ''' + NOTOK + ''') ''' + FRAME + '''
__CPROVER_ensures(INV_A && (RET ? (me.hw == 1 && g.hw == 1 && g.hr == 0) : me.hw == 0) && me.hr == 0 && me.fl == 0)
{''' + conv('TryLock') + '''}
void harness(void) { ''' + START + ''' int r = TryLockAwait(); if (r) VF_CANARY("acquired"); else VF_CANARY("busy"); }
void h2(void) { ''' + START + ''' int r = TryLock(); if (r) VF_CANARY("acquired"); else VF_CANARY("busy"); }
'''
        add('TryLockAwait', fifo, ['TryLockAwait'], src, 'TryLockAwait', canaries=2)
        add('TryLock', fifo, ['TryLock'], src, 'TryLock', replace=['TryLockAwait'], canaries=2, entry='h2')
        # ---- TryLockShared (weak CAS loop) ------------------------------------------------------------------------------------------------------
        r_ = role(state='__CPROVER_assert(kind == RG_CAS && (uint32_t)(o >> 32) == 0 && n == o + kReader, "C15: TryLockShared registers only while no writer holds or waits"); tr_reader_arrive(o);')
        c = conv('TryLockShared')
        inv = '__CPROVER_assigns(s, M, g, me)\n__CPROVER_loop_invariant(INV_A && ' + NOTOK + ')'
        c = attach_loop_contracts('TryLockShared', c, [inv])
        src = head(fifo, r_) + '''int TryLockShared(void)
__CPROVER_requires(INV_A && ''' + NOTOK + ''')
''' + FRAME + '''
/* never registers in front of a writer: success <=> one CAS from a word without writers, and then it is a shared holder; failure leaves no trace */
__CPROVER_ensures(INV_A && (RET ? (me.hr == 1 && g.hw == 0) : me.hr == 0) && me.fl == 0 && me.hw == 0)
{''' + c + '''}
void harness(void) { ''' + START + ''' int r = TryLockShared(); if (r) VF_CANARY("acquired"); else VF_CANARY("writer present"); }
'''
        add('TryLockShared', fifo, ['TryLockShared'], src, 'TryLockShared', canaries=2, loops=True, expect=(r'postcondition', r'invariant after step|loop_invariant_step'))
        # ---- AwaitLockShared ----------------------------------------------------------------------------------------------------------------------
        r_ = role(commit='''if (M._readers_pass + 1 == g.pass && M._readers_size == g.rs && g.rl == g.rs) { __CPROVER_assert(me.fl, "C15: a credit is consumed only by a registered reader"); g.pass--; g.fl--; g.hr++; me.fl = 0; me.hr = 1; }
  else { __CPROVER_assert(M._readers_pass == g.pass && M._readers_size == g.rs + 1 && g.rl == g.rs + 1 && me.fl, "C15: a registered reader either consumes a credit or is queued"); g.rs++; g.fl--; me.fl = 0; me.queued_reader = 1; }''')
        src = head(fifo, r_) + '''int AwaitLockShared(Node* curr)
__CPROVER_requires(INV_A && me.fl == 1 && me.hr == 0 && me.ul == 0 && me.hw == 0 && me.mid == 0 && me.smid == 0 && me.lock == 0 && me.queued_reader == 0 && curr != 0)
''' + FRAME + '''
/* a registered reader either consumes one pass credit and holds at once (returns false), or is queued behind a writer that holds / waits (returns true) - and then (INV_A) an unlock is still to come that releases it */
__CPROVER_ensures(INV_A && me.fl == 0 && me.lock == 0 && (RET ? (me.queued_reader == 1 && me.hr == 0 && g.rs >= 1 && g.hw + g.wf + g.smid == 1) : (me.hr == 1 && g.hw == 0)))
{''' + conv('AwaitLockShared', lock_raii=True) + '''}
void harness(void) { ''' + START + ''' Node* c; int r = AwaitLockShared(c); if (r) VF_CANARY("queued"); else VF_CANARY("credit"); }
'''
        add('AwaitLockShared', fifo, ['AwaitLockShared'], src, 'AwaitLockShared', canaries=2)
        # ---- AwaitLock ------------------------------------------------------------------------------------------------------------------------------
        r_ = role(state='__CPROVER_assert(kind == RG_ADD && n == o + kWriter, "C15: a writer registers exactly one unit"); tr_writer_arrive(o);',
                  rw='__CPROVER_assert(kind == RG_ADD, "C15: the first writer adds its debt"); tr_writer_debt(o, n - o);')
        src = head(fifo, r_) + '''int AwaitLock(Node* curr)
__CPROVER_requires(INV_A && ''' + NOTOK + ''' && me.node == curr)
''' + FRAME + '''
/* registers under the spinlock. Nobody there: it is the first writer, books exactly the readers it saw and holds at once iff they have all released already; otherwise it is queued (FIFO: its priority over later readers is recorded).
   Returns false <=> it holds now (and is then the only holder); true <=> parked as first writer (debt >= 1: somebody will pay the last unit) or in the queue (behind a holder / first writer) */
__CPROVER_ensures(INV_A && me.lock == 0 && me.mid == 0 && (RET ? (me.hw == 0 && me.parked_first + me.parked_queue == 1) : (me.hw == 1 && g.hw == 1 && g.hr == 0 && me.parked_first + me.parked_queue == 0)))
__CPROVER_ensures(me.parked_queue ==> g.wq >= 1)
{''' + conv('AwaitLock', lock_raii=True) + '''}
void harness(void) { ''' + START + ''' me.idx = nondet_ulong(); __CPROVER_assume(me.idx < WP_MAX - 1); Node* c = &wp[me.idx]; me.node = c; int r = AwaitLock(c); if (!r) VF_CANARY("acquired"); else if (me.parked_first) VF_CANARY("first writer parked"); else VF_CANARY("queued"); }
'''
        add('AwaitLock', fifo, ['AwaitLock'], src, 'AwaitLock', canaries=3)
        # ---- UnlockHereShared --------------------------------------------------------------------------------------------------------------------------
        r_ = role(state='__CPROVER_assert(kind == RG_SUB && n == o - kReader, "C15: a reader releases exactly one unit"); tr_reader_release(o);',
                  rw='__CPROVER_assert(kind == RG_SUB && n == o - 1, "C15: a reader pays exactly one unit of the debt"); tr_reader_pay(o);')
        RUN = '''void Run(Node* node) __CPROVER_requires(node != 0 && node == g_must_run && g_runs == 0) __CPROVER_assigns(g_runs) __CPROVER_ensures(g_runs == 1);
'''
        src = head(fifo, r_) + RUN + '''void UnlockHereShared(void)
__CPROVER_requires(INV_A && me.hr == 1 && me.fl == 0 && me.ul == 0 && me.hw == 0 && me.mid == 0 && me.smid == 0 && me.lock == 0 && g_runs == 0 && g_must_run == 0)
''' + FRAME + '''
/* gives up exactly its own shared hold; if a writer was there it pays one unit of the debt, and the payment that brings the debt to zero hands the mutex to the first writer: that writer (and nobody else) is
   submitted exactly once, and at that moment no reader holds (C15: no lost wake-up of the first writer, no overlap) */
__CPROVER_ensures(INV_A && me.hr == 0 && me.ul == 0 && g_runs == (g_must_run != 0 ? 1 : 0) && (g_must_run != 0 ==> (g_run_kind == 1)))
{''' + conv('UnlockHereShared') + '''}
void harness(void) { ''' + START + ''' __CPROVER_assume(g.hr - g.latent >= 1); me.hr = 1; UnlockHereShared(); if (g_runs) VF_CANARY("woke the first writer"); else VF_CANARY("nothing to wake"); }
'''
        add('UnlockHereShared', fifo, ['UnlockHereShared'], src, 'UnlockHereShared', replace=['Run'], canaries=2)
        # ---- UnlockHere -----------------------------------------------------------------------------------------------------------------------------------
        r_ = role(state='__CPROVER_assert(kind == RG_CAS && o == kWriter && n == 0, "C15: the fast release is only taken when nobody else is registered"); tr_writer_release_fast(o);')
        src = head(fifo, r_) + '''unsigned g_slow;
void SlowUnlock(void) __CPROVER_requires(INV_A && me.hw == 1 && me.hr == 0 && me.fl == 0 && me.ul == 0 && me.mid == 0 && me.smid == 0 && me.lock == 0 && g_runs == 0 && g.latent < BND && g.local == 0 && g_slow == 0)
  __CPROVER_assigns(M, g, me, g_runs, g_must_run, g_slow) __CPROVER_ensures(g_slow == 1 && me.hw == 0 && me.lock == 0 && INV_A && g.dec == DEC_NONE);
void UnlockHere(void)
__CPROVER_requires(INV_A && me.hw == 1 && me.hr == 0 && me.fl == 0 && me.ul == 0 && me.mid == 0 && me.smid == 0 && me.lock == 0 && g_slow == 0 && g_runs == 0 && g.local == 0 && g.latent < BND)
__CPROVER_assigns(M, g, me, g_slow, g_runs, g_must_run)
/* releases exactly its own exclusive hold: directly when nobody else is registered (word == one writer), otherwise through SlowUnlock; the invariant holds again either way */
__CPROVER_ensures(me.hw == 0 && me.lock == 0 && INV_A)
{''' + conv('UnlockHere') + '''}
void harness(void) { ''' + START + ''' __CPROVER_assume(g.hw == 1); me.hw = 1; g_slow = 0; UnlockHere(); if (g_slow) VF_CANARY("slow"); else VF_CANARY("fast"); }
'''
        add('UnlockHere', fifo, ['UnlockHere'], src, 'UnlockHere', replace=['SlowUnlock'], canaries=2)
        # ---- SlowUnlock (decision) with RunWriter / RunReaders / PassReaders under the SAME contracts that their own jobs enforce ---------------------------------------
        QUEUE = 'g.qh <= g.qt && g.qt < WP_MAX'
        RW_REQ = ('me.lock && g.dec == DEC_WRITER && INV_A && g.hw == 1 && g_runs == 0 && g.mid == 0 && g.fpend == 0 && g.smid == 0 && me.smid == 0 && me.hw == 0\n'
                  '   && M._readers_size == g.rs && M._readers_pass == g.pass && g.rl == g.rs && g.local == 0 && M._writers_prio == g.prio + (FIFO ? 1 : 0) && g.qh < g.qt && g.qt < WP_MAX && g.qt - g.qh == g.wq + 1\n'
                  '   && M._writers_tail == &wp[g.qt - 1] && g_must_run == &wp[g.qh]')
        RW_ENS = 'g_runs == 1 && me.lock == 0 && INV_A && g.dec == DEC_NONE && me.hw == 0'
        RR_REQ = ('me.lock && (g.dec == DEC_READERS || g.dec == DEC_READERS_W) && INV_A && g.hw == 0 && (uint32_t)(s >> 32) == g.w_at_unlock && g_runs == 0 && g.latent < BND && g_lat0 < BND && g_n0 < BND\n'
                  '   && g.mid == 0 && g.fpend == 0 && g.smid == me.smid && me.hw == 0\n'
                  '   && (g.dec == DEC_READERS_W ? (me.smid && g.smid && g.w_at_unlock == g.wq + 1 && g.w_at_unlock != 1 && M._readers_size == g.rs && M._readers_pass == g.pass && g.rl == g.rs && g_n0 == g.rs && g_lat0 == g.latent && M._writers_prio == g.prio)\n'
                  '        : (g.w_at_unlock == 1 && !me.smid && M._readers_size == g_n0 && g.rl == g_n0 && g_n0 >= 1 && g.rs == 0 && g.latent == g_lat0 + g_n0 && g.latent <= g.hr && (uint32_t)s >= g_n0 && (uint32_t)s < BND\n'
                  '           && M._readers_pass < BND && g.pass == M._readers_pass + ((uint32_t)s - g_n0) && M._writers_prio == g.prio))\n'
                  '   && g.local == 0 && ' + QUEUE + ' && g.qt - g.qh == g.wq && M._writers_tail == (g.qh < g.qt ? &wp[g.qt - 1] : WHEAD)')
        RR_ENS = 'g_runs == g_n0 && g.latent == g_lat0 && me.lock == 0 && INV_A && g.local == 0 && g.dec == DEC_NONE && me.hw == 0 && me.smid == 0'
        PR_REQ = 'me.lock && (g.dec == DEC_PASS || g.dec == DEC_READERS) && (uint32_t)(s >> 32) == 1 && M._readers_size < BND && M._readers_pass < BND && (uint32_t)s >= M._readers_size && (uint32_t)s < BND'
        PR_ENS = 'M._readers_pass == OLD(M._readers_pass) + ((uint32_t)s - M._readers_size)'
        GH = 'uint32_t g_n0, g_lat0;\n'
        S1 = ('__CPROVER_assert(kind == RG_SUB && n == o - kWriter, "C15: a writer releases exactly one unit"); g_n0 = g.rs; g_lat0 = g.latent; tr_writer_release_slow(o); '
              'if (g.dec == DEC_WRITER) g_must_run = &wp[g.qh];')
        r_s1 = role(state=S1, commit='if (g.dec == DEC_PASS) g.dec = DEC_NONE;')
        src = head(fifo, GH + r_s1) + '''void RunWriter(void) __CPROVER_requires(''' + RW_REQ + ''') __CPROVER_assigns(M, g, me, g_runs) __CPROVER_ensures(''' + RW_ENS + ''');
void RunReaders(uint64_t s) __CPROVER_requires(''' + RR_REQ + ''') __CPROVER_assigns(M, g, me, g_runs) __CPROVER_ensures(''' + RR_ENS + ''');
void PassReaders(uint64_t s) __CPROVER_requires(''' + PR_REQ + ''') __CPROVER_assigns(M._readers_pass) __CPROVER_ensures(''' + PR_ENS + ''');
void SlowUnlock(void)
__CPROVER_requires(INV_A && me.hw == 1 && me.hr == 0 && me.fl == 0 && me.ul == 0 && me.mid == 0 && me.smid == 0 && me.lock == 0 && g_runs == 0 && g.latent < BND && g.local == 0)
__CPROVER_assigns(M, g, me, g_runs, g_must_run, g_n0, g_lat0)
/* under the spinlock the writer gives up its unit and takes exactly one of: next writer (FIFO: a writer that queued before every queued reader; otherwise only when no reader is queued), all queued readers,
   or nothing but pass credits for the readers registered meanwhile - the decision of the code must be the decision the property prescribes (g.dec, computed from the logical state at the release);
   whoever is granted is submitted exactly once (next writer: 1, readers: all that were queued), after the spinlock was dropped, and the invariant holds again */
__CPROVER_ensures(me.hw == 0 && me.lock == 0 && INV_A && g.dec == DEC_NONE)
{''' + conv('SlowUnlock') + '''}
void harness(void) { ''' + START + ''' __CPROVER_assume(g.hw == 1 && g.latent < BND); me.hw = 1; SlowUnlock(); if (g.hw) VF_CANARY("next writer"); else if (g_runs) VF_CANARY("readers"); else VF_CANARY("credits only"); }
'''
        add('SlowUnlock', fifo, ['SlowUnlock'], src, 'SlowUnlock', replace=['RunWriter', 'RunReaders', 'PassReaders'], canaries=3)
        # ---- PassReaders -----------------------------------------------------------------------------------------------------------------------------------------
        src = head(fifo, role()) + '''void PassReaders(uint64_t s)
__CPROVER_requires(''' + PR_REQ + ''')
__CPROVER_assigns(M._readers_pass)
/* every reader registered in the word that is not in the queue gets exactly one pass credit */
__CPROVER_ensures(''' + PR_ENS + ''')
{''' + conv('PassReaders') + '''}
void harness(void) { uint64_t s; me.lock = 1; PassReaders(s); VF_CANARY("end"); }
'''
        add('PassReaders', fifo, ['PassReaders'], src, 'PassReaders')
        # ---- RunWriter --------------------------------------------------------------------------------------------------------------------------------------------------
        RUNW = '''void Run(Node* node) __CPROVER_requires(node != 0 && node == g_must_run && g_runs == 0 && me.lock == 0) __CPROVER_assigns(g_runs) __CPROVER_ensures(g_runs == 1);
'''
        src = head(fifo, GH + role(commit='g.dec = DEC_NONE;')) + RUNW + '''void RunWriter(void)
/* state right after the linearisation point of SlowUnlock with decision "next writer": logical counters already updated, concrete queue / priority not yet */
__CPROVER_requires(''' + RW_REQ + ''')
__CPROVER_assigns(M, g, me, g_runs)
/* exactly the first queued writer is unlinked (the queue stays well formed), the spinlock is released first, then that writer is submitted exactly once */
__CPROVER_ensures(''' + RW_ENS + ''')
{''' + conv('RunWriter') + '''}
void harness(void) { ''' + START + ''' __CPROVER_assume(g.hw == 1); me.lock = 1; g.dec = DEC_WRITER; g_must_run = &wp[g.qh]; RunWriter(); VF_CANARY("end"); }
'''
        add('RunWriter', fifo, ['RunWriter'], src, 'RunWriter', replace=['Run'])
        # ---- RunReaders --------------------------------------------------------------------------------------------------------------------------------------------------
        r_ = role(rw='__CPROVER_assert(kind == RG_STORE, "C15: readers_wait is set for the next first writer"); tr_writer_release_store(n);', commit='g.dec = DEC_NONE; g.fpend = 0;')
        c = conv('RunReaders')
        inv = '__CPROVER_assigns(g.local, g.latent, g_runs)\n__CPROVER_loop_invariant(g.local >= 1 && g.local <= g_n0 && g_runs <= g_n0 && g.local + g_runs == g_n0 && g.latent == g_lat0 + g.local && me.lock == 0)'
        c = attach_loop_contracts('RunReaders', c, [inv])
        src = head(fifo, GH + r_) + '''Node* READERS_POP(void);
static int READERS_LOCAL_EMPTY(void) { return g.local == 0; }
void RunR(Node* node) __CPROVER_requires(node != 0 && g.local >= 1 && g.latent >= 1 && me.lock == 0) __CPROVER_assigns(g.local, g.latent, g_runs) __CPROVER_ensures(g.local == OLD(g.local) - 1 && g.latent == OLD(g.latent) - 1 && g_runs == OLD(g_runs) + 1);
Node g_some_reader;
Node* READERS_POP(void) { __CPROVER_assert(g.local >= 1, "readers list: PopFront of a non-empty list"); return &g_some_reader; }
#define Run(n) RunR(n)
void PassReaders(uint64_t s) __CPROVER_requires(''' + PR_REQ + ''') __CPROVER_assigns(M._readers_pass) __CPROVER_ensures(''' + PR_ENS + ''');
void RunReaders(uint64_t s)
/* state right after the linearisation point of SlowUnlock with decision "readers": `s` is the word the release saw */
__CPROVER_requires(''' + RR_REQ + ''')
__CPROVER_assigns(M, g, me, g_runs)
/* all queued readers (and only they) are released: each is submitted exactly once after the spinlock was dropped; if other writers wait, the next one becomes the first writer and waits for exactly these readers
   (FIFO: the remaining queued writers keep priority over readers arriving later); otherwise the readers registered meanwhile get their credits */
__CPROVER_ensures(''' + RR_ENS + ''')
{''' + c + '''}
void harness(void) { ''' + START + ''' __CPROVER_assume(g.hw == 0); me.lock = 1; uint64_t s; g.dec = nondet_bool() ? DEC_READERS : DEC_READERS_W; if (g.dec == DEC_READERS_W) me.smid = 1; RunReaders(s);
  if (g.w_at_unlock == 1) VF_CANARY("last writer"); else VF_CANARY("next first writer"); }
'''
        add('RunReaders', fifo, ['RunReaders'], src, 'RunReaders', replace=['RunR', 'PassReaders'], canaries=2, loops=True, expect=(r'postcondition', r'invariant after step|loop_invariant_step'))
    # ---- Run -----------------------------------------------------------------------------------------------------------------------------------------------------------------
    c = Rewriter('SharedMutexImpl::Run', pre=PRE).rewrite(B['Run'].text)
    src = '#include "vf.h"\ntypedef struct Node { struct Node* next; void* _executor; } Node;\n' + '''unsigned g_submits; void* g_to; Node* g_job;
void Submit(void* e, Node* job) __CPROVER_requires(e != 0 && g_submits == 0) __CPROVER_assigns(g_submits, g_to, g_job) __CPROVER_ensures(g_submits == 1 && g_to == e && g_job == job);
void Run(Node* node) __CPROVER_requires(__CPROVER_is_fresh(node, sizeof(*node)) && node->_executor != 0 && g_submits == 0) __CPROVER_assigns(g_submits, g_to, g_job)
/* a granted coroutine is handed exactly once to its own executor */
__CPROVER_ensures(g_submits == 1 && g_to == node->_executor && g_job == node)
{''' + c + '''}
void harness(void) { g_submits = 0; Node* n; Run(n); VF_CANARY("end"); }
'''
    out.append(Job('shared_mutex/Run', props, src, 'harness', enforce='Run', replace=['Submit'], funcs=[B['Run']], expect=[r'postcondition'], meta={'fn': 'Run'}))
    # ---- lemma: the constructed object satisfies the invariants ------------------------------------------------------------------------------------------------------------------
    init = {}
    for fld, pat in (('_state', r'yaclib_std::atomic_uint64_t\s+_state\s*=\s*(\w+)\s*;'), ('_writers_first', r'Node\s*\*\s*_writers_first\s*=\s*(\w+)\s*;'), ('_writers_tail', r'Node\s*\*\s*_writers_tail\s*=\s*(&_writers_head)\s*;'),
                     ('_writers_prio', r'std::uint32_t\s+_writers_prio\s*=\s*(\w+)\s*;'), ('_readers_wait', r'yaclib_std::atomic_uint32_t\s+_readers_wait\s*=\s*(\w+)\s*;'),
                     ('_readers_size', r'std::uint32_t\s+_readers_size\s*=\s*(\w+)\s*;'), ('_readers_pass', r'std::uint32_t\s+_readers_pass\s*=\s*(\w+)\s*;')):
        m = re.search(pat, src_text)
        if not m:
            raise ExtractionBreak('SharedMutexImpl: member initialiser of %s not found' % fld)
        init[fld] = m.group(1).replace('&_writers_head', 'WHEAD').replace('nullptr', '0')
    for fifo in (0, 1):
        src = head(fifo, role()) + 'void lemma_init(void) {\n  POOL_INIT();\n' + ''.join('  M.%s = %s;\n' % kv for kv in init.items()) + '''  /* ghost of a fresh mutex: nobody holds, waits or is registered */
  g.hw = g.hr = g.fl = g.ul = g.wf = g.mid = g.rmid = g.smid = g.wq = g.rs = g.pass = g.prio = g.latent = g.fpend = 0; g.rl = g.local = 0; g.qh = g.qt = 0; g.dec = DEC_NONE; g.first_node = 0;
  __CPROVER_assert(INV_A, "C15: the constructed mutex satisfies the invariant (postcondition of the constructor)");
  __CPROVER_assert(INV_L, "C15: ... and the coupling of its lock-protected fields (postcondition of the constructor)");
  VF_CANARY("end");
}
'''
        out.append(Job('shared_mutex/lemma.init.fifo%d' % fifo, props, src, 'lemma_init', enforce=None, replace=[], funcs=[], kind='lemma', expect=[r'postcondition of the constructor'], meta={'fn': 'member initialisers'}))
    return out


def replay(ctx, res, failed, rec):
    """the real SharedMutex of the tree under check (CORO build): reader / writer stress with overlap counters and a lost-wake-up watchdog"""
    from vf.replay import run_coro_driver
    return run_coro_driver(ctx, 'shared_mutex.cpp', [3000], timeout=150)
