"""Result<V, E> (include/yaclib/util/result.hpp):  C01, C02 (what "a Result equal to what was Set / what the step returned" stands on).

Every other unit models a Result by its *state* (Value / Exception / Error / Empty).  Here the class itself is put under contract against one abstraction: the alternative the
variant holds.  The order of the alternatives in `using Variant = std::variant<...>` and the enumerator values of `enum class ResultState` are extracted from the text on every run
(they are what State() couples), the constructors' member initialisers are translated mechanically (`std::in_place_type<X>` -> "holds X"), and the bodies of State / operator bool /
Value / Exception / Error / Get are extracted as usual.
"""
import re

from vf.cxx2c import Rewriter
from vf.extract import Body, ExtractionBreak, find_body, read_source, match_brace
from vf.runner import Job

F = 'include/yaclib/util/result.hpp'
TRUSTED = ['std::variant: index() is the position of the held alternative in the template argument list; std::get<T> on another alternative throws (std::terminate inside noexcept); '
           'construction with std::in_place_type<T> holds T; defaulted copy / move keep the alternative']
DROPPED = ['member-initialiser lists of the constructors are translated: `_result{std::in_place_type<X>, ...}` / `_result{std::monostate{}}` -> "holds X" (any other initialiser is an extraction break)',
           '`throw X{...}` / `std::rethrow_exception(e)` become "record the kind thrown and leave the function" (C++ unwinding out of Get)',
           'the const& / && overload pairs of Value / Exception / Error have the same bodies up to std::move; both are extracted and checked']
ASSUMPTIONS = []
DRIVERS = [('result_basic.cpp', [], 'default')]

ALTS = {'V': 'ALT_V', 'std::exception_ptr': 'ALT_EXC', 'E': 'ALT_E', 'std::monostate': 'ALT_EMPTY'}


def _class_text(repo):
    text = read_source(repo, F)[1]
    ms = list(re.finditer(r'class\s+(?:\[\[nodiscard\]\]\s*)?Result\s+final\s*\{', text))
    if len(ms) != 1:
        raise ExtractionBreak('Result: class head matched %d times' % len(ms))
    b = ms[0].end() - 1
    return text, text[b:match_brace(text, b) + 1]


def _enum(text):
    m = re.search(r'enum\s+class\s+(?:\[\[nodiscard\]\]\s*)?ResultState\s*:\s*unsigned\s+char\s*\{([^}]*)\}', text)
    if not m:
        raise ExtractionBreak('ResultState: enum definition (underlying type unsigned char) not found')
    vals, nxt = {}, 0
    for item in m.group(1).split(','):
        item = item.strip()
        if not item:
            continue
        mm = re.match(r'^(\w+)(?:\s*=\s*(\d+))?$', item)
        if not mm:
            raise ExtractionBreak('ResultState: enumerator outside the vocabulary: ' + item)
        v = int(mm.group(2)) if mm.group(2) is not None else nxt
        vals[mm.group(1)] = v
        nxt = v + 1
    if set(vals) != {'Value', 'Exception', 'Error', 'Empty'}:
        raise ExtractionBreak('ResultState: enumerators are %s' % sorted(vals))
    return vals


def _variant(cls):
    ms = re.findall(r'using\s+Variant\s*=\s*std::variant<([^;]*)>\s*;', cls)
    if len(ms) != 1:
        raise ExtractionBreak('Result: `using Variant = std::variant<...>;` matched %d times' % len(ms))
    alts = [' '.join(a.split()) for a in ms[0].split(',')]
    if sorted(alts) != sorted(ALTS):
        raise ExtractionBreak('Result: variant alternatives are %s' % alts)
    return alts


def _ctor_alt(text, cls, name, sig):
    """the alternative a constructor's member initialiser selects (mechanical translation of the initialiser); returns (alternative, initialiser text, Body record)"""
    ms = list(re.finditer(sig + r'\s*(?:noexcept(?:\s*\((?:[^()]|\([^()]*\))*\))?)?\s*:\s*_result\{', cls))
    if len(ms) != 1:
        raise ExtractionBreak('%s: constructor with a `_result{...}` initialiser matched %d times' % (name, len(ms)))
    o = ms[0].end() - 1
    c = match_brace(cls, o)
    init = ' '.join(cls[o + 1:c].split())
    mb = re.match(r'\s*\{\s*\}', cls[c + 1:])
    if not mb:
        raise ExtractionBreak('%s: the constructor body is not empty (outside the translation)' % name)
    off = text.index(cls)
    line0 = text.count('\n', 0, off + ms[0].start()) + 1
    line1 = text.count('\n', 0, off + c + 1 + mb.end()) + 1
    body = Body(F, 'Result::' + name, cls[ms[0].start():c + 1 + mb.end()], line0, line1, sig=' '.join(cls[ms[0].start():o].split()))
    m = re.match(r'^std::in_place_type<\s*([\w:]+)\s*>', init)
    if m and m.group(1) in ALTS:
        return ALTS[m.group(1)], init, body
    if re.match(r'^std::monostate\{\s*\}$', init):
        return 'ALT_EMPTY', init, body
    raise ExtractionBreak('%s: member initialiser outside the vocabulary: _result{%s}' % (name, init))


def jobs(ctx):
    repo = ctx.repo
    props = ['C01', 'C02']
    out = []
    text, cls = _class_text(repo)
    enum = _enum(text)
    alts = _variant(cls)
    idx = ' : '.join('(r)->held == %s ? %d' % (ALTS[a], i) for i, a in enumerate(alts)) + ' : 255'
    COMMON = '#include "vf.h"\nenum { ALT_V = 1, ALT_EXC, ALT_E, ALT_EMPTY };\n' + \
        ''.join('#define RS_%s %d   /* extracted from enum class ResultState */\n' % kv for kv in sorted(enum.items())) + \
        '/* extracted from `using Variant = std::variant<%s>` */\n#define VARIANT_INDEX(r) (%s)\n' % (', '.join(alts), idx) + r'''
typedef struct Result { unsigned char held; unsigned long payload; } Result;
#define WF(r) ((r)->held >= ALT_V && (r)->held <= ALT_EMPTY)
#define STATE_OF(r) ((r)->held == ALT_V ? RS_Value : (r)->held == ALT_EXC ? RS_Exception : (r)->held == ALT_E ? RS_Error : RS_Empty)
unsigned g_gets; unsigned char g_get_alt;
/* std::get<T>(variant): defined only when T is the held alternative (otherwise bad_variant_access, i.e. std::terminate in a noexcept function) */
unsigned long VARIANT_GET(Result* r, int alt) __CPROVER_requires(r->held == alt) __CPROVER_assigns(g_gets, g_get_alt) __CPROVER_ensures(RET == r->payload && g_gets == OLD(g_gets) + 1 && g_get_alt == alt);
'''
    F1 = '__CPROVER_is_fresh(self, sizeof(*self)) && WF(self)'

    def job(name, b, src, enforce, replace=(), canaries=1):
        out.append(Job('result/' + name, props, src, 'harness', enforce=enforce, replace=list(replace), funcs=b if isinstance(b, list) else [b], canaries=canaries,
                       expect=[r'postcondition'], meta={'fn': name}))

    within = r'class\s+(?:\[\[nodiscard\]\]\s*)?Result\s+final'
    state_contract = acc_contracts = ''
    # ---- State ---------------------------------------------------------------------------------------------------------------------------------
    def sec1():
        nonlocal state_contract
        b_state = find_body(repo, F, r'ResultState\s+State\s*\(\s*\)\s*const\s+noexcept', 'Result::State', within=within)
        # `_result.index()` is the variant's index; `ResultState{x}` converts the number to the enumeration (the number is what the contract speaks about); a named local for the index is fine
        c = Rewriter('Result::State', pre=[(r'_result\.index\(\)', 'VARIANT_INDEX(self)', 1), (r'ResultState\{((?:[^{}])*)\}', r'((unsigned char)(\1))', 1),
                                           (r'(?:const\s+)?auto\s+(\w+)\s*=', r'unsigned long \1 =', 0)], nomembers=['_result']).rewrite(b_state.text)
        state_contract = '''unsigned char State(Result* self)
__CPROVER_requires(%s)
__CPROVER_assigns()
/* C01, C02: the reported state names the alternative actually held: Value <=> V, Exception <=> exception_ptr, Error <=> E, Empty <=> monostate
   (couples the order of the variant alternatives with the enumerator values) */
__CPROVER_ensures(RET == STATE_OF(self))
''' % F1
        job('State', b_state, COMMON + state_contract + '{' + c + '}\nvoid harness(void) { Result* r; unsigned char s = State(r); if (s == RS_Value) VF_CANARY("value"); else if (s == RS_Empty) VF_CANARY("empty"); else VF_CANARY("failure"); }\n',
            'State', canaries=3)
    # ---- operator bool -------------------------------------------------------------------------------------------------------------------------
    def sec2():
        b_bool = find_body(repo, F, r'explicit\s+operator\s+bool\s*\(\s*\)\s*const\s+noexcept', 'Result::operator bool', within=within)
        c = Rewriter('Result::operator bool', methods=['State'], pre=[(r'ResultState::(\w+)', r'RS_\1', 1)]).rewrite(b_bool.text)
        job('operator_bool', b_bool, COMMON + state_contract + ';\nint OpBool(Result* self)\n__CPROVER_requires(' + F1 + ')\n__CPROVER_assigns()\n'
            '/* a Result is "true" exactly when it holds a value */\n__CPROVER_ensures(RET == (self->held == ALT_V))\n{' + c +
            '}\nvoid harness(void) { Result* r; if (OpBool(r)) VF_CANARY("value"); else VF_CANARY("no value"); }\n', 'OpBool', ['State'], canaries=2)
    # ---- Value / Exception / Error: both overloads ------------------------------------------------------------------------------------------------
    def sec3():
        nonlocal acc_contracts
        acc_contracts = ''
        for nm, ty, alt in (('Value', r'V', 'ALT_V'), ('Exception', r'std::exception_ptr', 'ALT_EXC'), ('Error', r'E', 'ALT_E')):
            bodies = [find_body(repo, F, ty.replace('::', r'::') + r'\s*&&\s*' + nm + r'\s*\(\s*\)\s*&&\s*noexcept', 'Result::%s() &&' % nm, within=within),
                      find_body(repo, F, r'const\s+' + ty + r'\s*&\s*' + nm + r'\s*\(\s*\)\s*const\s*&\s*noexcept', 'Result::%s() const&' % nm, within=within)]
            contract = '''unsigned long %s(Result* self)
/* accessor of one alternative: callable only on a Result that holds it (callers establish this: `.Value()` only after Ok / State / operator bool said so) */
__CPROVER_requires(__CPROVER_is_fresh(self, sizeof(*self)) && self->held == %s && g_gets == 0)
__CPROVER_assigns(g_gets, g_get_alt)
/* it reads exactly that alternative, once, and hands out its payload */
__CPROVER_ensures(RET == self->payload && g_gets == 1 && g_get_alt == %s)
''' % (nm, alt, alt)
            acc_contracts += contract.replace('__CPROVER_is_fresh(self, sizeof(*self)) && ', '') + ';\n'
            for k, b in enumerate(bodies):
                c = Rewriter(b.name, pre=[(r'std::get<\s*([\w:]+)\s*>\(\s*(?:std::move\(\s*_result\s*\)|_result)\s*\)', lambda m: 'VARIANT_GET(self, %s)' % ALTS.get(m.group(1), 'ALT_UNKNOWN_' + re.sub(r'\W', '_', m.group(1))), 1)],
                             nomembers=['_result']).rewrite(b.text)
                job('%s.%s' % (nm, ('rvalue', 'const_ref')[k]), b, COMMON + contract + '{' + c + '}\nvoid harness(void) { Result* r; g_gets = 0; %s(r); VF_CANARY("end"); }\n' % nm, nm, ['VARIANT_GET'])
    # ---- Get (behind Ok()): value, or throws what the state says -----------------------------------------------------------------------------------
    def sec4():
        b_get = find_body(repo, F, r'static\s+decltype\(auto\)\s+Get\s*\(\s*R\s*&&\s*r\s*\)', 'Result::Get', within=within)
        pre = [(r'r\.State\(\)', 'State(r)', 1), (r'ResultState::(\w+)', r'RS_\1', 1),
               (r'std::forward<R>\(\s*r\s*\)\.(Value|Exception|Error)\(\)', r'\1(r)', 1),
               (r'std::rethrow_exception\(\s*([^;]+)\)\s*;', r'{ g_thrown_payload = (\1); g_thrown = T_RETHROWN; return 0; }', 0),
               (r'throw\s+ResultError\{\s*([^;]+)\}\s*;', r'{ g_thrown_payload = (\1); g_thrown = T_RESULT_ERROR; return 0; }', 0),
               (r'throw\s+ResultEmpty\{\s*\}\s*;', r'{ g_thrown = T_RESULT_EMPTY; return 0; }', 0)]
        c = Rewriter('Result::Get', pre=pre, refs=[]).rewrite(b_get.text)
        src = COMMON + 'enum { T_NONE, T_RETHROWN, T_RESULT_ERROR, T_RESULT_EMPTY }; unsigned char g_thrown; unsigned long g_thrown_payload;\n' + \
            state_contract.replace(F1, 'WF(self)') + ';\n' + acc_contracts + '''unsigned long Get(Result* r)
__CPROVER_requires(__CPROVER_is_fresh(r, sizeof(*r)) && WF(r) && g_gets == 0 && g_thrown == T_NONE)
__CPROVER_assigns(g_gets, g_get_alt, g_thrown, g_thrown_payload)
/* C01, C02: Ok() / Get() hands out the value exactly when the Result holds one; otherwise it throws what the state says: the stored exception itself is rethrown, the stored
   error is wrapped in ResultError, an Empty Result throws ResultEmpty - never a value that is not there, never the wrong failure */
__CPROVER_ensures(r->held == ALT_V ==> (g_thrown == T_NONE && RET == r->payload))
__CPROVER_ensures(r->held == ALT_EXC ==> (g_thrown == T_RETHROWN && g_thrown_payload == r->payload))
__CPROVER_ensures(r->held == ALT_E ==> (g_thrown == T_RESULT_ERROR && g_thrown_payload == r->payload))
__CPROVER_ensures(r->held == ALT_EMPTY ==> g_thrown == T_RESULT_EMPTY)
{''' + c + '''}
void harness(void) { Result* r; g_gets = 0; g_thrown = T_NONE; Get(r);
  if (g_thrown == T_NONE) VF_CANARY("value"); else if (g_thrown == T_RETHROWN) VF_CANARY("exception"); else if (g_thrown == T_RESULT_ERROR) VF_CANARY("error"); else VF_CANARY("empty"); }
'''
        job('Get', b_get, src, 'Get', ['State', 'Value', 'Exception', 'Error'], canaries=4)
    # ---- Ok() overloads are exactly Get ------------------------------------------------------------------------------------------------------------
    def sec5():
        for k, (nm, sig) in enumerate((('Ok.rvalue', r'V\s*&&\s*Ok\s*\(\s*\)\s*&&'), ('Ok.const_ref', r'const\s+V\s*&\s*Ok\s*\(\s*\)\s*const\s*&'))):
            b = find_body(repo, F, sig, 'Result::' + nm, within=within)
            c = Rewriter('Result::' + nm, pre=[(r'Get\(\s*(?:std::move\(\s*\*this\s*\)|\*this)\s*\)', 'GetStub(self)', 1)]).rewrite(b.text)
            job(nm, b, COMMON + '''unsigned g_calls; Result* g_arg; unsigned long g_ret;
unsigned long GetStub(Result* r) __CPROVER_assigns(g_calls, g_arg) __CPROVER_ensures(g_calls == OLD(g_calls) + 1 && g_arg == r && RET == g_ret);
unsigned long Ok(Result* self) __CPROVER_requires(g_calls == 0) __CPROVER_assigns(g_calls, g_arg)
/* Ok() is Get on this very Result */
__CPROVER_ensures(g_calls == 1 && g_arg == self && RET == g_ret)
{''' + c + '}\nvoid harness(void) { Result* r; g_calls = 0; Ok(r); VF_CANARY("end"); }\n', 'Ok', ['GetStub'])
    for fn in (sec1, sec2, sec3, sec4, sec5):
        try:
            fn()
        except ExtractionBreak as e:      # one function outside the recipe leaves the other jobs of this unit decided
            ctx.breaks.append(str(e))
    # ---- constructors: which alternative each one selects ---------------------------------------------------------------------------------------------
    ctors = [('Result(in_place, args...)', r'Result\(\s*std::in_place_t\s*,\s*Args\s*&&\s*\.\.\.\s*args\s*\)', 'ALT_V', 'constructed in place from arguments: holds a value'),
             ('Result(exception_ptr)', r'Result\(\s*std::exception_ptr\s+exception\s*\)', 'ALT_EXC', 'constructed from an exception_ptr: holds that exception'),
             ('Result(E)', r'Result\(\s*E\s+error\s*\)', 'ALT_E', 'constructed from an error: holds that error'),
             ('Result(StopTag)', r'Result\(\s*StopTag\s+tag\s*\)', 'ALT_E', 'constructed from StopTag: holds the error made from it (a dropped Promise / cancelled step is an Error, not an exception, not Empty)'),
             ('Result()', r'Result\(\s*\)', 'ALT_EMPTY', 'default constructed: Empty')]
    for nm, sig, want, why in ctors:
        try:
            got, init, fb = _ctor_alt(text, cls, nm, sig)
        except ExtractionBreak as e:
            ctx.breaks.append(str(e))
            continue
        src = COMMON + '''void Ctor(Result* self)
__CPROVER_requires(__CPROVER_is_fresh(self, sizeof(*self)))
__CPROVER_assigns(self->held)
/* C01, C02: %s */
__CPROVER_ensures(self->held == %s)
{ self->held = %s; /* translated from the member initialiser `_result{%s}` */ }
void harness(void) { Result* r; Ctor(r); VF_CANARY("end"); }
''' % (why, want, got, init.replace('*/', '* /'))
        job('ctor.' + re.sub(r'\W+', '_', nm).strip('_'), fb, src, 'Ctor')
    return out


def replay(ctx, res, failed, rec):
    from vf.replay import run_driver
    return run_driver(ctx, 'result_basic.cpp', timeout=60)
