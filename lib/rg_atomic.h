/* Rely/guarantee instrumentation of atomic operations (DESIGN 5.B).

   The unit defines, before including this file,
     RG_WORD                                   the C type of the atomic word(s)
     void rg_env(RG_WORD* p)                   arbitrary interference allowed by the rely of the current role
                                               (havoc + __CPROVER_assume of the closed-form rely and of the invariant)
     void rg_read(RG_WORD* p, RG_WORD v, int mo)
                                               hook after an atomic read of v (plain load or failed CAS): ghost
                                               bookkeeping and C04 order obligations
     void rg_write(RG_WORD* p, RG_WORD old, RG_WORD new_, int mo, int kind)
                                               hook after an own atomic write old->new_: asserts the guarantee of
                                               the current role, applies the ghost update, asserts the invariant,
                                               asserts the C04 order obligations
   Every operation is: interference; the operation itself on the sequentially consistent word; hook.
   compare_exchange_weak may fail spuriously (non-deterministic branch).                                        */
#ifndef RG_ATOMIC_H
#define RG_ATOMIC_H

static inline RG_WORD A_load(RG_WORD* p, int mo) {
  rg_env(p);
  RG_WORD v = *p;
  rg_read(p, v, mo);
  return v;
}
static inline void A_store(RG_WORD* p, RG_WORD d, int mo) {
  rg_env(p);
  RG_WORD o = *p;
  *p = d;
  rg_write(p, o, d, mo, RG_STORE);
}
static inline RG_WORD A_exchange(RG_WORD* p, RG_WORD d, int mo) {
  rg_env(p);
  RG_WORD o = *p;
  *p = d;
  rg_write(p, o, d, mo, RG_XCHG);
  return o;
}
static inline _Bool A_cas_strong(RG_WORD* p, RG_WORD* e, RG_WORD d, int ms, int mf) {
  rg_env(p);
  RG_WORD o = *p;
  if (o == *e) {
    *p = d;
    rg_write(p, o, d, ms, RG_CAS);
    return 1;
  }
  *e = o;
  rg_read(p, o, mf);
  return 0;
}
static inline _Bool A_cas_weak(RG_WORD* p, RG_WORD* e, RG_WORD d, int ms, int mf) {
  rg_env(p);
  RG_WORD o = *p;
  if (o == *e && !nondet_bool()) {
    *p = d;
    rg_write(p, o, d, ms, RG_CAS);
    return 1;
  }
  *e = o;
  rg_read(p, o, mf);
  return 0;
}
#ifndef RG_NO_ARITH
static inline RG_WORD A_fetch_add(RG_WORD* p, RG_WORD d, int mo) {
  rg_env(p);
  RG_WORD o = *p;
  *p = o + d;
  rg_write(p, o, o + d, mo, RG_ADD);
  return o;
}
static inline RG_WORD A_fetch_sub(RG_WORD* p, RG_WORD d, int mo) {
  rg_env(p);
  RG_WORD o = *p;
  *p = o - d;
  rg_write(p, o, o - d, mo, RG_SUB);
  return o;
}
static inline RG_WORD A_fetch_or(RG_WORD* p, RG_WORD d, int mo) {
  rg_env(p);
  RG_WORD o = *p;
  *p = o | d;
  rg_write(p, o, o | d, mo, RG_OR);
  return o;
}
static inline RG_WORD A_fetch_and(RG_WORD* p, RG_WORD d, int mo) {
  rg_env(p);
  RG_WORD o = *p;
  *p = o & d;
  rg_write(p, o, o & d, mo, RG_AND);
  return o;
}
#endif
#endif
