/* Monitor invariants (DESIGN 5.C).  The unit defines before including:
     void mon_havoc(void* m)        havoc every field protected by m (concrete and ghost)
     MON_INV(m)                     the monitor invariant (expression)
     MON_RELY(m)                    what the current thread may additionally assume after re-acquiring (its own
                                    contribution to the ghost state was not undone by others); 1 if nothing
   g_lock_held counts the locks held by the current thread (0/1 per mutex here).                                */
#ifndef MONITOR_H
#define MONITOR_H
int g_lock_held;
unsigned long g_notify_one, g_notify_all;
static inline void MON_LOCK(void* m) {
  __CPROVER_assert(g_lock_held == 0, "monitor: no recursive locking");
  mon_havoc(m);
  __CPROVER_assume(MON_INV(m) && MON_RELY(m));
  g_lock_held = 1;
}
static inline void MON_UNLOCK(void* m) {
  __CPROVER_assert(g_lock_held == 1, "monitor: unlock only what is held");
  __CPROVER_assert(MON_INV(m), "monitor invariant holds when the lock is released");
#ifdef MON_ON_UNLOCK
  MON_ON_UNLOCK(m);   /* ghost snapshot of the protected state at the release */
#endif
  g_lock_held = 0;
}
static inline void MON_WAIT(void* m) {   /* cv.wait(lock): release, block (spurious wake-ups allowed), re-acquire */
  MON_UNLOCK(m);
  MON_LOCK(m);
}
#endif
