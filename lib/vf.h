/* Common definitions for every generated verification unit. */
#ifndef VF_H
#define VF_H
#include <stdbool.h>
#include <stddef.h>
#include <stdint.h>

enum { mo_relaxed = 0, mo_consume = 1, mo_acquire = 2, mo_release = 3, mo_acq_rel = 4, mo_seq_cst = 5 };
/* failure order derived from a single order argument of compare_exchange ([atomics.types.operations]) */
#define MO_FAIL(mo) ((mo) == mo_acq_rel ? mo_acquire : (mo) == mo_release ? mo_relaxed : (mo))
#define MO_ACQ(mo) ((mo) == mo_acquire || (mo) == mo_acq_rel || (mo) == mo_seq_cst)
#define MO_REL(mo) ((mo) == mo_release || (mo) == mo_acq_rel || (mo) == mo_seq_cst)

#define REPO_ASSERT(c) __CPROVER_assert((c), "repo YACLIB_ASSERT " #c)
#define MOVE(x) (x)
#define FWD(x) (x)
#define AS_CONST(x) (x)
#define RET __CPROVER_return_value
#define OLD(x) __CPROVER_old(x)
/* CBMC dereferences by value set, not by assumed equalities: this semantically empty statement (it re-assigns a pointer to the value it
   already has) tells the analysis that lv aliases p */
#define VF_ALIAS(lv, p) do { if ((lv) == (p)) (lv) = (p); } while (0)
#define VF_CANARY(tag) __CPROVER_assert(0, "VF_CANARY reachable: " tag)

/* kinds of atomic writes reported to the rely/guarantee hooks (rg_atomic.h) */
enum { RG_STORE, RG_XCHG, RG_CAS, RG_ADD, RG_SUB, RG_OR, RG_AND };

_Bool nondet_bool(void);
unsigned long nondet_ulong(void);
unsigned nondet_uint(void);
int nondet_int(void);
void* nondet_ptr(void);
#endif
