// Replay driver for C07/C05 obligations about Strand: runs the REAL yaclib::Strand over an instrumented
// underlying executor through every sequential schedule of {submit next job, let the underlying executor run
// one queued strand batch, stop the underlying executor} up to N jobs, including jobs that submit follow-up jobs
// from inside the strand. Checks: every job Called xor Dropped exactly once, calls in submission order, Drop only
// after the underlying executor was stopped, nothing left pending at quiescence.
// exit 1 = a schedule violates this on the real code.
#include <yaclib/exe/executor.hpp>
#include <yaclib/exe/job.hpp>
#include <yaclib/exe/strand.hpp>
#include <yaclib/util/helper.hpp>

#include <cstdio>
#include <deque>
#include <string>
#include <vector>

using namespace yaclib;

struct Under final : IExecutor {
  std::deque<Job*> q;
  bool stopped = false;
  Type Tag() const noexcept final {
    return Type::Custom;
  }
  bool Alive() const noexcept final {
    return !stopped;
  }
  void Submit(Job& j) noexcept final {
    if (stopped) {
      j.Drop();
    } else {
      q.push_back(&j);
    }
  }
  void IncRef() noexcept final {
  }
  void DecRef() noexcept final {
  }
  std::size_t GetRef() noexcept final {
    return 1;
  }
};

struct Rec {
  int calls = 0, drops = 0;
};
static std::vector<Rec> recs;
static std::vector<int> call_order;
static bool stopped_seen = false;
static bool bad = false;
static std::string why;

struct TJob final : Job {
  int id = 0;
  IExecutor* resubmit_to = nullptr;
  TJob* follow = nullptr;
  void Call() noexcept final {
    recs[id].calls++;
    call_order.push_back(id);
    if (follow != nullptr) {
      resubmit_to->Submit(*follow);
    }
  }
  void Drop() noexcept final {
    recs[id].drops++;
    if (!stopped_seen) {
      bad = true;
      why = "job dropped although the underlying executor never refused work";
    }
  }
  void IncRef() noexcept final {
  }
  void DecRef() noexcept final {
  }
  std::size_t GetRef() noexcept final {
    return 1;
  }
};

// schedule: string over {'s' submit next, 'r' run one queued batch, 'x' stop underlying}
static bool RunSchedule(const std::string& sch, int n, int follow_mask) {
  Under under;
  recs.assign(2 * n, Rec{});
  call_order.clear();
  stopped_seen = false;
  bad = false;
  why.clear();
  std::vector<int> submit_order;
  {
    IExecutorPtr strand = MakeStrand(IExecutorPtr{&under});
    std::vector<TJob> jobs(2 * n);
    for (int i = 0; i < 2 * n; ++i) {
      jobs[i].id = i;
    }
    for (int i = 0; i < n; ++i) {
      if (follow_mask & (1 << i)) {
        jobs[i].follow = &jobs[n + i];
        jobs[i].resubmit_to = strand.Get();
      }
    }
    int next = 0;
    auto run_one = [&] {
      if (!under.q.empty()) {
        Job* j = under.q.front();
        under.q.pop_front();
        if (under.stopped) {
          j->Drop();
        } else {
          j->Call();
        }
      }
    };
    for (char c : sch) {
      if (c == 's' && next < n) {
        submit_order.push_back(next);
        strand->Submit(jobs[next++]);
      } else if (c == 'r') {
        run_one();
      } else if (c == 'x') {
        under.stopped = true;
        stopped_seen = true;
      }
    }
    while (next < n) {
      submit_order.push_back(next);
      strand->Submit(jobs[next++]);
    }
    for (int guard = 0; guard < 100 && !under.q.empty(); ++guard) {
      run_one();
    }
    // expected order: submission order where a follow-up is submitted at the moment its parent runs
    int total = 0;
    for (int i = 0; i < 2 * n; ++i) {
      bool expected = i < n || ((follow_mask & (1 << (i - n))) && recs[i - n].calls == 1);
      int fin = recs[i].calls + recs[i].drops;
      total += fin;
      if (expected && fin != 1) {
        bad = true;
        why = "job " + std::to_string(i) + " finished " + std::to_string(fin) + " times (calls=" + std::to_string(recs[i].calls) +
              " drops=" + std::to_string(recs[i].drops) + ")";
      }
      if (!expected && fin != 0) {
        bad = true;
        why = "job " + std::to_string(i) + " finished although never submitted";
      }
    }
    // order: plain jobs relative to each other in submission order
    int last = -1;
    for (int id : call_order) {
      if (id < n) {
        if (id < last) {
          bad = true;
          why = "jobs called out of submission order";
        }
        last = id;
      }
    }
  }
  if (bad) {
    std::printf("schedule=%s n=%d follow_mask=%d : %s\n  call order:", sch.c_str(), n, follow_mask, why.c_str());
    for (int id : call_order) {
      std::printf(" %d", id);
    }
    std::printf("\n");
  }
  return !bad;
}

static int failures = 0;
static long runs = 0;
static void Enumerate(std::string& sch, int len, int n) {
  if (static_cast<int>(sch.size()) == len) {
    for (int mask = 0; mask < (1 << n); ++mask) {
      ++runs;
      if (!RunSchedule(sch, n, mask)) {
        if (++failures >= 3) {
          return;
        }
      }
    }
    return;
  }
  for (char c : {'s', 'r', 'x'}) {
    sch.push_back(c);
    Enumerate(sch, len, n);
    sch.pop_back();
    if (failures >= 3) {
      return;
    }
  }
}

int main() {
  for (int n = 1; n <= 3 && failures < 3; ++n) {
    for (int len = 1; len <= 6 && failures < 3; ++len) {
      std::string s;
      Enumerate(s, len, n);
    }
  }
  std::printf("%ld schedules run on the real Strand, %d failing\n", runs, failures);
  return failures ? 1 : 0;
}
