// Replay driver for C17 "re-seeding re-creates the initial engine state and the random count describes exactly that position":
// a run re-seeds in-process, records (random count) at some point and the values that follow; restoring that recorded pair
// with SetSeed + ForwardToFaultRandomCount must continue with exactly those values.  exit 1 = the continuation differs.
#include <fault/util.hpp>
#include <yaclib/fault/config.hpp>

#include <cstdint>
#include <cstdio>
#include <vector>

int main() {
  using yaclib::detail::GetRandNumber;
  yaclib::SetSeed(7);
  for (int i = 0; i < 5; ++i) {
    (void)GetRandNumber(1000);  // an earlier run in the same process
  }
  yaclib::SetSeed(7);  // "again in the same process after re-seeding"
  for (int i = 0; i < 5; ++i) {
    (void)GetRandNumber(1000);
  }
  const auto recorded = yaclib::fiber::GetFaultRandomCount();  // the recorded random count of the second run
  std::vector<std::uint64_t> next;
  for (int i = 0; i < 3; ++i) {
    next.push_back(GetRandNumber(1000));
  }
  // restore the recorded point, as documented: re-seed and forward to the recorded count
  yaclib::SetSeed(7);
  yaclib::fiber::ForwardToFaultRandomCount(recorded);
  int diff = 0;
  for (int i = 0; i < 3; ++i) {
    auto v = GetRandNumber(1000);
    std::fprintf(stderr, "draw %d after restore: %llu, original continuation: %llu\n", i, (unsigned long long)v, (unsigned long long)next[i]);
    diff += v != next[i];
  }
  std::fprintf(stderr, "recorded random count of the second run = %llu (5 draws were made since its SetSeed)\n", (unsigned long long)recorded);
  return diff ? 1 : 0;
}
