// Replay driver for C18 obligations: the REAL yaclib_std lock types in the FIBER backend, k fibers doing lock / yield / unlock
// rounds under the library's own seeded scheduler, for several seeds.  Oracle: never two incompatible holders; every fiber finishes
// (a fiber parked forever makes the run hang -> the caller's timeout reports it, or the detector below trips).
// usage: fiber_locks <scenario> ; exit 1 = violation observed on the real code.
#include <yaclib/fault/config.hpp>
#include <yaclib/fault/detail/fiber/scheduler.hpp>

#include <chrono>
#include <cstdio>
#include <cstdlib>
#include <string>
#include <vector>
#include <yaclib_std/chrono>
#include <yaclib_std/mutex>
#include <yaclib_std/shared_mutex>
#include <yaclib_std/thread>

using namespace std::chrono_literals;

static int g_excl = 0, g_shared = 0, g_bad = 0;
static void EnterExcl(const char* what) {
  if (g_excl != 0 || g_shared != 0) {
    ++g_bad;
    std::fprintf(stderr, "  VIOLATION %s: exclusive holder enters while excl=%d shared=%d\n", what, g_excl, g_shared);
  }
  ++g_excl;
}
static void LeaveExcl() {
  --g_excl;
}
static void EnterShared(const char* what) {
  if (g_excl != 0) {
    ++g_bad;
    std::fprintf(stderr, "  VIOLATION %s: shared holder enters while an exclusive holder is inside\n", what);
  }
  ++g_shared;
}
static void LeaveShared() {
  --g_shared;
}

// The first yaclib_std::thread created from the plain main thread runs the fiber scheduler inline, so the k contending fibers are
// created from inside one outer fiber.
template <typename Body>
static void RunFibers(int k, Body body) {
  yaclib_std::thread outer([k, &body] {
    std::vector<yaclib_std::thread> ts;
    ts.reserve(static_cast<std::size_t>(k));
    for (int i = 0; i < k; ++i) {
      ts.emplace_back([i, &body] {
        body(i);
      });
    }
    for (auto& t : ts) {
      t.join();
    }
  });
  outer.join();
}

static int Scenario(const std::string& s, unsigned seed) {
  yaclib::SetSeed(seed);
  yaclib::SetFaultFrequency(2);
  g_excl = g_shared = g_bad = 0;
  if (s == "recursive") {
    yaclib_std::recursive_mutex m;
    RunFibers(3, [&](int) {
      for (int r = 0; r < 3; ++r) {
        m.lock();
        EnterExcl("recursive_mutex::lock");
        yaclib_std::this_thread::yield();
        LeaveExcl();
        m.unlock();
      }
    });
  } else if (s == "shared_excl") {
    yaclib_std::shared_mutex m;
    RunFibers(3, [&](int) {
      for (int r = 0; r < 3; ++r) {
        m.lock();
        EnterExcl("shared_mutex::lock");
        yaclib_std::this_thread::yield();
        LeaveExcl();
        m.unlock();
      }
    });
  } else if (s == "shared_mixed") {
    yaclib_std::shared_mutex m;
    RunFibers(4, [&](int i) {
      for (int r = 0; r < 3; ++r) {
        if (i % 2 == 0) {
          m.lock();
          EnterExcl("shared_mutex::lock");
          yaclib_std::this_thread::yield();
          LeaveExcl();
          m.unlock();
        } else {
          m.lock_shared();
          EnterShared("shared_mutex::lock_shared");
          yaclib_std::this_thread::yield();
          LeaveShared();
          m.unlock_shared();
        }
      }
    });
  } else if (s == "timed") {
    yaclib_std::timed_mutex m;
    RunFibers(3, [&](int) {
      for (int r = 0; r < 3; ++r) {
        if (m.try_lock_for(50ms)) {
          EnterExcl("timed_mutex::try_lock_for");
          yaclib_std::this_thread::yield();
          LeaveExcl();
          m.unlock();
        }
      }
    });
  } else if (s == "recursive_timed") {
    yaclib_std::recursive_timed_mutex m;
    RunFibers(3, [&](int) {
      for (int r = 0; r < 3; ++r) {
        if (m.try_lock_for(50ms)) {
          EnterExcl("recursive_timed_mutex::try_lock_for");
          yaclib_std::this_thread::yield();
          LeaveExcl();
          m.unlock();
        }
      }
    });
  } else if (s == "shared_timed") {
    yaclib_std::shared_timed_mutex m;
    RunFibers(4, [&](int i) {
      for (int r = 0; r < 3; ++r) {
        if (i % 2 == 0) {
          if (m.try_lock_for(50ms)) {
            EnterExcl("shared_timed_mutex::try_lock_for");
            yaclib_std::this_thread::yield();
            LeaveExcl();
            m.unlock();
          }
        } else {
          if (m.try_lock_shared_for(50ms)) {
            EnterShared("shared_timed_mutex::try_lock_shared_for");
            yaclib_std::this_thread::yield();
            LeaveShared();
            m.unlock_shared();
          }
        }
      }
    });
  } else {
    std::fprintf(stderr, "unknown scenario\n");
    return 2;
  }
  return g_bad;
}

int main(int argc, char** argv) {
  std::string s = argc > 1 ? argv[1] : "recursive";
  yaclib::fault::Scheduler scheduler;
  yaclib::fault::Scheduler::Set(&scheduler);
  int bad_seeds = 0;
  for (unsigned seed = 1; seed <= 12; ++seed) {
    std::fprintf(stderr, "scenario=%s seed=%u\n", s.c_str(), seed);
    int bad = Scenario(s, seed);
    if (bad == 2 && false) {
      return 2;
    }
    bad_seeds += bad != 0;
  }
  std::fprintf(stderr, "%d of 12 seeds violated the lock contract\n", bad_seeds);
  return bad_seeds ? 1 : 0;
}
