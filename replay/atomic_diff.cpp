// Replay driver for C19: runs one operation of the REAL yaclib atomic (FIBER re-implementation, or the
// fault-injecting wrapper over std::atomic / over the FIBER implementation) next to std::atomic<T> on the
// operands of a CBMC counterexample and compares returned value, stored value and `expected`.
// usage: atomic_diff <layer: fiber|wrapper> <type> <op> <old-bits> <arg-bits> <expected-bits> [spurious]
// exit 1 = the real code disagrees with std::atomic (violation reproduced), 0 = agrees, 2 = usage
#include <atomic>
#include <cstddef>
#include <cstdint>
#include <type_traits>
// clang-format off
#include <yaclib/fault/detail/atomic.hpp>
#include <yaclib/fault/detail/atomic_flag.hpp>
#include <yaclib/fault/detail/fiber/atomic.hpp>
#include <yaclib/fault/detail/fiber/atomic_flag.hpp>

#include <atomic>
#include <cstdint>
#include <cstdio>
#include <cstdlib>
#include <cstring>
#include <string>

static bool g_spurious = false;
namespace yaclib {
void InjectFault() noexcept {
}
namespace detail {
bool ShouldFailAtomicWeak() {
  return g_spurious;
}
}  // namespace detail
}  // namespace yaclib

struct P1 {
  char b[1];
};
struct P4 {
  char b[4];
};
struct P24 {
  char b[24];
};

template <typename T>
static std::uint64_t Bits(T v) {
  std::uint64_t r = 0;
  std::memcpy(&r, &v, sizeof(T));
  return r;
}
template <typename T>
static T FromBits(std::uint64_t b) {
  T v;
  std::memcpy(&v, &b, sizeof(T));
  return v;
}

struct Out {
  std::uint64_t ret = 0, stored = 0, expected = 0;
  bool operator==(const Out& o) const {
    return ret == o.ret && stored == o.stored && expected == o.expected;
  }
};

static const auto kO = std::memory_order_seq_cst;

template <typename T>
struct IsPtr : std::false_type {};
template <typename U>
struct IsPtr<U*> : std::true_type {};

// operator=(T) of the yaclib classes is hidden by the implicitly declared copy assignment of the derived
// class (a compile-time difference to std::atomic, not a run-time one): reach it through the base.
template <typename T>
static T Assign(std::atomic<T>& a, T d) {
  return a = d;
}
template <typename T>
static T Assign(yaclib::detail::fiber::Atomic<T>& a, T d) {
  return static_cast<yaclib::detail::fiber::AtomicWait<T>&>(a) = d;
}
template <typename Impl, typename T>
static T Assign(yaclib::detail::Atomic<Impl, T>& a, T d) {
  return static_cast<yaclib::detail::AtomicBase<Impl, T>&>(a) = d;
}

// Under the FIBER backend the wrapper's operator=(T) does not compile at all (Impl::operator= resolves to the
// implicit copy assignment and the result needs fiber::AtomicBase::operator T(), which is ill-formed), so it
// cannot misbehave at run time; the replay uses store() there.
template <typename T>
static T Assign(yaclib::detail::Atomic<yaclib::detail::fiber::Atomic<T>, T>& a, T d) {
  a.store(d);
  return d;
}

template <typename A, typename T>
static bool Apply(const std::string& op, T old, std::uint64_t argbits, T exp, Out& out) {
  A a{old};
  T e = exp;
  using D = std::conditional_t<IsPtr<T>::value, std::ptrdiff_t, T>;
  D arg;
  if constexpr (IsPtr<T>::value) {
    arg = static_cast<std::ptrdiff_t>(argbits);
  } else {
    arg = FromBits<T>(argbits);
  }
  T desired;
  if constexpr (IsPtr<T>::value) {
    desired = old + 1;
  } else {
    desired = FromBits<T>(argbits);
  }
  T r{};
  bool rb = false, isbool = false;
  bool known = true;
  bool hasret = true;
  if (op == "store") {
    a.store(desired, kO);
    hasret = false;
  } else if (op == "load") {
    r = a.load(kO);
  } else if (op == "assign") {
    r = Assign(a, desired);
  } else if (op == "exchange") {
    r = a.exchange(desired, kO);
  } else if (op == "cas_weak4") {
    rb = a.compare_exchange_weak(e, desired, kO, kO); isbool = true;
  } else if (op == "cas_weak3") {
    rb = a.compare_exchange_weak(e, desired, kO); isbool = true;
  } else if (op == "cas_strong4" || op == "cas_helper") {
    rb = a.compare_exchange_strong(e, desired, kO, kO); isbool = true;
  } else if (op == "cas_strong3") {
    rb = a.compare_exchange_strong(e, desired, kO); isbool = true;
  } else {
    known = false;
  }
  if constexpr (!std::is_same_v<T, bool>) {
    if (!known) {
      known = true;
      if (op == "fetch_add") {
        r = a.fetch_add(arg, kO);
      } else if (op == "fetch_sub") {
        r = a.fetch_sub(arg, kO);
      } else if (op == "add_assign") {
        r = (a += arg);
      } else if (op == "sub_assign") {
        r = (a -= arg);
      } else {
        known = false;
      }
    }
    if constexpr (!std::is_floating_point_v<T>) {
      if (!known) {
        known = true;
        if (op == "preinc") {
          r = ++a;
        } else if (op == "postinc") {
          r = a++;
        } else if (op == "predec") {
          r = --a;
        } else if (op == "postdec") {
          r = a--;
        } else {
          known = false;
        }
      }
    }
    if constexpr (std::is_integral_v<T>) {
      if (!known) {
        known = true;
        if (op == "fetch_and") {
          r = a.fetch_and(arg, kO);
        } else if (op == "fetch_or") {
          r = a.fetch_or(arg, kO);
        } else if (op == "fetch_xor") {
          r = a.fetch_xor(arg, kO);
        } else if (op == "and_assign") {
          r = (a &= arg);
        } else if (op == "or_assign") {
          r = (a |= arg);
        } else if (op == "xor_assign") {
          r = (a ^= arg);
        } else {
          known = false;
        }
      }
    }
  }
  if (!known) {
    return false;
  }
  out.ret = isbool ? (rb ? 1 : 0) : (hasret ? Bits(r) : 0);
  out.stored = Bits(a.load(kO));
  out.expected = Bits(e);
  return true;
}

template <typename T>
static int Run(const std::string& layer, const std::string& op, std::uint64_t oldb, std::uint64_t argb, std::uint64_t expb) {
  static T* dummy = nullptr;
  (void)dummy;
  T old, exp;
  static char arena[1 << 16];
  if constexpr (IsPtr<T>::value) {
    old = reinterpret_cast<T>(arena + (1 << 15));
    exp = (expb == oldb) ? old : old + 3;
  } else {
    old = FromBits<T>(oldb);
    exp = FromBits<T>(expb);
  }
  Out ref, fib, wstd, wfib;
  if (!Apply<std::atomic<T>, T>(op, old, argb, exp, ref)) {
    std::printf("unknown op %s\n", op.c_str());
    return 2;
  }
  int bad = 0;
  auto show = [&](const char* name, const Out& o) {
    bool same = o == ref;
    // a spurious weak failure is allowed by std: returns false, expected = current, nothing stored
    if (!same && g_spurious && op.rfind("cas_weak", 0) == 0) {
      same = o.ret == 0 && o.stored == Bits(old) && o.expected == Bits(old);
    }
    std::printf("%-28s ret=%#llx stored=%#llx expected=%#llx %s\n", name, (unsigned long long)o.ret, (unsigned long long)o.stored,
                (unsigned long long)o.expected, same ? "" : "<-- differs from std::atomic");
    bad += !same;
  };
  std::printf("op=%s old=%#llx arg=%#llx expected=%#llx spurious=%d\n", op.c_str(), (unsigned long long)Bits(old),
              (unsigned long long)argb, (unsigned long long)Bits(exp), (int)g_spurious);
  show("std::atomic<T>", ref);
  if (layer == "fiber") {
    Apply<yaclib::detail::fiber::Atomic<T>, T>(op, old, argb, exp, fib);
    show("fiber::Atomic<T>", fib);
  } else {
    Apply<yaclib::detail::Atomic<std::atomic<T>, T>, T>(op, old, argb, exp, wstd);
    show("Atomic<std::atomic<T>,T>", wstd);
    Apply<yaclib::detail::Atomic<yaclib::detail::fiber::Atomic<T>, T>, T>(op, old, argb, exp, wfib);
    show("Atomic<fiber::Atomic<T>,T>", wfib);
  }
  return bad ? 1 : 0;
}

template <typename F, typename S>
static int RunFlag(const std::string& op, bool old) {
  F f;
  S s;
  if (old) {
    f.test_and_set(kO);
    s.test_and_set(kO);
  } else {
    f.clear(kO);
    s.clear(kO);
  }
  bool rf = false, rs = false;
  if (op == "clear") {
    f.clear(kO);
    s.clear(kO);
  } else if (op == "test_and_set") {
    rf = f.test_and_set(kO);
    rs = s.test_and_set(kO);
  } else {
    return 2;
  }
  bool af = f.test_and_set(kO), as = s.test_and_set(kO);
  std::printf("flag op=%s old=%d: yaclib ret=%d after=%d | std ret=%d after=%d\n", op.c_str(), old, rf, af, rs, as);
  return (rf != rs || af != as) ? 1 : 0;
}

static std::uint64_t Parse(const char* s) {
  std::string t = s;
  if (t == "TRUE" || t == "true") {
    return 1;
  }
  if (t == "FALSE" || t == "false") {
    return 0;
  }
  if (t.rfind("0b", 0) == 0) {
    return std::strtoull(t.c_str() + 2, nullptr, 2);
  }
  return std::strtoull(t.c_str(), nullptr, 0);
}

int main(int argc, char** argv) {
  if (argc < 7) {
    std::printf("usage\n");
    return 2;
  }
  std::string layer = argv[1], type = argv[2], op = argv[3];
  std::uint64_t o = Parse(argv[4]), a = Parse(argv[5]), e = Parse(argv[6]);
  g_spurious = argc > 7 && std::atoi(argv[7]) != 0;
  if (op == "clear" || op == "test_and_set" || op == "test") {
    if (layer == "fiber") {
      return RunFlag<yaclib::detail::fiber::AtomicFlag, std::atomic_flag>(op, o != 0);
    }
    int r1 = RunFlag<yaclib::detail::AtomicFlag<std::atomic_flag>, std::atomic_flag>(op, o != 0);
    int r2 = RunFlag<yaclib::detail::AtomicFlag<yaclib::detail::fiber::AtomicFlag>, std::atomic_flag>(op, o != 0);
    return r1 | r2;
  }
#define T_(name, ty) \
  if (type == name)  \
    return Run<ty>(layer, op, o, a, e);
  T_("bool", bool)
  T_("int8", std::int8_t) T_("uint8", std::uint8_t) T_("int16", std::int16_t) T_("uint16", std::uint16_t)
  T_("int32", std::int32_t) T_("uint32", std::uint32_t) T_("int64", std::int64_t) T_("uint64", std::uint64_t)
  T_("float", float) T_("double", double) T_("ptr1", P1*) T_("ptr4", P4*) T_("ptr24", P24*)
  std::printf("unknown type\n");
  return 2;
}
