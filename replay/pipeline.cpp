// Replay driver (C02): table of pipelines  source-state x callback-signature x return-kind  run on the REAL library, compared with the sequential reading
// of the property: a callback runs iff the incoming Result is of the kind it takes (Result callbacks always), otherwise the Result passes through unchanged;
// what it returns (value, Result, ready / later Future, Task, throw) becomes the step's Result.  exit 1 on the first difference.
#include <yaclib/async/contract.hpp>
#include <yaclib/async/future.hpp>
#include <yaclib/async/make.hpp>
#include <yaclib/async/run.hpp>
#include <yaclib/async/shared_contract.hpp>
#include <yaclib/async/shared_future.hpp>
#include <yaclib/exe/inline.hpp>
#include <yaclib/exe/manual.hpp>
#include <yaclib/lazy/make.hpp>
#include <yaclib/lazy/schedule.hpp>

#include <cstdio>
#include <stdexcept>
#include <string>

using yaclib::Result;
using yaclib::ResultState;
using yaclib::StopError;

static int g_bad = 0;
struct Out { ResultState st; int v; std::string what; };

static Out Read(Result<int> r) {
  Out o{r.State(), 0, ""};
  if (o.st == ResultState::Value) o.v = std::move(r).Value();
  if (o.st == ResultState::Exception) {
    try { std::rethrow_exception(std::move(r).Exception()); } catch (const std::exception& e) { o.what = e.what(); } catch (...) { o.what = "?"; }
  }
  return o;
}
static void Expect(const char* name, const Out& got, ResultState st, int v, const char* what, int called, int want_called) {
  bool ok = got.st == st && (st != ResultState::Value || got.v == v) && (st != ResultState::Exception || got.what == what) && called == want_called;
  if (!ok) {
    std::fprintf(stderr, "DIFF %-60s got state=%d v=%d what=%s called=%d, want state=%d v=%d what=%s called=%d\n", name, (int)got.st, got.v, got.what.c_str(), called, (int)st, v, what, want_called);
    ++g_bad;
  }
}
enum Src { kValue, kExc, kErr, kEmpty };
static yaclib::Future<int> Source(Src s) {
  switch (s) {
    case kValue: return yaclib::MakeFuture(1);
    case kExc: return yaclib::MakeFuture<int>(std::make_exception_ptr(std::runtime_error{"src"}));
    case kErr: return yaclib::MakeFuture<int>(yaclib::StopTag{});
    default: return yaclib::MakeFuture(1).ThenInline([](int) { return Result<int>{}; });
  }
}
static const char* kSrcName[] = {"Value", "Exception", "Error", "Empty"};

template <typename Attach>
static void Table(const char* mode, Attach attach) {
  for (int s = kValue; s <= kEmpty; ++s) {
    auto name = [&](const char* cb) { static std::string n; n = std::string(mode) + " " + kSrcName[s] + " | " + cb; return n.c_str(); };
    bool val = s == kValue, exc = s == kExc, err = s == kErr;
    auto pass = [&](const char* nm, const Out& got, int called) {  // the Result must pass through unchanged
      Expect(nm, got, s == kValue ? ResultState::Value : s == kExc ? ResultState::Exception : s == kErr ? ResultState::Error : ResultState::Empty, 1, "src", called, 0);
    };
    { int c = 0; auto o = Read(attach(Source((Src)s), [&](int x) { ++c; return x + 10; }));
      if (val) Expect(name("[](int)->int"), o, ResultState::Value, 11, "", c, 1); else pass(name("[](int)->int"), o, c); }
    { int c = 0; auto o = Read(attach(Source((Src)s), [&](int x) -> int { ++c; throw std::logic_error{"cb"}; }));
      if (val) Expect(name("[](int) throws"), o, ResultState::Exception, 0, "cb", c, 1); else pass(name("[](int) throws"), o, c); }
    { int c = 0; auto o = Read(attach(Source((Src)s), [&](int x) { ++c; return Result<int>{yaclib::StopTag{}}; }));
      if (val) Expect(name("[](int)->Result(Stop)"), o, ResultState::Error, 0, "", c, 1); else pass(name("[](int)->Result(Stop)"), o, c); }
    { int c = 0; auto o = Read(attach(Source((Src)s), [&](int x) { ++c; return yaclib::MakeFuture(x + 20); }));
      if (val) Expect(name("[](int)->Future(ready)"), o, ResultState::Value, 21, "", c, 1); else pass(name("[](int)->Future(ready)"), o, c); }
    { int c = 0; yaclib::Promise<int> later;
      auto f = attach(Source((Src)s), [&](int x) { ++c; auto [ff, pp] = yaclib::MakeContract<int>(); later = std::move(pp); return std::move(ff); }, [&] { if (later.Valid()) std::move(later).Set(33); });
      auto o = Read(std::move(f));
      if (val) Expect(name("[](int)->Future(later)"), o, ResultState::Value, 33, "", c, 1); else pass(name("[](int)->Future(later)"), o, c); }
    { int c = 0; auto o = Read(attach(Source((Src)s), [&](int x) { ++c; return yaclib::MakeTask(x + 40); }));
      if (val) Expect(name("[](int)->Task(ready)"), o, ResultState::Value, 41, "", c, 1); else pass(name("[](int)->Task(ready)"), o, c); }
    { int c = 0; auto o = Read(attach(Source((Src)s), [&](int x) { ++c; return yaclib::Schedule([x] { return x + 50; }); }));
      if (val) Expect(name("[](int)->Task(Schedule)"), o, ResultState::Value, 51, "", c, 1); else pass(name("[](int)->Task(Schedule)"), o, c); }
    { int c = 0; auto o = Read(attach(Source((Src)s), [&](Result<int> r) { ++c; return (int)r.State() + 100; }));
      Expect(name("[](Result)->int"), o, ResultState::Value, s + 100, "", c, 1); }
    { int c = 0; auto o = Read(attach(Source((Src)s), [&](std::exception_ptr) { ++c; return 60; }));
      if (exc) Expect(name("[](exception_ptr)->int"), o, ResultState::Value, 60, "", c, 1); else pass(name("[](exception_ptr)->int"), o, c); }
    { int c = 0; auto o = Read(attach(Source((Src)s), [&](StopError) { ++c; return 70; }));
      if (err) Expect(name("[](StopError)->int"), o, ResultState::Value, 70, "", c, 1); else pass(name("[](StopError)->int"), o, c); }
    { int c = 0; auto o = Read(attach(Source((Src)s), [&](StopError) -> int { ++c; throw std::logic_error{"rec"}; }));
      if (err) Expect(name("[](StopError) throws"), o, ResultState::Exception, 0, "rec", c, 1); else pass(name("[](StopError) throws"), o, c); }
    { int c = 0; auto o = Read(attach(Source((Src)s), [&](std::exception_ptr) { ++c; return yaclib::MakeFuture(80); }));
      if (exc) Expect(name("[](exception_ptr)->Future"), o, ResultState::Value, 80, "", c, 1); else pass(name("[](exception_ptr)->Future"), o, c); }
  }
}

int main() {
  auto nothing = [] {};
  Table("ThenInline", [&](yaclib::Future<int> f, auto cb, auto... after) { auto r = std::move(f).ThenInline(std::move(cb)); (after(), ...); return std::move(r).Get(); });
  auto manual = yaclib::MakeManual();
  auto& m = static_cast<yaclib::ManualExecutor&>(*manual);
  Table("Then(e)", [&](yaclib::Future<int> f, auto cb, auto... after) { auto r = std::move(f).Then(*manual, std::move(cb)); (void)m.Drain(); (after(), ...); (void)m.Drain(); return std::move(r).Get(); });
  Table("attached-before-Set", [&](yaclib::Future<int> f, auto cb, auto... after) {
    auto [f0, p0] = yaclib::MakeContract<int>();
    auto r = std::move(f0).ThenInline(std::move(cb));
    std::move(p0).Set(std::move(f).Get());
    (after(), ...);
    return std::move(r).Get(); });
  Table("lazy", [&](yaclib::Future<int> f, auto cb, auto... after) {
    auto src = std::move(f).Get();
    auto t = yaclib::Schedule(*manual, [src]() mutable { return std::move(src); }).ThenInline(std::move(cb));
    auto r = std::move(t).ToFuture();
    (void)m.Drain(); (after(), ...); (void)m.Drain();
    return std::move(r).Get(); });
  // a stopped executor: the step sees StopError instead of its input (value callbacks skipped, Result / error callbacks run)
  {
    int c = 0;
    auto o = Read(yaclib::MakeFuture(1).Then(yaclib::MakeInline(yaclib::StopTag{}), [&](int x) { ++c; return x; }).Get());
    Expect("stopped executor | [](int)", o, ResultState::Error, 0, "", c, 0);
    c = 0;
    o = Read(yaclib::MakeFuture(1).Then(yaclib::MakeInline(yaclib::StopTag{}), [&](Result<int> r) { ++c; return (int)r.State(); }).Get());
    Expect("stopped executor | [](Result)", o, ResultState::Value, (int)ResultState::Error, "", c, 1);
    c = 0;
    o = Read(yaclib::MakeFuture(1).Then(yaclib::MakeInline(yaclib::StopTag{}), [&](int x) { ++c; return x; }).ThenInline([&](std::exception_ptr) { return 5; }).ThenInline([&](StopError) { return 6; }).Get());
    Expect("stopped executor | [](int) | [](exception_ptr) | [](StopError)", o, ResultState::Value, 6, "", c, 0);
  }
  // a SharedFuture returned from a callback is flattened by COPY: later observers of the same SharedFuture still see the value (C06: never moved while shared)
  {
    auto [sf, sp] = yaclib::MakeSharedContract<std::string>();
    std::move(sp).Set(std::string(64, 'x'));
    auto a = yaclib::MakeFuture(1).ThenInline([sf = sf](int) { return sf; }).Get();
    auto b = yaclib::MakeFuture(2).ThenInline([sf = sf](int) { return sf; }).Get();
    auto c = sf.Get();
    bool ok = a.State() == ResultState::Value && b.State() == ResultState::Value && c.State() == ResultState::Value && std::move(a).Value().size() == 64 && std::move(b).Value().size() == 64 && std::move(c).Value().size() == 64;
    if (!ok) { std::fprintf(stderr, "DIFF returned SharedFuture<string>: a later observer saw a moved-from value\n"); ++g_bad; }
    // ... and a step attached to a SharedFuture reads it by const reference
    auto [sf2, sp2] = yaclib::MakeSharedContract<std::string>();
    auto d = sf2.ThenInline([](const std::string& v) { return v.size(); });
    auto e2 = sf2.ThenInline([](const std::string& v) { return v.size(); });
    std::move(sp2).Set(std::string(48, 'y'));
    if (std::move(d).Get().Ok() != 48 || std::move(e2).Get().Ok() != 48 || sf2.Get().Ok().size() != 48) { std::fprintf(stderr, "DIFF SharedFuture<string>.ThenInline x2: value consumed by an observer\n"); ++g_bad; }
  }
  (void)nothing;
  std::fprintf(stderr, "pipeline: %d differences\n", g_bad);
  return g_bad ? 1 : 0;
}
