// Replay driver for the obligations of unit `result` (Result<V, E>: state <-> held alternative, constructors, accessors, Ok()/Get).
// Each line is one postcondition of the contracts, evaluated on the real class.  exit != 0 = a postcondition is violated on the real code.
#include <yaclib/util/result.hpp>

#include <cstdio>
#include <exception>
#include <stdexcept>
#include <string>

static int failures = 0;
#define CHECK(c)                                                  \
  do {                                                            \
    if (!(c)) {                                                   \
      std::fprintf(stderr, "FAILED: %s (line %d)\n", #c, __LINE__); \
      ++failures;                                                 \
    }                                                             \
  } while (false)

int main() {
  using yaclib::Result;
  using yaclib::ResultState;
  {
    Result<int> r{std::in_place, 7};
    CHECK(r.State() == ResultState::Value);
    CHECK(static_cast<bool>(r));
    CHECK(std::as_const(r).Value() == 7);
    CHECK(std::as_const(r).Ok() == 7);
    CHECK(std::move(r).Ok() == 7);
  }
  {
    Result<int> r{std::make_exception_ptr(std::runtime_error{"x"})};
    CHECK(r.State() == ResultState::Exception);
    CHECK(!static_cast<bool>(r));
    CHECK(std::as_const(r).Exception() != nullptr);
    int kind = 0;
    try {
      (void)std::as_const(r).Ok();
    } catch (const std::runtime_error& e) {
      kind = std::string{e.what()} == "x" ? 1 : 2;
    } catch (...) {
      kind = 3;
    }
    CHECK(kind == 1);
  }
  {
    Result<int> r{yaclib::StopTag{}};
    CHECK(r.State() == ResultState::Error);
    CHECK(!static_cast<bool>(r));
    int kind = 0;
    try {
      (void)std::as_const(r).Ok();
    } catch (const yaclib::ResultError<yaclib::StopError>&) {
      kind = 1;
    } catch (...) {
      kind = 3;
    }
    CHECK(kind == 1);
  }
  {
    Result<int> r{yaclib::StopError{yaclib::StopTag{}}};
    CHECK(r.State() == ResultState::Error);
    (void)std::as_const(r).Error();
  }
  {
    Result<int> r;
    CHECK(r.State() == ResultState::Empty);
    CHECK(!static_cast<bool>(r));
    int kind = 0;
    try {
      (void)std::as_const(r).Ok();
    } catch (const yaclib::ResultEmpty&) {
      kind = 1;
    } catch (...) {
      kind = 3;
    }
    CHECK(kind == 1);
  }
  {
    Result<> r{std::in_place};
    CHECK(r.State() == ResultState::Value);
  }
  std::fprintf(stderr, failures ? "VIOLATION: %d postcondition(s) fail on the real class\n" : "ok\n", failures);
  return failures ? 1 : 0;
}
