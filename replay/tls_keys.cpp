// Replay driver (C18 "thread-local pointers are per fiber", finding F15): two yaclib_std thread-local pointer variables of DIFFERENT pointee types.  Each must be its own object: writing
// one never changes the other (in the same fiber), and a write in one fiber is not seen by another fiber.  On a defective tree both variables get key 0 (the key counter is a static of
// the class template, i.e. one counter per pointee type, while the per-fiber table is keyed by the number alone), so they alias.  exit != 0 = reproduced.
#include <yaclib/fault/detail/fiber/scheduler.hpp>
#include <yaclib_std/thread>
#include <yaclib_std/thread_local>

#include <cstdio>
#include <vector>

static YACLIB_THREAD_LOCAL_PTR(int) tls_a;
static YACLIB_THREAD_LOCAL_PTR(int) tls_a2;
static YACLIB_THREAD_LOCAL_PTR(std::vector<int>) tls_b;
static YACLIB_THREAD_LOCAL_PTR(double) tls_c;

int main() {
  yaclib::fault::Scheduler scheduler;
  yaclib::fault::Scheduler::Set(&scheduler);
  int failures = 0;
  yaclib_std::thread outer{[&] {
    int x = 1;
    tls_a = &x;
    if (tls_a2 != nullptr) { std::fprintf(stderr, "FAILED: a second int* variable changed with the first\n"); ++failures; }
    if (tls_b != nullptr) { std::fprintf(stderr, "FAILED: the vector<int>* variable reads non-null after only the int* variable was set (same key)\n"); ++failures; }
    if (tls_c != nullptr) { std::fprintf(stderr, "FAILED: the double* variable reads non-null after only the int* variable was set (same key)\n"); ++failures; }
    std::vector<int> v;
    tls_b = &v;
    if (tls_a.Get() != &x) { std::fprintf(stderr, "FAILED: setting the vector<int>* variable overwrote the int* variable\n"); ++failures; }
    yaclib_std::thread other{[&] {
      if (tls_a != nullptr || tls_b != nullptr) { std::fprintf(stderr, "FAILED: another fiber sees this fiber's thread-local pointer\n"); ++failures; }
    }};
    other.join();
  }};
  outer.join();
  std::fprintf(stderr, failures ? "VIOLATION: %d check(s) failed\n" : "ok\n", failures);
  return failures ? 1 : 0;
}
