// Replay driver for C09 "AllTuple<FirstFail>::Consume: .Value() only on an input that holds a value": WhenAll over two inputs of DIFFERENT
// value types (tuple form), FirstFail policy, both inputs fail.  The second failure must be ignored (and its input released); on a defective
// tree it reaches .Value() -> bad_variant_access inside noexcept -> std::terminate.  exit != 0 (abort) = reproduced.
#include <yaclib/async/contract.hpp>
#include <yaclib/async/when_all.hpp>

#include <cstdio>

int main() {
  auto [f1, p1] = yaclib::MakeContract<int>();
  auto [f2, p2] = yaclib::MakeContract<double>();
  auto all = yaclib::WhenAll(std::move(f1), std::move(f2));
  std::move(p1).Set(yaclib::StopTag{});
  std::fprintf(stderr, "first failure delivered, output ready=%d\n", (int)all.Ready());
  std::move(p2).Set(yaclib::StopTag{});
  std::fprintf(stderr, "second failure consumed without effect; output state=%d\n", (int)std::as_const(all).Touch().State());
  return std::as_const(all).Touch().State() == yaclib::ResultState::Error ? 0 : 1;
}
