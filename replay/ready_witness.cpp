// Replay driver for the obligation "Ready()/!Empty() returns true => the Result is stored" (C01/C06/C16).
// Sequential witnesses on the REAL library: a continuation is registered by someone else, the producer has
// not fulfilled yet, and the handle's Ready() is queried.  exit 1 = Ready() reported true before fulfilment.
#include <yaclib/algo/wait_group.hpp>
#include <yaclib/async/contract.hpp>
#include <yaclib/async/shared_contract.hpp>

#include <cstdio>

int main() {
  int bad = 0;
  {
    auto [f, p] = yaclib::MakeSharedContract<int>();
    auto f2 = f;
    f2.SubscribeInline([](const yaclib::Result<int>&) {
    });
    bool ready = f.Ready();
    std::printf("SharedFuture copy after another copy's SubscribeInline, promise not set: Ready() = %d\n", ready);
    bad += ready;
    std::move(p).Set(1);
    std::printf("after Set: Ready() = %d\n", f.Ready());
    bad += !f.Ready();
  }
  {
    auto [f, p] = yaclib::MakeContract<int>();
    yaclib::WaitGroup<> wg;
    wg.Attach(f);
    bool ready = f.Ready();
    std::printf("Future attached to a WaitGroup, promise not set: Ready() = %d\n", ready);
    bad += ready;
    std::move(p).Set(1);
    wg.Wait();
    std::printf("after Set: Ready() = %d\n", f.Ready());
    bad += !f.Ready();
  }
  return bad ? 1 : 0;
}
