// Replay driver (C02 / C12): a Task returned from a continuation must be started by that continuation and deliver the same Result as its eager twin.
// argv[1] = case number or "all"; exit 1 on a wrong value, a crash is a crash.
#include <yaclib/async/contract.hpp>
#include <yaclib/async/future.hpp>
#include <yaclib/async/make.hpp>
#include <yaclib/exe/manual.hpp>
#include <yaclib/lazy/make.hpp>
#include <yaclib/lazy/schedule.hpp>

#include <cstdio>
#include <cstdlib>
#include <cstring>

static int run_case(int which) {
  auto manual = yaclib::MakeManual();
  auto& m = static_cast<yaclib::ManualExecutor&>(*manual);
  int got = -1, want = -2;
  switch (which) {
    case 0: {
      auto f = yaclib::MakeFuture(1).ThenInline([](int x) { return yaclib::MakeTask(x + 1); });
      got = std::move(f).Get().Ok(); want = 2;
    } break;
    case 1: {
      auto f = yaclib::MakeFuture(1).ThenInline([](int x) { return yaclib::Schedule([x] { return x + 1; }); });
      got = std::move(f).Get().Ok(); want = 2;
    } break;
    case 2: {
      auto f = yaclib::MakeFuture(1).ThenInline([&](int x) { return yaclib::Schedule(*manual, [x] { return x + 1; }).ThenInline([](int y) { return y * 2; }); });
      if (f.Ready()) { std::fprintf(stderr, "case 2: ready before the executor ran the head\n"); return 1; }
      (void)m.Drain();
      got = std::move(f).Get().Ok(); want = 4;
    } break;
    case 3: {
      auto f = yaclib::MakeFuture(1).ThenInline([](int x) { return yaclib::LazyContract<int>([x](yaclib::Promise<int> p) { std::move(p).Set(x + 5); }); });
      got = std::move(f).Get().Ok(); want = 6;
    } break;
    case 4: {  // head whose functor itself returns a Future
      auto f = yaclib::MakeFuture(1).ThenInline([&](int x) { return yaclib::Schedule(*manual, [x] { return yaclib::MakeFuture(x + 7); }).ThenInline([](int y) { return y + 1; }); });
      (void)m.Drain();
      got = std::move(f).Get().Ok(); want = 9;
    } break;
    case 5: {  // head whose functor returns a Task
      auto f = yaclib::MakeFuture(1).ThenInline([&](int x) { return yaclib::Schedule(*manual, [x] { return yaclib::MakeTask(x + 3); }); });
      (void)m.Drain();
      got = std::move(f).Get().Ok(); want = 4;
    } break;
    case 6: {  // a connected promise after the contract core started: forwarding role of PromiseCore::Here
      auto [f0, p0] = yaclib::MakeContract<int>();
      auto f = yaclib::MakeFuture(1).ThenInline([&, ff = std::move(f0)](int) mutable {
        return yaclib::LazyContract<int>([ff = std::move(ff)](yaclib::Promise<int> p) mutable { std::move(ff).DetachInline([p = std::move(p)](yaclib::Result<int> r) mutable { std::move(p).Set(std::move(r)); }); });
      });
      std::move(p0).Set(11);
      got = std::move(f).Get().Ok(); want = 11;
    } break;
    case 7: {  // Task::ToFuture(e2): the head (and only it) is submitted to e2, which the chain inherits; the executor Schedule named receives nothing
      auto other = yaclib::MakeManual();
      auto& m2 = static_cast<yaclib::ManualExecutor&>(*other);
      auto f = yaclib::Schedule(*manual, [] { return 1; }).Then([](int x) { return x + 1; }).Then([](int x) { return x + 1; }).ToFuture(*other);
      std::size_t on_e1 = m.Drain(), on_e2 = m2.Drain();
      if (on_e1 != 0 || on_e2 != 3) { std::fprintf(stderr, "case 7: steps ran on the wrong executor (named at Schedule: %zu, named at ToFuture: %zu, want 0 and 3)\n", on_e1, on_e2); return 1; }
      got = std::move(f).Get().Ok(); want = 3;
    } break;
    case 8: {  // an explicit executor of a later step survives the start
      auto other = yaclib::MakeManual();
      auto& m2 = static_cast<yaclib::ManualExecutor&>(*other);
      auto f = yaclib::Schedule([] { return 1; }).Then(*manual, [](int x) { return x + 1; }).ToFuture(*other);
      std::size_t a = m2.Drain(), b = m.Drain();
      if (a != 1 || b != 1) { std::fprintf(stderr, "case 8: head on the start executor: %zu (want 1), Then(e, g) on e: %zu (want 1)\n", a, b); return 1; }
      got = std::move(f).Get().Ok(); want = 2;
    } break;
    case 9: {  // a never-started / cancelled Task runs no value callback, whatever its head is; a Result callback sees StopError
      int value_calls = 0, saw_stop = 0;
      { auto t = yaclib::MakeTask(1).ThenInline([&](int x) { ++value_calls; return x; }).ThenInline([&](yaclib::Result<int> r) { saw_stop += r.State() == yaclib::ResultState::Error; return 0; }); }
      { auto t = yaclib::Schedule([] { return 1; }).ThenInline([&](int x) { ++value_calls; return x; }).ThenInline([&](yaclib::Result<int> r) { saw_stop += r.State() == yaclib::ResultState::Error; return 0; }); std::move(t).Cancel(); }
      if (value_calls != 0 || saw_stop != 2) { std::fprintf(stderr, "case 9: abandoned tasks ran %d value callbacks (want 0), %d of 2 Result callbacks saw StopError\n", value_calls, saw_stop); return 1; }
      got = want = 0;
    } break;
    default: return 0;
  }
  std::fprintf(stderr, "case %d: got %d, want %d\n", which, got, want);
  return got == want ? 0 : 1;
}

int main(int argc, char** argv) {
  if (argc > 1 && std::strcmp(argv[1], "all") != 0) return run_case(std::atoi(argv[1]));
  int bad = 0;
  for (int i = 0; i <= 9; ++i) bad |= run_case(i);
  return bad;
}
