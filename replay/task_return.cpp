#include <yaclib/async/make.hpp>
#include <yaclib/async/future.hpp>
#include <yaclib/lazy/schedule.hpp>
#include <yaclib/lazy/make.hpp>
#include <yaclib/exe/manual.hpp>
#include <cstdio>
int main(int argc, char** argv) {
  int which = argc > 1 ? argv[1][0] - '0' : 0;
  auto manual = yaclib::MakeManual();
  if (which == 0) {
    auto f = yaclib::MakeFuture(1).ThenInline([](int x) { return yaclib::MakeTask(x + 1); });
    std::fprintf(stderr, "MakeTask inner: %d\n", std::move(f).Get().Ok());
  } else if (which == 1) {
    auto f = yaclib::MakeFuture(1).ThenInline([](int x) { return yaclib::Schedule([x] { return x + 1; }); });
    std::fprintf(stderr, "Schedule inner: %d\n", std::move(f).Get().Ok());
  } else if (which == 2) {
    auto f = yaclib::MakeFuture(1).ThenInline([&](int x) { return yaclib::Schedule(*manual, [x] { return x + 1; }).ThenInline([](int y) { return y * 2; }); });
    std::fprintf(stderr, "before drain ready=%d\n", (int)f.Ready());
    (void)static_cast<yaclib::ManualExecutor&>(*manual).Drain();
    std::fprintf(stderr, "Schedule(e)+Then inner: %d\n", std::move(f).Get().Ok());
  } else if (which == 3) {
    auto f = yaclib::MakeFuture(1).ThenInline([](int x) { return yaclib::LazyContract<int>([x](yaclib::Promise<int> p) { std::move(p).Set(x + 5); }); });
    std::fprintf(stderr, "LazyContract inner: %d\n", std::move(f).Get().Ok());
  }
  return 0;
}
