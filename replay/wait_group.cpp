// Replay driver for C16 (WaitGroup / OneShotEvent) on the real library: the group releases its waiters only after the count reached zero, i.e. after every attached / consumed future
// completed and every Add was matched by a Done - for every mix of already-ready and still-pending futures in one Attach / Consume call; later waiters pass at once.
#include <yaclib/algo/wait_group.hpp>
#include <yaclib/async/contract.hpp>
#include <yaclib/async/make.hpp>

#include <chrono>
#include <cstdio>
#include <vector>

static int g_bad = 0;
#define EXPECT(c, ...) do { if (!(c)) { std::fprintf(stderr, "FAIL: %s : ", #c); std::fprintf(stderr, __VA_ARGS__); std::fprintf(stderr, "\n"); ++g_bad; } } while (false)
using namespace std::chrono_literals;

int main() {
  for (int n = 1; n <= 5; ++n) {
    for (unsigned mask = 0; mask < (1u << n); ++mask) {  // bit i: future i is already fulfilled when it is attached
      for (int consume = 0; consume < 2; ++consume) {
        std::vector<yaclib::Future<int>> fs;
        std::vector<yaclib::Promise<int>> ps;
        for (int i = 0; i < n; ++i) { auto [f, p] = yaclib::MakeContract<int>(); fs.push_back(std::move(f)); ps.push_back(std::move(p)); }
        for (int i = 0; i < n; ++i) if (mask & (1u << i)) std::move(ps[i]).Set(i);
        yaclib::WaitGroup<> wg{1};
        if (consume) wg.Consume(fs.begin(), fs.end()); else wg.Attach(fs.begin(), fs.end());
        wg.Done();  // the group's own initial unit
        int pending = 0;
        for (int i = 0; i < n; ++i) pending += !(mask & (1u << i));
        EXPECT(wg.WaitFor(0ns) == (pending == 0), "n=%d mask=%u consume=%d: released with %d pending future(s)", n, mask, consume, pending);
        for (int i = n - 1; i >= 0; --i) {
          if (mask & (1u << i)) continue;
          EXPECT(!wg.WaitFor(0ns), "n=%d mask=%u consume=%d: released before future %d completed", n, mask, consume, i);
          std::move(ps[i]).Set(i);
        }
        EXPECT(wg.WaitFor(0ns), "n=%d mask=%u consume=%d: not released after everything completed (count=%zu)", n, mask, consume, wg.Count());
        EXPECT(wg.Count() == 0, "count=%zu after quiescence", wg.Count());
        wg.Wait();  // a waiter arriving after zero passes at once
        if (!consume) for (int i = 0; i < n; ++i) EXPECT(fs[i].Valid() && fs[i].Ready(), "attached future %d is valid and ready afterwards", i);
        if (g_bad > 5) break;
      }
    }
  }
  // Add / Done by hand, and reuse after Reset
  {
    yaclib::WaitGroup<> wg;
    wg.Add(3);
    wg.Done(2);
    EXPECT(!wg.WaitFor(0ns), "released with one unit outstanding");
    wg.Done();
    EXPECT(wg.WaitFor(0ns), "not released at zero");
    wg.Reset(1);
    EXPECT(!wg.WaitFor(0ns), "a reset group is closed again");
    wg.Done();
    EXPECT(wg.WaitFor(0ns), "reset group released at zero");
  }
  std::fprintf(stderr, "wait_group: %d failed expectations\n", g_bad);
  return g_bad ? 1 : 0;
}
