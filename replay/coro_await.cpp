// Replay driver for C13 on the REAL coroutine layer (CORO build of the tree under check, C++20).
// Every scenario checks: resumed exactly once, only after what was awaited happened, with its outcome, on the executor named; stopped executor => StopError and
// the frame (with live locals) destroyed exactly once.  argv[1] selects a scenario group ("all" by default); exit 1 + "FAIL: ..." on the first violated expectation.
#include <yaclib/async/contract.hpp>
#include <yaclib/async/future.hpp>
#include <yaclib/async/make.hpp>
#include <yaclib/async/run.hpp>
#include <yaclib/async/shared_contract.hpp>
#include <yaclib/async/shared_future.hpp>
#include <yaclib/coro/await.hpp>
#include <yaclib/coro/await_on.hpp>
#include <yaclib/coro/await_sticky.hpp>
#include <yaclib/coro/current_executor.hpp>
#include <yaclib/coro/future.hpp>
#include <yaclib/coro/on.hpp>
#include <yaclib/coro/shared_future.hpp>
#include <yaclib/coro/task.hpp>
#include <yaclib/coro/yield.hpp>
#include <yaclib/exe/inline.hpp>
#include <yaclib/exe/manual.hpp>
#include <yaclib/exe/submit.hpp>
#include <yaclib/lazy/make.hpp>
#include <yaclib/lazy/schedule.hpp>
#include <yaclib/runtime/fair_thread_pool.hpp>

#include <atomic>
#include <cstdio>
#include <cstdlib>
#include <cstring>
#include <stdexcept>
#include <string>
#include <thread>
#include <vector>

static int g_fail = 0;
#define EXPECT(c, ...)                                      \
  do {                                                      \
    if (!(c)) {                                             \
      std::fprintf(stderr, "FAIL: %s:%d %s : ", __func__, __LINE__, #c); \
      std::fprintf(stderr, __VA_ARGS__);                    \
      std::fprintf(stderr, "\n");                           \
      ++g_fail;                                             \
    }                                                       \
  } while (false)

struct Probe {
  static std::atomic<int> live, dtors;
  Probe() { live.fetch_add(1); }
  Probe(const Probe&) = delete;
  ~Probe() { live.fetch_sub(1); dtors.fetch_add(1); }
};
std::atomic<int> Probe::live{0}, Probe::dtors{0};

// a queue executor whose content can be inspected (ManualExecutor has no Size())
struct QExec final : yaclib::IExecutor {
  std::vector<yaclib::Job*> q;
  Type Tag() const noexcept final { return Type::Custom; }
  bool Alive() const noexcept final { return true; }
  void Submit(yaclib::Job& job) noexcept final { q.push_back(&job); }
  void IncRef() noexcept final {}
  void DecRef() noexcept final {}
  std::size_t Size() const { return q.size(); }
  std::size_t Drain() {
    std::size_t n = 0;
    while (!q.empty()) { auto* j = q.front(); q.erase(q.begin()); j->Call(); ++n; }
    return n;
  }
  QExec* Get() { return this; }
};
struct QPtr { QExec e; QExec& operator*() { return e; } QExec* Get() { return &e; } };
static QExec& M(QPtr& p) { return p.e; }
static QPtr MakeQ() { return {}; }

// ---- single future / shared future: before, after ---------------------------------------------------------------------------------
static void single() {
  for (int when = 0; when < 2; ++when) {
    for (int fail = 0; fail < 2; ++fail) {
      auto [f, p] = yaclib::MakeContract<int>();
      int resumes = 0;
      bool set = false;
      auto co = [&](yaclib::Future<int> ff) -> yaclib::Future<int> {
        Probe probe;
        try {
          int v = co_await std::move(ff);
          ++resumes;
          EXPECT(set, "resumed before the awaited promise was set (when=%d)", when);
          co_return v + 1;
        } catch (const std::runtime_error& e) {
          ++resumes;
          EXPECT(set && fail, "spurious failure");
          co_return -7;
        }
      };
      auto produce = [&, pp = &p] {
        set = true;
        if (fail) std::move(*pp).Set(std::make_exception_ptr(std::runtime_error{"x"})); else std::move(*pp).Set(41);
      };
      if (when == 0) produce();
      auto r = co(std::move(f));
      if (when == 1) { EXPECT(!r.Ready() && resumes == 0, "ran past an unfinished future"); produce(); }
      EXPECT(r.Ready(), "coroutine not complete");
      EXPECT(resumes == 1, "resumes=%d", resumes);
      EXPECT(std::move(r).Get().Ok() == (fail ? -7 : 42), "wrong outcome");
      EXPECT(Probe::live == 0, "frame local leaked / live=%d", Probe::live.load());
    }
  }
  // several coroutines on one SharedFuture, each resumed once with the value; the SharedFuture keeps the value
  {
    auto [sf, sp] = yaclib::MakeSharedContract<int>();
    int resumes[3] = {0, 0, 0};
    auto co = [&](int k) -> yaclib::Future<int> {
      int v = co_await sf;
      ++resumes[k];
      co_return v + k;
    };
    auto a = co(0), b = co(1);
    std::move(sp).Set(10);
    auto c = co(2);
    EXPECT(resumes[0] == 1 && resumes[1] == 1 && resumes[2] == 1, "shared resumes %d %d %d", resumes[0], resumes[1], resumes[2]);
    EXPECT(std::move(a).Get().Ok() == 10 && std::move(b).Get().Ok() == 11 && std::move(c).Get().Ok() == 12, "shared values");
    EXPECT(sf.Get().Ok() == 10, "shared future lost its value");
  }
}

// ---- Await(fs...) : all orders of completion vs suspension, futures stay valid and ready --------------------------------------------------
static void multi() {
  for (int mask = 0; mask < 8; ++mask) {  // bit i: promise i is set BEFORE the coroutine awaits
    for (int order = 0; order < 2; ++order) {
      auto [f0, p0] = yaclib::MakeContract<int>();
      auto [f1, p1] = yaclib::MakeContract<int>();
      auto [sf, sp] = yaclib::MakeSharedContract<int>();
      int done = 0, resumes = 0;
      auto set = [&, a = &p0, b = &p1, c = &sp](int i) {
        ++done;
        if (i == 0) std::move(*a).Set(1); else if (i == 1) std::move(*b).Set(2); else std::move(*c).Set(3);
      };
      for (int i = 0; i < 3; ++i) if (mask & (1 << i)) set(i);
      auto co = [&]() -> yaclib::Future<int> {
        co_await yaclib::Await(f0, f1, sf);
        ++resumes;
        EXPECT(done == 3, "Await resumed after %d of 3 completions (mask=%d)", done, mask);
        EXPECT(f0.Valid() && f1.Valid() && sf.Valid() && f0.Ready() && f1.Ready() && sf.Ready(), "awaited futures not valid+ready");
        co_return std::as_const(f0).Touch().Ok() + std::as_const(f1).Touch().Ok() + sf.Touch().Ok();
      };
      auto r = co();
      for (int k = 0; k < 3; ++k) {
        int i = order ? 2 - k : k;
        if (!(mask & (1 << i))) { EXPECT(resumes == 0, "resumed early"); set(i); }
      }
      EXPECT(resumes == 1 && r.Ready(), "Await resumes=%d", resumes);
      EXPECT(std::move(r).Get().Ok() == 6, "Await sum");
    }
  }
  // dynamic range, unique and shared
  for (int n = 2; n <= 5; ++n) {
    std::vector<yaclib::Future<int>> fs;
    std::vector<yaclib::Promise<int>> ps;
    for (int i = 0; i < n; ++i) { auto [f, p] = yaclib::MakeContract<int>(); fs.push_back(std::move(f)); ps.push_back(std::move(p)); }
    int resumes = 0, done = 0;
    auto co = [&]() -> yaclib::Future<> {
      co_await yaclib::Await(fs.begin(), fs.size());
      ++resumes;
      EXPECT(done == n, "range resumed after %d of %d", done, n);
      co_return {};
    };
    std::move(ps[0]).Set(0); ++done;
    auto r = co();
    for (int i = n - 1; i >= 1; --i) { EXPECT(resumes == 0, "range resumed early"); ++done; std::move(ps[i]).Set(i); }
    EXPECT(resumes == 1 && r.Ready(), "range resumes=%d", resumes);
  }
}

// ---- On / AwaitOn / AwaitSticky / Yield / CurrentExecutor: where it resumes ---------------------------------------------------------------
static void where() {
  auto e1 = MakeQ();
  auto e2 = MakeQ();
  {
    int stage = 0;
    auto co = [&]() -> yaclib::Future<int> {
      co_await yaclib::On(*e1);
      stage = 1;
      auto& cur = co_await yaclib::CurrentExecutor();
      EXPECT(&cur == e1.Get(), "CurrentExecutor after On(e1)");
      co_await yaclib::kYield;
      stage = 2;
      auto& cur2 = co_await yaclib::Yield();
      EXPECT(&cur2 == e1.Get(), "Yield() executor");
      stage = 3;
      co_await yaclib::On(*e2);
      stage = 4;
      co_return 5;
    };
    auto r = co();
    EXPECT(stage == 0 && M(e1).Size() == 1 && M(e2).Size() == 0, "On(e1) must submit exactly once to e1");
    EXPECT(M(e1).Drain() == 3, "On + kYield + Yield() resubmit to e1 once each");
    EXPECT(stage == 3 && M(e2).Size() == 1, "On(e2) must submit exactly once to e2 (stage=%d)", stage);
    EXPECT(M(e2).Drain() == 1 && stage == 4 && r.Ready(), "after e2");
    EXPECT(std::move(r).Get().Ok() == 5, "value");
  }
  for (int when = 0; when < 2; ++when) {  // AwaitOn single
    auto [f, p] = yaclib::MakeContract<int>();
    int resumes = 0;
    if (when == 0) std::move(p).Set(1);
    auto co = [&]() -> yaclib::Future<int> {
      co_await yaclib::AwaitOn(*e2, f);
      ++resumes;
      auto& cur = co_await yaclib::CurrentExecutor();
      EXPECT(&cur == e2.Get(), "AwaitOn: executor");
      co_return std::as_const(f).Touch().Ok();
    };
    auto r = co();
    if (when == 1) { EXPECT(M(e2).Size() == 0, "submitted before completion"); std::move(p).Set(1); }
    EXPECT(resumes == 0 && M(e2).Size() == 1, "AwaitOn must hand the coroutine to e2 exactly once, not run it inline (size=%zu)", M(e2).Size());
    EXPECT(M(e2).Drain() == 1 && resumes == 1 && r.Ready(), "AwaitOn drain");
  }
  for (int mask = 0; mask < 4; ++mask) {  // AwaitOn many
    auto [f0, p0] = yaclib::MakeContract<int>();
    auto [f1, p1] = yaclib::MakeContract<int>();
    int resumes = 0, done = 0;
    if (mask & 1) { ++done; std::move(p0).Set(1); }
    if (mask & 2) { ++done; std::move(p1).Set(2); }
    auto co = [&]() -> yaclib::Future<> {
      co_await yaclib::AwaitOn(*e1, f0, f1);
      ++resumes;
      EXPECT(done == 2, "AwaitOn many: resumed after %d", done);
      co_return {};
    };
    auto r = co();
    if (!(mask & 2)) { EXPECT(M(e1).Size() == 0, "early submit"); ++done; std::move(p1).Set(2); }
    if (!(mask & 1)) { EXPECT(M(e1).Size() == 0, "early submit"); ++done; std::move(p0).Set(1); }
    EXPECT(resumes == 0 && M(e1).Size() == 1, "AwaitOn many: exactly one submit to e1 (size=%zu mask=%d)", M(e1).Size(), mask);
    EXPECT(M(e1).Drain() == 1 && resumes == 1 && r.Ready(), "AwaitOn many drain");
  }
  for (int n = 1; n <= 2; ++n) {  // AwaitSticky: back to the coroutine's own executor
    auto [f0, p0] = yaclib::MakeContract<int>();
    auto [f1, p1] = yaclib::MakeContract<int>();
    int resumes = 0;
    auto co = [&]() -> yaclib::Future<> {
      co_await yaclib::On(*e1);
      if (n == 1) co_await yaclib::AwaitSticky(f0); else co_await yaclib::AwaitSticky(f0, f1);
      ++resumes;
      auto& cur = co_await yaclib::CurrentExecutor();
      EXPECT(&cur == e1.Get(), "AwaitSticky: executor");
      co_return {};
    };
    auto r = co();
    EXPECT(M(e1).Drain() == 1, "start on e1");
    std::move(p0).Set(1);
    if (n == 2) { EXPECT(M(e1).Size() == 0, "sticky early"); std::move(p1).Set(1); } else { std::move(p1).Set(1); }
    EXPECT(resumes == 0 && M(e1).Size() == 1, "AwaitSticky must resubmit to the coroutine's own executor once (size=%zu)", M(e1).Size());
    EXPECT(M(e1).Drain() == 1 && resumes == 1 && r.Ready(), "sticky drain");
  }
}

// ---- co_await Task / Await(task): every kind of head ----------------------------------------------------------------------------------------
static void tasks() {
  auto e = MakeQ();
  auto inner = [](int x) -> yaclib::Task<int> { co_return x * 2; };
  for (int which = 0; which < 6; ++which) {
    int resumes = 0, ran = 0;
    auto co = [&]() -> yaclib::Future<int> {
      int v = -1;
      switch (which) {
        case 0: v = co_await yaclib::MakeTask(42); break;
        case 1: v = co_await yaclib::Schedule(*e, [&] { ++ran; return 42; }); break;
        case 2: v = co_await yaclib::Schedule(*e, [&] { ++ran; return 40; }).ThenInline([](int y) { return y + 2; }); break;
        case 3: v = co_await yaclib::Schedule([&] { ++ran; return 42; }); break;
        case 4: v = co_await yaclib::LazyContract<int>(*e, [&](yaclib::Promise<int> p) { ++ran; std::move(p).Set(42); }); break;
        case 5: v = co_await inner(21); break;
      }
      ++resumes;
      co_return v;
    };
    auto r = co();
    if (which == 1 || which == 2 || which == 4) {
      EXPECT(resumes == 0 && ran == 0 && M(e).Size() == 1, "lazy head must be submitted once to its executor (which=%d size=%zu)", which, M(e).Size());
      std::ignore = M(e).Drain();
    }
    EXPECT(resumes == 1 && r.Ready(), "co_await task which=%d resumes=%d", which, resumes);
    EXPECT((which == 0 || which == 5) ? ran == 0 : ran == 1, "task body ran %d times", ran);
    EXPECT(std::move(r).Get().Ok() == 42, "task value which=%d", which);
  }
  {  // Await(task) keeps the task valid and ready
    auto co = [&]() -> yaclib::Future<int> {
      auto t = yaclib::Schedule(*e, [] { return 9; });
      co_await yaclib::Await(t);
      EXPECT(t.Valid() && t.Ready(), "Await(task) leaves it valid and ready");
      co_return std::as_const(t).Touch().Ok();
    };
    auto r = co();
    std::ignore = M(e).Drain();
    EXPECT(r.Ready() && std::move(r).Get().Ok() == 9, "Await(task)");
  }
}

// ---- stopped executor: StopError, frame destroyed once; exceptions / co_return become the Result ------------------------------------------------
static void stop() {
  Probe::dtors = 0;
  {
    int after = 0;
    auto co = [&]() -> yaclib::Future<int> {
      Probe probe;
      co_await yaclib::On(yaclib::MakeInline(yaclib::StopTag{}));
      ++after;
      co_return 1;
    };
    auto r = co();
    EXPECT(r.Ready() && after == 0, "a coroutine handed to a stopped executor must not run on");
    auto res = std::move(r).Get();
    EXPECT(res.State() == yaclib::ResultState::Error, "stopped executor => StopError (state=%d)", (int)res.State());
  }
  EXPECT(Probe::live == 0 && Probe::dtors == 1, "frame locals destroyed exactly once (live=%d dtors=%d)", Probe::live.load(), Probe::dtors.load());
  Probe::dtors = 0;
  {
    auto [f, p] = yaclib::MakeContract<int>();
    int after = 0;
    auto co = [&]() -> yaclib::Future<int> {
      Probe probe;
      co_await yaclib::AwaitOn(yaclib::MakeInline(yaclib::StopTag{}), f);
      ++after;
      co_return 1;
    };
    auto r = co();
    std::move(p).Set(3);
    EXPECT(r.Ready() && after == 0, "AwaitOn(stopped)");
    EXPECT(std::move(r).Get().State() == yaclib::ResultState::Error, "AwaitOn(stopped) => StopError");
  }
  EXPECT(Probe::live == 0 && Probe::dtors == 1, "AwaitOn(stopped): frame locals destroyed exactly once (live=%d dtors=%d)", Probe::live.load(), Probe::dtors.load());
  {
    auto co = []() -> yaclib::Future<int> { throw std::logic_error{"boom"}; co_return 1; };
    auto res = co().Get();
    EXPECT(res.State() == yaclib::ResultState::Exception, "escaping exception becomes the Result");
    auto t = []() -> yaclib::Task<int> { co_return 77; };
    EXPECT(t().Get().Ok() == 77, "co_return becomes the Result");
    auto s = []() -> yaclib::SharedFuture<int> { co_return 78; };
    EXPECT(s().Get().Ok() == 78, "shared co_return");
  }
}

// ---- the suspend-vs-complete race on real threads -------------------------------------------------------------------------------------------------
static void race(int iters) {
  yaclib::FairThreadPool tp{4};
  for (int it = 0; it < iters; ++it) {
    auto [f0, p0] = yaclib::MakeContract<int>();
    auto [f1, p1] = yaclib::MakeContract<int>();
    auto [sf, sp] = yaclib::MakeSharedContract<int>();
    std::atomic<int> resumes{0}, done{0};
    auto co1 = [&]() -> yaclib::Future<int> {
      int v = co_await std::move(f0);
      resumes.fetch_add(1);
      co_return v;
    };
    auto co2 = [&]() -> yaclib::Future<int> {
      co_await yaclib::AwaitOn(tp, f1, sf);
      EXPECT(done.load() >= 2, "AwaitOn resumed after %d", done.load());
      resumes.fetch_add(1);
      co_return std::as_const(f1).Touch().Ok() + sf.Touch().Ok();
    };
    auto co3 = [&]() -> yaclib::Future<int> {
      int v = co_await sf;
      resumes.fetch_add(1);
      co_return v;
    };
    yaclib::Submit(tp, [&, a = std::move(p0)]() mutable { std::move(a).Set(it); });
    yaclib::Submit(tp, [&, a = std::move(p1)]() mutable { done.fetch_add(1); std::move(a).Set(1); });
    yaclib::Submit(tp, [&, a = std::move(sp)]() mutable { done.fetch_add(1); std::move(a).Set(2); });
    auto r1 = co1();
    auto r2 = co2();
    auto r3 = co3();
    EXPECT(std::move(r1).Get().Ok() == it, "race value 1");
    EXPECT(std::move(r2).Get().Ok() == 3, "race value 2");
    EXPECT(std::move(r3).Get().Ok() == 2, "race value 3");
    EXPECT(resumes.load() == 3, "race resumes=%d", resumes.load());
    if (g_fail) break;
  }
  tp.Stop();
  tp.Wait();
}

int main(int argc, char** argv) {
  std::string g = argc > 1 ? argv[1] : "all";
  int iters = argc > 2 ? std::atoi(argv[2]) : 3000;
  if (g == "all" || g == "single") single();
  if (g == "all" || g == "multi") multi();
  if (g == "all" || g == "where") where();
  if (g == "all" || g == "tasks") tasks();
  if (g == "all" || g == "stop") stop();
  if (g == "all" || g == "race") race(iters);
  std::fprintf(stderr, "%s: %d failed expectations\n", g.c_str(), g_fail);
  return g_fail ? 1 : 0;
}
