// Replay driver for the C09 obligation "SingleCombinator only where one callback node can serve all inputs" (When entry functions): overlapping sets of SharedFutures
// given to two range-form combinators.  exit != 0 = reproduced.
// C09 demo: WhenAll / Join over a *range of SharedFutures* whose inputs are also
// inputs of another combinator (overlapping dependency sets, e.g. a task DAG).
//
//   w1 = WhenAll({a, b});  w2 = WhenAll({b, c});  then a, b, c complete.
//
// Property: each combinator completes exactly once, when its last input completes,
// with the values in input order, and consumes every input exactly once.
// Everything is single threaded and deterministic (manual SharedPromise).
//
// exit 0 - all combinators behaved; exit 1 - violation observed.

#include <yaclib/async/future.hpp>
#include <yaclib/async/join.hpp>
#include <yaclib/async/shared_contract.hpp>
#include <yaclib/async/shared_future.hpp>
#include <yaclib/async/shared_promise.hpp>
#include <yaclib/async/when_all.hpp>
#include <yaclib/util/fail_policy.hpp>
#include <yaclib/util/result.hpp>

#include <cstdio>
#include <utility>
#include <vector>

namespace {

int failures = 0;

void Check(bool ok, const char* scenario, const char* what) {
  std::printf("  [%s] %-28s %s\n", ok ? " ok " : "FAIL", scenario, what);
  if (!ok) {
    ++failures;
  }
}

template <yaclib::FailPolicy F>
std::vector<int> Values(yaclib::Future<std::vector<int>>&& f) {
  static_assert(F == yaclib::FailPolicy::FirstFail);
  return std::move(f).Touch().Value();
}

template <yaclib::FailPolicy F>
std::vector<int> Values(yaclib::Future<std::vector<yaclib::Result<int>>>&& f) {
  static_assert(F == yaclib::FailPolicy::None);
  std::vector<int> out;
  std::vector<yaclib::Result<int>> results = std::move(f).Touch().Value();
  for (auto& r : results) {
    out.push_back(std::move(r).Value());
  }
  return out;
}

// Dynamic (iterator) form: WhenAll<F>(begin, end) over std::vector<SharedFuture<int>>
template <yaclib::FailPolicy F>
void DynamicWhenAll(const char* name) {
  auto [a, pa] = yaclib::MakeSharedContract<int>();
  auto [b, pb] = yaclib::MakeSharedContract<int>();
  auto [c, pc] = yaclib::MakeSharedContract<int>();

  std::vector<yaclib::SharedFuture<int>> in1{a, b};
  std::vector<yaclib::SharedFuture<int>> in2{b, c};
  auto w1 = yaclib::WhenAll<F>(in1.begin(), in1.end());
  auto w2 = yaclib::WhenAll<F>(in2.begin(), in2.end());

  Check(!w1.Ready() && !w2.Ready(), name, "nothing ready before inputs");
  std::move(pa).Set(1);
  Check(!w1.Ready() && !w2.Ready(), name, "nothing ready after a");
  std::move(pb).Set(2);
  // a and b are done: w1 must be complete now, w2 must still wait for c
  Check(w1.Ready(), name, "w1={a,b} ready after a,b");
  Check(!w2.Ready(), name, "w2={b,c} waits for c");
  std::move(pc).Set(3);
  Check(w1.Ready(), name, "w1={a,b} ready after a,b,c");
  Check(w2.Ready(), name, "w2={b,c} ready after a,b,c");

  if (w1.Ready()) {
    Check(Values<F>(std::move(w1)) == std::vector<int>{1, 2}, name, "w1 == {1,2}");
  }
  if (w2.Ready()) {
    Check(Values<F>(std::move(w2)) == std::vector<int>{2, 3}, name, "w2 == {2,3}");
  }
}

// Dynamic Join (no values, FailPolicy::None): same shape
void DynamicJoin(const char* name) {
  auto [a, pa] = yaclib::MakeSharedContract<int>();
  auto [b, pb] = yaclib::MakeSharedContract<int>();
  auto [c, pc] = yaclib::MakeSharedContract<int>();

  std::vector<yaclib::SharedFuture<int>> in1{a, b};
  std::vector<yaclib::SharedFuture<int>> in2{b, c};
  auto j1 = yaclib::Join(in1.begin(), in1.size());
  auto j2 = yaclib::Join(in2.begin(), in2.size());

  std::move(pa).Set(1);
  std::move(pb).Set(2);
  Check(j1.Ready(), name, "j1={a,b} ready after a,b");
  Check(!j2.Ready(), name, "j2={b,c} waits for c");
  std::move(pc).Set(3);
  Check(j1.Ready(), name, "j1={a,b} ready after a,b,c");
  Check(j2.Ready(), name, "j2={b,c} ready after a,b,c");
}

// Control: the static (variadic) form of the very same scenario
void StaticWhenAll(const char* name) {
  auto [a, pa] = yaclib::MakeSharedContract<int>();
  auto [b, pb] = yaclib::MakeSharedContract<int>();
  auto [c, pc] = yaclib::MakeSharedContract<int>();

  auto w1 = yaclib::WhenAll(a, b);
  auto w2 = yaclib::WhenAll(b, c);

  std::move(pa).Set(1);
  std::move(pb).Set(2);
  Check(w1.Ready(), name, "w1=(a,b) ready after a,b");
  Check(!w2.Ready(), name, "w2=(b,c) waits for c");
  std::move(pc).Set(3);
  Check(w2.Ready(), name, "w2=(b,c) ready after a,b,c");
  if (w1.Ready()) {
    Check(std::move(w1).Touch().Value() == std::vector<int>{1, 2}, name, "w1 == {1,2}");
  }
  if (w2.Ready()) {
    Check(std::move(w2).Touch().Value() == std::vector<int>{2, 3}, name, "w2 == {2,3}");
  }
}

}  // namespace

int main() {
  std::setvbuf(stdout, nullptr, _IONBF, 0);
  std::printf("static form (control)\n");
  StaticWhenAll("static WhenAll<FirstFail>");
  std::printf("dynamic form\n");
  DynamicWhenAll<yaclib::FailPolicy::FirstFail>("dynamic WhenAll<FirstFail>");
  DynamicWhenAll<yaclib::FailPolicy::None>("dynamic WhenAll<None>");
  DynamicJoin("dynamic Join<None>");

  if (failures != 0) {
    std::printf("VIOLATION: %d check(s) failed\n", failures);
    return 1;
  }
  std::printf("OK\n");
  return 0;
}
