// Replay driver for C15 on the REAL coroutine SharedMutex (CORO build of the tree under check): r readers and w writers, several rounds each, on a 4-worker pool,
// for the four <FIFO, ReadersFIFO> combinations.  Overlap counters check exclusion, Try* results are checked against the holders, a watchdog detects a parked
// coroutine that is never granted (lost wake-up).  exit 1 on the first violated expectation.
#include <yaclib/async/future.hpp>
#include <yaclib/async/wait_for.hpp>
#include <yaclib/coro/await.hpp>
#include <yaclib/coro/future.hpp>
#include <yaclib/coro/on.hpp>
#include <yaclib/coro/shared_mutex.hpp>
#include <yaclib/coro/yield.hpp>
#include <yaclib/runtime/fair_thread_pool.hpp>

#include <atomic>
#include <chrono>
#include <cstdio>
#include <cstdlib>
#include <vector>

static std::atomic<int> g_bad{0};
#define EXPECT(c, ...) do { if (!(c)) { if (g_bad.fetch_add(1) < 10) { std::fprintf(stderr, "FAIL: %s : ", #c); std::fprintf(stderr, __VA_ARGS__); std::fprintf(stderr, "\n"); } } } while (false)

template <bool FIFO, bool ReadersFIFO>
static void Stress(int readers_n, int writers_n, int rounds) {
  yaclib::FairThreadPool tp{4};
  yaclib::SharedMutex<FIFO, ReadersFIFO> m;
  std::atomic<int> readers{0}, writers{0};
  std::atomic<long> grants{0};
  auto reader = [&](int id) -> yaclib::Future<> {
    co_await yaclib::On(tp);
    for (int i = 0; i < rounds; ++i) {
      bool tried = (i + id) % 5 == 0 && m.TryLockShared();
      if (!tried) co_await m.LockShared();
      readers.fetch_add(1);
      EXPECT(writers.load() == 0, "a reader holds together with a writer (FIFO=%d RF=%d try=%d)", FIFO, ReadersFIFO, tried);
      if ((i + id) % 3 == 0) co_await yaclib::kYield;
      EXPECT(writers.load() == 0, "a writer entered while a reader holds (FIFO=%d RF=%d)", FIFO, ReadersFIFO);
      readers.fetch_sub(1);
      grants.fetch_add(1);
      m.UnlockHereShared();
    }
    co_return {};
  };
  auto writer = [&](int id) -> yaclib::Future<> {
    co_await yaclib::On(tp);
    for (int i = 0; i < rounds; ++i) {
      bool tried = (i + id) % 7 == 0 && m.TryLock();
      if (!tried) co_await m.Lock();
      EXPECT(writers.fetch_add(1) == 0, "two writers hold (FIFO=%d RF=%d try=%d)", FIFO, ReadersFIFO, tried);
      EXPECT(readers.load() == 0, "a writer holds together with %d readers (FIFO=%d RF=%d try=%d)", readers.load(), FIFO, ReadersFIFO, tried);
      if ((i + id) % 4 == 0) co_await yaclib::kYield;
      EXPECT(readers.load() == 0, "a reader entered while a writer holds (FIFO=%d RF=%d)", FIFO, ReadersFIFO);
      writers.fetch_sub(1);
      grants.fetch_add(1);
      m.UnlockHere();
    }
    co_return {};
  };
  std::vector<yaclib::Future<>> fs;
  for (int i = 0; i < readers_n; ++i) fs.push_back(reader(i));
  for (int i = 0; i < writers_n; ++i) fs.push_back(writer(i));
  bool all = yaclib::WaitFor(std::chrono::seconds{40}, fs.begin(), fs.end());
  if (!all) {
    std::fprintf(stderr, "FAIL: lost wake-up: after 40 s only %ld of %ld requests were granted (FIFO=%d RF=%d)\n", grants.load(), (long)(readers_n + writers_n) * rounds, FIFO, ReadersFIFO);
    std::_Exit(1);  // parked coroutines never finish: no orderly shutdown possible
  }
  EXPECT(grants.load() == (long)(readers_n + writers_n) * rounds, "grants=%ld", grants.load());
  EXPECT(m.TryLock(), "the quiescent mutex is free");
  m.UnlockHere();
  tp.Stop();
  tp.Wait();
}

int main(int argc, char** argv) {
  int rounds = argc > 1 ? std::atoi(argv[1]) : 3000;
  for (int rep = 0; rep < 3 && g_bad.load() == 0; ++rep) {
    Stress<true, false>(6, 3, rounds);
    Stress<false, false>(6, 3, rounds);
    Stress<true, true>(5, 4, rounds);
    Stress<false, true>(8, 2, rounds);
    Stress<true, false>(1, 6, rounds);
    Stress<true, false>(9, 1, rounds);
  }
  std::fprintf(stderr, "shared_mutex: %d failed expectations\n", g_bad.load());
  return g_bad.load() ? 1 : 0;
}
