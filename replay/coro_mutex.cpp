// Replay driver for C14 on the REAL coroutine Mutex (CORO build of the tree under check), all four <Batching, FIFO> combinations:
// deterministic part on an inspectable queue executor (a holder, five waiters arriving in order, every unlock form): at most one inside, every request granted exactly once,
// FIFO=true grants in arrival order, a parked waiter is never forgotten; then a 4-thread stress with an overlap counter and a lost-wake-up watchdog.  exit 1 on the first failure.
#include <yaclib/async/future.hpp>
#include <yaclib/async/wait_for.hpp>
#include <yaclib/coro/await.hpp>
#include <yaclib/coro/future.hpp>
#include <yaclib/coro/mutex.hpp>
#include <yaclib/coro/on.hpp>
#include <yaclib/coro/yield.hpp>
#include <yaclib/runtime/fair_thread_pool.hpp>

#include <atomic>
#include <chrono>
#include <cstdio>
#include <cstdlib>
#include <vector>

static std::atomic<int> g_bad{0};
#define EXPECT(c, ...) do { if (!(c)) { if (g_bad.fetch_add(1) < 10) { std::fprintf(stderr, "FAIL: %s : ", #c); std::fprintf(stderr, __VA_ARGS__); std::fprintf(stderr, "\n"); } } } while (false)

struct QExec final : yaclib::IExecutor {
  std::vector<yaclib::Job*> q;
  Type Tag() const noexcept final { return Type::Custom; }
  bool Alive() const noexcept final { return true; }
  void Submit(yaclib::Job& job) noexcept final { q.push_back(&job); }
  void IncRef() noexcept final {}
  void DecRef() noexcept final {}
  std::size_t Drain() { std::size_t n = 0; while (!q.empty()) { auto* j = q.front(); q.erase(q.begin()); j->Call(); ++n; } return n; }
};

template <bool Batching, bool FIFO>
static void Deterministic(int form) {
  QExec e;
  yaclib::Mutex<Batching, FIFO> m;
  int inside = 0, max_inside = 0;
  std::vector<int> order;
  int finished = 0;
  auto worker = [&](int id, int rounds) -> yaclib::Future<> {
    co_await yaclib::On(e);
    for (int r = 0; r < rounds; ++r) {
      co_await m.Lock();
      ++inside; max_inside = inside > max_inside ? inside : max_inside;
      order.push_back(id);
      co_await yaclib::kYield;      // others arrive while the lock is held
      --inside;
      switch ((form + r) % 3) {
        case 0: co_await m.Unlock(); break;
        case 1: co_await m.UnlockOn(e); break;
        default: m.UnlockHere(); break;
      }
    }
    ++finished;
    co_return {};
  };
  std::vector<yaclib::Future<>> fs;
  for (int id = 0; id < 6; ++id) fs.push_back(worker(id, 1));      // submitted in order 0..5: 0 gets the lock, 1..5 park in arrival order
  e.Drain();
  EXPECT(finished == 6, "Mutex<%d,%d> form %d: %d of 6 coroutines finished (a parked waiter was forgotten)", Batching, FIFO, form, finished);
  EXPECT(max_inside == 1, "Mutex<%d,%d>: %d coroutines inside at once", Batching, FIFO, max_inside);
  EXPECT(order.size() == 6, "Mutex<%d,%d>: %zu grants for 6 requests", Batching, FIFO, order.size());
  if (FIFO && order.size() == 6) {
    for (int i = 0; i < 6; ++i) EXPECT(order[i] == i, "Mutex<%d,FIFO> form %d: grant %d went to %d (arrival order violated)", Batching, form, i, order[i]);
  }
  EXPECT(m.TryLock(), "the quiescent mutex is free");
  m.UnlockHere();
  // several rounds each: still exactly once per request
  order.clear(); finished = 0;
  std::vector<yaclib::Future<>> gs;
  for (int id = 0; id < 4; ++id) gs.push_back(worker(id, 3));
  e.Drain();
  EXPECT(finished == 4 && order.size() == 12 && max_inside == 1, "Mutex<%d,%d> 3 rounds: finished=%d grants=%zu max inside=%d", Batching, FIFO, finished, order.size(), max_inside);
}

template <bool Batching, bool FIFO>
static void Stress(int rounds) {
  yaclib::FairThreadPool tp{4};
  yaclib::Mutex<Batching, FIFO> m;
  std::atomic<int> inside{0};
  std::atomic<long> grants{0};
  long plain = 0;
  auto worker = [&](int id) -> yaclib::Future<> {
    co_await yaclib::On(tp);
    for (int i = 0; i < rounds; ++i) {
      bool tried = (i + id) % 6 == 0 && m.TryLock();
      if (!tried) co_await m.Lock();
      EXPECT(inside.fetch_add(1) == 0, "Mutex<%d,%d>: two holders (try=%d)", Batching, FIFO, tried);
      ++plain;
      inside.fetch_sub(1);
      grants.fetch_add(1);
      if ((i + id) % 4 == 0) co_await m.Unlock(); else m.UnlockHere();
    }
    co_return {};
  };
  std::vector<yaclib::Future<>> fs;
  for (int i = 0; i < 8; ++i) fs.push_back(worker(i));
  if (!yaclib::WaitFor(std::chrono::seconds{40}, fs.begin(), fs.end())) {
    std::fprintf(stderr, "FAIL: lost wake-up: after 40 s only %ld of %ld requests were granted (Mutex<%d,%d>)\n", grants.load(), 8L * rounds, Batching, FIFO);
    std::_Exit(1);
  }
  EXPECT(plain == 8L * rounds, "Mutex<%d,%d>: the protected counter is %ld, want %ld", Batching, FIFO, plain, 8L * rounds);
  tp.Stop();
  tp.Wait();
}

int main(int argc, char** argv) {
  int rounds = argc > 1 ? std::atoi(argv[1]) : 3000;
  for (int form = 0; form < 3; ++form) {
    Deterministic<true, false>(form);
    Deterministic<true, true>(form);
    Deterministic<false, false>(form);
    Deterministic<false, true>(form);
  }
  if (g_bad.load() == 0) {
    Stress<true, false>(rounds);
    Stress<true, true>(rounds);
    Stress<false, false>(rounds);
    Stress<false, true>(rounds);
  }
  std::fprintf(stderr, "coro_mutex: %d failed expectations\n", g_bad.load());
  return g_bad.load() ? 1 : 0;
}
