// Replay driver (C18, finding F14): two fibers in cv.wait_until on exactly the same wake-up nanosecond (jitter 0), both woken early by notify_all: the first tidies the empty sleep bucket,
// the second looks it up again. Built with -D_GLIBCXX_DEBUG (library and driver), so a dereference of end() aborts instead of silently reading the map header.
#include <yaclib/fault/config.hpp>
#include <yaclib/fault/detail/fiber/scheduler.hpp>
#include <yaclib_std/condition_variable>
#include <yaclib_std/mutex>
#include <yaclib_std/thread>
#include <yaclib_std/chrono>
#include <cstdio>
int main() {
  yaclib::fault::Scheduler scheduler;
  yaclib::fault::Scheduler::Set(&scheduler);
  yaclib::SetFaultSleepTime(1);      // jitter = GetRandNumber(1) = 0: both waiters get exactly the same wake-up nanosecond
  yaclib::SetFaultFrequency(1000000);
  int woke = 0;
  yaclib_std::thread outer{[&] {
    yaclib_std::mutex m;
    yaclib_std::condition_variable cv;
    bool go = false;
    auto deadline = yaclib_std::chrono::steady_clock::now() + std::chrono::seconds{10};
    int parked = 0;
    auto waiter = [&] {
      std::unique_lock lock{m};
      ++parked;
      cv.wait_until(lock, deadline, [&] { return go; });
      ++woke;
    };
    yaclib_std::thread a{waiter}, b{waiter};
    while (parked < 2) yaclib_std::this_thread::yield();
    yaclib_std::this_thread::yield();
    { std::unique_lock lock{m}; go = true; }
    cv.notify_all();      // both woken EARLY: the first one tidies the (empty) bucket, the second one looks it up again
    a.join(); b.join();
  }};
  outer.join();
  std::fprintf(stderr, "woke=%d\n", woke);
  return woke == 2 ? 0 : 1;
}
