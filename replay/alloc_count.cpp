// Replay driver for C20: counts the blocks the REAL library allocates (global operator new) per pipeline step, per combinator for two
// different input counts, and for waits.  exit 1 = more than the property allows, or a dependence on the number of inputs.
#include <yaclib/async/contract.hpp>
#include <yaclib/async/make.hpp>
#include <yaclib/async/run.hpp>
#include <yaclib/async/wait.hpp>
#include <yaclib/async/wait_for.hpp>
#include <yaclib/async/when_all.hpp>
#include <yaclib/async/when_any.hpp>
#include <yaclib/exe/manual.hpp>
#include <yaclib/exe/strand.hpp>
#include <yaclib/lazy/make.hpp>
#include <yaclib/lazy/schedule.hpp>

#include <chrono>
#include <cstdio>
#include <cstdlib>
#include <new>
#include <vector>

static long g_allocs = 0;
static bool g_count = false;
void* operator new(std::size_t n) {
  if (g_count) {
    ++g_allocs;
  }
  if (void* p = std::malloc(n ? n : 1)) {
    return p;
  }
  throw std::bad_alloc{};
}
void operator delete(void* p) noexcept {
  std::free(p);
}
void operator delete(void* p, std::size_t) noexcept {
  std::free(p);
}

template <typename F>
static long Count(F&& f) {
  g_allocs = 0;
  g_count = true;
  f();
  g_count = false;
  return g_allocs;
}

static int bad = 0;
static void Expect(const char* what, long got, long max) {
  std::printf("%-58s %ld block(s), allowed <= %ld %s\n", what, got, max, got > max ? "<-- VIOLATION" : "");
  bad += got > max;
}

template <yaclib::FailPolicy P>
static long AllN(std::size_t n) {
  std::vector<yaclib::Future<int>> fs;
  std::vector<yaclib::Promise<int>> ps;
  fs.reserve(n);
  ps.reserve(n);
  for (std::size_t i = 0; i < n; ++i) {
    auto [f, p] = yaclib::MakeContract<int>();
    fs.push_back(std::move(f));
    ps.push_back(std::move(p));
  }
  yaclib::Future<std::vector<std::conditional_t<P == yaclib::FailPolicy::None, yaclib::Result<int>, int>>> all;
  long c = Count([&] {
    all = yaclib::WhenAll<P>(fs.begin(), n);
    for (auto& p : ps) {
      std::move(p).Set(1);
    }
  });
  (void)std::move(all).Get();
  return c;
}

static long AnyN(std::size_t n) {
  std::vector<yaclib::Future<int>> fs;
  std::vector<yaclib::Promise<int>> ps;
  fs.reserve(n);
  ps.reserve(n);
  for (std::size_t i = 0; i < n; ++i) {
    auto [f, p] = yaclib::MakeContract<int>();
    fs.push_back(std::move(f));
    ps.push_back(std::move(p));
  }
  yaclib::Future<int> any;
  long c = Count([&] {
    any = yaclib::WhenAny(fs.begin(), n);
    for (auto& p : ps) {
      std::move(p).Set(1);
    }
  });
  (void)std::move(any).Get();
  return c;
}

int main() {
  auto manual = yaclib::MakeManual();
  auto& m = static_cast<yaclib::ManualExecutor&>(*manual);
  {
    yaclib::FutureOn<int> f;
    Expect("Run(e, f)", Count([&] { f = yaclib::Run(*manual, [] { return 1; }); }), 1);
    yaclib::FutureOn<int> f2;
    Expect("Then(e, f)", Count([&] { f2 = std::move(f).Then(*manual, [](int x) { return x + 1; }); }), 1);
    yaclib::FutureOn<int> f3;
    Expect("ThenInline(f) returning a Future (unwrapping)", Count([&] { f3 = std::move(f2).ThenInline([](int x) { return yaclib::MakeFuture(x); }); }), 1);
    (void)m.Drain();
    Expect("Drain + Future::Get", Count([&] { (void)m.Drain(); (void)std::move(f3).Get(); }), 1 /* the inner MakeFuture of the step */);
  }
  {
    Expect("MakeContract", Count([&] { auto c = yaclib::MakeContract<int>(); std::move(c.second).Set(1); }), 1);
    Expect("MakeFuture", Count([&] { auto f = yaclib::MakeFuture(1); }), 1);
    Expect("MakeTask + ThenInline", Count([&] { auto t = yaclib::MakeTask(1).ThenInline([](int x) { return x; }); }), 2);
    Expect("Schedule", Count([&] { auto t = yaclib::Schedule(*manual, [] {}); }), 1);
  }
  {
    auto [f, p] = yaclib::MakeContract<int>();
    auto [g, q] = yaclib::MakeContract<int>();
    Expect("WaitFor on two plain futures (timeout)", Count([&] { (void)yaclib::WaitFor(std::chrono::milliseconds(1), f, g); }), 0);
    std::move(p).Set(1);
    std::move(q).Set(2);
    Expect("Wait on two plain futures", Count([&] { yaclib::Wait(f, g); }), 0);
    Expect("Future::Get", Count([&] { (void)std::move(f).Get(); }), 0);
  }
  {
    long a2 = AllN<yaclib::FailPolicy::FirstFail>(2), a9 = AllN<yaclib::FailPolicy::FirstFail>(9);
    std::printf("WhenAll<FirstFail>: %ld blocks for 2 inputs, %ld for 9\n", a2, a9);
    bad += a2 != a9;
    long n2 = AllN<yaclib::FailPolicy::None>(2), n9 = AllN<yaclib::FailPolicy::None>(9);
    std::printf("WhenAll<None>: %ld blocks for 2 inputs, %ld for 9\n", n2, n9);
    bad += n2 != n9;
    long y2 = AnyN(2), y9 = AnyN(9);
    std::printf("WhenAny: %ld blocks for 2 inputs, %ld for 9\n", y2, y9);
    bad += y2 != y9;
    Expect("WhenAll<FirstFail> over 9 inputs (constant)", a9, 6);
    Expect("WhenAll<None> over 9 inputs (constant)", n9, 6);
    Expect("WhenAny over 9 inputs (constant)", y9, 6);
  }
  std::printf("%d violation(s)\n", bad);
  return bad ? 1 : 0;
}
